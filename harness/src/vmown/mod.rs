//! Shared code of the ownership (C24, bin/own.rs) and call-frame (C34, bin/frames.rs) harnesses:
//!   * `Shadow`          flat VM memory reconstructed from the initial stack + the per-step diffs
//!   * `exact_runs`      maximal runs of bytes that really changed in a step
//!   * `TxLayout`        where the VM's own area ends, balance table, transaction outputs
//!   * `Tracked`         per-step facts derived from a vmtrace `Trace` (prev_hp read from the frame
//!                       in memory, stack high-water mark, frame bytes, ...)
//!   * `gen_tree`        call-tree / hostile-write scenario generator on top of vmtrace's assembler
#![allow(dead_code)]
use fuel_asm::{op, GTFArgs, Instruction, PanicReason, RegId};
use fuel_storage::StorageMutate;
use fuel_tx::field::Outputs;
use fuel_types::canonical::Serialize as _;
use fuel_types::{AssetId, BlobId, ContractId};
use fuel_vm::interpreter::{Interpreter, MemoryInstance};
use fuel_vm::prelude::{Call, CallFrame};
use fuel_vm::storage::BlobData;
use fvh::vmtrace::*;
use fvh::*;
use serde_json::{json, Value};
use std::collections::BTreeMap;

pub const MEM: u64 = 1 << 26;
pub const R_SSP: usize = 4;
pub const R_SP: usize = 5;
pub const R_FP: usize = 6;
pub const R_HP: usize = 7;
pub const R_PC: usize = 3;
pub const R_GGAS: usize = 9;
pub const R_CGAS: usize = 10;
pub const R_RET: usize = 13;
pub const R_RETL: usize = 14;

// =====================================================================================
// shadow memory
// =====================================================================================
const PAGE: u64 = 4096;
pub struct Shadow {
    pages: BTreeMap<u64, Box<[u8; PAGE as usize]>>,
}
impl Shadow {
    pub fn new(initial_stack: &[u8]) -> Shadow {
        let mut s = Shadow { pages: BTreeMap::new() };
        s.write(0, initial_stack);
        s
    }
    pub fn write(&mut self, addr: u64, data: &[u8]) {
        for (i, b) in data.iter().enumerate() {
            let a = addr + i as u64;
            if a >= MEM { break; }
            let p = self.pages.entry(a / PAGE).or_insert_with(|| Box::new([0u8; PAGE as usize]));
            p[(a % PAGE) as usize] = *b;
        }
    }
    pub fn zero(&mut self, lo: u64, hi: u64) {
        let mut a = lo;
        while a < hi.min(MEM) {
            let pg = a / PAGE;
            let end = ((pg + 1) * PAGE).min(hi);
            if let Some(p) = self.pages.get_mut(&pg) {
                for x in a..end { p[(x % PAGE) as usize] = 0; }
            }
            a = end;
        }
    }
    pub fn read(&self, addr: u64, len: usize) -> Vec<u8> {
        (0..len as u64).map(|i| {
            let a = addr.wrapping_add(i);
            if a >= MEM { return 0; }
            self.pages.get(&(a / PAGE)).map(|p| p[(a % PAGE) as usize]).unwrap_or(0)
        }).collect()
    }
    pub fn word(&self, addr: u64) -> u64 {
        u64::from_be_bytes(self.read(addr, 8).try_into().unwrap())
    }
    /// memory after the step: newly allocated heap is zero, then the recorded changes
    pub fn apply(&mut self, s: &Step) {
        let (h0, h1) = (s.regs_before[R_HP], s.regs_after[R_HP]);
        if h1 < h0 { self.zero(h1, h0); }
        for d in &s.mem_diff { self.write(d.addr, &d.new); }
    }
}

/// maximal runs (addr, len) of bytes with old != new (vmtrace merges runs separated by < 8 equal bytes)
pub fn exact_runs(diff: &[MemDiff]) -> Vec<(u64, u64)> {
    let mut out: Vec<(u64, u64)> = vec![];
    for d in diff {
        let n = d.old.len().min(d.new.len());
        let mut i = 0;
        while i < n {
            if d.old[i] == d.new[i] { i += 1; continue; }
            let st = i;
            while i < n && d.old[i] != d.new[i] { i += 1; }
            let a = d.addr + st as u64;
            match out.last_mut() {
                Some(l) if l.0 + l.1 == a => l.1 += (i - st) as u64,
                _ => out.push((a, (i - st) as u64)),
            }
        }
    }
    out
}

/// stack contents right before the first instruction (initialisation is deterministic, so a
/// second interpreter over the same world/transaction has the same initial memory)
pub fn initial_stack(w: &World, tx: &TxSpec) -> Result<Vec<u8>, String> {
    let ready = tx.build(w)?;
    let mut vm: Vm = Interpreter::with_storage(MemoryInstance::new(), RecStorage::new(w.storage.clone()), w.interpreter_params());
    vm.set_single_stepping(true);
    let _ = vm.transact(ready).map(|t| *t.state()).map_err(|e| format!("{e:?}"))?;
    Ok(vm.memory().stack_raw().to_vec())
}

// =====================================================================================
// transaction layout
// =====================================================================================
#[derive(Clone, Debug)]
pub struct TxLayout {
    pub max_inputs: u64,
    pub tx_offset: u64,
    /// initial $ssp (= $sp): end of tx id | base asset id | balance table | transaction bytes
    pub vm_hi: u64,
    /// (address, size) of every transaction output in VM memory
    pub outputs: Vec<(u64, u64)>,
}
impl TxLayout {
    pub fn new(w: &World, tx: &TxSpec, t: &Trace) -> Result<TxLayout, String> {
        let ready = tx.build(w)?;
        let (_, checked) = ready.decompose();
        let script = checked.transaction();
        let tx_offset = w.tx_offset() as u64;
        let mut outputs = vec![];
        for (i, o) in script.outputs().iter().enumerate() {
            let off = script.outputs_offset_at(i).ok_or("output offset")? as u64;
            outputs.push((tx_offset + off, o.size() as u64));
        }
        Ok(TxLayout { max_inputs: w.params.tx_params().max_inputs() as u64, tx_offset, vm_hi: t.regs_initial[R_SSP], outputs })
    }
    pub fn in_balance_value(&self, x: u64) -> bool {
        let lo = 64u64;
        x >= lo && x < lo + self.max_inputs * 40 && (x - lo) % 40 >= 32
    }
    pub fn in_output(&self, idx: u64, x: u64) -> bool {
        self.outputs.get(idx as usize).map(|(a, n)| x >= *a && x < a + n).unwrap_or(false)
    }
    pub fn in_any_output(&self, x: u64) -> bool {
        self.outputs.iter().any(|(a, n)| x >= *a && x < a + n)
    }
    pub fn to_coq_env(&self) -> String {
        format!("{{| e_max_inputs := {}; e_vm_hi := {}; e_outputs := {} |}}", self.max_inputs, self.vm_hi,
            coq_list(&self.outputs.iter().map(|(a, n)| format!("({a}, {n})")).collect::<Vec<_>>()))
    }
}

// =====================================================================================
// per-step derived facts
// =====================================================================================
pub struct Tracked<'a> {
    pub step: &'a Step,
    pub is_last: bool,
    /// saved $hp of the current frame, read from VM memory at $fp (None in the script context)
    pub prev_hp: Option<u64>,
    /// stack high-water mark (MemoryInstance::stack.len()) before the step
    pub stack_len: u64,
    pub changed: Vec<(u64, u64)>,
    /// CALL that completed: (Call struct bytes at $rA, asset id at $rC, frame bytes at new $fp,
    /// bytes after the frame up to the new $ssp)
    pub call: Option<CallObs>,
    /// value loaded by LW etc. can be compared with the shadow memory (before the step)
    pub mem_before_word: Option<u64>,
    /// CALL: memory [0, $sp) BEFORE the step (the caller's stack the call must not touch)
    pub pre_call_stack: Option<Vec<u8>>,
}
pub struct CallObs {
    pub call_struct: Vec<u8>,
    pub asset: Vec<u8>,
    pub frame: Vec<u8>,
    pub code_area: Vec<u8>,
}

/// Walk a trace, maintaining the shadow memory and the stack high-water mark.
pub fn track<'a>(t: &'a Trace, initial_stack: &[u8], mut f: impl FnMut(&Tracked<'a>, &Shadow)) {
    let mut sh = Shadow::new(initial_stack);
    let mut stack_len = initial_stack.len() as u64;
    let last_exec = t.steps.iter().rposition(|s| s.kind == StepKind::Exec);
    for (i, s) in t.steps.iter().enumerate() {
        if s.kind != StepKind::Exec { continue; }
        let is_last = Some(i) == last_exec && t.final_state != FinalState::StepLimit;
        let fp = s.regs_before[R_FP];
        let prev_hp = if fp == 0 { None } else { Some(sh.word(fp + CallFrame::registers_offset() as u64 + 8 * R_HP as u64)) };
        let changed = exact_runs(&s.mem_diff);
        // facts read before the step
        let fv = s.field_values();
        let (call_struct, asset) = if s.mnemonic == "CALL" { (sh.read(fv[0], Call::LEN), sh.read(fv[2], 32)) } else { (vec![], vec![]) };
        let mem_before_word = if s.mnemonic == "LW" { Some(sh.word(fv[1].wrapping_add(8 * s.imm as u64))) } else { None };
        let pre_call_stack = if s.mnemonic == "CALL" { Some(sh.read(0, s.regs_before[R_SP].min(MEM) as usize)) } else { None };
        let before_len = stack_len;
        sh.apply(s);
        let call = if s.mnemonic == "CALL" && s.outcome == Outcome::Proceed && s.frames_after.len() == s.frames_before.len() + 1 {
            let nfp = s.regs_after[R_FP];
            let nssp = s.regs_after[R_SSP];
            let fs = CallFrame::serialized_size() as u64;
            Some(CallObs { call_struct, asset, frame: sh.read(nfp, fs as usize), code_area: sh.read(nfp + fs, nssp.saturating_sub(nfp + fs).min(1 << 20) as usize) })
        } else { None };
        let tr = Tracked { step: s, is_last, prev_hp, stack_len: before_len, changed, call, mem_before_word, pre_call_stack };
        f(&tr, &sh);
        // stack.len() after the step: grows with $sp, truncated when the heap grows into it
        stack_len = stack_len.max(s.regs_after[R_SP]).min(s.regs_after[R_HP]);
    }
}

// =====================================================================================
// opcode classes (mirror of Vm/OwnModel.v op_class, written from the instruction-set text)
// =====================================================================================
#[derive(Clone, Copy, Debug, PartialEq, Eq)]
pub enum WClass { None, Store(u64), Clear, Copy, User, UserMulti, Push, Grow, Aloc, Call, Ldc, Bal, Tro, Ecal }
pub fn wclass(m: &str) -> WClass {
    match m {
        "SB" => WClass::Store(1), "SQW" => WClass::Store(2), "SHW" => WClass::Store(4), "SW" => WClass::Store(8),
        "MCL" | "MCLI" => WClass::Clear,
        "MCP" | "MCPI" => WClass::Copy,
        "BHSH" | "CB" | "CROO" | "K256" | "S256" | "ECK1" | "ECR1" | "ECOP" | "CCP" | "BLDD" | "SRDD" | "SRDI"
        | "WDOP" | "WDML" | "WDDV" | "WDMD" | "WDAM" | "WDMM" | "WQOP" | "WQML" | "WQDV" | "WQMD" | "WQAM" | "WQMM" => WClass::User,
        "SRWQ" => WClass::UserMulti,
        "PSHL" | "PSHH" => WClass::Push,
        "CFE" | "CFEI" => WClass::Grow,
        "ALOC" => WClass::Aloc,
        "CALL" => WClass::Call,
        "LDC" => WClass::Ldc,
        "TR" | "SMO" => WClass::Bal,
        "TRO" => WClass::Tro,
        "ECAL" => WClass::Ecal,
        _ => WClass::None,
    }
}
pub fn is_load(m: &str) -> Option<u64> {
    match m { "LB" => Some(1), "LQW" => Some(2), "LHW" => Some(4), "LW" => Some(8), _ => None }
}

// =====================================================================================
// scenario generator: call trees, callee allocation, shrink/regrow, LDC, hostile writes
// =====================================================================================
#[derive(Clone, Debug, PartialEq, Eq)]
pub enum Hostile {
    None,
    /// (target, opcode variant): one write aimed at memory the context does not own
    Write(u8, u8),
    /// one read aimed at inaccessible memory
    Read(u8),
}
#[derive(Clone, Debug)]
pub struct TreeCfg {
    pub n_contracts: usize,
    /// Call.a: extra self-recursion levels of the last contract
    pub recursion: u64,
    pub hostile: Hostile,
    /// unit (0 = script, i+1 = contract i) carrying the hostile action; it runs in the innermost activation
    pub hostile_unit: usize,
    pub ldc: bool,
    pub actions: usize,
    pub schedule: GasSchedule,
    pub gas_limit: u64,
    /// grow stack / heap until they touch (expensive: 64 MiB buffers)
    pub touch: bool,
    /// per mille of activations that make $sp unaligned (any residue mod 8) right before their CALL
    pub misalign_per_mille: u64,
}
impl Default for TreeCfg {
    fn default() -> Self {
        TreeCfg { n_contracts: 2, recursion: 0, hostile: Hostile::None, hostile_unit: 0, ldc: false, actions: 4, schedule: GasSchedule::Default, gas_limit: 5_000_000, touch: false, misalign_per_mille: 700 }
    }
}

pub struct TreeScenario {
    pub scn: Scenario,
    pub blobs: Vec<(BlobId, Vec<u8>)>,
    pub note: String,
}
impl TreeScenario {
    pub fn to_json(&self) -> Value {
        json!({"scenario": self.scn.to_json(), "blobs": self.blobs.iter().map(|(i, b)| json!([hex::encode(i), hex::encode(b)])).collect::<Vec<_>>(), "note": self.note})
    }
    pub fn from_json(v: &Value) -> Result<TreeScenario, String> {
        let mut scn = Scenario::from_json(&v["scenario"])?;
        let mut blobs = vec![];
        for b in v["blobs"].as_array().cloned().unwrap_or_default() {
            let id: [u8; 32] = hex::decode(b[0].as_str().unwrap_or("")).map_err(|e| e.to_string())?.try_into().map_err(|_| "blob id")?;
            let data = hex::decode(b[1].as_str().unwrap_or("")).map_err(|e| e.to_string())?;
            StorageMutate::<BlobData>::insert(&mut scn.world.storage, &BlobId::from(id), &data).map_err(|e| format!("{e:?}"))?;
            blobs.push((BlobId::from(id), data));
        }
        Ok(TreeScenario { scn, blobs, note: v["note"].as_str().unwrap_or("").to_string() })
    }
}

const T0: u8 = R_TMP[0];
const T1: u8 = R_TMP[1];
const T2: u8 = R_TMP[2];
const T3: u8 = R_TMP[3];
const T4: u8 = R_TMP[4];
const RN: u8 = R_CNT[0]; // remaining recursion depth (Call.a of the current frame)
const MARK: u8 = R_CNT[1];

fn i(x: Instruction) -> Asm { Asm::I(x) }

/// load an arbitrary 64-bit constant: movi (top 16 bits) then 4 x (slli 12; ori 12)
pub fn load_u64(out: &mut Vec<Asm>, r: u8, v: u64) {
    out.push(i(op::movi(r, (v >> 48) as u32)));
    for k in (0..4).rev() {
        out.push(i(op::slli(r, r, 12)));
        out.push(i(op::ori(r, r, ((v >> (12 * k)) & 0xfff) as u16)));
    }
}

struct UnitPlan {
    /// bytes allocated on the heap in the prologue (0 = none)
    heap: u32,
    /// how the unit ends: 0 ret reg, 1 ret $hp, 2 retd, 3 rvrt
    term: u8,
    retd_len: u32,
}

struct TreeGen<'a> {
    rng: &'a mut Rng,
    cfg: TreeCfg,
    layout: DataLayout,
    n_assets: usize,
    first_var_out: Option<usize>,
    var_used: usize,
    blob_ids_off: Vec<usize>,
    next_label: u32,
}

impl<'a> TreeGen<'a> {
    fn label(&mut self) -> u32 { self.next_label += 1; self.next_label }
    fn g(&mut self) -> u8 { self.rng.range(R_GEN_LO as u64, R_GEN_HI as u64) as u8 }
    fn data(&mut self, out: &mut Vec<Asm>, t: u8, off: usize) {
        if off < 4096 { out.push(i(op::addi(t, R_DATA, off as u16))); }
        else { out.push(i(op::movi(t, off as u32))); out.push(i(op::add(t, t, R_DATA))); }
    }
    /// t = $ssp + off, a local slot of `len` bytes in [128, LOCAL)
    fn loc(&mut self, out: &mut Vec<Asm>, t: u8, len: u32) -> u32 {
        let slots = (LOCAL - 128 - len) / 8;
        let off = 128 + (self.rng.below(slots as u64 + 1) * 8) as u32;
        out.push(i(op::addi(t, RegId::SSP, off as u16)));
        off
    }
    fn heap(&mut self, out: &mut Vec<Asm>, t: u8, len: u32, heap: u32) -> bool {
        if heap < len.max(1) { return false; }
        let off = self.rng.below((heap - len) as u64 + 1) as u32;
        out.push(i(op::addi(t, RegId::HP, off.min(4095) as u16)));
        true
    }
    /// writable pointer (local, or own heap when allocated)
    fn wptr(&mut self, out: &mut Vec<Asm>, t: u8, len: u32, heap: u32) {
        if self.rng.chance(1, 3) && self.heap(out, t, len, heap.min(4000)) { return; }
        self.loc(out, t, len);
    }
    fn rptr(&mut self, out: &mut Vec<Asm>, t: u8, len: u32, heap: u32) {
        match self.rng.below(3) {
            0 => { let o = self.layout.blob_off + self.rng.below((self.layout.blob_len as u32 - len.min(200)) as u64) as usize; self.data(out, t, o) }
            1 if self.heap(out, t, len, heap.min(4000)) => {}
            _ => { self.loc(out, t, len); }
        }
    }

    /// one benign action that writes or reads memory the unit owns
    fn benign(&mut self, out: &mut Vec<Asm>, unit: usize, heap: &mut u32) {
        let is_script = unit == 0;
        match self.rng.below(22) {
            0 => { self.wptr(out, T0, 8, *heap); let s = self.g(); out.push(i(op::sw(T0, s, 0))) }
            1 => { self.wptr(out, T0, 16, *heap); let s = self.g(); out.push(i(op::sb(T0, s, self.rng.below(16) as u16))) }
            2 => { self.wptr(out, T0, 16, *heap); let s = self.g(); out.push(i(op::shw(T0, s, self.rng.below(4) as u16))) }
            3 => { self.wptr(out, T0, 16, *heap); let s = self.g(); out.push(i(op::sqw(T0, s, self.rng.below(8) as u16))) }
            4 => { let n = self.rng.range(0, 96) as u32; self.wptr(out, T0, n.max(1), *heap); out.push(i(op::mcli(T0, n))) }
            5 => { let n = self.rng.range(0, 96) as u32; self.wptr(out, T0, n.max(1), *heap); out.push(i(op::movi(T1, n))); out.push(i(op::mcl(T0, T1))) }
            6 => { let n = self.rng.range(0, 64) as u32; self.loc(out, T0, 64); let o = self.layout.blob_off + self.rng.below(128) as usize; self.data(out, T1, o); out.push(i(op::mcpi(T0, T1, n as u16))) }
            7 => { let n = self.rng.range(0, 64) as u32; self.wptr(out, T0, 64, *heap); let o = self.layout.blob_off + self.rng.below(128) as usize; self.data(out, T1, o);
                   out.push(i(op::movi(T2, n))); out.push(i(op::mcp(T0, T1, T2))) }
            8 => { self.wptr(out, T0, 32, *heap); self.rptr(out, T1, 64, *heap); out.push(i(op::movi(T2, self.rng.below(64) as u32)));
                   out.push(i(if self.rng.bool() { op::s256(T0, T1, T2) } else { op::k256(T0, T1, T2) })) }
            9 => { self.wptr(out, T0, 32, *heap); self.rptr(out, T1, 32, *heap); self.rptr(out, T2, 32, *heap);
                   out.push(i(if self.rng.bool() { op::wqop(T0, T1, T2, 32) } else { op::wdop(T0, T1, T2, 32) })) }
            10 => { // shrink then regrow: the bytes in between keep their contents and ownership follows $sp
                    let n = (self.rng.range(1, 60) * 8) as u32;
                    out.push(i(op::cfsi(n)));
                    if self.rng.bool() { out.push(i(op::movi(T0, n))); out.push(i(op::cfe(T0))); } else { out.push(i(op::cfei(n))); }
                    out.push(i(op::subi(T0, RegId::SP, 8))); let s = self.g(); out.push(i(op::sw(T0, s, 0))) }
            11 => { let n = (self.rng.range(0, 40) * 8) as u32; out.push(i(op::cfei(n))); out.push(i(op::movi(T0, n))); out.push(i(op::cfs(T0))) }
            12 => { let m = (self.rng.next() as u32) & 0x00ff_ffff & if self.rng.bool() { 0xff } else { 0xff_ffff };
                    let hi = self.rng.bool();
                    out.push(i(if hi { op::pshh(m) } else { op::pshl(m) }));
                    let (d, v) = (self.g(), self.rng.below(1 << 18) as u32); out.push(i(op::movi(d, v)));
                    out.push(i(if hi { op::poph(m) } else { op::popl(m) })) }
            13 => { let n = *self.rng.pick(&[0u32, 8, 16, 24, 64, 200]); out.push(i(op::movi(T0, n))); out.push(i(op::aloc(T0))); *heap += n;
                    if n >= 8 { let s = self.g(); out.push(i(op::sw(RegId::HP, s, 0))); } }
            14 => { self.rptr(out, T0, 8, *heap); let d = self.g(); out.push(i(op::lw(d, T0, 0))) }
            15 => { self.rptr(out, T0, 16, *heap); let d = self.g(); out.push(i(match self.rng.below(3) { 0 => op::lb(d, T0, 3), 1 => op::lhw(d, T0, 1), _ => op::lqw(d, T0, 2) })) }
            16 => { let n = self.rng.range(0, 64) as u32; self.rptr(out, T0, 64, *heap); self.rptr(out, T1, 64, *heap); out.push(i(op::movi(T2, n)));
                    let d = self.g(); out.push(i(op::meq(d, T0, T1, T2))) }
            17 => { // empty ranges at the accepted boundaries
                    match self.rng.below(3) {
                        0 => out.push(i(op::mcli(RegId::SSP, 0))),
                        1 => out.push(i(op::mcl(RegId::HP, RegId::ZERO))),
                        _ => { self.loc(out, T0, 8); out.push(i(op::mcli(T0, 0))) }
                    } }
            18 => { self.wptr(out, T0, 32, *heap); out.push(i(if self.rng.bool() { op::cb(T0) } else { let h = self.g(); op::bhsh(T0, h) })) }
            19 if !self.layout.call_off.is_empty() => {
                    let c = self.rng.below(self.layout.call_off.len() as u64) as usize; let co = self.layout.call_off[c];
                    self.wptr(out, T0, 64, *heap); self.data(out, T1, co);
                    if self.rng.bool() { out.push(i(op::movi(T2, (self.rng.below(6) * 4) as u32))); out.push(i(op::movi(T3, self.rng.below(64) as u32))); out.push(i(op::ccp(T0, T1, T2, T3))); }
                    else { out.push(i(op::croo(T0, T1))); } }
            20 if is_script => {
                    // VM-own writes: balance table (TR / SMO) and a variable output (TRO)
                    let ai = self.rng.below(self.n_assets as u64) as usize; let ao = self.layout.asset_off[ai];
                    let amount = self.rng.range(1, 20) as u32;
                    match self.rng.below(3) {
                        0 if !self.layout.call_off.is_empty() => { let c = self.rng.below(self.layout.call_off.len() as u64) as usize; let co = self.layout.call_off[c];
                               self.data(out, T0, co); out.push(i(op::movi(T1, amount))); self.data(out, T2, ao); out.push(i(op::tr(T0, T1, T2))) }
                        1 if self.first_var_out.is_some() && self.var_used < N_VAR_OUT => { let idx = self.first_var_out.unwrap() + self.var_used; self.var_used += 1;
                               let ad = self.layout.addr_off; self.data(out, T0, ad); out.push(i(op::movi(T1, idx as u32))); out.push(i(op::movi(T2, amount))); self.data(out, T3, ao);
                               out.push(i(op::tro(T0, T1, T2, T3))) }
                        _ => { let ad = self.layout.addr_off; self.data(out, T0, ad); self.rptr(out, T1, 32, *heap); out.push(i(op::movi(T2, self.rng.below(32) as u32)));
                               out.push(i(op::movi(T3, amount.min(10)))); out.push(i(op::smo(T0, T1, T2, T3))) }
                    } }
            20 => { // contract: storage reads into owned memory
                    let k = self.rng.below(self.layout.n_keys as u64 - 2) as usize; let ko = self.layout.key_off + 32 * k;
                    self.data(out, T0, ko); self.wptr(out, T1, 64, *heap); let s = self.g();
                    if self.rng.bool() { out.push(i(op::movi(T2, self.rng.range(1, 2) as u32))); out.push(i(op::srwq(T1, s, T0, T2))); }
                    else { out.push(i(op::movi(T2, 0))); out.push(i(op::movi(T3, self.rng.below(24) as u32))); out.push(i(op::srdd(T1, T0, T2, T3))); } }
            _ => { let (d, v) = (self.g(), self.rng.below(1 << 18) as u32); out.push(i(op::movi(d, v))) }
        }
    }

    /// the hostile action: address into T0, then one instruction
    fn hostile(&mut self, out: &mut Vec<Asm>, unit: usize, heap: u32) -> String {
        let h = self.cfg.hostile.clone();
        let is_script = unit == 0;
        let mem = MEM;
        let target = match &h { Hostile::Write(t, _) | Hostile::Read(t) => *t, Hostile::None => return String::new() };
        let tname;
        match target {
            0 => { tname = "caller-frame"; if is_script { out.push(i(op::movi(T0, 40))); } else { out.push(i(op::addi(T0, RegId::FP, (self.rng.below(70) * 8) as u16))); } }
            1 => { tname = "caller-stack"; if is_script { out.push(i(op::subi(T0, RegId::SSP, 8))); } else { out.push(i(op::subi(T0, RegId::FP, (8 + self.rng.below(8) * 8) as u16))); } }
            2 => { tname = "tx-bytes"; let o = self.layout.blob_off + self.rng.below(64) as usize; self.data(out, T0, o); }
            3 => { tname = "code"; out.push(i(op::addi(T0, RegId::IS, (self.rng.below(16) * 4) as u16))); }
            4 => { tname = "above-sp"; out.push(i(op::addi(T0, RegId::SP, (self.rng.below(4) * 8) as u16))); }
            5 => { tname = "below-hp"; out.push(i(op::subi(T0, RegId::HP, (8 + self.rng.below(64) * 8) as u16))); }
            6 => { tname = "mem-end"; load_u64(out, T0, mem - self.rng.below(17)); }
            7 => { tname = "caller-heap"; if is_script { load_u64(out, T0, mem - 8); /* hp = VM_MAX_RAM unless allocated */ }
                   else { out.push(i(op::lw(T0, RegId::FP, ((CallFrame::registers_offset() + 8 * R_HP) / 8) as u16))); } }
            8 => { tname = "huge"; let v = *self.rng.pick(&[u64::MAX, u64::MAX - 7, 1 << 63, 1 << 32, mem, mem + 1, mem - 1, (1 << 32) - 4]); load_u64(out, T0, v); }
            9 => { tname = "freed-stack"; // shrink the stack first: bytes stay accessible but are no longer owned
                   out.push(i(op::cfsi(64))); out.push(i(op::addi(T0, RegId::SP, (self.rng.below(7) * 8) as u16))); }
            10 => { tname = "empty-at-sp"; out.push(i(op::move_(T0, RegId::SP))); }
            11 => { tname = "straddle-sp"; out.push(i(op::subi(T0, RegId::SP, 4))); }
            12 => { tname = "straddle-ssp"; out.push(i(op::subi(T0, RegId::SSP, 4))); }
            13 => { tname = "straddle-hp"; out.push(i(op::subi(T0, RegId::HP, 4))); }
            _ => { tname = "own-heap-unallocated"; out.push(i(op::move_(T0, RegId::HP))); }
        }
        let _ = heap;
        let oname;
        match h {
            Hostile::Write(t, v) => {
                let s = self.g();
                if t == 10 { oname = "MCLI0"; out.push(i(op::mcli(T0, 0))); return format!("write:{tname}:{oname}"); }
                match v {
                    0 => { oname = "SW"; out.push(i(op::sw(T0, s, 0))) }
                    1 => { oname = "SB"; out.push(i(op::sb(T0, s, 0))) }
                    2 => { oname = "SHW"; out.push(i(op::shw(T0, s, 0))) }
                    3 => { oname = "SQW"; out.push(i(op::sqw(T0, s, 0))) }
                    4 => { oname = "MCLI"; out.push(i(op::mcli(T0, 8))) }
                    5 => { oname = "MCL"; out.push(i(op::movi(T1, 8))); out.push(i(op::mcl(T0, T1))) }
                    6 => { oname = "MCPI"; let o = self.layout.blob_off; self.data(out, T1, o); out.push(i(op::mcpi(T0, T1, 8))) }
                    7 => { oname = "MCP"; let o = self.layout.blob_off; self.data(out, T1, o); out.push(i(op::movi(T2, 8))); out.push(i(op::mcp(T0, T1, T2))) }
                    8 => { oname = "S256"; let o = self.layout.blob_off; self.data(out, T1, o); out.push(i(op::movi(T2, 16))); out.push(i(op::s256(T0, T1, T2))) }
                    9 => { oname = "K256"; let o = self.layout.blob_off; self.data(out, T1, o); out.push(i(op::movi(T2, 16))); out.push(i(op::k256(T0, T1, T2))) }
                    10 => { oname = "WQOP"; let o = self.layout.blob_off; self.data(out, T1, o); self.data(out, T2, o + 32); out.push(i(op::wqop(T0, T1, T2, 32))) }
                    11 => { oname = "CB"; out.push(i(op::cb(T0))) }
                    12 => { oname = "BHSH"; out.push(i(op::bhsh(T0, RegId::ZERO))) }
                    13 => { oname = "ECK1"; let o = self.layout.blob_off; self.data(out, T1, o); self.data(out, T2, o + 64); out.push(i(op::eck1(T0, T1, T2))) }
                    14 if !self.layout.call_off.is_empty() => { oname = "CCP"; let co = self.layout.call_off[0]; self.data(out, T1, co); out.push(i(op::movi(T3, 8))); out.push(i(op::ccp(T0, T1, RegId::ZERO, T3))) }
                    15 if !is_script => { oname = "SRWQ"; let ko = self.layout.key_off; self.data(out, T1, ko); out.push(i(op::srwq(T0, s, T1, RegId::ONE))) }
                    16 => { oname = "WDOP"; let o = self.layout.blob_off; self.data(out, T1, o); self.data(out, T2, o + 32); out.push(i(op::wdop(T0, T1, T2, 32))) }
                    _ => { oname = "SW"; out.push(i(op::sw(T0, s, 0))) }
                }
                format!("write:{tname}:{oname}")
            }
            Hostile::Read(_) => {
                let d = self.g();
                match self.rng.below(5) {
                    0 => { oname = "LW"; out.push(i(op::lw(d, T0, 0))) }
                    1 => { oname = "LB"; out.push(i(op::lb(d, T0, 0))) }
                    2 => { oname = "MEQ"; out.push(i(op::movi(T2, 8))); out.push(i(op::meq(d, T0, RegId::SSP, T2))) }
                    3 => { oname = "MCPsrc"; self.loc(out, T1, 16); out.push(i(op::mcpi(T1, T0, 8))) }
                    _ => { oname = "LHW"; out.push(i(op::lhw(d, T0, 0))) }
                }
                format!("read:{tname}:{oname}")
            }
            Hostile::None => String::new(),
        }
    }

    fn unit(&mut self, unit: usize, plans: &[UnitPlan], note: &mut String) -> Vec<Asm> {
        let n = self.cfg.n_contracts;
        let is_script = unit == 0;
        let me = if is_script { usize::MAX } else { unit - 1 };
        let plan_heap = plans[unit].heap;
        let mut heap = plan_heap;
        let mut out = vec![];
        out.push(i(op::gtf(R_DATA, 0u8, GTFArgs::ScriptData as u16)));
        // LDC needs $ssp = $sp: first thing in the unit
        if self.cfg.ldc && self.rng.chance(2, 3) {
            let len = *self.rng.pick(&[0u32, 4, 8, 12, 40]);
            match self.rng.below(3) {
                0 if n > 0 => { let c = self.rng.below(n as u64) as usize; let co = self.layout.call_off[c]; self.data(&mut out, T0, co);
                                out.push(i(op::movi(T1, (self.rng.below(3) * 4) as u32))); out.push(i(op::movi(T2, len))); out.push(i(op::ldc(T0, T1, T2, 0))); }
                1 if !self.blob_ids_off.is_empty() => { let bo = *self.rng.pick(&self.blob_ids_off.clone()); self.data(&mut out, T0, bo);
                                out.push(i(op::movi(T1, self.rng.below(8) as u32))); out.push(i(op::movi(T2, len))); out.push(i(op::ldc(T0, T1, T2, 1))); }
                _ => { let o = self.layout.blob_off; self.data(&mut out, T0, o); out.push(i(op::movi(T1, self.rng.below(16) as u32))); out.push(i(op::movi(T2, len))); out.push(i(op::ldc(T0, T1, T2, 2))); }
            }
        }
        out.push(i(op::cfei(LOCAL)));
        if plan_heap > 0 { out.push(i(op::movi(T0, plan_heap))); out.push(i(op::aloc(T0))); }
        // markers: a known word at the bottom of the local area and (if allocated) of the heap
        let mark = 0x1000 + (self.rng.below(0x3_0000) as u32);
        out.push(i(op::movi(MARK, mark)));
        out.push(i(op::sw(RegId::SSP, MARK, 1)));
        if plan_heap >= 8 { out.push(i(op::sw(RegId::HP, MARK, 0))); }
        if !is_script { out.push(i(op::lw(RN, RegId::FP, (CallFrame::a_offset() / 8) as u16))); }
        // arbitrary register contents to be preserved across calls
        for _ in 0..self.rng.range(4, 14) {
            let d = self.g();
            if self.rng.chance(1, 4) { let v = self.rng.u64_biased(); load_u64(&mut out, d, v); } else { let v = self.rng.below(1 << 18) as u32; out.push(i(op::movi(d, v))); }
        }
        if self.rng.chance(1, 2) { out.push(i(op::movi(T0, *self.rng.pick(&[1u32, 2, 3])))); out.push(i(op::flag(T0))); }
        let pre = self.rng.below(self.cfg.actions as u64 + 1) as usize;
        for _ in 0..pre { self.benign(&mut out, unit, &mut heap); }

        let hostile_here = self.cfg.hostile != Hostile::None && self.cfg.hostile_unit == unit;
        let hostile_before_call = self.rng.bool();
        let recursive_last = !is_script && me + 1 == n && self.cfg.recursion > 0;
        let emit_hostile = |tg: &mut TreeGen, out: &mut Vec<Asm>, note: &mut String, heap: u32| {
            if recursive_last {
                // only in the innermost activation
                let skip = tg.label();
                out.push(Asm::Jnzf(RN, skip));
                let s = tg.hostile(out, unit, heap);
                note.push_str(&s);
                out.push(Asm::Label(skip));
            } else {
                let s = tg.hostile(out, unit, heap);
                note.push_str(&s);
            }
        };
        if self.cfg.touch && hostile_here {
            // grow the stack until it touches the heap, then a write across the boundary
            out.push(i(op::sub(T0, RegId::HP, RegId::SP)));
            out.push(i(op::cfe(T0)));
        }
        if hostile_here && hostile_before_call { emit_hostile(self, &mut out, note, heap); }

        // make $sp take any residue mod 8 at the CALL: extend the stack by an odd amount and fill the
        // bytes just below the new $sp with a non-zero pattern (a frame placed below $sp would clobber them)
        if self.rng.chance(self.cfg.misalign_per_mille, 1000) {
            let amt = *self.rng.pick(&[1u32, 2, 3, 4, 5, 6, 7, 8, 9, 10, 11, 12, 13, 14, 15, 16, 17, 1023, 4097, 1, 3, 5, 7, 2, 6]);
            if self.rng.bool() { out.push(i(op::cfei(amt))); } else { out.push(i(op::movi(T0, amt))); out.push(i(op::cfe(T0))); }
            out.push(i(op::not(T4, RegId::ZERO)));
            if self.rng.bool() { let v = self.rng.below(1 << 18) as u32 | 0x101; out.push(i(op::movi(T3, v))); out.push(i(op::xor(T4, T4, T3))); }
            for k in 1..=3u16 { out.push(i(op::subi(T0, RegId::SP, 8 * k))); out.push(i(op::sw(T0, T4, 0))); }
        }
        // the call
        let callee: Option<usize> = if is_script { if n > 0 { Some(0) } else { None } } else if me + 1 < n { Some(me + 1) } else { None };
        let n_calls = if callee.is_some() && self.rng.chance(1, 5) { 2 } else { 1 };
        if let Some(c) = callee {
            for _ in 0..n_calls {
                let co = self.layout.call_off[c];
                self.data(&mut out, T0, co);
                self.emit_call(&mut out, T0, is_script);
                self.after_call(&mut out, &plans[c + 1]);
            }
        } else if recursive_last {
            let skip = self.label();
            out.push(i(op::jnzf(RN, 0u8, 1)));
            out.push(Asm::Jmpf(skip));
            out.push(i(op::subi(T4, RN, 1)));
            out.push(i(op::addi(T0, RegId::SSP, 64)));
            let co = self.layout.call_off[me];
            self.data(&mut out, T1, co);
            out.push(i(op::mcpi(T0, T1, Call::LEN as u16)));
            out.push(i(op::sw(T0, T4, 4)));
            self.emit_call(&mut out, T0, false);
            self.after_call(&mut out, &plans[unit]);
            out.push(Asm::Label(skip));
        }
        // the caller's marker must still be there (checked by the oracle through the shadow memory)
        out.push(i(op::lw(T4, RegId::SSP, 1)));
        let post = self.cfg.actions - pre.min(self.cfg.actions);
        for _ in 0..post { self.benign(&mut out, unit, &mut heap); }
        if hostile_here && !hostile_before_call { emit_hostile(self, &mut out, note, heap); }
        // terminator
        match plans[unit].term {
            1 if plan_heap >= 8 => out.push(i(op::ret(RegId::HP))),
            2 => { let len = plans[unit].retd_len; if len <= 200 && self.rng.bool() { self.loc(&mut out, T0, len.max(8)); } else if plan_heap >= len && plan_heap > 0 { out.push(i(op::move_(T0, RegId::HP))); } else { let o = self.layout.blob_off; self.data(&mut out, T0, o); }
                   out.push(i(op::movi(T1, len))); out.push(i(op::retd(T0, T1))) }
            3 => { let r = self.g(); out.push(i(op::rvrt(r))) }
            _ => { let r = self.g(); out.push(i(op::ret(r))) }
        }
        out
    }

    fn emit_call(&mut self, out: &mut Vec<Asm>, callreg: u8, is_script: bool) {
        let ai = self.rng.below(self.n_assets as u64) as usize;
        // contracts hold balances of every asset only mostly: forward coins from the script mainly
        let coins = if is_script { *self.rng.pick(&[0u32, 1, 7, 30, 30, 55]) } else { *self.rng.pick(&[0u32, 0, 0, 1, 2]) };
        out.push(i(op::movi(T1, coins)));
        let ao = self.layout.asset_off[ai];
        self.data(out, T2, ao);
        match self.rng.below(5) {
            0 | 1 => out.push(i(op::move_(T3, RegId::CGAS))),
            2 => out.push(i(op::srli(T3, RegId::CGAS, 1))),
            3 => out.push(i(op::not(T3, RegId::ZERO))),
            _ => { out.push(i(op::srli(T3, RegId::CGAS, 2))); out.push(i(op::addi(T3, T3, 1000))) }
        }
        out.push(i(op::call(callreg, T1, T2, T3)));
    }
    /// after a call returned: read what the callee left on its heap
    fn after_call(&mut self, out: &mut Vec<Asm>, callee_plan: &UnitPlan) {
        if callee_plan.term == 1 && callee_plan.heap >= 8 {
            let d = self.g();
            out.push(i(op::lw(d, RegId::RET, 0)));           // the callee's heap marker, through the returned pointer
            if self.rng.bool() { out.push(i(op::sw(RegId::RET, d, 0))); } // and it is even writable by the caller
        } else if callee_plan.term == 2 && callee_plan.retd_len >= 8 {
            let d = self.g();
            out.push(i(op::lw(d, RegId::RET, 0)));           // returned data pointer stays readable
        }
        if callee_plan.heap >= 8 && self.rng.bool() { let d = self.g(); out.push(i(op::lw(d, RegId::HP, 0))); }
    }
}

pub fn gen_tree(rng: &mut Rng, cfg: &TreeCfg) -> TreeScenario {
    let n_assets = 3usize;
    let mut assets: Vec<AssetId> = (0..n_assets).map(|_| AssetId::from(rng.bytes32())).collect();
    if rng.chance(1, 3) { assets[0] = AssetId::zeroed(); }
    let mut world = World::new(cfg.schedule.clone(), rng.range(1, 50) as u32, assets.clone());
    let n = cfg.n_contracts;
    let ids: Vec<ContractId> = (0..n).map(|_| ContractId::from(rng.bytes32())).collect();
    let mut layout = DataLayout::new(rng, &ids, &assets, cfg.recursion);
    // blobs for LDC mode 1: ids appended to the script data
    let mut blobs = vec![];
    let mut blob_ids_off = vec![];
    if cfg.ldc {
        for _ in 0..2 {
            let data = rng.bytes_upto(40);
            let id = BlobId::from(rng.bytes32());
            StorageMutate::<BlobData>::insert(&mut world.storage, &id, &data).expect("infallible");
            blob_ids_off.push(layout.bytes.len());
            layout.bytes.extend_from_slice(id.as_ref());
            blobs.push((id, data));
        }
    }
    let has_var = rng.chance(3, 4);
    let plans: Vec<UnitPlan> = (0..=n).map(|_| {
        let rv = if rng.chance(1, 6) { 3u8 } else { 0 };
        UnitPlan {
            heap: *rng.pick(&[0u32, 0, 8, 16, 64, 256, 4096]),
            term: *rng.pick(&[0u8, 0, 1, 1, 2, 2, 2, rv]),
            retd_len: *rng.pick(&[0u32, 1, 7, 8, 9, 31, 32, 33, 100, 200, 256, 1000]),
        }
    }).collect();
    let mut note = String::new();
    let mut tg = TreeGen { rng, cfg: cfg.clone(), layout: layout.clone(), n_assets, first_var_out: if has_var { Some(n) } else { None }, var_used: 0, blob_ids_off, next_label: 0 };
    let mut units: Vec<Vec<u32>> = vec![];
    let mut contract_words = vec![];
    for c in 0..n {
        let items = tg.unit(c + 1, &plans, &mut note);
        contract_words.push(assemble(&items).unwrap_or_else(|e| panic!("assemble contract: {e}")));
    }
    let sitems = tg.unit(0, &plans, &mut note);
    let swords = assemble(&sitems).unwrap_or_else(|e| panic!("assemble script: {e}"));
    let rng = tg.rng;
    units.push(swords.clone());
    for (c, cw) in contract_words.iter().enumerate() {
        let balances: Vec<(AssetId, u64)> = assets.iter().map(|a| (*a, rng.range(500, 5000))).collect();
        let mut slots = vec![];
        for k in 0..layout.n_keys {
            if rng.chance(2, 3) {
                let mut key = [0u8; 32];
                key.copy_from_slice(&layout.bytes[layout.key_off + 32 * k..layout.key_off + 32 * k + 32]);
                let sl = *rng.pick(&[32usize, 32, 32, 40, 64]); slots.push((key, rng.bytes(sl)));
            }
        }
        world.deploy(ContractDef { id: ids[c], code: words_to_bytes(cw), balances, slots });
        units.push(cw.clone());
    }
    let mut tx = TxSpec::new(words_to_bytes(&swords), layout.bytes.clone(), cfg.gas_limit);
    tx.key_seed = rng.next();
    for a in &assets { tx.coins.push((*a, rng.range(1000, 100_000))); }
    if rng.chance(1, 4) { tx.messages.push((rng.range(1, 5000), vec![])); }
    tx.contract_inputs = ids.clone();
    if has_var { for _ in 0..N_VAR_OUT { tx.outputs.push(OutSpec::Variable); } }
    for a in &assets { if rng.chance(2, 3) { tx.outputs.push(OutSpec::Change(*a)); } }
    if rng.chance(1, 4) { tx.outputs.push(OutSpec::Coin(assets[0], rng.range(0, 50))); }
    TreeScenario { scn: Scenario { world, tx, layout, units, seed_note: note.clone() }, blobs, note }
}

// =====================================================================================
// printing helpers
// =====================================================================================
pub fn coq_runs(r: &[(u64, u64)]) -> String {
    coq_list(&r.iter().map(|(a, n)| format!("({a}, {n})")).collect::<Vec<_>>())
}
pub fn coq_regs64(r: &[u64; 64]) -> String {
    coq_list(&r.iter().map(|x| x.to_string()).collect::<Vec<_>>())
}
pub fn outcome_code(o: &Outcome) -> Option<u64> {
    match o {
        Outcome::Proceed | Outcome::Return(_) | Outcome::ReturnData | Outcome::Revert(_) => Some(0),
        Outcome::Panic(r) => Some(1 + (*r as u8) as u64),
        Outcome::Error(_) => None,
    }
}
pub fn reason_of(o: &Outcome) -> Option<PanicReason> { o.panic_reason() }
