// kvprobe.rs — shared by bin/kv.rs (C33) and bin/inputs.rs (C30) through `#[path]` (not a module
// of the library: lib.rs is not edited).
//
// A single-stepping loop over the real interpreter with the SAME mechanism as `vmtrace::trace`
// (debugger single stepping: `transact` stops before the first instruction, one `resume` per
// instruction; `RecStorage` records every storage call), plus two things `vmtrace::Trace` does not
// give: (1) a `pre` callback that may peek VM memory *before* the instruction executes (keys,
// contract ids and values an instruction reads through pointer registers), a `post` callback that
// may peek memory after it; (2) the storage object after the run, so that consecutive
// transactions can run on the same world.  World / TxSpec / RecStorage / Outcome / Ctx / frames
// come from vmtrace.
#![allow(dead_code)]
use fuel_asm::{Instruction, PanicReason, RegId};
use fuel_tx::{Receipt, Script};
use fuel_types::ContractId;
use fuel_vm::checked_transaction::Ready;
use fuel_vm::consts::{MEM_SIZE, VM_MAX_RAM, VM_REGISTER_COUNT};
use fuel_vm::interpreter::{Interpreter, MemoryInstance};
use fuel_vm::state::ProgramState;
use fuel_vm::storage::MemoryStorage;
use fvh::vmtrace::*;

pub type Regs = [u64; VM_REGISTER_COUNT];

#[derive(Clone, Debug)]
pub struct Pre {
    pub index: usize,
    pub pc: u64,
    pub raw: u32,
    pub instr: Option<Instruction>,
    pub opcode: u8,
    pub mnemonic: String,
    pub regs: Regs,
    pub ctx: Ctx,
    /// contract ids of the call frames, outermost first (read from VM memory via the $fp chain)
    pub frames: Vec<ContractId>,
    /// `$hp` saved in the innermost frame (OwnershipRegisters::prev_hp), VM_MAX_RAM in a script
    pub prev_hp: u64,
}
impl Pre {
    /// the four raw 6-bit register fields
    pub fn fields(&self) -> [u8; 4] {
        let w = self.raw;
        [((w >> 18) & 63) as u8, ((w >> 12) & 63) as u8, ((w >> 6) & 63) as u8, (w & 63) as u8]
    }
    pub fn field_values(&self) -> [u64; 4] {
        let f = self.fields();
        [self.regs[f[0] as usize], self.regs[f[1] as usize], self.regs[f[2] as usize], self.regs[f[3] as usize]]
    }
}

#[derive(Clone, Debug)]
pub struct Post {
    pub regs: Regs,
    pub ctx: Ctx,
    pub frames: Vec<ContractId>,
    pub outcome: Outcome,
    pub storage: Vec<StorageEvent>,
    pub receipts: Vec<Receipt>,
    /// a panic receipt that does not name this instruction followed it (fetch fault of the next one)
    pub fetch_fault_after: Option<PanicReason>,
}
impl Post {
    pub fn gas_charged(&self, pre: &Pre) -> u64 { pre.regs[9].saturating_sub(self.regs[9]) }
}

pub struct ProbeRun<P, Q> {
    pub steps: Vec<(Pre, P, Post, Q)>,
    /// storage events recorded before the first instruction (transact's own checks)
    pub init_events: Vec<StorageEvent>,
    pub final_state: FinalState,
    pub receipts: Vec<Receipt>,
    /// the storage after the run (writes of a failed script are NOT undone by the interpreter)
    pub storage: MemoryStorage,
    /// slot cache of the interpreter after the run
    pub cache: Vec<((ContractId, [u8; 32]), Option<Vec<u8>>)>,
    pub truncated: bool,
}
impl<P, Q> ProbeRun<P, Q> {
    pub fn succeeded(&self) -> bool {
        matches!(self.final_state, FinalState::Return(_) | FinalState::ReturnData(_))
            && !self.receipts.iter().any(|r| matches!(r, Receipt::Panic { .. } | Receipt::Revert { .. }))
    }
    pub fn panic_reason(&self) -> Option<PanicReason> {
        self.receipts.iter().find_map(|r| if let Receipt::Panic { reason, .. } = r { Some(*reason.reason()) } else { None })
    }
}

fn regs_of(vm: &Vm) -> Regs {
    let mut r = [0u64; VM_REGISTER_COUNT];
    r.copy_from_slice(vm.registers());
    r
}

pub fn mem_read(mem: &MemoryInstance, addr: u64, len: u64) -> Result<Vec<u8>, PanicReason> {
    mem.read(addr, len).map(|s| s.to_vec())
}

/// Independent re-implementation of `MemoryInstance::write`'s admission rule
/// (`verify` + `OwnershipRegisters::verify_ownership`): None = writable.
pub fn mem_write_check(mem: &MemoryInstance, pre: &Pre, addr: u64, len: u64) -> Option<PanicReason> {
    if let Err(r) = mem.verify(addr, len) { return Some(r); }
    let (ssp, sp, hp, prev_hp) = (pre.regs[4], pre.regs[5], pre.regs[7], pre.prev_hp);
    let (start, end) = (addr, addr.saturating_add(len));
    let empty = len == 0;
    let stack = if empty && start == ssp { true }
        else if !(ssp <= start && start < sp) { false }
        else if end > VM_MAX_RAM { false }
        else { ssp <= end && end <= sp };
    let heap = if empty && start == hp { true }
        else if start < hp { false }
        else { hp != prev_hp && end <= prev_hp };
    if stack || heap { None } else { Some(PanicReason::MemoryOwnership) }
}

fn frame_ids(mem: &MemoryInstance, fp: u64) -> (Vec<ContractId>, u64) {
    let fr = frames_from_memory(mem, fp);
    let prev_hp = match fr.last() {
        Some(f) => {
            // saved registers start at CallFrame::registers_offset(); $hp is register 7
            let off = fuel_vm::prelude::CallFrame::registers_offset() as u64 + 8 * 7;
            mem.read(f.fp + off, 8u64).ok().map(|b| u64::from_be_bytes(b.try_into().unwrap())).unwrap_or(VM_MAX_RAM)
        }
        None => VM_MAX_RAM,
    };
    (fr.iter().map(|f| f.to).collect(), prev_hp)
}

fn ctx_at(mem: &MemoryInstance, fp: u64) -> Ctx {
    if fp == 0 { Ctx::Script } else {
        match mem.read(fp, 32u64) {
            Ok(b) => { let mut a = [0u8; 32]; a.copy_from_slice(b); Ctx::Contract(a.into()) }
            Err(_) => Ctx::Contract(ContractId::zeroed()),
        }
    }
}

fn decode(raw: u32) -> (Option<Instruction>, u8, String) {
    let opb = (raw >> 24) as u8;
    match Instruction::try_from(raw.to_be_bytes()) {
        Ok(i) => (Some(i), opb, format!("{:?}", i.opcode())),
        Err(_) => (None, opb, fuel_asm::Opcode::try_from(opb).map(|o| format!("{o:?}")).unwrap_or_else(|_| "?".into())),
    }
}

fn final_of(s: &ProgramState) -> FinalState {
    match s {
        ProgramState::Return(w) => FinalState::Return(*w),
        ProgramState::ReturnData(d) => FinalState::ReturnData(*d),
        ProgramState::Revert(w) => FinalState::Revert(*w),
        _ => FinalState::Error("debug state".into()),
    }
}

/// Single-stepped run of `ready` over `storage` (consumed; returned in the result).
pub fn probe_run<P, Q>(
    w: &World, storage: MemoryStorage, ready: Ready<Script>, max_steps: usize,
    pre_cb: impl FnMut(&mut Vm, &Pre) -> P,
    post_cb: impl FnMut(&Vm, &Pre, &P, &Post) -> Q,
) -> ProbeRun<P, Q> {
    probe_run_warm(w, storage, vec![], ready, max_steps, pre_cb, post_cb)
}

/// `probe_run` on an interpreter that has already executed the `warm` transactions (plain
/// `transact`, no stepping) over the same storage: what an earlier transaction left in the
/// instance (input-contract set, caches, frames) must not influence the observed one.
pub fn probe_run_warm<P, Q>(
    w: &World, storage: MemoryStorage, warm: Vec<Ready<Script>>, ready: Ready<Script>, max_steps: usize,
    mut pre_cb: impl FnMut(&mut Vm, &Pre) -> P,
    mut post_cb: impl FnMut(&Vm, &Pre, &P, &Post) -> Q,
) -> ProbeRun<P, Q> {
    let rec = RecStorage::new(storage);
    let mut vm: Vm = Interpreter::with_storage(MemoryInstance::new(), rec, w.interpreter_params());
    for t in warm { vm.set_single_stepping(false); let _ = vm.transact(t); }
    vm.set_single_stepping(true);
    let mark0 = vm.as_ref().mark();
    let mut state: Result<ProgramState, String> = vm.transact(ready).map(|t| *t.state()).map_err(|e| format!("{e:?}"));
    let init_events = vm.as_ref().since(mark0);
    let mut receipts_seen = vm.receipts().len();
    if !matches!(state, Ok(ProgramState::RunProgram(_))) { receipts_seen = 0; }
    let mut steps = vec![];
    let mut truncated = false;
    while let Ok(ProgramState::RunProgram(_)) = state {
        if steps.len() >= max_steps { truncated = true; break; }
        let regs = regs_of(&vm);
        let (pc, fp) = (regs[3], regs[6]);
        let raw = vm.memory().read(pc, 4u64).ok().map(|b| u32::from_be_bytes(b.try_into().unwrap())).unwrap_or(0);
        let (instr, opcode, mnemonic) = decode(raw);
        let (frames, prev_hp) = frame_ids(vm.memory(), fp);
        let pre = Pre { index: steps.len(), pc, raw, instr, opcode, mnemonic, regs, ctx: ctx_at(vm.memory(), fp), frames, prev_hp };
        let p = pre_cb(&mut vm, &pre);
        let mark = vm.as_ref().mark();
        let res = vm.resume().map_err(|e| format!("{e:?}"));
        let regs_after = regs_of(&vm);
        let new_receipts: Vec<Receipt> = vm.receipts()[receipts_seen.min(vm.receipts().len())..].to_vec();
        receipts_seen = vm.receipts().len();
        let storage_ev = vm.as_ref().since(mark);
        let mut outcome = Outcome::Proceed;
        let mut fetch_fault_after = None;
        for r in &new_receipts {
            match r {
                Receipt::Return { val, .. } => outcome = Outcome::Return(*val),
                Receipt::ReturnData { .. } => outcome = Outcome::ReturnData,
                Receipt::Revert { ra, .. } => outcome = Outcome::Revert(*ra),
                _ => {}
            }
        }
        let panic = new_receipts.iter().find_map(|r| match r {
            Receipt::Panic { reason, pc, .. } => Some((*reason.reason(), *reason.instruction(), *pc)),
            _ => None,
        });
        if let Some((reason, pinstr, ppc)) = panic {
            if ppc == pc && pinstr == raw { outcome = Outcome::Panic(reason); } else { fetch_fault_after = Some(reason); }
        }
        if let Err(e) = &res { if panic.is_none() { outcome = Outcome::Error(e.clone()); } }
        let (frames_after, _) = frame_ids(vm.memory(), regs_after[6]);
        let post = Post { regs: regs_after, ctx: ctx_at(vm.memory(), regs_after[6]), frames: frames_after, outcome, storage: storage_ev, receipts: new_receipts, fetch_fault_after };
        let q = post_cb(&vm, &pre, &p, &post);
        steps.push((pre, p, post, q));
        state = res;
    }
    let final_state = if truncated { FinalState::StepLimit } else {
        match &state { Ok(s) => final_of(s), Err(e) => FinalState::Error(e.clone()) }
    };
    let receipts = vm.receipts().to_vec();
    let cache = vm.bench_storage_slot_cache().iter().map(|((c, k), v)| ((*c, **k), v.clone())).collect();
    let storage = vm.as_ref().inner.clone();
    ProbeRun { steps, init_events, final_state, receipts, storage, cache, truncated }
}

/// Cross-check of this stepping loop against `vmtrace::trace` on the same transaction: same
/// instructions, same outcomes, same storage events, same final state.  Returns differences.
pub fn cross_check<P, Q>(t: &Trace, r: &ProbeRun<P, Q>) -> Vec<String> {
    let mut d = vec![];
    let exec: Vec<&Step> = t.steps.iter().filter(|s| s.kind == StepKind::Exec).collect();
    if exec.len() != r.steps.len() { d.push(format!("step count {} vs {}", exec.len(), r.steps.len())); }
    for (a, (pre, _, post, _)) in exec.iter().zip(r.steps.iter()) {
        if a.pc != pre.pc || a.raw != pre.raw { d.push(format!("step {}: pc/raw differ", pre.index)); break; }
        if a.outcome != post.outcome { d.push(format!("step {}: outcome {:?} vs {:?}", pre.index, a.outcome, post.outcome)); break; }
        if a.storage != post.storage { d.push(format!("step {}: storage events differ", pre.index)); break; }
        if a.regs_after != post.regs { d.push(format!("step {}: registers differ", pre.index)); break; }
    }
    if t.final_state != r.final_state { d.push(format!("final state {:?} vs {:?}", t.final_state, r.final_state)); }
    d
}

pub fn reason_byte(r: PanicReason) -> u64 { r as u8 as u64 }
pub fn outcome_code(o: &Outcome) -> (u64, u64) {
    match o {
        Outcome::Proceed => (0, 0),
        Outcome::Return(_) => (1, 0),
        Outcome::ReturnData => (2, 0),
        Outcome::Revert(_) => (3, 0),
        Outcome::Panic(r) => (4, reason_byte(*r)),
        Outcome::Error(_) => (5, 0),
    }
}
pub fn ctx_id(c: &Ctx) -> Option<ContractId> { if let Ctx::Contract(id) = c { Some(*id) } else { None } }
// ---- compact Coq literals (see coq/Run/KvLit.v) ----
fn words7(b: &[u8]) -> String {
    let mut ws = vec![];
    for ch in b.chunks(7) {
        let mut v: u64 = 0;
        for i in 0..7 { v = (v << 8) | *ch.get(i).unwrap_or(&0) as u64; }
        ws.push(v.to_string());
    }
    format!("wl[{}]", ws.join("; "))
}
/// u64 as `N` (large values split in halves: big decimal literals are slow to parse)
pub fn cn(v: u64) -> String { if v < (1 << 31) { v.to_string() } else { format!("(big {} {})", v >> 32, v & 0xffff_ffff) } }

/// Per-case table of byte strings and 256-bit values: every distinct value is bound once with
/// `let` in front of the case term and referred to by name.
#[derive(Default)]
pub struct Lits {
    bytes: std::collections::HashMap<Vec<u8>, usize>,
    nums: std::collections::HashMap<Vec<u8>, usize>,
    defs: Vec<String>,
}
impl Lits {
    pub fn new() -> Self { Default::default() }
    /// byte string
    pub fn b(&mut self, b: &[u8]) -> String {
        if b.is_empty() { return "[]".into(); }
        if b.len() < 8 { return format!("(wb {} {})", words7(b), b.len()); }
        if let Some(i) = self.bytes.get(b) { return format!("b{i}"); }
        let i = self.bytes.len();
        self.bytes.insert(b.to_vec(), i);
        self.defs.push(format!("let b{i} := wb {} {} in", words7(b), b.len()));
        format!("b{i}")
    }
    /// 32-byte big-endian value as `N`
    pub fn k(&mut self, b: &[u8]) -> String {
        if let Some(i) = self.nums.get(b) { return format!("k{i}"); }
        let i = self.nums.len();
        self.nums.insert(b.to_vec(), i);
        self.defs.push(format!("let k{i} := k256w {} in", words7(b)));
        format!("k{i}")
    }
    pub fn wrap(&self, term: &str) -> String { format!("({}\n {})", self.defs.join("\n "), term) }
}
pub const _MEM: usize = MEM_SIZE;
pub const _ZERO: RegId = RegId::ZERO;
