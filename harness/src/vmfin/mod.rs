//! Shared by bin/assets.rs (C27) and bin/outcome.rs (C28): observation helpers on top of
//! `fvh::vmtrace` (which is reused unchanged for worlds, transactions, the program generator and
//! the single-step tracer):
//!   * `TxFacts`     inputs / outputs / max fee / refund of the checked transaction
//!   * `probe`       a second single-stepped run (same mechanism as vmtrace::trace) that reads VM
//!                   memory: the operands of asset instructions before the step and the balance
//!                   table at VM_MEMORY_BALANCES_OFFSET after every step
//!   * `client_run`  the same transaction through `MemoryClient::transact` (commit / revert)
//!   * `AssetProg`   a small hand-written generator of boundary asset programs
#![allow(dead_code)]
use fuel_asm::{op, GTFArgs, Instruction, RegId};
use fuel_tx::{field, Chargeable, Input, Output, Receipt, Script};
use fuel_types::{Address, AssetId, ContractId};
use fuel_vm::checked_transaction::Ready;
use fuel_vm::consts::VM_MEMORY_BALANCES_OFFSET;
use fuel_vm::interpreter::{Interpreter, MemoryInstance};
use fuel_vm::memory_client::MemoryClient;
use fuel_vm::prelude::Call;
use fuel_vm::state::ProgramState;
use fvh::vmtrace::*;
use std::collections::{BTreeMap, BTreeSet};

pub const BALANCE_ENTRY_SIZE: usize = 40;

/// 32-byte id inside a Coq case: a token `#<hex>#` that `intern_ids` later replaces by the RANK of
/// the id among all ids of the case (byte order = numeric order; the all-zero id is always rank 0).
/// The abstract machine only compares and orders identifiers, so an order-preserving injective
/// renaming is exact; and parsing a 256-bit literal costs coqc 20-60 ms.
pub fn idn(b: &[u8]) -> String {
    format!("#{}#", hex::encode(b))
}
pub fn intern_ids(term: &str) -> String {
    let mut set: BTreeSet<Vec<u8>> = BTreeSet::new();
    set.insert(vec![0u8; 32]);
    let mut rest = term;
    while let Some(p) = rest.find('#') {
        let tail = &rest[p + 1..];
        let q = tail.find('#').expect("unterminated id token");
        set.insert(hex::decode(&tail[..q]).expect("hex id"));
        rest = &tail[q + 1..];
    }
    let rank: BTreeMap<Vec<u8>, usize> = set.into_iter().enumerate().map(|(i, b)| (b, i)).collect();
    let mut out = String::with_capacity(term.len());
    let mut rest = term;
    while let Some(p) = rest.find('#') {
        out.push_str(&rest[..p]);
        let tail = &rest[p + 1..];
        let q = tail.find('#').unwrap();
        out.push_str(&rank[&hex::decode(&tail[..q]).unwrap()].to_string());
        rest = &tail[q + 1..];
    }
    out.push_str(rest);
    out
}
pub fn b32(x: &[u8]) -> [u8; 32] {
    let mut a = [0u8; 32];
    a.copy_from_slice(&x[..32]);
    a
}

// ------------------------------------------------------------------------------------ tx facts
#[derive(Clone, Debug, PartialEq, Eq)]
pub enum TIn {
    Coin(AssetId, u64),
    MsgCoin(u64),
    MsgData(u64),
    Contract(ContractId),
}
#[derive(Clone, Debug, PartialEq, Eq)]
pub enum TOut {
    Coin(Address, u64, AssetId),
    Change(Address, u64, AssetId),
    Variable(Address, u64, AssetId),
    Other,
}
pub fn out_of(o: &Output) -> TOut {
    match o {
        Output::Coin { to, amount, asset_id } => TOut::Coin(*to, *amount, *asset_id),
        Output::Change { to, amount, asset_id } => TOut::Change(*to, *amount, *asset_id),
        Output::Variable { to, amount, asset_id } => TOut::Variable(*to, *amount, *asset_id),
        _ => TOut::Other,
    }
}
impl TOut {
    pub fn coq(&self) -> String {
        match self {
            TOut::Coin(t, m, a) => format!("OCoin {} {} {}", idn(t.as_ref()), m, idn(a.as_ref())),
            TOut::Change(t, m, a) => format!("OChange {} {} {}", idn(t.as_ref()), m, idn(a.as_ref())),
            TOut::Variable(t, m, a) => format!("OVariable {} {} {}", idn(t.as_ref()), m, idn(a.as_ref())),
            TOut::Other => "OOther".into(),
        }
    }
}
impl TIn {
    pub fn coq(&self) -> String {
        match self {
            TIn::Coin(a, m) => format!("ICoin {} {}", idn(a.as_ref()), m),
            TIn::MsgCoin(m) => format!("IMsgCoin {}", m),
            TIn::MsgData(m) => format!("IMsgData {}", m),
            TIn::Contract(c) => format!("IContract {}", idn(c.as_ref())),
        }
    }
}

#[derive(Clone, Debug)]
pub struct TxFacts {
    pub base: AssetId,
    pub ins: Vec<TIn>,
    pub outs: Vec<TOut>,
    pub input_contracts: Vec<ContractId>,
    pub max_fee: u64,
    pub tip: u64,
    pub min_gas: u64,
    pub gas_price: u64,
    pub gas_price_factor: u64,
    pub script: Script,
}
pub fn tx_facts(w: &World, ready: &Ready<Script>) -> TxFacts {
    use field::{Inputs, Outputs, MaxFeeLimit, Policies as _};
    let (_price, checked) = ready.clone().decompose();
    let tx: Script = checked.transaction().clone();
    let mut ins = vec![];
    let mut input_contracts = vec![];
    for i in tx.inputs() {
        ins.push(match i {
            Input::CoinSigned(c) => TIn::Coin(c.asset_id, c.amount),
            Input::CoinPredicate(c) => TIn::Coin(c.asset_id, c.amount),
            Input::MessageCoinSigned(m) => TIn::MsgCoin(m.amount),
            Input::MessageCoinPredicate(m) => TIn::MsgCoin(m.amount),
            Input::MessageDataSigned(m) => TIn::MsgData(m.amount),
            Input::MessageDataPredicate(m) => TIn::MsgData(m.amount),
            Input::Contract(c) => {
                input_contracts.push(c.contract_id);
                TIn::Contract(c.contract_id)
            }
        });
    }
    let outs = tx.outputs().iter().map(out_of).collect();
    let max_fee = tx.max_fee_limit();
    let tip = tx.policies().get(fuel_tx::policies::PolicyType::Tip).unwrap_or(0);
    let min_gas = tx.min_gas(w.params.gas_costs(), w.params.fee_params());
    TxFacts {
        base: *w.params.base_asset_id(),
        ins,
        outs,
        input_contracts,
        max_fee,
        tip,
        min_gas,
        gas_price: w.gas_price,
        gas_price_factor: w.params.fee_params().gas_price_factor(),
        script: tx,
    }
}
impl TxFacts {
    /// refund through the crate's own `refund_fee` (None = overflow, a Bug in run_program)
    pub fn refund_impl(&self, w: &World, gas_used: u64) -> Option<u64> {
        self.script.refund_fee(w.params.gas_costs(), w.params.fee_params(), gas_used, w.gas_price)
    }
    /// the same from the property text: max_fee - (ceil((min_gas + used) * price / factor) + tip), exact integers
    pub fn refund_ref(&self, gas_used: u64) -> Option<u64> {
        let total = self.min_gas as u128 + gas_used as u128;
        let total = total.min(u64::MAX as u128); // saturating_add of the implementation (C18 / F7)
        let fee = (total * self.gas_price as u128).div_ceil(self.gas_price_factor.max(1) as u128) + self.tip as u128;
        if fee > self.max_fee as u128 { None } else { Some(self.max_fee - fee as u64) }
    }
}

// ------------------------------------------------------------------------------------ probe
#[derive(Clone, Debug)]
pub struct ProbeStep {
    pub pc: u64,
    pub raw: u32,
    /// 32 bytes of VM memory at the values of the four raw register fields, read before the step
    pub at_fields: [Option<[u8; 32]>; 4],
    /// balance table entries 0..n read from VM memory after the step
    pub table_after: Vec<(AssetId, u64)>,
    /// the rest of the table area (entries n..max_inputs) is all zero
    pub tail_zero: bool,
    pub receipts_len_after: usize,
}
#[derive(Clone, Debug)]
pub struct Probe {
    pub initial_nr: Vec<(AssetId, u64)>,
    pub retryable: u64,
    pub n_entries: usize,
    pub table0: Vec<(AssetId, u64)>,
    pub tail0_zero: bool,
    pub steps: Vec<ProbeStep>,
    pub table_final: Vec<(AssetId, u64)>,
    pub receipts_root: [u8; 32],
    pub state: Result<ProgramState, String>,
}
fn read_table(vm: &Vm, n: usize) -> (Vec<(AssetId, u64)>, bool) {
    let max = vm.max_inputs() as usize;
    let bytes = vm.memory().read(VM_MEMORY_BALANCES_OFFSET as u64, max * BALANCE_ENTRY_SIZE).map(|s| s.to_vec()).unwrap_or_default();
    let mut out = vec![];
    for i in 0..n.min(bytes.len() / BALANCE_ENTRY_SIZE) {
        let e = &bytes[i * BALANCE_ENTRY_SIZE..(i + 1) * BALANCE_ENTRY_SIZE];
        out.push((AssetId::from(b32(&e[..32])), u64::from_be_bytes(e[32..40].try_into().unwrap())));
    }
    let tail_zero = bytes.len() >= n * BALANCE_ENTRY_SIZE && bytes[n * BALANCE_ENTRY_SIZE..].iter().all(|b| *b == 0);
    (out, tail_zero)
}
/// Second single-stepped execution (debugger single stepping exactly as vmtrace::trace_ready).
pub fn probe(w: &World, ready: Ready<Script>, max_steps: usize, want_operands: impl Fn(u8) -> bool) -> Probe {
    let rec = RecStorage::new(w.storage.clone());
    let mut vm: Vm = Interpreter::with_storage(MemoryInstance::new(), rec, w.interpreter_params());
    vm.set_single_stepping(true);
    let mut state: Result<ProgramState, String> = vm.transact(ready).map(|t| *t.state()).map_err(|e| format!("{e:?}"));
    let initial_nr: Vec<(AssetId, u64)> = vm.initial_balances().non_retryable.iter().map(|(a, v)| (*a, *v)).collect();
    let retryable: u64 = vm.initial_balances().retryable.map(|r| *r).unwrap_or(0);
    let base = *w.params.base_asset_id();
    let mut keys: BTreeSet<AssetId> = initial_nr.iter().map(|x| x.0).collect();
    if vm.initial_balances().retryable.is_some() { keys.insert(base); }
    let n_entries = keys.len();
    let (table0, tail0_zero) = read_table(&vm, n_entries);
    let mut steps = vec![];
    while let Ok(ProgramState::RunProgram(_)) = state {
        if steps.len() >= max_steps { break; }
        let regs = vm.registers().to_vec();
        let pc = regs[3];
        let raw = vm.memory().read(pc, 4).ok().map(|b| u32::from_be_bytes(b.try_into().unwrap())).unwrap_or(0);
        let fields = [((raw >> 18) & 63) as usize, ((raw >> 12) & 63) as usize, ((raw >> 6) & 63) as usize, (raw & 63) as usize];
        let mut at_fields = [None; 4];
        if want_operands((raw >> 24) as u8) {
            for k in 0..4 {
                at_fields[k] = vm.memory().read(regs[fields[k]], 32).ok().map(|s| b32(s));
            }
        }
        let res = vm.resume().map_err(|e| format!("{e:?}"));
        let (table_after, tail_zero) = read_table(&vm, n_entries);
        steps.push(ProbeStep { pc, raw, at_fields, table_after, tail_zero, receipts_len_after: vm.receipts().len() });
        state = res;
    }
    let (table_final, _) = read_table(&vm, n_entries);
    let receipts_root = { use field::ReceiptsRoot; let r: [u8; 32] = (*vm.transaction().receipts_root()).into(); r };
    Probe { initial_nr, retryable, n_entries, table0, tail0_zero, steps, table_final, receipts_root, state }
}

// ------------------------------------------------------------------------------------ MemoryClient
#[derive(Clone, Debug)]
pub struct ClientRun {
    pub receipts: Vec<Receipt>,
    pub outputs: Vec<Output>,
    pub storage_after: StorageDump,
    pub receipts_root: [u8; 32],
    pub state: Option<ProgramState>,
    pub error: Option<String>,
    /// Debug image of the whole MemoryStorage before / after (for the rollback oracle)
    pub image_before: String,
    pub image_after: String,
}
/// `MemoryClient::transact` on the world's storage (committed first, so that `revert` returns to it).
pub fn client_run(w: &World, ready: Ready<Script>, extra_keys: &[StorageEvent]) -> ClientRun {
    let mut st = w.storage.clone();
    st.commit();
    let image_before = format!("{:?}", st);
    let (_price, checked) = ready.decompose();
    let mut client: MemoryClient<MemoryInstance> = MemoryClient::new(MemoryInstance::new(), st, w.interpreter_params());
    let receipts = client.transact(checked).to_vec();
    let (outputs, root, state) = match client.state_transition() {
        Some(t) => {
            use field::{Outputs, ReceiptsRoot};
            let r: [u8; 32] = (*t.tx().receipts_root()).into();
            (t.tx().outputs().to_vec(), r, Some(*t.state()))
        }
        None => (vec![], [0u8; 32], None),
    };
    let storage: &fuel_vm::storage::MemoryStorage = client.as_ref();
    let storage_after = dump_storage(storage, w, extra_keys);
    let image_after = format!("{:?}", storage);
    ClientRun { receipts, outputs, storage_after, receipts_root: root, state, error: None, image_before, image_after }
}

// ------------------------------------------------------------------------------------ asset programs
/// One high-level operation of a hand-written boundary program.
#[derive(Clone, Debug)]
pub enum AOp {
    Tr { contract: usize, asset: usize, amount: u64 },
    Tro { out: u64, asset: usize, amount: u64 },
    Call { contract: usize, asset: usize, amount: u64, gas: u64 },
    Mint { sub: usize, amount: u64 },
    Burn { sub: usize, amount: u64 },
    Smo { amount: u64, len: u64 },
    Bal { contract: usize, asset: usize },
    Log,
    Ret,
    Rvrt,
    /// an instruction that panics (division by zero with $flag = 0)
    Boom,
}

/// Script-data layout of an `AssetProg`: Call structs, asset ids, sub ids, an address, u64 constants.
#[derive(Clone, Debug)]
pub struct ALayout {
    pub bytes: Vec<u8>,
    pub call_off: Vec<usize>,
    pub asset_off: Vec<usize>,
    pub sub_off: Vec<usize>,
    pub addr_off: usize,
    pub consts: BTreeMap<u64, usize>,
}
impl ALayout {
    pub fn new(contracts: &[ContractId], assets: &[AssetId], subs: &[[u8; 32]], addr: [u8; 32], consts: &BTreeSet<u64>) -> ALayout {
        let mut bytes = vec![];
        let mut call_off = vec![];
        for c in contracts {
            call_off.push(bytes.len());
            use fuel_types::canonical::Serialize;
            bytes.extend(Call::new(*c, 0, 0).to_bytes());
        }
        let mut asset_off = vec![];
        for a in assets { asset_off.push(bytes.len()); bytes.extend_from_slice(a.as_ref()); }
        let mut sub_off = vec![];
        for s in subs { sub_off.push(bytes.len()); bytes.extend_from_slice(s); }
        let addr_off = bytes.len();
        bytes.extend(addr);
        let mut cm = BTreeMap::new();
        for c in consts { cm.insert(*c, bytes.len()); bytes.extend(c.to_be_bytes()); }
        ALayout { bytes, call_off, asset_off, sub_off, addr_off, consts: cm }
    }
}
pub fn aop_consts(ops: &[AOp], set: &mut BTreeSet<u64>) {
    for o in ops {
        match o {
            AOp::Tr { amount, .. } | AOp::Mint { amount, .. } | AOp::Burn { amount, .. } => { set.insert(*amount); }
            AOp::Tro { out, amount, .. } => { set.insert(*amount); set.insert(*out); }
            AOp::Call { amount, gas, .. } => { set.insert(*amount); set.insert(*gas); }
            AOp::Smo { amount, len } => { set.insert(*amount); set.insert(*len); }
            _ => {}
        }
    }
}
/// Assemble one code unit.  Registers: 0x3F data base, 0x30.. temporaries.
pub fn aops_to_code(ops: &[AOp], l: &ALayout) -> Vec<u32> {
    let d = 0x3Fu8;
    let (t0, t1, t2, t3) = (0x30u8, 0x31u8, 0x32u8, 0x33u8);
    let mut out: Vec<Instruction> = vec![op::gtf(d, RegId::ZERO, GTFArgs::ScriptData as u16)];
    let ptr = |out: &mut Vec<Instruction>, r: u8, off: usize| {
        if off < 4096 { out.push(op::addi(r, d, off as u16)); } else { out.push(op::movi(r, off as u32)); out.push(op::add(r, r, d)); }
    };
    let konst = |out: &mut Vec<Instruction>, r: u8, v: u64| {
        let off = l.consts[&v];
        ptr(out, r, off);
        out.push(op::lw(r, r, 0));
    };
    for o in ops {
        match o {
            AOp::Tr { contract, asset, amount } => {
                ptr(&mut out, t0, l.call_off[*contract]); konst(&mut out, t1, *amount); ptr(&mut out, t2, l.asset_off[*asset]);
                out.push(op::tr(t0, t1, t2));
            }
            AOp::Tro { out: idx, asset, amount } => {
                ptr(&mut out, t0, l.addr_off); konst(&mut out, t1, *idx); konst(&mut out, t2, *amount); ptr(&mut out, t3, l.asset_off[*asset]);
                out.push(op::tro(t0, t1, t2, t3));
            }
            AOp::Call { contract, asset, amount, gas } => {
                ptr(&mut out, t0, l.call_off[*contract]); konst(&mut out, t1, *amount); ptr(&mut out, t2, l.asset_off[*asset]); konst(&mut out, t3, *gas);
                out.push(op::call(t0, t1, t2, t3));
            }
            AOp::Mint { sub, amount } => { konst(&mut out, t0, *amount); ptr(&mut out, t1, l.sub_off[*sub]); out.push(op::mint(t0, t1)); }
            AOp::Burn { sub, amount } => { konst(&mut out, t0, *amount); ptr(&mut out, t1, l.sub_off[*sub]); out.push(op::burn(t0, t1)); }
            AOp::Smo { amount, len } => {
                ptr(&mut out, t0, l.addr_off); ptr(&mut out, t1, 0); konst(&mut out, t2, *len); konst(&mut out, t3, *amount);
                out.push(op::smo(t0, t1, t2, t3));
            }
            AOp::Bal { contract, asset } => { ptr(&mut out, t0, l.asset_off[*asset]); ptr(&mut out, t1, l.call_off[*contract]); out.push(op::bal(0x20, t0, t1)); }
            AOp::Log => out.push(op::log(RegId::ONE, RegId::ZERO, RegId::ZERO, RegId::ZERO)),
            AOp::Ret => out.push(op::ret(RegId::ONE)),
            AOp::Rvrt => out.push(op::rvrt(RegId::ONE)),
            AOp::Boom => out.push(op::div(0x20, RegId::ONE, RegId::ZERO)),
        }
    }
    if !matches!(ops.last(), Some(AOp::Ret | AOp::Rvrt | AOp::Boom)) { out.push(op::ret(RegId::ONE)); }
    instrs_to_words(&out)
}

/// A hand-built scenario: script ops + one op list per contract.
#[derive(Clone, Debug)]
pub struct AssetProg {
    pub assets: Vec<AssetId>,
    pub contracts: Vec<(ContractId, Vec<(usize, u64)>, Vec<AOp>)>,
    pub subs: Vec<[u8; 32]>,
    pub addr: [u8; 32],
    pub script: Vec<AOp>,
    pub coins: Vec<(usize, u64)>,
    pub messages: Vec<(u64, Vec<u8>)>,
    pub outputs: Vec<OutSpecIdx>,
    pub gas_limit: u64,
    pub gas_price: u64,
    pub max_fee: u64,
    pub schedule: GasSchedule,
    pub drop_last_contract_input: bool,
    pub key_seed: u64,
}
#[derive(Clone, Debug)]
pub enum OutSpecIdx { Change(usize), Variable, Coin(usize, u64) }

impl AssetProg {
    pub fn build(&self) -> (World, TxSpec) {
        let mut w = World::new(self.schedule.clone(), 5, self.assets.clone());
        w.gas_price = self.gas_price;
        let mut consts = BTreeSet::new();
        aop_consts(&self.script, &mut consts);
        for (_, _, ops) in &self.contracts { aop_consts(ops, &mut consts); }
        let ids: Vec<ContractId> = self.contracts.iter().map(|c| c.0).collect();
        let l = ALayout::new(&ids, &self.assets, &self.subs, self.addr, &consts);
        for (id, bals, ops) in &self.contracts {
            let code = aops_to_code(ops, &l);
            w.deploy(ContractDef { id: *id, code: words_to_bytes(&code), balances: bals.iter().map(|(a, v)| (self.assets[*a], *v)).collect(), slots: vec![] });
        }
        let script = aops_to_code(&self.script, &l);
        let mut tx = TxSpec::new(words_to_bytes(&script), l.bytes.clone(), self.gas_limit);
        tx.key_seed = self.key_seed;
        tx.max_fee = self.max_fee;
        for (a, v) in &self.coins { tx.coins.push((self.assets[*a], *v)); }
        tx.messages = self.messages.clone();
        tx.contract_inputs = ids.clone();
        if self.drop_last_contract_input { tx.contract_inputs.pop(); }
        for o in &self.outputs {
            tx.outputs.push(match o {
                OutSpecIdx::Change(a) => OutSpec::Change(self.assets[*a]),
                OutSpecIdx::Variable => OutSpec::Variable,
                OutSpecIdx::Coin(a, v) => OutSpec::Coin(self.assets[*a], *v),
            });
        }
        (w, tx)
    }
    pub fn to_json(&self) -> serde_json::Value {
        serde_json::json!({"kind": "asset_prog", "debug": format!("{:?}", self)})
    }
}
