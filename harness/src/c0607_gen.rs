//! Generators shared by the `serde` (C06) and `dacomp` (C07) harness binaries (included with
//! `#[path]`, lib.rs is not touched).  Every random choice derives from the one `fvh::Rng`.
#![allow(dead_code)]
use fuel_tx::policies::{Policies, PolicyType};
use fuel_tx::*;
use fuel_types::ChainId;
use fvh::Rng;

pub const POLICY_TYPES: [PolicyType; 6] = [
    PolicyType::Tip,
    PolicyType::WitnessLimit,
    PolicyType::Maturity,
    PolicyType::MaxFee,
    PolicyType::Expiration,
    PolicyType::Owner,
];

pub fn chain() -> ChainId {
    ChainId::new(0x0102_0304_0506_0708)
}

pub fn b32(rng: &mut Rng) -> [u8; 32] {
    match rng.below(10) {
        0 => [0u8; 32],
        1 => [0xff; 32],
        _ => rng.bytes32(),
    }
}
/// 32 bytes drawn from a small pool (so that registry values repeat inside and across txs)
pub fn b32_pool(rng: &mut Rng, pool: u64) -> [u8; 32] {
    let k = rng.below(pool);
    let mut r = Rng::new(0xC07_0000 + k);
    if k == 0 { [0u8; 32] } else { r.bytes32() }
}
pub fn blen(rng: &mut Rng, thorough: bool, nonempty: bool) -> usize {
    let l = match rng.below(10) {
        0..=4 => rng.below(18) as usize,
        5 => 255 + rng.below(3) as usize,
        6 if thorough => 16383 + rng.below(3) as usize,
        7 => rng.range(18, 80) as usize,
        _ => rng.below(40) as usize,
    };
    if nonempty && l == 0 { 1 + rng.below(17) as usize } else { l }
}
pub fn gen_utxo(rng: &mut Rng) -> UtxoId {
    UtxoId::new(b32(rng).into(), rng.u64_biased() as u16)
}
pub fn gen_txptr(rng: &mut Rng) -> TxPointer {
    TxPointer::new((rng.u64_biased() as u32).into(), rng.u64_biased() as u16)
}
/// well-formed policies for a given mask (boundary-biased values; maturity/expiration any u64 when `wide`)
pub fn gen_policies_mask(rng: &mut Rng, mask: u32, wide: bool) -> Policies {
    let mut p = Policies::new();
    for (i, t) in POLICY_TYPES.iter().enumerate() {
        if mask & (1 << i) != 0 {
            let v = match t {
                PolicyType::Maturity | PolicyType::Expiration if !wide => rng.u64_biased() & 0xffff_ffff,
                _ => rng.u64_biased(),
            };
            p.set(*t, Some(v));
        }
    }
    p
}
pub fn gen_policies(rng: &mut Rng) -> Policies {
    let m = rng.below(64) as u32;
    gen_policies_mask(rng, m, false)
}
/// kind 0..6 in the order of `enum Input`; lengths of (predicate, predicate_data, data)
pub fn gen_input_kind(rng: &mut Rng, kind: usize, pl: usize, pdl: usize, dl: usize) -> Input {
    let amount = rng.u64_biased();
    let gas = rng.u64_biased();
    let wi = rng.u64_biased() as u16;
    match kind {
        0 => Input::coin_signed(gen_utxo(rng), b32(rng).into(), amount, b32(rng).into(), gen_txptr(rng), wi),
        1 => Input::coin_predicate(gen_utxo(rng), b32(rng).into(), amount, b32(rng).into(), gen_txptr(rng), gas, rng.bytes(pl), rng.bytes(pdl)),
        2 => Input::contract(gen_utxo(rng), b32(rng).into(), b32(rng).into(), gen_txptr(rng), b32(rng).into()),
        3 => Input::message_coin_signed(b32(rng).into(), b32(rng).into(), amount, b32(rng).into(), wi),
        4 => Input::message_coin_predicate(b32(rng).into(), b32(rng).into(), amount, b32(rng).into(), gas, rng.bytes(pl), rng.bytes(pdl)),
        5 => Input::message_data_signed(b32(rng).into(), b32(rng).into(), amount, b32(rng).into(), wi, rng.bytes(dl)),
        _ => Input::message_data_predicate(b32(rng).into(), b32(rng).into(), amount, b32(rng).into(), gas, rng.bytes(dl), rng.bytes(pl), rng.bytes(pdl)),
    }
}
pub fn gen_input(rng: &mut Rng, thorough: bool) -> Input {
    let k = rng.below(7) as usize;
    let (pl, pdl, dl) = (blen(rng, thorough, true), blen(rng, thorough, false), blen(rng, thorough, true));
    gen_input_kind(rng, k, pl, pdl, dl)
}
pub fn gen_output_kind(rng: &mut Rng, kind: usize) -> Output {
    match kind {
        0 => Output::coin(b32(rng).into(), rng.u64_biased(), b32(rng).into()),
        1 => Output::contract(rng.u64_biased() as u16, b32(rng).into(), b32(rng).into()),
        2 => Output::change(b32(rng).into(), rng.u64_biased(), b32(rng).into()),
        3 => Output::variable(b32(rng).into(), rng.u64_biased(), b32(rng).into()),
        _ => Output::contract_created(b32(rng).into(), b32(rng).into()),
    }
}
pub fn gen_output(rng: &mut Rng) -> Output {
    let k = rng.below(5) as usize;
    gen_output_kind(rng, k)
}
pub fn gen_witness(rng: &mut Rng, thorough: bool) -> Witness {
    let n = blen(rng, thorough, false);
    rng.bytes(n).into()
}
pub fn gen_receipt_kind(rng: &mut Rng, kind: usize, thorough: bool) -> Receipt {
    let id: ContractId = b32(rng).into();
    let w = |rng: &mut Rng| rng.u64_biased();
    let data = |rng: &mut Rng| -> Option<fuel_types::bytes::Bytes> {
        if rng.chance(1, 3) {
            None
        } else {
            let n = blen(rng, thorough, false);
            Some(rng.bytes(n).into())
        }
    };
    match kind {
        0 => Receipt::Call { id, to: b32(rng).into(), amount: w(rng), asset_id: b32(rng).into(), gas: w(rng), param1: w(rng), param2: w(rng), pc: w(rng), is: w(rng) },
        1 => Receipt::Return { id, val: w(rng), pc: w(rng), is: w(rng) },
        2 => Receipt::ReturnData { id, ptr: w(rng), len: w(rng), digest: b32(rng).into(), pc: w(rng), is: w(rng), data: data(rng) },
        3 => Receipt::Panic {
            id,
            reason: fuel_asm::PanicInstruction::error(fuel_asm::PanicReason::from(rng.below(0x40) as u8), rng.u64_biased() as u32),
            pc: w(rng),
            is: w(rng),
            contract_id: if rng.bool() { Some(b32(rng).into()) } else { None },
        },
        4 => Receipt::Revert { id, ra: w(rng), pc: w(rng), is: w(rng) },
        5 => Receipt::Log { id, ra: w(rng), rb: w(rng), rc: w(rng), rd: w(rng), pc: w(rng), is: w(rng) },
        6 => Receipt::LogData { id, ra: w(rng), rb: w(rng), ptr: w(rng), len: w(rng), digest: b32(rng).into(), pc: w(rng), is: w(rng), data: data(rng) },
        7 => Receipt::Transfer { id, to: b32(rng).into(), amount: w(rng), asset_id: b32(rng).into(), pc: w(rng), is: w(rng) },
        8 => Receipt::TransferOut { id, to: b32(rng).into(), amount: w(rng), asset_id: b32(rng).into(), pc: w(rng), is: w(rng) },
        9 => Receipt::ScriptResult {
            result: match rng.below(5) {
                0 => ScriptExecutionResult::Success,
                1 => ScriptExecutionResult::Revert,
                2 => ScriptExecutionResult::Panic,
                3 => ScriptExecutionResult::GenericFailure(rng.below(4)),
                _ => ScriptExecutionResult::GenericFailure(w(rng)),
            },
            gas_used: w(rng),
        },
        10 => Receipt::MessageOut { sender: b32(rng).into(), recipient: b32(rng).into(), amount: w(rng), nonce: b32(rng).into(), len: w(rng), digest: b32(rng).into(), data: data(rng) },
        11 => Receipt::Mint { sub_id: b32(rng).into(), contract_id: id, val: w(rng), pc: w(rng), is: w(rng) },
        _ => Receipt::Burn { sub_id: b32(rng).into(), contract_id: id, val: w(rng), pc: w(rng), is: w(rng) },
    }
}
pub const RECEIPT_KINDS: usize = 13;
pub fn receipt_kind_name(r: &Receipt) -> &'static str {
    match r {
        Receipt::Call { .. } => "Call",
        Receipt::Return { .. } => "Return",
        Receipt::ReturnData { .. } => "ReturnData",
        Receipt::Panic { .. } => "Panic",
        Receipt::Revert { .. } => "Revert",
        Receipt::Log { .. } => "Log",
        Receipt::LogData { .. } => "LogData",
        Receipt::Transfer { .. } => "Transfer",
        Receipt::TransferOut { .. } => "TransferOut",
        Receipt::ScriptResult { .. } => "ScriptResult",
        Receipt::MessageOut { .. } => "MessageOut",
        Receipt::Mint { .. } => "Mint",
        Receipt::Burn { .. } => "Burn",
    }
}
pub fn gen_purpose(rng: &mut Rng) -> UpgradePurpose {
    if rng.bool() {
        UpgradePurpose::ConsensusParameters { witness_index: rng.u64_biased() as u16, checksum: b32(rng).into() }
    } else {
        UpgradePurpose::StateTransition { root: b32(rng).into() }
    }
}
pub struct Parts {
    pub policies: Policies,
    pub inputs: Vec<Input>,
    pub outputs: Vec<Output>,
    pub witnesses: Vec<Witness>,
}
pub fn gen_parts(rng: &mut Rng, thorough: bool) -> Parts {
    let ni = rng.below(5) as usize;
    let no = rng.below(5) as usize;
    let nw = rng.below(4) as usize;
    Parts {
        policies: gen_policies(rng),
        inputs: (0..ni).map(|_| gen_input(rng, thorough)).collect(),
        outputs: (0..no).map(|_| gen_output(rng)).collect(),
        witnesses: (0..nw).map(|_| gen_witness(rng, thorough)).collect(),
    }
}
pub const TX_KINDS: [&str; 6] = ["Script", "Create", "Mint", "Upgrade", "Upload", "Blob"];
pub fn tx_kind_name(tx: &Transaction) -> &'static str {
    match tx {
        Transaction::Script(_) => "Script",
        Transaction::Create(_) => "Create",
        Transaction::Mint(_) => "Mint",
        Transaction::Upgrade(_) => "Upgrade",
        Transaction::Upload(_) => "Upload",
        Transaction::Blob(_) => "Blob",
    }
}
pub fn gen_tx_from_parts(rng: &mut Rng, kind: usize, thorough: bool, p: Parts) -> Transaction {
    match kind {
        0 => {
            let (sl, dl) = (blen(rng, thorough, false), blen(rng, thorough, false));
            let mut t = Transaction::script(rng.u64_biased(), rng.bytes(sl), rng.bytes(dl), p.policies, p.inputs, p.outputs, p.witnesses);
            use fuel_tx::field::ReceiptsRoot;
            *t.receipts_root_mut() = b32(rng).into();
            t.into()
        }
        1 => {
            let ns = rng.below(4) as usize;
            let slots = (0..ns).map(|_| StorageSlot::new(b32(rng).into(), b32(rng).into())).collect();
            Transaction::create(rng.u64_biased() as u16, p.policies, b32(rng).into(), slots, p.inputs, p.outputs, p.witnesses).into()
        }
        2 => Transaction::mint(
            gen_txptr(rng),
            fuel_tx::input::contract::Contract { utxo_id: gen_utxo(rng), balance_root: b32(rng).into(), state_root: b32(rng).into(), tx_pointer: gen_txptr(rng), contract_id: b32(rng).into() },
            fuel_tx::output::contract::Contract { input_index: rng.u64_biased() as u16, balance_root: b32(rng).into(), state_root: b32(rng).into() },
            rng.u64_biased(),
            b32(rng).into(),
            rng.u64_biased(),
        )
        .into(),
        3 => Transaction::upgrade(gen_purpose(rng), p.policies, p.inputs, p.outputs, p.witnesses).into(),
        4 => {
            let np = rng.below(5) as usize;
            let body = UploadBody {
                root: b32(rng).into(),
                witness_index: rng.u64_biased() as u16,
                subsection_index: rng.u64_biased() as u16,
                subsections_number: rng.u64_biased() as u16,
                proof_set: (0..np).map(|_| b32(rng).into()).collect(),
            };
            Transaction::upload(body, p.policies, p.inputs, p.outputs, p.witnesses).into()
        }
        _ => Transaction::blob(BlobBody { id: b32(rng).into(), witness_index: rng.u64_biased() as u16 }, p.policies, p.inputs, p.outputs, p.witnesses).into(),
    }
}
pub fn gen_tx_kind(rng: &mut Rng, kind: usize, thorough: bool) -> Transaction {
    let p = gen_parts(rng, thorough);
    gen_tx_from_parts(rng, kind, thorough, p)
}
