(* Fee/FeeSpec.v — L3 specification of C18, written from the property text only.

   "both fees equal the ceiling of gas times price divided by the factor plus the tip.
    The refund for a used-gas amount equals the fee limit minus
    (ceil((minimum gas + used gas) x price / factor) + tip)".

   Everything is over unbounded integers Z; no machine arithmetic appears here. *)
From Coq Require Import ZArith.
Open Scope Z_scope.

(* q is the ceiling of the rational a / b  (b > 0): the least integer with a <= q * b *)
Definition is_ceil (a b q : Z) : Prop := (q - 1) * b < a <= q * b.

(* closed form of the ceiling for b > 0 under Coq's floor division *)
Definition ceil_div (a b : Z) : Z := (a + b - 1) / b.

(* fee charged for [gas] units at [price] with price factor [factor], plus the tip *)
Definition fee_spec (gas price factor tip : Z) : Z := ceil_div (gas * price) factor + tip.

(* refund for [used] gas on top of the minimum gas; may be negative = "nothing to refund,
   the limit does not cover the used fee" *)
Definition refund_spec (limit min_gas used price factor tip : Z) : Z :=
  limit - fee_spec (min_gas + used) price factor tip.
