(* Fee/FeeModel.v — L1 executable model of the fee / refund arithmetic of fuel-tx
   (fuel-tx/src/transaction/fee.rs, per-kind overrides in types/{script,create,upgrade,
   upload,blob}.rs, DependentCost::resolve in consensus_parameters/gas.rs) and of
   Checked::into_ready (fuel-vm/src/checked_transaction.rs).

   Definitions only.  Every Rust function is mirrored one to one; u64 / u128 operations are
   written with the explicit saturating / checked operations of Base/U64.v.  A host panic
   (`expect`, division by zero) is the constructor [Panic] of [outcome]; Rust's own
   `Option`/`Result` values are ordinary values inside [Ret]. *)
From FV Require Import Base.Bytes Base.U64.
Open Scope N_scope.

(* ---------------------------------------------------------------- panics *)
Inductive outcome (A : Type) : Type := Ret (a : A) | Panic.
Arguments Ret {A} a.
Arguments Panic {A}.

Definition obind {A B} (o : outcome A) (f : A -> outcome B) : outcome B :=
  match o with Ret a => f a | Panic => Panic end.
Notation "'run' x <- o ; k" := (obind o (fun x => k))
  (at level 200, x name, o at level 100, k at level 200).

Definition sadd64 (a b : N) : N := saturating_add U64 a b.
Definition smul64 (a b : N) : N := saturating_mul U64 a b.

(* ---------------------------------------------------------------- configuration *)
(* DependentCost (gas.rs): LightOperation { base, units_per_gas } | HeavyOperation { base, gas_per_unit } *)
Inductive dep_cost : Type :=
| Light (base units_per_gas : N)
| Heavy (base gas_per_unit : N).

(* the GasCosts fields the fee code reads *)
Record gas_costs : Type := mk_gas_costs {
  gc_eck1 : N;
  gc_contract_root : dep_cost;
  gc_state_root : dep_cost;
  gc_s256 : dep_cost;
  gc_vm_init : dep_cost;
  gc_new_storage_per_byte : N;
}.

(* FeeParameters: gas_price_factor, gas_per_byte *)
Record fee_params : Type := mk_fee_params {
  fp_factor : N;
  fp_gas_per_byte : N;
}.

(* ---------------------------------------------------------------- the transaction, as the
   record of quantities the fee code reads from it *)
Inductive input_q : Type :=
| InSigned (witness_index : N)             (* CoinSigned / MessageCoinSigned / MessageDataSigned *)
| InPredicate (predicate_len predicate_gas_used : N)   (* the three predicate variants *)
| InOther.                                 (* Input::Contract *)

Inductive tx_body : Type :=
| BScript (script_gas_limit : N)
| BCreate (bytecode_witness_index storage_slots : N)
| BUpgradeConsensus (witness_index : N)    (* UpgradePurpose::ConsensusParameters *)
| BUpgradeState                            (* UpgradePurpose::StateTransition *)
| BUpload (witness_index subsections_number : N)
| BBlob (witness_index : N).

Record tx_q : Type := mk_tx {
  tq_body : tx_body;
  tq_bytes : N;                 (* Serialize::size(tx) = metered_bytes_size *)
  tq_inputs : list input_q;
  tq_witnesses : list N;        (* byte length of every witness, in order *)
  tq_wit_dyn : N;               (* witnesses().size_dynamic() *)
  tq_witness_limit : N;         (* policies: unwrap_or(0) *)
  tq_tip : N;
  tq_max_fee_limit : N;
  tq_expiration : N;            (* expiration(): u32::MAX when unset *)
}.

(* witnesses.get(i).map(len).unwrap_or(0) *)
Definition witness_len (tx : tx_q) (i : N) : N := nth (N.to_nat i) (tq_witnesses tx) 0.

(* ---------------------------------------------------------------- DependentCost::resolve *)
Definition dc_base (c : dep_cost) : N := match c with Light b _ => b | Heavy b _ => b end.

Definition resolve_without_base (c : dep_cost) (units : N) : outcome N :=
  match c with
  | Light _ upg => if upg =? 0 then Panic            (* checked_div(..).expect(..) *)
                   else Ret (units / upg)
  | Heavy _ gpu => Ret (smul64 units gpu)
  end.

Definition resolve (c : dep_cost) (units : N) : outcome N :=
  run d <- resolve_without_base c units;
  Ret (sadd64 (dc_base c) d).

(* ---------------------------------------------------------------- gas_used_by_inputs
   filter (with the HashSet<u16> of already seen witness indices) + map + fold, fused as the
   iterator chain runs them: one input at a time, in order. *)
Fixpoint inputs_gas (gc : gas_costs) (bytes : N) (ins : list input_q) (cache : list N) (acc : N)
  : outcome N :=
  match ins with
  | [] => Ret acc
  | InSigned wi :: r =>
      if existsb (N.eqb wi) cache then inputs_gas gc bytes r cache acc
      else inputs_gas gc bytes r (wi :: cache) (sadd64 acc (gc_eck1 gc))
  | InPredicate plen pgas :: r =>
      run vi <- resolve (gc_vm_init gc) bytes;
      run cr <- resolve (gc_contract_root gc) plen;
      inputs_gas gc bytes r cache (sadd64 acc (sadd64 (sadd64 cr pgas) vi))
  | InOther :: r => inputs_gas gc bytes r cache acc
  end.

Definition gas_used_by_inputs (gc : gas_costs) (tx : tx_q) : outcome N :=
  inputs_gas gc (tq_bytes tx) (tq_inputs tx) [] 0.

(* ---------------------------------------------------------------- gas_used_by_metadata *)
(* Bytes4::LEN + Salt::LEN + Bytes32::LEN + Bytes32::LEN *)
Definition contract_id_input_length : N := 100.

Definition gas_used_by_metadata (gc : gas_costs) (tx : tx_q) : outcome N :=
  match tq_body tx with
  | BScript _ => resolve (gc_s256 gc) (tq_bytes tx)
  | BCreate bwi slots =>
      run contract_root_gas <- resolve (gc_contract_root gc) (witness_len tx bwi);
      run state_root_gas <- resolve (gc_state_root gc) slots;
      run contract_id_gas <- resolve (gc_s256 gc) contract_id_input_length;
      run tx_id_gas <- resolve (gc_s256 gc) (tq_bytes tx);
      Ret (sadd64 (sadd64 (sadd64 contract_root_gas state_root_gas) contract_id_gas) tx_id_gas)
  | BUpgradeConsensus wi =>
      run tx_id_gas <- resolve (gc_s256 gc) (tq_bytes tx);
      run purpose_gas <- resolve (gc_s256 gc) (witness_len tx wi);
      Ret (sadd64 tx_id_gas purpose_gas)
  | BUpgradeState =>
      run tx_id_gas <- resolve (gc_s256 gc) (tq_bytes tx);
      Ret (sadd64 tx_id_gas 0)
  | BUpload wi subsections =>
      run tx_id_gas <- resolve (gc_s256 gc) (tq_bytes tx);
      run leaf_hash_gas <- resolve (gc_s256 gc) (witness_len tx wi);
      run verify_proof_gas <- resolve (gc_state_root gc) subsections;
      Ret (sadd64 (sadd64 tx_id_gas leaf_hash_gas) verify_proof_gas)
  | BBlob wi =>
      run tx_id_gas <- resolve (gc_s256 gc) (tq_bytes tx);
      run blob_gas <- resolve (gc_s256 gc) (witness_len tx wi);
      Ret (sadd64 tx_id_gas blob_gas)
  end.

(* ---------------------------------------------------------------- min_gas / max_gas *)
(* the free function fee::min_gas *)
Definition min_gas_generic (gc : gas_costs) (fp : fee_params) (tx : tx_q) : outcome N :=
  run vm_initialization_gas <- resolve (gc_vm_init gc) (tq_bytes tx);
  let bytes_gas := smul64 (fp_gas_per_byte fp) (tq_bytes tx) in
  run inputs <- gas_used_by_inputs gc tx;
  run metadata <- gas_used_by_metadata gc tx;
  Ret (sadd64 (sadd64 (sadd64 inputs metadata) bytes_gas) vm_initialization_gas).

(* Chargeable::min_gas: default = the free function; Upload adds the storage charge *)
Definition min_gas (gc : gas_costs) (fp : fee_params) (tx : tx_q) : outcome N :=
  match tq_body tx with
  | BUpload wi _ =>
      let additional_charge_for_storage := smul64 (gc_new_storage_per_byte gc) (witness_len tx wi) in
      run g <- min_gas_generic gc fp tx;
      Ret (sadd64 g additional_charge_for_storage)
  | _ => min_gas_generic gc fp tx
  end.

(* Chargeable::max_gas: default, and the Script override that adds script_gas_limit *)
Definition max_gas (gc : gas_costs) (fp : fee_params) (tx : tx_q) : outcome N :=
  let remaining_allowed_witness_gas :=
    smul64 (saturating_sub (tq_witness_limit tx) (tq_wit_dyn tx)) (fp_gas_per_byte fp) in
  run m <- min_gas gc fp tx;
  match tq_body tx with
  | BScript gas_limit => Ret (sadd64 (sadd64 m remaining_allowed_witness_gas) gas_limit)
  | _ => Ret (sadd64 m remaining_allowed_witness_gas)
  end.

(* ---------------------------------------------------------------- gas_to_fee *)
(* u128::div_ceil: d = a / b; r = a % b; if r > 0 { d + 1 } else { d }; panics when b = 0 *)
Definition div_ceil (a b : N) : N := if 0 <? a mod b then a / b + 1 else a / b.

Definition gas_to_fee (gas price factor : N) : outcome N :=
  match checked_mul U128 gas price with
  | None => Panic                               (* .expect("Impossible to overflow ...") *)
  | Some total_price => if factor =? 0 then Panic else Ret (div_ceil total_price factor)
  end.

(* ---------------------------------------------------------------- fees (u128 results) *)
Definition min_fee (gc : gas_costs) (fp : fee_params) (tx : tx_q) (price : N) : outcome N :=
  run g <- min_gas gc fp tx;
  run gas_fee <- gas_to_fee g price (fp_factor fp);
  Ret (saturating_add U128 gas_fee (tq_tip tx)).

Definition max_fee (gc : gas_costs) (fp : fee_params) (tx : tx_q) (price : N) : outcome N :=
  run g <- max_gas gc fp tx;
  run gas_fee <- gas_to_fee g price (fp_factor fp);
  Ret (saturating_add U128 gas_fee (tq_tip tx)).

(* u64::try_from(u128).ok() *)
Definition try_u64 (x : N) : option N := if x <? U64 then Some x else None.

(* Chargeable::refund_fee -> Option<Word>.  The sum min_gas + used_gas is taken in u128 (it
   cannot saturate there); `checked_mul(..)?` returns None before the division is reached. *)
Definition refund_fee (gc : gas_costs) (fp : fee_params) (tx : tx_q) (used_gas price : N)
  : outcome (option N) :=
  run m <- min_gas gc fp tx;
  let total_used_gas := saturating_add U128 m used_gas in
  match checked_mul U128 total_used_gas price with
  | None => Ret None
  | Some total_price =>
      if fp_factor fp =? 0 then Panic                         (* u128::div_ceil by zero *)
      else
        let used_fee := saturating_add U128 (div_ceil total_price (fp_factor fp)) (tq_tip tx) in
        Ret (do used_fee64 <- try_u64 used_fee; checked_sub (tq_max_fee_limit tx) used_fee64)
  end.

(* ---------------------------------------------------------------- TransactionFee *)
Record tx_fee : Type := mk_tx_fee { tf_min_fee : N; tf_max_fee : N; tf_min_gas : N; tf_max_gas : N }.

Definition checked_from_tx (gc : gas_costs) (fp : fee_params) (tx : tx_q) (price : N)
  : outcome (option tx_fee) :=
  run ming <- min_gas gc fp tx;
  run maxg <- max_gas gc fp tx;
  run minf <- min_fee gc fp tx price;
  match try_u64 minf with
  | None => Ret None
  | Some minf64 =>
      run maxf <- max_fee gc fp tx price;
      match try_u64 maxf with
      | None => Ret None
      | Some maxf64 =>
          if maxf64 <? minf64 then Ret None
          else Ret (Some (mk_tx_fee minf64 maxf64 ming maxg))
      end
  end.

(* ---------------------------------------------------------------- Checked::into_ready *)
Inductive ready_error : Type :=
| BalanceOverflow
| TransactionExpiration
| InsufficientMaxFee (max_fee_from_policies max_fee_from_gas_price : N).

Inductive ready_result : Type := ReadyOk | ReadyErr (e : ready_error).

Definition into_ready (gc : gas_costs) (fp : fee_params) (tx : tx_q) (price : N)
           (block_height : option N) : outcome ready_result :=
  run ofee <- checked_from_tx gc fp tx price;
  match ofee with
  | None => Ret (ReadyErr BalanceOverflow)
  | Some fee =>
      let max_fee_from_policies := tq_max_fee_limit tx in
      let max_fee_from_gas_price := tf_max_fee fee in
      let expired := match block_height with
                     | Some h => tq_expiration tx <? h
                     | None => false
                     end in
      if expired then Ret (ReadyErr TransactionExpiration)
      else if max_fee_from_policies <? max_fee_from_gas_price
           then Ret (ReadyErr (InsufficientMaxFee max_fee_from_policies max_fee_from_gas_price))
           else Ret ReadyOk
  end.

(* "the computation does not panic" *)
Definition returns {A} (o : outcome A) : Prop := exists a, o = Ret a.

(* ---------------------------------------------------------------- documented precondition
   gas.rs: "units_per_gas ... This must be nonzero."  Only the four dependent costs the fee
   code resolves are constrained. *)
Definition upg_ok (c : dep_cost) : bool :=
  match c with Light _ upg => 1 <=? upg | Heavy _ _ => true end.
Definition wf_costs (gc : gas_costs) : bool :=
  upg_ok (gc_contract_root gc) && upg_ok (gc_state_root gc) && upg_ok (gc_s256 gc) && upg_ok (gc_vm_init gc).
