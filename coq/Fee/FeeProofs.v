(* Fee/FeeProofs.v — proofs about the fee / refund model (Fee/FeeModel.v) against the exact
   integer formulas of Fee/FeeSpec.v.  Property C18. *)
From Coq Require Import ZArith Lia ZifyBool ZifyN.
From FV Require Import Base.Bytes Base.U64 Fee.FeeSpec Fee.FeeModel.
Open Scope N_scope.

(* ------------------------------------------------------------------ ceiling *)
Lemma ceil_div_is_ceil (a b : Z) : (0 < b)%Z -> is_ceil a b (ceil_div a b).
Proof.
  intros Hb. unfold is_ceil, ceil_div.
  pose proof (Z.div_mod (a + b - 1) b ltac:(lia)) as E.
  pose proof (Z.mod_pos_bound (a + b - 1) b Hb) as L.
  nia.
Qed.

Lemma is_ceil_unique (a b q1 q2 : Z) : (0 < b)%Z -> is_ceil a b q1 -> is_ceil a b q2 -> q1 = q2.
Proof. unfold is_ceil. intros Hb [A1 A2] [B1 B2]. nia. Qed.

Lemma ceil_is_ceiling (a b : Z) : (0 < b)%Z ->
  is_ceil a b (ceil_div a b) /\ (forall q : Z, is_ceil a b q -> q = ceil_div a b).
Proof.
  intros Hb. split; [apply ceil_div_is_ceil; assumption|].
  intros q Hq. eapply is_ceil_unique; [exact Hb | exact Hq | apply ceil_div_is_ceil; assumption].
Qed.

Lemma ceil_div_mono (a1 a2 b : Z) : (0 < b)%Z -> (a1 <= a2)%Z -> (ceil_div a1 b <= ceil_div a2 b)%Z.
Proof. intros Hb H. unfold ceil_div. apply Z.div_le_mono; lia. Qed.

Lemma ceil_div_nonneg (a b : Z) : (0 < b)%Z -> (0 <= a)%Z -> (0 <= ceil_div a b)%Z.
Proof. intros Hb Ha. unfold ceil_div. apply Z.div_pos; lia. Qed.

Lemma ceil_div_le_self (a b : Z) : (0 < b)%Z -> (0 <= a)%Z -> (ceil_div a b <= a)%Z.
Proof.
  intros Hb Ha. pose proof (ceil_div_is_ceil a b Hb) as [H1 H2].
  set (q := ceil_div a b) in *. nia.
Qed.

(* Rust's u128::div_ceil (quotient, +1 when the remainder is positive) is the ceiling *)
Lemma div_ceil_spec a b : 0 < b -> Z.of_N (div_ceil a b) = ceil_div (Z.of_N a) (Z.of_N b).
Proof.
  intros Hb. unfold div_ceil, ceil_div.
  pose proof (N.div_mod' a b) as E. pose proof (N.mod_lt a b ltac:(lia)) as L.
  set (q := a / b) in *. set (r := a mod b) in *.
  destruct (0 <? r) eqn:Er.
  - apply Z.div_unique with (r := (Z.of_N r - 1)%Z); lia.
  - apply Z.div_unique with (r := (Z.of_N b - 1)%Z); lia.
Qed.

Lemma div_ceil_mono a1 a2 b : 0 < b -> a1 <= a2 -> div_ceil a1 b <= div_ceil a2 b.
Proof.
  intros Hb H.
  pose proof (div_ceil_spec a1 b Hb). pose proof (div_ceil_spec a2 b Hb).
  pose proof (ceil_div_mono (Z.of_N a1) (Z.of_N a2) (Z.of_N b) ltac:(lia) ltac:(lia)). lia.
Qed.

Lemma div_ceil_le_self a b : 0 < b -> div_ceil a b <= a.
Proof.
  intros Hb. pose proof (div_ceil_spec a b Hb).
  pose proof (ceil_div_le_self (Z.of_N a) (Z.of_N b) ltac:(lia) ltac:(lia)). lia.
Qed.

(* ------------------------------------------------------------------ saturating u64 ops *)
Lemma sadd64_bound a b : sadd64 a b < U64.
Proof. unfold sadd64, saturating_add, U64. lia. Qed.

Lemma sadd64_ge_l a b : a < U64 -> a <= sadd64 a b.
Proof. unfold sadd64, saturating_add, U64. lia. Qed.

Lemma sadd64_mono a a' b b' : a <= a' -> b <= b' -> sadd64 a b <= sadd64 a' b'.
Proof. unfold sadd64, saturating_add, U64. lia. Qed.

Lemma sadd64_exact a b : a + b < U64 -> sadd64 a b = a + b.
Proof. unfold sadd64, saturating_add, U64. lia. Qed.

Lemma sadd64_le_sum a b : sadd64 a b <= a + b.
Proof. unfold sadd64, saturating_add, U64. lia. Qed.

(* ------------------------------------------------------------------ the panic monad *)
Lemma obind_ret {A B} (o : outcome A) (f : A -> outcome B) (b : B) :
  obind o f = Ret b -> exists a, o = Ret a /\ f a = Ret b.
Proof. destruct o; cbn [obind]; intros H; [eauto | discriminate]. Qed.

Ltac inv_run H :=
  repeat match type of H with
         | obind ?o ?f = Ret ?b =>
             let a := fresh "v" in let E := fresh "E" in
             apply obind_ret in H; destruct H as (a & E & H)
         end.

(* ------------------------------------------------------------------ gas is a u64 *)
Lemma min_gas_generic_bound gc fp tx g : min_gas_generic gc fp tx = Ret g -> g < U64.
Proof.
  unfold min_gas_generic. intros H. inv_run H. injection H as <-. apply sadd64_bound.
Qed.

Lemma min_gas_bound gc fp tx g : min_gas gc fp tx = Ret g -> g < U64.
Proof.
  unfold min_gas. intros H.
  destruct (tq_body tx); try (eapply min_gas_generic_bound; eassumption).
  inv_run H. injection H as <-. apply sadd64_bound.
Qed.

Lemma max_gas_inv gc fp tx M :
  max_gas gc fp tx = Ret M -> exists m, min_gas gc fp tx = Ret m /\ m <= M /\ M < U64.
Proof.
  unfold max_gas. intros H. inv_run H. exists v. split; [assumption|].
  pose proof (min_gas_bound _ _ _ _ E) as Hb.
  set (w := smul64 _ _) in *.
  destruct (tq_body tx); injection H as <-; split; try apply sadd64_bound.
  - pose proof (sadd64_ge_l v w Hb). pose proof (sadd64_ge_l (sadd64 v w) script_gas_limit (sadd64_bound _ _)). lia.
  - apply sadd64_ge_l; assumption.
  - apply sadd64_ge_l; assumption.
  - apply sadd64_ge_l; assumption.
  - apply sadd64_ge_l; assumption.
  - apply sadd64_ge_l; assumption.
Qed.

Lemma max_gas_of_min gc fp tx m :
  min_gas gc fp tx = Ret m -> exists M, max_gas gc fp tx = Ret M.
Proof.
  intros H. unfold max_gas. rewrite H. cbn [obind]. destruct (tq_body tx); eauto.
Qed.

Lemma gas_mono gc fp tx m :
  min_gas gc fp tx = Ret m -> exists M, max_gas gc fp tx = Ret M /\ m <= M /\ M < U64.
Proof.
  intros H. destruct (max_gas_of_min _ _ _ _ H) as [M HM]. exists M. split; [assumption|].
  destruct (max_gas_inv _ _ _ _ HM) as (m' & Hm' & Hle & Hb). rewrite H in Hm'. injection Hm' as <-. auto.
Qed.

(* ------------------------------------------------------------------ gas_to_fee *)
Lemma mul_u64_lt_u128 g p : g < U64 -> p < U64 -> g * p < U128.
Proof.
  intros Hg Hp. unfold U64, U128 in *.
  assert (g * p <= 18446744073709551615 * 18446744073709551615) by (apply N.mul_le_mono; lia).
  lia.
Qed.

Lemma gas_to_fee_ok g p f :
  g < U64 -> p < U64 -> 1 <= f -> gas_to_fee g p f = Ret (div_ceil (g * p) f).
Proof.
  intros Hg Hp Hf. unfold gas_to_fee, checked_mul.
  pose proof (mul_u64_lt_u128 g p Hg Hp) as L.
  destruct (g * p <? U128) eqn:E; [|lia].
  destruct (f =? 0) eqn:E0; [lia|reflexivity].
Qed.

Lemma gas_to_fee_ret g p f x :
  gas_to_fee g p f = Ret x -> g * p < U128 /\ 0 < f /\ x = div_ceil (g * p) f.
Proof.
  unfold gas_to_fee, checked_mul. destruct (g * p <? U128) eqn:E; [|discriminate].
  destruct (f =? 0) eqn:E0; [discriminate|]. intros H; injection H as <-. repeat split; lia.
Qed.

Lemma gas_to_fee_factor_zero g p : gas_to_fee g p 0 = Panic.
Proof. unfold gas_to_fee. destruct (checked_mul U128 g p); reflexivity. Qed.

(* gas fee + tip always fits a u128: the saturating add never saturates *)
Lemma fee_fits_u128 g p f tip :
  g < U64 -> p < U64 -> 1 <= f -> tip < U64 ->
  saturating_add U128 (div_ceil (g * p) f) tip = div_ceil (g * p) f + tip.
Proof.
  intros Hg Hp Hf Ht.
  pose proof (div_ceil_le_self (g * p) f ltac:(lia)) as L.
  unfold U64, U128 in *.
  assert (g * p <= 18446744073709551615 * 18446744073709551615) by (apply N.mul_le_mono; lia).
  unfold saturating_add, U128. lia.
Qed.

Lemma fee_value_spec g p f tip :
  0 < f ->
  Z.of_N (div_ceil (g * p) f + tip) = fee_spec (Z.of_N g) (Z.of_N p) (Z.of_N f) (Z.of_N tip).
Proof.
  intros Hf. unfold fee_spec. rewrite N2Z.inj_add, div_ceil_spec by assumption.
  rewrite N2Z.inj_mul. reflexivity.
Qed.

Lemma fee_spec_mono g1 g2 p f tip :
  (0 < f)%Z -> (0 <= p)%Z -> (g1 <= g2)%Z -> (fee_spec g1 p f tip <= fee_spec g2 p f tip)%Z.
Proof.
  intros Hf Hp Hg. unfold fee_spec.
  pose proof (ceil_div_mono (g1 * p) (g2 * p) f Hf ltac:(nia)). lia.
Qed.

Lemma fee_spec_nonneg g p f tip :
  (0 < f)%Z -> (0 <= p)%Z -> (0 <= g)%Z -> (0 <= tip)%Z -> (0 <= fee_spec g p f tip)%Z.
Proof.
  intros. unfold fee_spec. pose proof (ceil_div_nonneg (g * p) f ltac:(lia) ltac:(nia)). lia.
Qed.

(* ------------------------------------------------------------------ fee formula *)
Lemma fee_of_gas_formula g price factor tip :
  g < U64 -> price < U64 -> 1 <= factor -> tip < U64 ->
  exists f,
    (run gas_fee <- gas_to_fee g price factor; Ret (saturating_add U128 gas_fee tip)) = Ret f /\
    Z.of_N f = fee_spec (Z.of_N g) (Z.of_N price) (Z.of_N factor) (Z.of_N tip) /\
    f < U128.
Proof.
  intros Hg Hp Hf Ht. rewrite gas_to_fee_ok by assumption. cbn [obind].
  rewrite fee_fits_u128 by assumption. eexists; split; [reflexivity|]. split.
  - apply fee_value_spec; lia.
  - pose proof (fee_fits_u128 g price factor tip Hg Hp Hf Ht) as E.
    unfold saturating_add in E. unfold U128 in *. lia.
Qed.

Lemma fee_formula gc fp tx price m M :
  1 <= fp_factor fp -> price < U64 -> tq_tip tx < U64 ->
  min_gas gc fp tx = Ret m -> max_gas gc fp tx = Ret M ->
  exists fmin fmax,
    min_fee gc fp tx price = Ret fmin /\ max_fee gc fp tx price = Ret fmax /\
    Z.of_N fmin = fee_spec (Z.of_N m) (Z.of_N price) (Z.of_N (fp_factor fp)) (Z.of_N (tq_tip tx)) /\
    Z.of_N fmax = fee_spec (Z.of_N M) (Z.of_N price) (Z.of_N (fp_factor fp)) (Z.of_N (tq_tip tx)) /\
    fmin <= fmax.
Proof.
  intros Hf Hp Ht Hm HM.
  pose proof (min_gas_bound _ _ _ _ Hm) as Bm.
  destruct (max_gas_inv _ _ _ _ HM) as (m' & Hm' & Hle & BM).
  rewrite Hm in Hm'. injection Hm' as <-.
  destruct (fee_of_gas_formula m price (fp_factor fp) (tq_tip tx) Bm Hp Hf Ht) as (fmin & E1 & S1 & _).
  destruct (fee_of_gas_formula M price (fp_factor fp) (tq_tip tx) BM Hp Hf Ht) as (fmax & E2 & S2 & _).
  exists fmin, fmax. unfold min_fee, max_fee. rewrite Hm, HM. cbn [obind].
  repeat split; try assumption.
  pose proof (fee_spec_mono (Z.of_N m) (Z.of_N M) (Z.of_N price) (Z.of_N (fp_factor fp)) (Z.of_N (tq_tip tx))
                ltac:(lia) ltac:(lia) ltac:(lia)). lia.
Qed.

(* monotonicity needs no range hypothesis at all *)
Lemma fee_mono gc fp tx price a b :
  min_fee gc fp tx price = Ret a -> max_fee gc fp tx price = Ret b -> a <= b.
Proof.
  unfold min_fee, max_fee. intros Ha Hb. inv_run Ha. inv_run Hb.
  injection Ha as <-. injection Hb as <-.
  destruct (max_gas_inv _ _ _ _ E1) as (m & Hm & Hle & _). rewrite E in Hm. injection Hm as <-.
  apply gas_to_fee_ret in E0 as (_ & Hf & ->). apply gas_to_fee_ret in E2 as (_ & _ & ->).
  pose proof (div_ceil_mono (v * price) (v1 * price) (fp_factor fp) Hf ltac:(apply N.mul_le_mono_r; assumption)).
  unfold saturating_add. lia.
Qed.

(* ------------------------------------------------------------------ checked_from_tx *)
Lemma try_u64_some x : x < U64 -> try_u64 x = Some x.
Proof. unfold try_u64. intros H. destruct (x <? U64) eqn:E; [reflexivity|lia]. Qed.
Lemma try_u64_none x : U64 <= x -> try_u64 x = None.
Proof. unfold try_u64. intros H. destruct (x <? U64) eqn:E; [lia|reflexivity]. Qed.

Lemma checked_from_tx_char gc fp tx price m M :
  1 <= fp_factor fp -> price < U64 -> tq_tip tx < U64 ->
  min_gas gc fp tx = Ret m -> max_gas gc fp tx = Ret M ->
  let Fm := fee_spec (Z.of_N m) (Z.of_N price) (Z.of_N (fp_factor fp)) (Z.of_N (tq_tip tx)) in
  let FM := fee_spec (Z.of_N M) (Z.of_N price) (Z.of_N (fp_factor fp)) (Z.of_N (tq_tip tx)) in
  checked_from_tx gc fp tx price =
    Ret (if (FM <? Z.of_N U64)%Z then Some (mk_tx_fee (Z.to_N Fm) (Z.to_N FM) m M) else None).
Proof.
  intros Hf Hp Ht Hm HM Fm FM.
  destruct (fee_formula gc fp tx price m M Hf Hp Ht Hm HM) as (fmin & fmax & E1 & E2 & S1 & S2 & Hle).
  fold Fm in S1. fold FM in S2.
  unfold checked_from_tx. rewrite Hm, HM, E1. cbn [obind].
  destruct (FM <? Z.of_N U64)%Z eqn:EF.
  - rewrite try_u64_some by lia. rewrite E2. cbn [obind]. rewrite try_u64_some by lia.
    destruct (fmax <? fmin) eqn:EC; [lia|].
    rewrite <- S1, <- S2, !N2Z.id. reflexivity.
  - destruct (fmin <? U64) eqn:Em.
    + rewrite try_u64_some by lia. rewrite E2. cbn [obind]. rewrite try_u64_none by lia. reflexivity.
    + rewrite try_u64_none by lia. reflexivity.
Qed.

(* whatever the inputs, a returned TransactionFee is ordered (the `min_fee > max_fee` test
   of checked_from_tx can never fire) *)
Lemma checked_from_tx_ordered gc fp tx price fee :
  checked_from_tx gc fp tx price = Ret (Some fee) ->
  tf_min_gas fee <= tf_max_gas fee /\ tf_min_fee fee <= tf_max_fee fee /\
  min_gas gc fp tx = Ret (tf_min_gas fee) /\ max_gas gc fp tx = Ret (tf_max_gas fee) /\
  min_fee gc fp tx price = Ret (tf_min_fee fee) /\ max_fee gc fp tx price = Ret (tf_max_fee fee) /\
  tf_max_fee fee < U64.
Proof.
  unfold checked_from_tx. intros H. inv_run H.
  unfold try_u64 in H.
  destruct (v1 <? U64) eqn:B1; [|discriminate]. inv_run H.
  destruct (v2 <? U64) eqn:B2; [|discriminate].
  destruct (v2 <? v1) eqn:C; [discriminate|]. injection H as <-. cbn.
  destruct (max_gas_inv _ _ _ _ E0) as (m & Hm & Hle & _). rewrite E in Hm. injection Hm as <-.
  repeat split; try assumption; lia.
Qed.

(* ------------------------------------------------------------------ refund *)
Lemma refund_inv gc fp tx used price o :
  refund_fee gc fp tx used price = Ret o ->
  exists m, min_gas gc fp tx = Ret m /\
    let t := saturating_add U128 m used in
    (U128 <= t * price /\ o = None) \/
    (t * price < U128 /\ 0 < fp_factor fp /\
     o = (do x <- try_u64 (saturating_add U128 (div_ceil (t * price) (fp_factor fp)) (tq_tip tx));
          checked_sub (tq_max_fee_limit tx) x)).
Proof.
  unfold refund_fee. intros H. inv_run H. exists v. split; [assumption|]. cbn zeta.
  unfold checked_mul in H.
  destruct (saturating_add U128 v used * price <? U128) eqn:E1.
  - destruct (fp_factor fp =? 0) eqn:E0; [discriminate|]. injection H as <-.
    right. repeat split; lia.
  - injection H as <-. left. split; [lia|reflexivity].
Qed.

Lemma refund_bounded gc fp tx used price r :
  refund_fee gc fp tx used price = Ret (Some r) -> r <= tq_max_fee_limit tx.
Proof.
  intros H. apply refund_inv in H as (m & _ & H). cbn zeta in H.
  destruct H as [[_ H]|(_ & _ & H)]; [discriminate|].
  unfold opt_bind, try_u64, checked_sub in H.
  destruct (_ <? U64); [|discriminate].
  destruct (_ <=? _); [|discriminate]. injection H as ->. lia.
Qed.

Lemma sat128_mono a a' b b' :
  a <= a' -> b <= b' -> saturating_add U128 a b <= saturating_add U128 a' b'.
Proof. unfold saturating_add, U128. lia. Qed.

Lemma refund_mono gc fp tx price used1 used2 o1 o2 :
  used1 <= used2 ->
  refund_fee gc fp tx used1 price = Ret o1 ->
  refund_fee gc fp tx used2 price = Ret o2 ->
  match o2 with
  | Some r2 => exists r1, o1 = Some r1 /\ r2 <= r1
  | None => True
  end.
Proof.
  intros Hu H1 H2.
  apply refund_inv in H1 as (m & Hm & H1). apply refund_inv in H2 as (m' & Hm' & H2).
  rewrite Hm in Hm'. injection Hm' as <-. cbn zeta in H1, H2.
  destruct H2 as [[_ ->]|(P2 & Hf & ->)]; [exact I|].
  pose proof (sat128_mono m m used1 used2 ltac:(lia) Hu) as L0.
  pose proof (N.mul_le_mono_r _ _ price L0) as L1.
  destruct H1 as [[P1 _]|(P1 & _ & ->)]; [lia|].
  pose proof (div_ceil_mono _ _ (fp_factor fp) Hf L1) as L2.
  set (d1 := div_ceil (saturating_add U128 m used1 * price) (fp_factor fp)) in *.
  set (d2 := div_ceil (saturating_add U128 m used2 * price) (fp_factor fp)) in *.
  unfold opt_bind, try_u64, checked_sub, saturating_add.
  set (lim := tq_max_fee_limit tx). set (tip := tq_tip tx).
  destruct (N.min (d2 + tip) (U128 - 1) <? U64) eqn:A2; [|exact I].
  destruct (N.min (d2 + tip) (U128 - 1) <=? lim) eqn:B2; [|exact I].
  destruct (N.min (d1 + tip) (U128 - 1) <? U64) eqn:A1; [|unfold U64, U128 in *; lia].
  destruct (N.min (d1 + tip) (U128 - 1) <=? lim) eqn:B1; [|unfold U64, U128 in *; lia].
  eexists; split; [reflexivity|]. unfold U64, U128 in *; lia.
Qed.

(* a product of at least 2^128 divided by a u64 factor is above every u64 *)
Lemma ceil_of_overflow_exceeds_u64 (x f : Z) :
  (0 < f < Z.of_N U64)%Z -> (Z.of_N U128 <= x)%Z -> (Z.of_N U64 < ceil_div x f)%Z.
Proof.
  intros Hf Hx. pose proof (ceil_div_is_ceil x f ltac:(lia)) as [_ H2].
  set (q := ceil_div x f) in *. unfold U64, U128 in *.
  change (Z.of_N 18446744073709551616) with 18446744073709551616%Z in *.
  change (Z.of_N 340282366920938463463374607431768211456) with 340282366920938463463374607431768211456%Z in *.
  nia.
Qed.

(* the stated formula, for all u64 inputs: no side condition on min_gas + used_gas *)
Lemma refund_formula gc fp tx used price g :
  1 <= fp_factor fp -> fp_factor fp < U64 -> price < U64 -> used < U64 ->
  tq_tip tx < U64 -> tq_max_fee_limit tx < U64 ->
  min_gas gc fp tx = Ret g ->
  let R := refund_spec (Z.of_N (tq_max_fee_limit tx)) (Z.of_N g) (Z.of_N used) (Z.of_N price)
                       (Z.of_N (fp_factor fp)) (Z.of_N (tq_tip tx)) in
  refund_fee gc fp tx used price = Ret (if (0 <=? R)%Z then Some (Z.to_N R) else None).
Proof.
  intros Hf Hf64 Hp Hu Ht Hl Hg R.
  pose proof (min_gas_bound _ _ _ _ Hg) as Bg.
  unfold refund_fee. rewrite Hg. cbn [obind].
  assert (ES : saturating_add U128 g used = g + used) by (unfold saturating_add, U64, U128 in *; lia).
  rewrite ES.
  assert (ER : R = (Z.of_N (tq_max_fee_limit tx) -
                    (ceil_div (Z.of_N ((g + used) * price)) (Z.of_N (fp_factor fp)) + Z.of_N (tq_tip tx)))%Z).
  { unfold R, refund_spec, fee_spec. rewrite N2Z.inj_mul, N2Z.inj_add. reflexivity. }
  clearbody R. subst R.
  unfold checked_mul. destruct ((g + used) * price <? U128) eqn:EP.
  - destruct (fp_factor fp =? 0) eqn:E0; [lia|]. f_equal.
    rewrite <- div_ceil_spec by lia.
    set (d := div_ceil ((g + used) * price) (fp_factor fp)).
    unfold opt_bind, try_u64, checked_sub, saturating_add.
    destruct (N.min (d + tq_tip tx) (U128 - 1) <? U64) eqn:A.
    + assert (N.min (d + tq_tip tx) (U128 - 1) = d + tq_tip tx) as -> by (unfold U64, U128 in *; lia).
      destruct (d + tq_tip tx <=? tq_max_fee_limit tx) eqn:B.
      * destruct (0 <=? _)%Z eqn:C; [|lia]. f_equal. lia.
      * destruct (0 <=? _)%Z eqn:C; [lia|reflexivity].
    + destruct (0 <=? _)%Z eqn:C; [unfold U64, U128 in *; lia|reflexivity].
  - f_equal.
    pose proof (ceil_of_overflow_exceeds_u64 (Z.of_N ((g + used) * price)) (Z.of_N (fp_factor fp))
                  ltac:(lia) ltac:(lia)) as X.
    destruct (0 <=? _)%Z eqn:C; [lia|reflexivity].
Qed.

(* ------------------------------------------------------------------ totality *)
Lemma resolve_total c u : upg_ok c = true -> exists x, resolve c u = Ret x.
Proof.
  unfold resolve, resolve_without_base, upg_ok. destruct c as [b upg|b gpu]; intros H.
  - destruct (upg =? 0) eqn:E; [lia|]. cbn [obind]. eauto.
  - cbn [obind]. eauto.
Qed.

Lemma wf_costs_inv gc : wf_costs gc = true ->
  upg_ok (gc_contract_root gc) = true /\ upg_ok (gc_state_root gc) = true /\
  upg_ok (gc_s256 gc) = true /\ upg_ok (gc_vm_init gc) = true.
Proof. unfold wf_costs. rewrite !andb_true_iff. tauto. Qed.

Lemma inputs_gas_total gc bytes ins : wf_costs gc = true ->
  forall cache acc, exists x, inputs_gas gc bytes ins cache acc = Ret x.
Proof.
  intros W. apply wf_costs_inv in W as (Wc & _ & _ & Wv).
  induction ins as [|i r IH]; intros cache acc; cbn [inputs_gas]; [eauto|].
  destruct i as [wi|plen pgas|].
  - destruct (existsb _ _); apply IH.
  - destruct (resolve_total (gc_vm_init gc) bytes Wv) as [x ->].
    destruct (resolve_total (gc_contract_root gc) plen Wc) as [y ->]. cbn [obind]. apply IH.
  - apply IH.
Qed.

Lemma metadata_total gc tx : wf_costs gc = true -> exists x, gas_used_by_metadata gc tx = Ret x.
Proof.
  intros W. apply wf_costs_inv in W as (Wc & Ws & W2 & Wv).
  unfold gas_used_by_metadata.
  destruct (tq_body tx);
    repeat match goal with
           | |- context [resolve ?c ?u] =>
               let x := fresh "x" in let E := fresh "E" in
               destruct (resolve_total c u ltac:(assumption)) as [x E]; rewrite E; cbn [obind]
           end; eauto.
Qed.

Lemma min_gas_total gc fp tx : wf_costs gc = true -> exists g, min_gas gc fp tx = Ret g.
Proof.
  intros W.
  assert (G : exists g, min_gas_generic gc fp tx = Ret g).
  { unfold min_gas_generic, gas_used_by_inputs.
    destruct (wf_costs_inv gc W) as (_ & _ & _ & Wv).
    destruct (resolve_total (gc_vm_init gc) (tq_bytes tx) Wv) as [x ->]. cbn [obind].
    destruct (inputs_gas_total gc (tq_bytes tx) (tq_inputs tx) W [] 0) as [y ->]. cbn [obind].
    destruct (metadata_total gc tx W) as [z ->]. cbn [obind]. eauto. }
  destruct G as [g G]. unfold min_gas. destruct (tq_body tx); try (exists g; exact G).
  rewrite G. cbn [obind]. eauto.
Qed.

Lemma total gc fp tx price used bh :
  1 <= fp_factor fp -> wf_costs gc = true -> price < U64 ->
  returns (min_gas gc fp tx) /\ returns (max_gas gc fp tx) /\
  returns (min_fee gc fp tx price) /\ returns (max_fee gc fp tx price) /\
  returns (refund_fee gc fp tx used price) /\
  returns (checked_from_tx gc fp tx price) /\ returns (into_ready gc fp tx price bh).
Proof.
  intros Hf W Hp. unfold returns.
  destruct (min_gas_total gc fp tx W) as [m Hm].
  destruct (gas_mono _ _ _ _ Hm) as (M & HM & Hle & BM).
  pose proof (min_gas_bound _ _ _ _ Hm) as Bm.
  assert (Fm : exists a, min_fee gc fp tx price = Ret a).
  { unfold min_fee. rewrite Hm. cbn [obind]. rewrite gas_to_fee_ok by assumption. cbn [obind]. eauto. }
  assert (FM : exists a, max_fee gc fp tx price = Ret a).
  { unfold max_fee. rewrite HM. cbn [obind]. rewrite gas_to_fee_ok by assumption. cbn [obind]. eauto. }
  assert (C : exists a, checked_from_tx gc fp tx price = Ret a).
  { unfold checked_from_tx. rewrite Hm, HM. cbn [obind]. destruct Fm as [a ->]. cbn [obind].
    destruct (try_u64 a); [|eauto]. destruct FM as [b ->]. cbn [obind].
    destruct (try_u64 b); [|eauto]. destruct (_ <? _); eauto. }
  repeat split; eauto.
  - unfold refund_fee. rewrite Hm. cbn [obind].
    destruct (checked_mul U128 _ price); [|eauto].
    destruct (fp_factor fp =? 0) eqn:E0; [lia|eauto].
  - unfold into_ready. destruct C as [a ->]. cbn [obind]. destruct a; [|eauto].
    destruct bh as [h|]; [destruct (_ <? h)|]; try destruct (_ <? _); eauto.
Qed.

(* the hypothesis factor >= 1 is necessary: with factor 0 every fee computation panics *)
Lemma factor_zero_panics gc fp tx price used g :
  fp_factor fp = 0 -> min_gas gc fp tx = Ret g ->
  min_fee gc fp tx price = Panic /\ max_fee gc fp tx price = Panic /\
  (saturating_add U128 g used * price < U128 -> refund_fee gc fp tx used price = Panic) /\
  (U128 <= saturating_add U128 g used * price -> refund_fee gc fp tx used price = Ret None) /\
  checked_from_tx gc fp tx price = Panic /\
  (forall bh, into_ready gc fp tx price bh = Panic).
Proof.
  intros Hf Hm. destruct (gas_mono _ _ _ _ Hm) as (M & HM & _).
  assert (A : min_fee gc fp tx price = Panic).
  { unfold min_fee. rewrite Hm, Hf. cbn [obind]. rewrite gas_to_fee_factor_zero. reflexivity. }
  assert (C : checked_from_tx gc fp tx price = Panic).
  { unfold checked_from_tx. rewrite Hm, HM, A. reflexivity. }
  repeat split; try assumption.
  - unfold max_fee. rewrite HM, Hf. cbn [obind]. rewrite gas_to_fee_factor_zero. reflexivity.
  - intros P. unfold refund_fee, checked_mul. rewrite Hm, Hf. cbn [obind].
    destruct (_ <? U128) eqn:E; [reflexivity|lia].
  - intros P. unfold refund_fee, checked_mul. rewrite Hm. cbn [obind].
    destruct (_ <? U128) eqn:E; [lia|reflexivity].
  - intros bh. unfold into_ready. rewrite C. reflexivity.
Qed.

(* ... and so is units_per_gas >= 1 (the dependent cost of VM initialisation is always resolved) *)
Lemma units_per_gas_zero_panics gc fp tx b :
  gc_vm_init gc = Light b 0 -> min_gas gc fp tx = Panic.
Proof.
  intros H. unfold min_gas, min_gas_generic, resolve, resolve_without_base. rewrite H.
  destruct (tq_body tx); reflexivity.
Qed.

(* ------------------------------------------------------------------ into_ready *)
Lemma into_ready_ok gc fp tx price bh :
  into_ready gc fp tx price bh = Ret ReadyOk ->
  exists M, max_fee gc fp tx price = Ret M /\ M <= tq_max_fee_limit tx /\
            match bh with Some h => h <= tq_expiration tx | None => True end.
Proof.
  unfold into_ready. intros H. inv_run H. destruct v as [fee|]; [|discriminate].
  destruct (checked_from_tx_ordered _ _ _ _ _ E) as (_ & _ & _ & _ & _ & HM & _).
  exists (tf_max_fee fee). split; [assumption|].
  destruct bh as [h|].
  - destruct (tq_expiration tx <? h) eqn:X; [discriminate|].
    destruct (tq_max_fee_limit tx <? tf_max_fee fee) eqn:Y; [discriminate|]. split; lia.
  - destruct (tq_max_fee_limit tx <? tf_max_fee fee) eqn:Y; [discriminate|]. split; [lia|exact I].
Qed.

(* ------------------------------------------------------------------ F7 (fixed): the former
   saturating u64 sum.  The empty script transaction (104 metered bytes, no inputs, fee limit
   u64::MAX) under free gas costs, gas_per_byte = 1, factor = 2, price = 1: min_gas = 104 and
   min_gas + used = 2^64 + 1.  Before the fix of refund_fee the refund was 2^63 - 1; it now is the
   value of the formula.  The same input is a corpus case of harness/src/bin/fee.rs. *)
Definition free_costs : gas_costs := mk_gas_costs 0 (Heavy 0 0) (Heavy 0 0) (Heavy 0 0) (Heavy 0 0) 0.
Definition f7_params : fee_params := mk_fee_params 2 1.
Definition f7_tx : tx_q := mk_tx (BScript 0) 104 [] [] 0 0 0 u64_max 4294967295.
Definition f7_used : N := U64 + 1 - 104.

Example f7_now_conforms :
  min_gas free_costs f7_params f7_tx = Ret 104 /\
  refund_fee free_costs f7_params f7_tx f7_used 1 = Ret (Some 9223372036854775806) /\
  refund_spec (Z.of_N u64_max) 104 (Z.of_N f7_used) 1 2 0 = 9223372036854775806%Z.
Proof. vm_compute. repeat split; reflexivity. Qed.

(* ------------------------------------------------------------------ non-vacuity examples *)
Definition ex_costs : gas_costs :=
  mk_gas_costs 3300 (Light 31 2) (Heavy 236 122) (Light 31 4) (Light 3957 9) 63.
Definition ex_params : fee_params := mk_fee_params 92 63.
Definition ex_tx : tx_q :=
  mk_tx (BScript 10000) 1112 [InSigned 0; InPredicate 40 3000; InSigned 0; InOther; InSigned 1]
        [64; 64] 144 400 7 100000 4294967295.

Example ex_min_gas : min_gas ex_costs ex_params ex_tx = Ret 88176.
Proof. vm_compute. reflexivity. Qed.
Example ex_max_gas : max_gas ex_costs ex_params ex_tx = Ret 114304.
Proof. vm_compute. reflexivity. Qed.
Example ex_hyps :
  1 <= fp_factor ex_params /\ wf_costs ex_costs = true /\ 1000 < U64 /\ tq_tip ex_tx < U64 /\
  tq_max_fee_limit ex_tx < U64 /\ 88176 + 5000 < U64.
Proof. vm_compute. repeat split; try reflexivity; discriminate. Qed.
Example ex_fees :
  min_fee ex_costs ex_params ex_tx 5 = Ret 4800 /\ max_fee ex_costs ex_params ex_tx 5 = Ret 6220.
Proof. vm_compute. split; reflexivity. Qed.
Example ex_refund : refund_fee ex_costs ex_params ex_tx 5000 5 = Ret (Some 94929).
Proof. vm_compute. reflexivity. Qed.
Example ex_into_ready : into_ready ex_costs ex_params ex_tx 5 (Some 17) = Ret ReadyOk.
Proof. vm_compute. reflexivity. Qed.
Example ex_into_ready_low_limit :
  into_ready ex_costs ex_params ex_tx 5000 None = Ret (ReadyErr (InsufficientMaxFee 100000 6212181)).
Proof. vm_compute. reflexivity. Qed.
Example ex_is_ceil : is_ceil 7 2 4 /\ ceil_div 7 2 = 4%Z.
Proof. unfold is_ceil. vm_compute. repeat split; congruence. Qed.
Example ex_checked_from_tx :
  checked_from_tx ex_costs ex_params ex_tx 5 = Ret (Some (mk_tx_fee 4800 6220 88176 114304)).
Proof. vm_compute. reflexivity. Qed.
Example ex_refund_mono_pair :
  refund_fee ex_costs ex_params ex_tx 5000 5 = Ret (Some 94929) /\
  refund_fee ex_costs ex_params ex_tx 2000000 5 = Ret None.
Proof. vm_compute. split; reflexivity. Qed.
(* hypotheses of the two "necessity" theorems are satisfiable *)
Example ex_factor_zero :
  fp_factor (mk_fee_params 0 63) = 0 /\ min_gas ex_costs (mk_fee_params 0 63) ex_tx = Ret 88176 /\
  min_fee ex_costs (mk_fee_params 0 63) ex_tx 5 = Panic.
Proof. vm_compute. repeat split; reflexivity. Qed.
Example ex_units_per_gas_zero :
  let gc := mk_gas_costs 3300 (Light 31 2) (Heavy 236 122) (Light 31 4) (Light 3957 0) 63 in
  gc_vm_init gc = Light 3957 0 /\ wf_costs gc = false /\ min_gas gc ex_params ex_tx = Panic.
Proof. vm_compute. repeat split; reflexivity. Qed.
(* the product (min_gas + used) * price overflows u128: None, and the formula is negative *)
Example ex_refund_overflow :
  refund_fee free_costs (mk_fee_params u64_max 1) f7_tx u64_max u64_max = Ret None /\
  (refund_spec (Z.of_N u64_max) 104 (Z.of_N u64_max) (Z.of_N u64_max) (Z.of_N u64_max) 0 < 0)%Z.
Proof. vm_compute. split; reflexivity. Qed.
