(* Auth/AuthModel.v — L1: the GATING LOGIC of signature and predicate checking, mirroring

     fuel-tx/src/transaction/validity.rs                  Input::check_signature (recovery cache)
     fuel-tx/src/transaction/types/witness.rs             Witness::recover_witness
     fuel-tx/src/transaction/types/chargeable_transaction.rs   check_signatures (fold over the inputs)
     fuel-vm/src/interpreter/executors/main.rs            predicates::{run_predicates, run_predicate_async,
                                                          check_predicate, finalize_check_predicate}
     fuel-vm/src/error.rs                                 PredicateVerificationFailed::interpreter_error

   Cryptography and predicate execution are ORACLES (Section variables) with the contract
   written next to them:
     recover_pk  — fuel_crypto::Signature::recover on (64-byte signature, 32-byte message)
     hash_pk     — PublicKey::hash (SHA-256 of the 64 key bytes) = Input::owner
     pred_owner  — Input::predicate_owner (property C15)
     run         — Interpreter::init_predicate + verify_predicate of input [index] of [tx] with
                   [available gas]: (what verify_predicate returned, vm.remaining_gas())
     max_gas     — Chargeable::max_gas of the transaction (property C18)
   Definitions only. *)
From FV Require Import Base.Bytes Base.U64.
Open Scope N_scope.

(* ---------------------------------------------------------------- transactions, abstractly *)
Inductive input :=
| ISigned (owner : bytes) (witness_index : N)              (* CoinSigned / MessageCoinSigned / MessageDataSigned *)
| IPredicate (owner : bytes) (predicate : bytes) (predicate_gas_used : N)   (* Coin/MessageCoin/MessageData Predicate *)
| IContract.                                               (* Input::Contract: neither *)

(* ValidityError raised by check_signature *)
Inductive sig_err :=
| InputWitnessIndexBounds (index : N)
| InputInvalidSignature (index : N)
| InputPredicateOwner (index : N).

(* PredicateVerificationFailed *)
Inductive pv_err :=
| GasMismatch (index : N)
| OutOfGas (index : N)
| InvalidOwner (index : N)
| PFalse (index : N)
| TransactionExceedsTotalGasAllowance (max_gas : N)
| PBug
| PanicInstruction (index reason : N)
| PPanic (index reason : N)
| PStorage (index : N).

(* what Interpreter::verify_predicate returned (init_predicate failures included) *)
Inductive run_state :=
| RReturnOne                       (* Ok(ProgramState::Return(1)) *)
| ROkOther                         (* Ok(Revert(_)) / Ok(VerifyPredicate(_)) *)
| RErrOutOfGas                     (* Err(e), e.panic_reason() == Some(OutOfGas) *)
| RErrPanic (reason : N)           (* Err(InterpreterError::Panic(reason)): PredicateReturnedNonOne, ... *)
| RErrPanicInstr (reason : N)      (* Err(InterpreterError::PanicInstruction(_)) *)
| RErrBug                          (* Err(InterpreterError::Bug(_)) *)
| RErrStorage                      (* Err(InterpreterError::Storage(_)) *)
| RErrOther                        (* any other Err *)
| RInitErr (e : pv_err).           (* vm.init_predicate failed: interpreter_error(index, err), gas 0 *)

Definition is_err_state (s : run_state) : bool :=
  match s with RReturnOne | ROkOther => false | _ => true end.

(* PredicateVerificationFailed::interpreter_error(index, err) *)
Definition interpreter_error (index : N) (s : run_state) : pv_err :=
  match s with
  | RErrOutOfGas => OutOfGas index
  | RErrPanic reason => PPanic index reason
  | RErrPanicInstr reason => PanicInstruction index reason
  | RErrBug => PBug
  | RErrStorage => PStorage index
  | RInitErr e => e
  | _ => PFalse index
  end.

Definition res (E A : Type) := sum E A.      (* inl = Err, inr = Ok *)

Fixpoint cache_get (c : list (N * bytes)) (k : N) : option bytes :=
  match c with
  | [] => None
  | (k', v) :: r => if k' =? k then Some v else cache_get r k
  end.

Fixpoint set_nth {A} (l : list A) (n : nat) (x : A) : list A :=
  match l, n with
  | [], _ => []
  | _ :: r, O => x :: r
  | y :: r, S n' => y :: set_nth r n' x
  end.

Section Auth.
  Variable PK : Type.
  Variable recover_pk : bytes -> bytes -> option PK.
  Variable hash_pk : PK -> bytes.
  Variable pred_owner : bytes -> bytes.

  (* ================================================================ signatures *)
  (* Witness::recover_witness(txhash, input_index) -> Address; None = InputInvalidSignature *)
  Definition recover_witness (w txhash : bytes) : option bytes :=
    if Nat.eqb (length w) 64 then
      match recover_pk w txhash with Some pk => Some (hash_pk pk) | None => None end
    else None.

  (* the closure recover_address of check_signature *)
  Definition recover_address (index witness_index : N) (txhash : bytes) (witnesses : list bytes) : res sig_err bytes :=
    match nth_error witnesses (N.to_nat witness_index) with
    | None => inl (InputWitnessIndexBounds index)
    | Some w => match recover_witness w txhash with
                | None => inl (InputInvalidSignature index)
                | Some a => inr a
                end
    end.

  (* Input::check_signature; the cache is `&mut Option<HashMap<u16, Address>>`: the updated
     cache is returned *)
  Definition check_signature (index : N) (i : input) (txhash : bytes) (witnesses : list bytes)
             (recovery_cache : option (list (N * bytes))) : res sig_err (option (list (N * bytes))) :=
    match i with
    | ISigned owner witness_index =>
        let recovered :=
          match recovery_cache with
          | Some cache =>
              match cache_get cache witness_index with
              | Some a => inr (a, Some cache)
              | None => match recover_address index witness_index txhash witnesses with
                        | inl e => inl e
                        | inr a => inr (a, Some ((witness_index, a) :: cache))
                        end
              end
          | None => match recover_address index witness_index txhash witnesses with
                    | inl e => inl e
                    | inr a => inr (a, None)
                    end
          end in
        match recovered with
        | inl e => inl e
        | inr (a, c') => if bytes_eqb owner a then inr c' else inl (InputInvalidSignature index)
        end
    | IPredicate owner predicate _ =>
        if bytes_eqb owner (pred_owner predicate) then inr recovery_cache else inl (InputPredicateOwner index)
    | IContract => inr recovery_cache
    end.

  (* inputs().iter().enumerate().try_for_each(..): None = Ok(()) *)
  Fixpoint check_signatures_from (index : N) (ins : list input) (txhash : bytes) (witnesses : list bytes)
           (cache : option (list (N * bytes))) : option sig_err :=
    match ins with
    | [] => None
    | i :: r => match check_signature index i txhash witnesses cache with
                | inl e => Some e
                | inr cache' => check_signatures_from (index + 1) r txhash witnesses cache'
                end
    end.
  (* ChargeableTransaction::check_signatures: txhash = self.id(chain_id), cache = Some(empty) *)
  Definition check_signatures (txhash : bytes) (ins : list input) (witnesses : list bytes) : option sig_err :=
    check_signatures_from 0 ins txhash witnesses (Some []).
  Definition check_signatures_nocache (txhash : bytes) (ins : list input) (witnesses : list bytes) : option sig_err :=
    check_signatures_from 0 ins txhash witnesses None.

  (* ================================================================ predicates *)
  Variable run : list input -> N -> bool -> N -> run_state * N.   (* tx, index, verifying?, available gas *)
  Variable max_gas : list input -> N.
  Variable max_gas_per_tx max_gas_per_predicate : N.

  Inductive action := Verifying | Estimating (available_gas : N).

  (* check_predicate: (gas used, verdict) for the predicate input [index] of [tx] *)
  Definition check_predicate (tx : list input) (index : N) (a : action) : N * res pv_err unit :=
    match nth_error tx (N.to_nat index) with
    | Some (IPredicate owner predicate declared) =>
        let owner_ok := match a with
                        | Verifying => bytes_eqb owner (pred_owner predicate)   (* is_predicate_owner_valid *)
                        | Estimating _ => true
                        end in
        if negb owner_ok then (0, inl (InvalidOwner index))
        else
          let verifying := match a with Verifying => true | Estimating _ => false end in
          let available_gas := match a with Verifying => declared | Estimating g => g end in
          let '(result, remaining) := run tx index verifying available_gas in
          match result with
          | RInitErr e => (0, inl e)
          | _ =>
            match checked_sub available_gas remaining with
            | None => (0, inl PBug)                                (* GlobalGasUnderflow *)
            | Some gas_used =>
                if verifying then
                  match result with
                  | RReturnOne =>
                      if negb (remaining =? 0) then (gas_used, inl (GasMismatch index))
                      else (gas_used, inr tt)
                  | ROkOther => (gas_used, inl (PFalse index))
                  | s => (gas_used, inl (interpreter_error index s))
                  end
                else (gas_used, inr tt)
            end
          end
    | _ => (0, inr tt)          (* not a predicate input: never called *)
    end.

  Definition is_predicate (i : input) : bool := match i with IPredicate _ _ _ => true | _ => false end.
  Definition result_of (r : N * res pv_err unit) : res pv_err N :=
    match snd r with inl e => inl e | inr _ => inr (fst r) end.

  (* run_predicates: the sequential loop; in estimation the available gas shrinks *)
  Fixpoint run_predicates_loop (tx : list input) (verifying : bool) (index : N) (rest : list input)
           (global_available_gas : N) : list (N * res pv_err N) :=
    match rest with
    | [] => []
    | i :: r =>
        if is_predicate i then
          let available_gas := N.min global_available_gas max_gas_per_predicate in
          let a := if verifying then Verifying else Estimating available_gas in
          let c := check_predicate tx index a in
          (index, result_of c) :: run_predicates_loop tx verifying (index + 1) r (global_available_gas - fst c)
        else run_predicates_loop tx verifying (index + 1) r global_available_gas
    end.
  Definition sequential_checks (tx : list input) (verifying : bool) : list (N * res pv_err N) :=
    run_predicates_loop tx verifying 0 tx (max_gas_per_tx - max_gas tx).     (* saturating_sub *)

  (* run_predicate_async: one task per predicate input, all with the same action *)
  Fixpoint async_tasks (tx : list input) (verifying : bool) (index : N) (rest : list input)
    : list (N * res pv_err N) :=
    match rest with
    | [] => []
    | i :: r =>
        if is_predicate i then
          let a := if verifying then Verifying else Estimating (N.min max_gas_per_predicate max_gas_per_tx) in
          (index, result_of (check_predicate tx index a)) :: async_tasks tx verifying (index + 1) r
        else async_tasks tx verifying (index + 1) r
    end.
  Definition parallel_checks (tx : list input) (verifying : bool) : list (N * res pv_err N) :=
    async_tasks tx verifying 0 tx.

  (* finalize_check_predicate *)
  Definition set_gas (tx : list input) (index gas : N) : list input :=
    match nth_error tx (N.to_nat index) with
    | Some (IPredicate o p _) => set_nth tx (N.to_nat index) (IPredicate o p gas)
    | _ => tx                                                       (* unreachable!() *)
    end.
  Definition apply_estimates (tx : list input) (checks : list (N * res pv_err N)) : list input :=
    fold_left (fun t c => match snd c with inr g => set_gas t (fst c) g | inl _ => t end) checks tx.

  Fixpoint cumulate (acc : N) (checks : list (N * res pv_err N)) : res pv_err N :=
    match checks with
    | [] => inr acc
    | (index, inr gas_used) :: r =>
        match checked_add U64 acc gas_used with
        | Some acc' => cumulate acc' r
        | None => inl (OutOfGas index)
        end
    | (_, inl failed) :: _ => inl failed
    end.

  Definition finalize (estimating : bool) (tx : list input) (checks : list (N * res pv_err N))
    : res pv_err (N * list input) :=
    let tx' := if estimating then apply_estimates tx checks else tx in
    let mg := max_gas tx' in
    if max_gas_per_tx <? mg then inl (TransactionExceedsTotalGasAllowance mg)
    else match cumulate 0 checks with
         | inl e => inl e
         | inr g => inr (g, tx')
         end.

  (* predicates::check_predicates / estimate_predicates; the async versions take the list of
     results in the order E::execute_tasks delivered them *)
  Definition check_predicates (tx : list input) : res pv_err (N * list input) :=
    finalize false tx (sequential_checks tx true).
  Definition estimate_predicates (tx : list input) : res pv_err (N * list input) :=
    finalize true tx (sequential_checks tx false).
  Definition check_predicates_async (delivered : list (N * res pv_err N)) (tx : list input) :=
    finalize false tx delivered.
  Definition estimate_predicates_async (delivered : list (N * res pv_err N)) (tx : list input) :=
    finalize true tx delivered.
End Auth.
