(* Auth/AuthProofs.v — proofs for property C20 about the gating logic of Auth/AuthModel.v.
   Cryptography, predicate execution and max_gas are Section variables (oracles); every
   assumption about them appears as an explicit premise of the theorem that needs it. *)
From FV Require Import Base.Bytes Base.U64 Auth.AuthModel.
From Coq Require Import Arith Lia Permutation.
Open Scope N_scope.

Definition sig_err_index (e : sig_err) : N :=
  match e with InputWitnessIndexBounds i | InputInvalidSignature i | InputPredicateOwner i => i end.

Lemma bytes_eqb_refl a : bytes_eqb a a = true.
Proof. now apply bytes_eqb_eq. Qed.
Lemma bytes_eqb_false a b : bytes_eqb a b = false <-> a <> b.
Proof.
  split.
  - intros H E. subst. rewrite bytes_eqb_refl in H. discriminate.
  - intros H. destruct (bytes_eqb a b) eqn:E; [apply bytes_eqb_eq in E; contradiction | reflexivity].
Qed.

(* ================================================================ signatures *)
Section SigProofs.
  Variable PK : Type.
  Variable recover_pk : bytes -> bytes -> option PK.
  Variable hash_pk : PK -> bytes.
  Variable pred_owner : bytes -> bytes.

  Notation recover_witness := (recover_witness PK recover_pk hash_pk).
  Notation recover_address := (recover_address PK recover_pk hash_pk).
  Notation check_signature := (check_signature PK recover_pk hash_pk pred_owner).
  Notation check_signatures_from := (check_signatures_from PK recover_pk hash_pk pred_owner).

  (* what "authorised" means for one input, with respect to the transaction id and witnesses *)
  Definition authorized (txhash : bytes) (witnesses : list bytes) (i : input) : Prop :=
    match i with
    | ISigned owner witness_index =>
        exists w pk, nth_error witnesses (N.to_nat witness_index) = Some w /\ length w = 64%nat /\
                     recover_pk w txhash = Some pk /\ hash_pk pk = owner
    | IPredicate owner predicate _ => owner = pred_owner predicate
    | IContract => True
    end.

  Lemma recover_address_inr index k h ws a :
    recover_address index k h ws = inr a <->
    exists w pk, nth_error ws (N.to_nat k) = Some w /\ length w = 64%nat /\ recover_pk w h = Some pk /\ hash_pk pk = a.
  Proof.
    unfold AuthModel.recover_address, AuthModel.recover_witness. split.
    - destruct (nth_error ws (N.to_nat k)) as [w|] eqn:Ew; [|discriminate].
      destruct (Nat.eqb (length w) 64) eqn:L; [|discriminate]. apply Nat.eqb_eq in L.
      destruct (recover_pk w h) as [pk|] eqn:Ep; [|discriminate]. intros E. injection E as <-.
      exists w, pk. auto.
    - intros [w [pk [E1 [E2 [E3 E4]]]]]. rewrite E1. rewrite (proj2 (Nat.eqb_eq _ _) E2), E3. now subst.
  Qed.

  Lemma recover_address_index_indep i j k h ws a :
    recover_address i k h ws = inr a -> recover_address j k h ws = inr a.
  Proof. intros H. apply recover_address_inr. now apply recover_address_inr in H. Qed.

  Lemma recover_address_err_index i k h ws e : recover_address i k h ws = inl e -> sig_err_index e = i.
  Proof.
    unfold AuthModel.recover_address. destruct (nth_error ws (N.to_nat k)) as [w|].
    - destruct (recover_witness w h); [discriminate|]. intros E. now injection E as <-.
    - intros E. now injection E as <-.
  Qed.
  Lemma recover_address_err_indep i j k h ws e :
    recover_address i k h ws = inl e -> exists e', recover_address j k h ws = inl e'.
  Proof.
    unfold AuthModel.recover_address. destruct (nth_error ws (N.to_nat k)) as [w|].
    - destruct (recover_witness w h); [discriminate|]. eauto.
    - eauto.
  Qed.

  (* one input, without cache: accepted iff authorised; an error names this input *)
  Lemma check_signature_nocache_iff index i h ws :
    (check_signature index i h ws None = inr None <-> authorized h ws i) /\
    (forall e, check_signature index i h ws None = inl e -> sig_err_index e = index) /\
    (forall c, check_signature index i h ws None = inr c -> c = None).
  Proof.
    destruct i as [owner k | owner p g | ]; cbn [AuthModel.check_signature authorized].
    - destruct (recover_address index k h ws) as [e|a] eqn:R.
      + repeat split; try discriminate.
        * intros [w [pk H]]. assert (R' : recover_address index k h ws = inr owner) by (apply recover_address_inr; eauto).
          rewrite R in R'. discriminate.
        * intros e' E. injection E as <-. eapply recover_address_err_index; eauto.
      + destruct (bytes_eqb owner a) eqn:B.
        * apply bytes_eqb_eq in B. subst a. repeat split; try discriminate; auto.
          intros _. now apply recover_address_inr in R.
          intros c E. now injection E as <-.
        * apply bytes_eqb_false in B. repeat split; try discriminate.
          -- intros [w [pk H]]. assert (R' : recover_address index k h ws = inr owner) by (apply recover_address_inr; eauto).
             rewrite R in R'. injection R' as ->. contradiction.
          -- intros e' E. now injection E as <-.
    - destruct (bytes_eqb owner (pred_owner p)) eqn:B.
      + apply bytes_eqb_eq in B. repeat split; try discriminate; auto. intros c E. now injection E as <-.
      + apply bytes_eqb_false in B. repeat split; try discriminate; try contradiction.
        intros e E. now injection E as <-.
    - repeat split; try discriminate; auto. intros c E. now injection E as <-.
  Qed.

  (* the cache maps a witness index to what recover_address returns for it *)
  Definition cache_ok (h : bytes) (ws : list bytes) (c : list (N * bytes)) : Prop :=
    forall k a, cache_get c k = Some a -> forall index, recover_address index k h ws = inr a.

  Lemma cache_ok_nil h ws : cache_ok h ws [].
  Proof. intros k a H. discriminate. Qed.

  Lemma cache_ok_cons h ws c k a : cache_ok h ws c -> (forall index, recover_address index k h ws = inr a) ->
    cache_ok h ws ((k, a) :: c).
  Proof.
    intros HC HR k' a' H. cbn [cache_get] in H. destruct (k =? k') eqn:E.
    - apply N.eqb_eq in E. subst k'. injection H as <-. exact HR.
    - now apply HC.
  Qed.

  (* one input: with a sound cache the verdict is the verdict without cache, and the cache stays sound *)
  Lemma check_signature_cache index i h ws c : cache_ok h ws c ->
    match check_signature index i h ws (Some c), check_signature index i h ws None with
    | inl e, inl e' => e = e'
    | inr (Some c'), inr None => cache_ok h ws c'
    | _, _ => False
    end.
  Proof.
    intros HC. destruct i as [owner k | owner p g | ]; cbn [AuthModel.check_signature].
    - destruct (cache_get c k) as [a|] eqn:G.
      + rewrite (HC k a G index). destruct (bytes_eqb owner a); [exact HC | reflexivity].
      + destruct (recover_address index k h ws) as [e|a] eqn:R; [reflexivity|].
        destruct (bytes_eqb owner a); [|reflexivity].
        apply cache_ok_cons; [exact HC|]. intros j. eapply recover_address_index_indep; eauto.
    - destruct (bytes_eqb owner (pred_owner p)); [exact HC | reflexivity].
    - exact HC.
  Qed.

  Theorem cache_equiv_from : forall ins index h ws c, cache_ok h ws c ->
    check_signatures_from index ins h ws (Some c) = check_signatures_from index ins h ws None.
  Proof.
    induction ins as [|i r IH]; intros index h ws c HC; [reflexivity|].
    cbn [AuthModel.check_signatures_from].
    pose proof (check_signature_cache index i h ws c HC) as H.
    pose proof (check_signature_nocache_iff index i h ws) as [_ [_ Hn]].
    destruct (check_signature index i h ws (Some c)) as [e|[c'|]];
      destruct (check_signature index i h ws None) as [e'|c''] eqn:E2; try contradiction.
    - now subst.
    - destruct c'' as [?|]; [contradiction|]. now apply IH.
  Qed.

  Theorem check_signatures_cache_equiv h ins ws :
    check_signatures PK recover_pk hash_pk pred_owner h ins ws =
    check_signatures_nocache PK recover_pk hash_pk pred_owner h ins ws.
  Proof. apply cache_equiv_from, cache_ok_nil. Qed.

  (* the fold without cache: Ok iff every input is authorised; otherwise the error names the
     first input that is not *)
  Theorem nocache_spec : forall ins index h ws,
    match check_signatures_from index ins h ws None with
    | None => Forall (authorized h ws) ins
    | Some e => exists pre i post, ins = pre ++ i :: post /\ Forall (authorized h ws) pre /\
                                   ~ authorized h ws i /\ sig_err_index e = index + lenN pre
    end.
  Proof.
    induction ins as [|i r IH]; intros index h ws; cbn [AuthModel.check_signatures_from]; [constructor|].
    pose proof (check_signature_nocache_iff index i h ws) as [Hiff [Herr Hc]].
    destruct (check_signature index i h ws None) as [e|c] eqn:E.
    - exists [], i, r. split; [reflexivity|]. split; [constructor|]. split.
      + intros A. apply Hiff in A. discriminate.
      + rewrite (Herr e eq_refl). unfold lenN. cbn [length]. lia.
    - rewrite (Hc c eq_refl) in *. assert (A : authorized h ws i) by (now apply Hiff).
      specialize (IH (index + 1) h ws). destruct (check_signatures_from (index + 1) r h ws None) as [e|].
      + destruct IH as [pre [j [post [E1 [E2 [E3 E4]]]]]]. exists (i :: pre), j, post.
        split; [now subst|]. split; [now constructor|]. split; [exact E3|].
        rewrite E4. unfold lenN. cbn [length]. lia.
      + now constructor.
  Qed.

  Theorem check_signatures_ok_iff h ins ws :
    check_signatures PK recover_pk hash_pk pred_owner h ins ws = None <-> Forall (authorized h ws) ins.
  Proof.
    rewrite check_signatures_cache_equiv. unfold check_signatures_nocache.
    pose proof (nocache_spec ins 0 h ws) as H.
    destruct (check_signatures_from 0 ins h ws None) as [e|]; split; try discriminate; auto.
    intros HA. destruct H as [pre [i [post [E1 [_ [E3 _]]]]]]. subst ins.
    apply Forall_app in HA as [_ HA]. inversion HA. contradiction.
  Qed.

  Theorem check_signatures_error h ins ws e :
    check_signatures PK recover_pk hash_pk pred_owner h ins ws = Some e ->
    exists pre i post, ins = pre ++ i :: post /\ Forall (authorized h ws) pre /\
                       ~ authorized h ws i /\ sig_err_index e = lenN pre.
  Proof.
    rewrite check_signatures_cache_equiv. unfold check_signatures_nocache. intros H.
    pose proof (nocache_spec ins 0 h ws) as S. rewrite H in S.
    destruct S as [pre [i [post [E1 [E2 [E3 E4]]]]]]. exists pre, i, post. repeat split; auto.
  Qed.

  (* ---------------------------------------------------------------- tampering *)
  (* recover is binding between the two ids: the same witness cannot recover the same key for both *)
  Definition recover_binding (h h' : bytes) : Prop :=
    forall w pk, recover_pk w h = Some pk -> recover_pk w h' = Some pk -> h = h'.
  (* collision-freeness of the key hash on the keys involved *)
  Definition hash_pk_injective : Prop := forall pk pk', hash_pk pk = hash_pk pk' -> pk = pk'.

  Theorem tamper_signed_input h h' ws owner k :
    h <> h' -> recover_binding h h' -> hash_pk_injective ->
    authorized h ws (ISigned owner k) -> ~ authorized h' ws (ISigned owner k).
  Proof.
    intros Hne HB HI [w [pk [E1 [E2 [E3 E4]]]]] [w' [pk' [F1 [F2 [F3 F4]]]]].
    rewrite E1 in F1. injection F1 as <-. assert (pk' = pk) by (apply HI; congruence). subst pk'.
    apply Hne. eapply HB; eauto.
  Qed.

  Definition is_signed (i : input) : bool := match i with ISigned _ _ => true | _ => false end.

  (* an accepted transaction whose id changes (signed content changed, witnesses kept): every
     signed input is now unauthorised, and if there is one, checking fails at the first of them
     or earlier *)
  Theorem tamper_all_fail h h' ins ws :
    check_signatures PK recover_pk hash_pk pred_owner h ins ws = None ->
    h <> h' -> recover_binding h h' -> hash_pk_injective ->
    Forall (fun i => is_signed i = true -> ~ authorized h' ws i) ins /\
    (existsb is_signed ins = true ->
     exists e, check_signatures PK recover_pk hash_pk pred_owner h' ins ws = Some e).
  Proof.
    intros Hok Hne HB HI. apply check_signatures_ok_iff in Hok.
    assert (HF : Forall (fun i => is_signed i = true -> ~ authorized h' ws i) ins).
    { rewrite Forall_forall in *. intros i Hi Hs. destruct i; try discriminate.
      apply (tamper_signed_input h h'); auto. }
    split; [exact HF|]. intros Hex.
    destruct (check_signatures PK recover_pk hash_pk pred_owner h' ins ws) as [e|] eqn:E; [eauto|].
    apply check_signatures_ok_iff in E. apply existsb_exists in Hex as [i [Hi Hs]].
    rewrite Forall_forall in HF, E. exfalso. apply (HF i Hi Hs). now apply E.
  Qed.
End SigProofs.

(* ================================================================ predicates *)
Definition all_ok (l : list (N * res pv_err N)) : Prop := Forall (fun c => exists g, snd c = inr g) l.
Fixpoint sum_ok (l : list (N * res pv_err N)) : N :=
  match l with
  | [] => 0
  | (_, inr g) :: r => g + sum_ok r
  | (_, inl _) :: r => sum_ok r
  end.
(* sum of the declared predicate_gas_used of the predicate inputs *)
Fixpoint declared_sum (ins : list input) : N :=
  match ins with
  | [] => 0
  | IPredicate _ _ d :: r => d + declared_sum r
  | _ :: r => declared_sum r
  end.

(* ---------------------------------------------------------------- the accumulation of finalize *)
Lemma cumulate_ok_iff : forall l acc g, acc < U64 ->
  (cumulate acc l = inr g <-> all_ok l /\ g = acc + sum_ok l /\ g < U64).
Proof.
  induction l as [|[idx [e|x]] r IH]; intros acc g Hacc; cbn [cumulate sum_ok].
  - split.
    + intros E. injection E as <-. split; [constructor|]. lia.
    + intros [_ [-> _]]. f_equal. lia.
  - split; [discriminate|]. intros [H _]. inversion H as [|? ? [g' Hg] _]. discriminate.
  - unfold checked_add. destruct (acc + x <? U64) eqn:E.
    + apply N.ltb_lt in E. rewrite (IH (acc + x) g E). split.
      * intros [H1 [H2 H3]]. split; [constructor; [eexists; reflexivity | exact H1]|]. lia.
      * intros [H1 [H2 H3]]. inversion H1. split; [assumption|]. lia.
    + apply N.ltb_ge in E. split; [discriminate|]. intros [_ [H2 H3]]. lia.
Qed.

(* which error: the first element in DELIVERY order that is a failure, or whose gas makes the
   running total leave the u64 range *)
Lemma cumulate_err : forall l acc e, acc < U64 -> cumulate acc l = inl e ->
  exists pre idx r post, l = pre ++ (idx, r) :: post /\ all_ok pre /\ acc + sum_ok pre < U64 /\
    (r = inl e \/ exists g, r = inr g /\ U64 <= acc + sum_ok pre + g /\ e = OutOfGas idx).
Proof.
  induction l as [|[idx [e'|x]] r IH]; intros acc e Hacc; cbn [cumulate]; [discriminate| |].
  - intros E. injection E as <-. exists [], idx, (inl e'), r. cbn [app sum_ok]. split; [reflexivity|]. split; [constructor|]. split; [lia|]. now left.
  - unfold checked_add. destruct (acc + x <? U64) eqn:E.
    + apply N.ltb_lt in E. intros H. destruct (IH (acc + x) e E H) as [pre [j [r' [post [E1 [E2 [E3 E4]]]]]]].
      exists ((idx, inr x) :: pre), j, r', post. cbn [app sum_ok]. split; [now rewrite E1|].
      split; [constructor; [eexists; reflexivity | exact E2]|]. split; [lia|].
      destruct E4 as [E4 | [g [G1 [G2 G3]]]]; [now left | right; exists g; repeat split; auto; lia].
    + apply N.ltb_ge in E. intros H. injection H as <-. exists [], idx, (inr x), r. cbn [app sum_ok].
      split; [reflexivity|]. split; [constructor|]. split; [lia|]. right. exists x. split; [reflexivity|]. split; [lia | reflexivity].
Qed.

Lemma all_ok_perm l l' : Permutation l l' -> all_ok l -> all_ok l'.
Proof. intros P H. unfold all_ok in *. rewrite Forall_forall in *. intros c Hc. apply H. eapply Permutation_in; [apply Permutation_sym|]; eauto. Qed.
Lemma sum_ok_perm l l' : Permutation l l' -> sum_ok l = sum_ok l'.
Proof.
  induction 1 as [| [i [e|g]] l l' _ IH | [i [e|g]] [j [e'|g']] l | l l' l'' _ IH1 _ IH2]; cbn [sum_ok]; try lia.
Qed.

Theorem cumulate_perm l l' g : Permutation l l' -> (cumulate 0 l = inr g <-> cumulate 0 l' = inr g).
Proof.
  intros P. assert (H0 : 0 < U64) by (unfold U64; lia).
  rewrite (cumulate_ok_iff l 0 g H0), (cumulate_ok_iff l' 0 g H0). rewrite (sum_ok_perm l l' P).
  split; intros [H1 H2]; (split; [|exact H2]).
  - exact (all_ok_perm l l' P H1).
  - exact (all_ok_perm l' l (Permutation_sym P) H1).
Qed.

Section FinalizeProofs.
  Variable max_gas : list input -> N.
  Variable max_gas_per_tx : N.
  Notation finalize := (finalize max_gas max_gas_per_tx).

  (* ---------------------------------------------------------------- finalize: order of delivery *)
  Theorem finalize_perm tx l l' g tx' : Permutation l l' ->
    (finalize false tx l = inr (g, tx') <-> finalize false tx l' = inr (g, tx')).
  Proof.
    intros P. unfold AuthModel.finalize. destruct (max_gas_per_tx <? max_gas tx); [tauto|].
    pose proof (cumulate_perm l l' g P) as H.
    destruct (cumulate 0 l) as [e|x] eqn:E1; destruct (cumulate 0 l') as [e'|x'] eqn:E2; split; intros Q; try discriminate.
    - injection Q as -> ->. assert (C : @inl pv_err N e = inr g) by (now apply H). discriminate.
    - injection Q as -> ->. assert (C : @inl pv_err N e' = inr g) by (now apply H). discriminate.
    - injection Q as -> ->. assert (C : @inr pv_err N x' = inr g) by (now apply H). now injection C as ->.
    - injection Q as -> ->. assert (C : @inr pv_err N x = inr g) by (now apply H). now injection C as ->.
  Qed.

  Corollary finalize_perm_verdict tx l l' : Permutation l l' ->
    (exists e, finalize false tx l = inl e) <-> (exists e, finalize false tx l' = inl e).
  Proof.
    intros P. split; intros [e H].
    - destruct (finalize false tx l') as [e'|[g t]] eqn:E; [eauto|]. apply (finalize_perm tx l l' g t P) in E. congruence.
    - destruct (finalize false tx l) as [e'|[g t]] eqn:E; [eauto|]. apply (finalize_perm tx l l' g t P) in E. congruence.
  Qed.

  (* the exact error of finalize, for the list as delivered *)
  Theorem finalize_error tx l e : finalize false tx l = inl e ->
    (max_gas_per_tx < max_gas tx /\ e = TransactionExceedsTotalGasAllowance (max_gas tx)) \/
    (max_gas tx <= max_gas_per_tx /\
     exists pre idx r post, l = pre ++ (idx, r) :: post /\ all_ok pre /\ sum_ok pre < U64 /\
       (r = inl e \/ exists g, r = inr g /\ U64 <= sum_ok pre + g /\ e = OutOfGas idx)).
  Proof.
    unfold AuthModel.finalize. destruct (max_gas_per_tx <? max_gas tx) eqn:M.
    - intros E. injection E as <-. left. split; [now apply N.ltb_lt | reflexivity].
    - apply N.ltb_ge in M. destruct (cumulate 0 l) as [e'|x] eqn:C; [|discriminate].
      intros E. injection E as ->. right. split; [exact M|].
      assert (H0 : 0 < U64) by (unfold U64; lia).
      destruct (cumulate_err l 0 e H0 C) as [pre [idx [r [post H]]]]. exists pre, idx, r, post.
      rewrite !N.add_0_l in H. exact H.
  Qed.

End FinalizeProofs.

Section PredProofs.
  Variable pred_owner : bytes -> bytes.
  Variable run : list input -> N -> bool -> N -> run_state * N.
  Variable max_gas : list input -> N.
  Variable max_gas_per_tx max_gas_per_predicate : N.

  Notation check_predicate := (check_predicate pred_owner run).
  Notation run_predicates_loop := (run_predicates_loop pred_owner run max_gas_per_predicate).
  Notation sequential_checks := (sequential_checks pred_owner run max_gas max_gas_per_tx max_gas_per_predicate).
  Notation async_tasks := (async_tasks pred_owner run max_gas_per_tx max_gas_per_predicate).
  Notation parallel_checks := (parallel_checks pred_owner run max_gas_per_tx max_gas_per_predicate).
  Notation finalize := (finalize max_gas max_gas_per_tx).
  Notation check_predicates := (check_predicates pred_owner run max_gas max_gas_per_tx max_gas_per_predicate).
  Notation estimate_predicates := (estimate_predicates pred_owner run max_gas max_gas_per_tx max_gas_per_predicate).
  Notation check_predicates_async := (check_predicates_async max_gas max_gas_per_tx).

  (* ---------------------------------------------------------------- sequential = parallel tasks when verifying *)
  Lemma loop_verifying_eq tx : forall rest idx glob,
    run_predicates_loop tx true idx rest glob = async_tasks tx true idx rest.
  Proof.
    induction rest as [|i r IH]; intros idx glob; [reflexivity|].
    cbn [AuthModel.run_predicates_loop AuthModel.async_tasks]. destruct (is_predicate i); [f_equal|]; apply IH.
  Qed.

  Theorem sequential_parallel_checks tx : sequential_checks tx true = parallel_checks tx true.
  Proof. apply loop_verifying_eq. Qed.

  (* any delivery order of the parallel results gives the sequential verdict and total gas *)
  Theorem check_predicates_async_agrees tx delivered g tx' :
    Permutation (parallel_checks tx true) delivered ->
    (check_predicates_async delivered tx = inr (g, tx') <-> check_predicates tx = inr (g, tx')).
  Proof.
    intros P. unfold AuthModel.check_predicates_async, AuthModel.check_predicates.
    rewrite sequential_parallel_checks. symmetry. now apply finalize_perm.
  Qed.

  Theorem check_predicates_async_in_order tx :
    check_predicates_async (parallel_checks tx true) tx = check_predicates tx.
  Proof. unfold AuthModel.check_predicates_async, AuthModel.check_predicates. now rewrite sequential_parallel_checks. Qed.

  (* ---------------------------------------------------------------- one predicate, verifying *)
  Lemma check_predicate_verifying tx idx o p d g :
    nth_error tx (N.to_nat idx) = Some (IPredicate o p d) ->
    (result_of (check_predicate tx idx Verifying) = inr g <->
     o = pred_owner p /\ run tx idx true d = (RReturnOne, 0) /\ g = d).
  Proof.
    intros Hn. unfold AuthModel.check_predicate. rewrite Hn.
    destruct (bytes_eqb o (pred_owner p)) eqn:B; cbn [negb].
    2:{ apply bytes_eqb_false in B. cbn [result_of snd]. split; [discriminate | intros [? _]; contradiction]. }
    apply bytes_eqb_eq in B.
    destruct (run tx idx true d) as [st rem] eqn:R.
    destruct st; unfold checked_sub;
      try (destruct (rem <=? d); cbn [result_of snd fst]; (split; [discriminate | intros [_ [E _]]; discriminate E])).
    - (* RReturnOne *)
      destruct (rem <=? d) eqn:L; cbn [result_of snd fst].
      + destruct (rem =? 0) eqn:Z; cbn [negb result_of snd fst].
        * apply N.eqb_eq in Z. subst rem. split.
          -- intros E. injection E as <-. repeat split; auto. lia.
          -- intros [_ [_ ->]]. f_equal. lia.
        * apply N.eqb_neq in Z. split; [discriminate|]. intros [_ [E _]]. injection E as E. contradiction.
      + apply N.leb_gt in L. split; [discriminate|]. intros [_ [E _]]. injection E as E. lia.
  Qed.

  (* ---------------------------------------------------------------- all predicates, verifying *)
  Definition verified (tx : list input) (idx : N) (i : input) : Prop :=
    match i with
    | IPredicate o p d => o = pred_owner p /\ run tx idx true d = (RReturnOne, 0)
    | _ => True
    end.

  Lemma nth_error_middle {A} (pre : list A) x post : nth_error (pre ++ x :: post) (N.to_nat (lenN pre)) = Some x.
  Proof. unfold lenN. rewrite Nat2N.id, nth_error_app2, Nat.sub_diag by lia. reflexivity. Qed.
  Lemma lenN_snoc {A} (pre : list A) x : lenN (pre ++ [x]) = lenN pre + 1.
  Proof. unfold lenN. rewrite app_length. cbn [length]. lia. Qed.

  Lemma verify_tasks_spec tx : forall rest pre, tx = pre ++ rest ->
    let cs := async_tasks tx true (lenN pre) rest in
    (all_ok cs <-> forall k i, nth_error rest k = Some i -> verified tx (lenN pre + N.of_nat k) i) /\
    (all_ok cs -> sum_ok cs = declared_sum rest).
  Proof.
    induction rest as [|i r IH]; intros pre Etx; cbn zeta.
    - cbn [AuthModel.async_tasks]. split; [|reflexivity]. split; [intros _ k i H; destruct k; discriminate | constructor].
    - assert (Etx' : tx = (pre ++ [i]) ++ r) by (now rewrite <- app_assoc).
      specialize (IH (pre ++ [i]) Etx'). cbn zeta in IH. rewrite lenN_snoc in IH. destruct IH as [IH1 IH2].
      assert (Shift : (forall k j, nth_error r k = Some j -> verified tx (lenN pre + 1 + N.of_nat k) j) <->
                      (forall k j, nth_error r k = Some j -> verified tx (lenN pre + N.of_nat (S k)) j)).
      { split; intros H k j Hk; specialize (H k j Hk);
          replace (lenN pre + N.of_nat (S k)) with (lenN pre + 1 + N.of_nat k) in * by lia; exact H. }
      cbn [AuthModel.async_tasks]. destruct (is_predicate i) eqn:P.
      + destruct i as [|o p d|]; try discriminate.
        assert (Hn : nth_error tx (N.to_nat (lenN pre)) = Some (IPredicate o p d)) by (rewrite Etx; apply nth_error_middle).
        split.
        * split.
          -- intros H. pose proof (Forall_inv H) as [g Hg]. pose proof (Forall_inv_tail H) as Ht. cbn [snd] in Hg.
             apply (check_predicate_verifying tx _ o p d g Hn) in Hg as [G1 [G2 _]].
             intros [|k] j Hk; cbn [nth_error] in Hk.
             ++ injection Hk as <-. rewrite N.add_0_r. cbn [verified]. auto.
             ++ apply Shift; [now apply IH1 | exact Hk].
          -- intros H. constructor.
             ++ exists d. cbn [snd]. apply (check_predicate_verifying tx _ o p d d Hn).
                specialize (H 0%nat _ eq_refl). rewrite N.add_0_r in H. destruct H. auto.
             ++ apply IH1. apply Shift. intros k j Hk. apply (H (S k) j Hk).
        * intros H. pose proof (Forall_inv H) as [g Hg]. pose proof (Forall_inv_tail H) as Ht. cbn [snd] in Hg.
          pose proof Hg as Hg'. apply (check_predicate_verifying tx _ o p d g Hn) in Hg' as [_ [_ ->]].
          cbn [sum_ok declared_sum]. rewrite Hg. rewrite (IH2 Ht). reflexivity.
      + split.
        * rewrite IH1. rewrite Shift. split.
          -- intros H [|k] j Hk; cbn [nth_error] in Hk; [injection Hk as <-; destruct i; try discriminate; exact I | now apply H].
          -- intros H k j Hk. apply (H (S k) j Hk).
        * intros H. rewrite (IH2 H). destruct i; try discriminate; reflexivity.
  Qed.

  (* check_predicates accepts EXACTLY the transactions all of whose predicate inputs are owned by
     their predicate's address and return true using exactly the declared gas, within the
     total-gas allowance; the gas reported is the sum of the declared amounts *)
  Theorem check_predicates_iff tx g tx' :
    check_predicates tx = inr (g, tx') <->
    tx' = tx /\ max_gas tx <= max_gas_per_tx /\ g = declared_sum tx /\ g < U64 /\
    (forall k i, nth_error tx k = Some i -> verified tx (N.of_nat k) i).
  Proof.
    unfold AuthModel.check_predicates, AuthModel.finalize. rewrite sequential_parallel_checks.
    unfold AuthModel.parallel_checks.
    pose proof (verify_tasks_spec tx tx [] eq_refl) as [S1 S2]. cbn zeta in S1, S2.
    change (lenN (@nil input)) with 0 in S1, S2.
    assert (H0 : 0 < U64) by (unfold U64; lia).
    destruct (max_gas_per_tx <? max_gas tx) eqn:M.
    - apply N.ltb_lt in M. split; [discriminate|]. intros [_ [H _]]. lia.
    - apply N.ltb_ge in M. destruct (cumulate 0 (async_tasks tx true 0 tx)) as [e|x] eqn:C.
      + split; [discriminate|]. intros [_ [_ [-> [G V]]]].
        assert (A : all_ok (async_tasks tx true 0 tx)) by (apply S1; intros k i Hk; rewrite N.add_0_l; now apply V).
        assert (C' : cumulate 0 (async_tasks tx true 0 tx) = inr (declared_sum tx)).
        { apply (cumulate_ok_iff _ 0 _ H0). split; [exact A|]. rewrite (S2 A). split; [lia | exact G]. }
        rewrite C in C'. discriminate.
      + apply (cumulate_ok_iff _ 0 _ H0) in C as [A [E L]]. rewrite (S2 A), N.add_0_l in E. subst x.
        split.
        * intros Q. injection Q as <- <-. repeat split; auto.
          intros k i Hk. pose proof (proj1 S1 A k i Hk) as V. now rewrite N.add_0_l in V.
        * intros [-> [_ [-> _]]]. reflexivity.
  Qed.

  (* ---------------------------------------------------------------- estimation, then verification *)
  (* walking the inputs and the checks together: the transaction estimation writes *)
  Fixpoint upd (rest : list input) (cs : list (N * res pv_err N)) : list input :=
    match rest with
    | [] => []
    | IPredicate o p d :: r =>
        match cs with
        | (_, inr g) :: cs' => IPredicate o p g :: upd r cs'
        | (_, inl _) :: cs' => IPredicate o p d :: upd r cs'
        | [] => rest
        end
    | i :: r => i :: upd r cs
    end.

  Inductive aligned : N -> list input -> list (N * res pv_err N) -> Prop :=
  | al_nil idx : aligned idx [] []
  | al_skip idx i r cs : is_predicate i = false -> aligned (idx + 1) r cs -> aligned idx (i :: r) cs
  | al_pred idx o p d r res cs : aligned (idx + 1) r cs -> aligned idx (IPredicate o p d :: r) ((idx, res) :: cs).

  Lemma loop_aligned tx v : forall rest idx glob, aligned idx rest (run_predicates_loop tx v idx rest glob).
  Proof.
    induction rest as [|i r IH]; intros idx glob; cbn [AuthModel.run_predicates_loop]; [constructor|].
    destruct (is_predicate i) eqn:P.
    - destruct i; try discriminate. apply al_pred. apply IH.
    - apply al_skip; [exact P | apply IH].
  Qed.

  Lemma set_nth_middle {A} (pre : list A) x y post : set_nth (pre ++ x :: post) (length pre) y = pre ++ y :: post.
  Proof. induction pre as [|a pre IH]; cbn [app length set_nth]; [reflexivity | now rewrite IH]. Qed.

  Lemma set_gas_middle pre o p d post g :
    set_gas (pre ++ IPredicate o p d :: post) (lenN pre) g = pre ++ IPredicate o p g :: post.
  Proof.
    unfold set_gas. rewrite nth_error_middle. unfold lenN. rewrite Nat2N.id. apply set_nth_middle.
  Qed.

  Lemma apply_estimates_upd : forall idx rest cs, aligned idx rest cs -> forall pre, lenN pre = idx ->
    apply_estimates (pre ++ rest) cs = pre ++ upd rest cs.
  Proof.
    induction 1 as [idx | idx i r cs P A IH | idx o p d r res cs A IH]; intros pre Hl.
    - reflexivity.
    - replace (pre ++ i :: r) with ((pre ++ [i]) ++ r) by (now rewrite <- app_assoc).
      rewrite IH by (rewrite lenN_snoc; lia). rewrite <- app_assoc. cbn [app upd].
      destruct i; try discriminate; reflexivity.
    - unfold apply_estimates. cbn [fold_left fst snd upd]. destruct res as [e|g].
      + fold (apply_estimates (pre ++ IPredicate o p d :: r) cs).
        replace (pre ++ IPredicate o p d :: r) with ((pre ++ [IPredicate o p d]) ++ r) by (now rewrite <- app_assoc).
        rewrite IH by (rewrite lenN_snoc; lia). now rewrite <- app_assoc.
      + rewrite <- Hl, set_gas_middle. fold (apply_estimates (pre ++ IPredicate o p g :: r) cs).
        replace (pre ++ IPredicate o p g :: r) with ((pre ++ [IPredicate o p g]) ++ r) by (now rewrite <- app_assoc).
        rewrite IH by (rewrite lenN_snoc; lia). now rewrite <- app_assoc.
  Qed.

  (* the (index, available gas) pairs with which estimation runs the predicates *)
  Fixpoint estimation_runs (tx : list input) (index : N) (rest : list input) (global_available_gas : N) : list (N * N) :=
    match rest with
    | [] => []
    | i :: r =>
        if is_predicate i then
          let available_gas := N.min global_available_gas max_gas_per_predicate in
          (index, available_gas)
            :: estimation_runs tx (index + 1) r (global_available_gas - fst (check_predicate tx index (Estimating available_gas)))
        else estimation_runs tx (index + 1) r global_available_gas
    end.

  Section EstimateThenVerify.
    Variables tx tx' : list input.
    (* every estimation run returned true, and re-running that predicate on the estimated
       transaction with exactly the gas it used succeeds again with nothing left:
       predicate execution is deterministic and does not observe the available gas, the
       predicate_gas_used fields or the estimation/verification context *)
    Definition deterministic_rerun (runs : list (N * N)) : Prop :=
      forall j av, In (j, av) runs ->
        exists rem, run tx j false av = (RReturnOne, rem) /\ rem <= av /\ run tx' j true (av - rem) = (RReturnOne, 0).

    Lemma est_loop_spec : forall rest pre glob, tx = pre ++ rest ->
      deterministic_rerun (estimation_runs tx (lenN pre) rest glob) ->
      let cs := run_predicates_loop tx false (lenN pre) rest glob in
      all_ok cs /\ (forall j g, In (j, inr g) cs -> run tx' j true g = (RReturnOne, 0)).
    Proof.
      induction rest as [|i r IH]; intros pre glob Etx HD; cbn zeta.
      - cbn [AuthModel.run_predicates_loop]. split; [constructor | intros j g []].
      - assert (Etx' : tx = (pre ++ [i]) ++ r) by (now rewrite <- app_assoc).
        cbn [AuthModel.run_predicates_loop]. cbn [estimation_runs] in HD. destruct (is_predicate i) eqn:P.
        + destruct i as [|o p d|]; try discriminate.
          set (av := N.min glob max_gas_per_predicate) in *.
          destruct (HD (lenN pre) av (or_introl eq_refl)) as [rem [R1 [R2 R3]]].
          assert (Hn : nth_error tx (N.to_nat (lenN pre)) = Some (IPredicate o p d)) by (rewrite Etx; apply nth_error_middle).
          assert (C : check_predicate tx (lenN pre) (Estimating av) = (av - rem, inr tt)).
          { unfold AuthModel.check_predicate. rewrite Hn. cbn [negb]. rewrite R1. unfold checked_sub.
            rewrite (proj2 (N.leb_le rem av) R2). reflexivity. }
          rewrite C in *. cbn [fst result_of snd].
          specialize (IH (pre ++ [IPredicate o p d]) (glob - (av - rem)) Etx'). rewrite lenN_snoc in IH.
          destruct IH as [I1 I2]. { intros j a Hj. apply HD. now right. }
          split.
          * constructor; [eexists; reflexivity | exact I1].
          * intros j g [E | Hin]; [injection E as <- <-; exact R3 | now apply I2].
        + specialize (IH (pre ++ [i]) glob Etx'). rewrite lenN_snoc in IH. apply IH. exact HD.
    Qed.

    Lemma verify_estimated : forall idx rest cs, aligned idx rest cs -> all_ok cs ->
      forall pre', tx' = pre' ++ upd rest cs -> lenN pre' = idx ->
      (forall o p d, In (IPredicate o p d) rest -> o = pred_owner p) ->
      (forall j g, In (j, inr g) cs -> run tx' j true g = (RReturnOne, 0)) ->
      async_tasks tx' true idx (upd rest cs) = cs.
    Proof.
      induction 1 as [idx | idx i r cs P A IH | idx o p d r res cs A IH]; intros HA pre' Etx Hl HO HR.
      - reflexivity.
      - assert (E : upd (i :: r) cs = i :: upd r cs) by (destruct i; try discriminate; reflexivity).
        rewrite E in *. cbn [AuthModel.async_tasks]. rewrite P.
        apply (IH HA (pre' ++ [i])).
        + now rewrite <- app_assoc.
        + rewrite lenN_snoc. lia.
        + intros o p d Hin. apply (HO o p d). now right.
        + exact HR.
      - subst idx. pose proof (Forall_inv HA) as [g Hg]. pose proof (Forall_inv_tail HA) as HA'. cbn [snd] in Hg. subst res.
        cbn [upd AuthModel.async_tasks is_predicate] in *.
        assert (Hn : nth_error tx' (N.to_nat (lenN pre')) = Some (IPredicate o p g)) by (rewrite Etx; apply nth_error_middle).
        assert (C : result_of (check_predicate tx' (lenN pre') Verifying) = inr g).
        { apply (check_predicate_verifying tx' _ o p g g Hn). repeat split.
          - apply (HO o p d). now left.
          - apply HR. now left. }
        rewrite C. f_equal.
        apply (IH HA' (pre' ++ [IPredicate o p g])).
        + now rewrite <- app_assoc.
        + rewrite lenN_snoc. lia.
        + intros o' p' d' Hin. apply (HO o' p' d'). now right.
        + intros j g' Hin. apply HR. now right.
    Qed.

    Theorem estimate_then_verify g :
      estimate_predicates tx = inr (g, tx') ->
      (forall o p d, In (IPredicate o p d) tx -> o = pred_owner p) ->
      deterministic_rerun (estimation_runs tx 0 tx (max_gas_per_tx - max_gas tx)) ->
      check_predicates tx' = inr (g, tx').
    Proof.
      intros HE HO HD. unfold AuthModel.estimate_predicates, AuthModel.finalize in HE.
      set (cs := sequential_checks tx false) in *.
      destruct (max_gas_per_tx <? max_gas (apply_estimates tx cs)) eqn:M; [discriminate|].
      destruct (cumulate 0 cs) as [e|x] eqn:C; [discriminate|]. injection HE as -> Etx'.
      pose proof (est_loop_spec tx [] (max_gas_per_tx - max_gas tx) eq_refl HD) as [A R]. cbn zeta in A, R.
      change (lenN (@nil input)) with 0 in A, R. fold cs in A, R.
      assert (AL : aligned 0 tx cs) by apply loop_aligned.
      assert (U : tx' = upd tx cs) by (rewrite <- Etx'; apply (apply_estimates_upd 0 tx cs AL [] eq_refl)).
      unfold AuthModel.check_predicates, AuthModel.finalize. rewrite sequential_parallel_checks.
      unfold AuthModel.parallel_checks.
      assert (V : async_tasks tx' true 0 tx' = cs).
      { rewrite U at 2. apply (verify_estimated 0 tx cs AL A []); auto. }
      rewrite V. rewrite <- Etx' at 1. rewrite M, C. reflexivity.
    Qed.
  End EstimateThenVerify.
End PredProofs.

(* ================================================================ the premises are satisfiable / necessary *)
(* A toy signature scheme in which recovery is binding and the key hash injective: a
   "signature" is message || key.  (The real premise is about secp256k1, property C17.) *)
Definition toy_recover (w h : bytes) : option bytes :=
  if bytes_eqb (firstn 32 w) h then Some (skipn 32 w) else None.
Definition toy_hash (pk : bytes) : bytes := pk.

Example toy_binding : forall h h', recover_binding bytes toy_recover h h'.
Proof.
  intros h h' w pk H1 H2. unfold toy_recover in *.
  destruct (bytes_eqb (firstn 32 w) h) eqn:E1; [|discriminate].
  destruct (bytes_eqb (firstn 32 w) h') eqn:E2; [|discriminate].
  apply bytes_eqb_eq in E1. apply bytes_eqb_eq in E2. congruence.
Qed.
Example toy_hash_injective : hash_pk_injective bytes toy_hash.
Proof. intros a b H. exact H. Qed.

Definition ex_id : bytes := repeat 1 32.
Definition ex_id' : bytes := repeat 9 32.
Definition ex_key : bytes := repeat 2 32.
Definition ex_pred_owner (p : bytes) : bytes := 7 :: p.
(* two signed inputs sharing witness 0, a predicate input, a contract input *)
Definition ex_inputs : list input := [ISigned ex_key 0; IPredicate [7; 5] [5] 3; IContract; ISigned ex_key 0].
Example ex_signatures_accepted :
  check_signatures bytes toy_recover toy_hash ex_pred_owner ex_id ex_inputs [ex_id ++ ex_key] = None.
Proof. vm_compute. reflexivity. Qed.
Example ex_signatures_tampered :
  check_signatures bytes toy_recover toy_hash ex_pred_owner ex_id' ex_inputs [ex_id ++ ex_key] = Some (InputInvalidSignature 0).
Proof. vm_compute. reflexivity. Qed.

(* A gas-oblivious predicate costing 7 gas that returns true *)
Definition ex_run (tx : list input) (j : N) (verifying : bool) (av : N) : run_state * N :=
  if av <? 7 then (RErrOutOfGas, 0) else (RReturnOne, av - 7).
Definition ex_max_gas (tx : list input) : N := 100 + declared_sum tx.
Definition ex_tx : list input := [IContract; IPredicate [7; 5] [5] 0; IPredicate [7; 6] [6] 0].
Definition ex_tx' : list input := [IContract; IPredicate [7; 5] [5] 7; IPredicate [7; 6] [6] 7].

Example ex_estimate : estimate_predicates ex_pred_owner ex_run ex_max_gas 1000 50 ex_tx = inr (14, ex_tx').
Proof. vm_compute. reflexivity. Qed.
Example ex_rerun_premise :
  deterministic_rerun ex_run ex_tx ex_tx' (estimation_runs ex_pred_owner ex_run 50 ex_tx 0 ex_tx (1000 - ex_max_gas ex_tx)).
Proof.
  intros j av H. vm_compute in H. destruct H as [H | [H | []]]; injection H as <- <-; exists 43; vm_compute; repeat split; congruence.
Qed.
Example ex_verify_after_estimate : check_predicates ex_pred_owner ex_run ex_max_gas 1000 50 ex_tx' = inr (14, ex_tx').
Proof. vm_compute. reflexivity. Qed.

(* Estimation accepts a predicate that returns false (it ignores the result); verification of
   the estimated transaction then fails.  So "estimation succeeded => verification succeeds"
   does not hold without the premise that the estimation runs returned true. *)
Definition false_run (tx : list input) (j : N) (verifying : bool) (av : N) : run_state * N :=
  if av <? 5 then (RErrOutOfGas, 0) else (RErrPanic 42, av - 5).       (* PredicateReturnedNonOne after 5 gas *)
Lemma estimate_accepts_false_predicate_refuted :
  exists pred_owner run max_gas mpt mpp tx g tx',
    estimate_predicates pred_owner run max_gas mpt mpp tx = inr (g, tx') /\
    (forall o p d, In (IPredicate o p d) tx -> o = pred_owner p) /\
    check_predicates pred_owner run max_gas mpt mpp tx' = inl (PPanic 0 42).
Proof.
  exists ex_pred_owner, false_run, ex_max_gas, 1000, 50, [IPredicate [7; 5] [5] 0], 5, [IPredicate [7; 5] [5] 5].
  split; [vm_compute; reflexivity|]. split; [|vm_compute; reflexivity].
  intros o p d [H|[]]. injection H as <- <- <-. reflexivity.
Qed.

(* A predicate that returns true only while it sees more than 50 gas available (it reads $ggas):
   every estimation run returns true, yet verification with exactly the estimated gas fails.
   So the determinism premise (the run does not observe the available gas) is needed too. *)
Definition gas_observing_run (tx : list input) (j : N) (verifying : bool) (av : N) : run_state * N :=
  if av <? 5 then (RErrOutOfGas, 0) else if 50 <? av then (RReturnOne, av - 5) else (RErrPanic 42, av - 5).
Lemma estimate_gas_observing_predicate_refuted :
  exists pred_owner run max_gas mpt mpp tx g tx',
    estimate_predicates pred_owner run max_gas mpt mpp tx = inr (g, tx') /\
    (forall o p d, In (IPredicate o p d) tx -> o = pred_owner p) /\
    (forall j av, In (j, av) (estimation_runs pred_owner run mpp tx 0 tx (mpt - max_gas tx)) -> fst (run tx j false av) = RReturnOne) /\
    check_predicates pred_owner run max_gas mpt mpp tx' = inl (PPanic 0 42).
Proof.
  exists ex_pred_owner, gas_observing_run, ex_max_gas, 1000, 100, [IPredicate [7; 5] [5] 0], 5, [IPredicate [7; 5] [5] 5].
  split; [vm_compute; reflexivity|]. split; [|split; [|vm_compute; reflexivity]].
  - intros o p d [H|[]]. injection H as <- <- <-. reflexivity.
  - intros j av H. vm_compute in H. destruct H as [H|[]]. injection H as <- <-. vm_compute. reflexivity.
Qed.

(* delivery order: both orders are rejected, but with different errors — only the verdict
   (accepted or not) and the gas of an accepted transaction are order-independent *)
Example delivery_order_changes_error :
  finalize (fun _ => 0) 10 false [] [(0, inl (PFalse 0)); (1, inl (OutOfGas 1))] = inl (PFalse 0) /\
  finalize (fun _ => 0) 10 false [] [(1, inl (OutOfGas 1)); (0, inl (PFalse 0))] = inl (OutOfGas 1).
Proof. split; reflexivity. Qed.

(* ================================================================ statement-shaped corollaries *)
Theorem check_signatures_sound PK recover_pk hash_pk pred_owner txid ins ws :
  check_signatures PK recover_pk hash_pk pred_owner txid ins ws = None ->
  forall i, In i ins -> authorized PK recover_pk hash_pk pred_owner txid ws i.
Proof. intros H. apply check_signatures_ok_iff in H. now rewrite Forall_forall in H. Qed.

Theorem check_predicates_sound pred_owner run max_gas mpt mpp tx g tx' :
  check_predicates pred_owner run max_gas mpt mpp tx = inr (g, tx') ->
  tx' = tx /\ max_gas tx <= mpt /\ g = declared_sum tx /\ g < U64 /\
  forall k o p d, nth_error tx k = Some (IPredicate o p d) ->
    o = pred_owner p /\ run tx (N.of_nat k) true d = (RReturnOne, 0).
Proof.
  intros H. apply check_predicates_iff in H as [H1 [H2 [H3 [H4 H5]]]]. repeat split; auto;
    destruct (H5 k _ H) as [A B]; assumption.
Qed.

(* the property's estimation claim as written ("verification of the estimated transaction
   succeeds whenever estimation succeeded", for arbitrary predicate programs) *)
Definition estimate_then_verify_unconditional : Prop :=
  forall pred_owner run max_gas mpt mpp tx g tx',
    estimate_predicates pred_owner run max_gas mpt mpp tx = inr (g, tx') ->
    (forall o p d, In (IPredicate o p d) tx -> o = pred_owner p) ->
    check_predicates pred_owner run max_gas mpt mpp tx' = inr (g, tx').

Theorem estimate_then_verify_unconditional_refuted : ~ estimate_then_verify_unconditional.
Proof.
  intros H. destruct estimate_accepts_false_predicate_refuted as [po [run [mg [mpt [mpp [tx [g [tx' [E [O C]]]]]]]]]].
  rewrite (H _ _ _ _ _ _ _ _ E O) in C. discriminate.
Qed.
