(* Upgrade/UpgradeModel.v — L1 executable model of
     fuel-vm/src/interpreter/executors/main.rs : deploy_inner, upgrade_inner, upload_inner,
       upload_bytecode_subsection, blob_inner (+ the public deploy/upgrade/upload/blob entry
       points and the Create/Upgrade/Upload/Blob branches of `run`, which only forward to them)
     fuel-vm/src/storage/interpreter.rs : contains_state_transition_bytecode_root,
       deploy_contract_with_id, storage_contract_exists
     fuel-vm/src/storage/memory.rs : MemoryStorage (BTreeMap tables; `insert` overwrites and
       returns the previous value; the two current-version fields are plain registers)
   mirrored function by function, in source order.  Definitions only (proofs: UpgradeProofs.v).

   What is an input here (abstract, already-`Checked` transaction, see UpgradeSpec.tx): the
   contract id / code / slots of a Create, the blob id / data, (root, index, total, part) of an
   Upload, the deserialized consensus parameters (by identity) or root of an Upgrade, and
   [fin_ok] = the verdict of `finalize_outputs` (fee/refund arithmetic; it runs AFTER the
   storage writes; for a checked transaction it cannot fail — the Rust code files a failure
   under Bug::UncomputableRefund).  Not modelled because `Checked<Tx>` excludes them and they
   happen before any write: witness index out of bounds (Bug::WitnessIndexOutOfBounds),
   `create.bytecode()?`, metadata mismatch in get_consensus_parameters; storage I/O errors
   (MemoryStorage is Infallible). *)
From FV Require Import Base.Bytes Upgrade.UpgradeSpec.
Open Scope N_scope.

(* ---------- BTreeMap<K, V> as a key-sorted association list ---------- *)
Section SMap.
  Context {K V : Type} (cmp : K -> K -> comparison).
  Fixpoint sget (m : list (K * V)) (k : K) : option V :=
    match m with
    | [] => None
    | (k', v) :: r => match cmp k k' with Eq => Some v | _ => sget r k end
    end.
  (* BTreeMap::insert: replaces the value of an existing key, keeps the order *)
  Fixpoint sins (m : list (K * V)) (k : K) (v : V) : list (K * V) :=
    match m with
    | [] => [(k, v)]
    | (k', v') :: r => match cmp k k' with
                       | Lt => (k, v) :: m
                       | Eq => (k, v) :: r
                       | Gt => (k', v') :: sins r k v
                       end
    end.
End SMap.

(* ContractsStateKey = contract id ++ slot key (64 bytes), ordered lexicographically *)
Definition key2_cmp (a b : N * N) : comparison :=
  match N.compare (fst a) (fst b) with
  | Eq => N.compare (snd a) (snd b)
  | c => c
  end.

(* storage.rs: enum UploadedBytecode *)
Inductive uploaded :=
| Uncompleted (bytecode : bytes) (uploaded_subsections_number : N)
| Completed (bytecode : bytes).

(* memory.rs: MemoryStorageInner (the tables C35 talks about) + the two version registers *)
Record mstate := {
  m_contracts : list (N * bytes);            (* contracts: ContractId -> Contract *)
  m_state : list ((N * N) * bytes);          (* contract_state: (ContractId, key) -> value *)
  m_blobs : list (N * bytes);                (* blobs *)
  m_uploads : list (N * uploaded);           (* state_transition_bytecodes: root -> UploadedBytecode *)
  m_cpv : list (N * bytes);                  (* consensus_parameters_versions *)
  m_stv : list (N * N);                      (* state_transition_bytecodes_versions: version -> root *)
  m_cp_cur : N;                              (* consensus_parameters_version *)
  m_st_cur : N;                              (* state_transition_version *)
}.

Definition minit (cp st : N) : mstate :=
  {| m_contracts := []; m_state := []; m_blobs := []; m_uploads := []; m_cpv := []; m_stv := [];
     m_cp_cur := cp; m_st_cur := st |}.

Definition set_contracts (s : mstate) x := {| m_contracts := x; m_state := m_state s; m_blobs := m_blobs s;
  m_uploads := m_uploads s; m_cpv := m_cpv s; m_stv := m_stv s; m_cp_cur := m_cp_cur s; m_st_cur := m_st_cur s |}.
Definition set_state (s : mstate) x := {| m_contracts := m_contracts s; m_state := x; m_blobs := m_blobs s;
  m_uploads := m_uploads s; m_cpv := m_cpv s; m_stv := m_stv s; m_cp_cur := m_cp_cur s; m_st_cur := m_st_cur s |}.
Definition set_blobs (s : mstate) x := {| m_contracts := m_contracts s; m_state := m_state s; m_blobs := x;
  m_uploads := m_uploads s; m_cpv := m_cpv s; m_stv := m_stv s; m_cp_cur := m_cp_cur s; m_st_cur := m_st_cur s |}.
Definition set_uploads (s : mstate) x := {| m_contracts := m_contracts s; m_state := m_state s; m_blobs := m_blobs s;
  m_uploads := x; m_cpv := m_cpv s; m_stv := m_stv s; m_cp_cur := m_cp_cur s; m_st_cur := m_st_cur s |}.
Definition set_cpv (s : mstate) x := {| m_contracts := m_contracts s; m_state := m_state s; m_blobs := m_blobs s;
  m_uploads := m_uploads s; m_cpv := x; m_stv := m_stv s; m_cp_cur := m_cp_cur s; m_st_cur := m_st_cur s |}.
Definition set_stv (s : mstate) x := {| m_contracts := m_contracts s; m_state := m_state s; m_blobs := m_blobs s;
  m_uploads := m_uploads s; m_cpv := m_cpv s; m_stv := x; m_cp_cur := m_cp_cur s; m_st_cur := m_st_cur s |}.
Definition set_cp_cur (s : mstate) x := {| m_contracts := m_contracts s; m_state := m_state s; m_blobs := m_blobs s;
  m_uploads := m_uploads s; m_cpv := m_cpv s; m_stv := m_stv s; m_cp_cur := x; m_st_cur := m_st_cur s |}.
Definition set_st_cur (s : mstate) x := {| m_contracts := m_contracts s; m_state := m_state s; m_blobs := m_blobs s;
  m_uploads := m_uploads s; m_cpv := m_cpv s; m_stv := m_stv s; m_cp_cur := m_cp_cur s; m_st_cur := x |}.

Definition is_some {A} (o : option A) : bool := match o with Some _ => true | None => false end.

(* u32::saturating_add(1) *)
Definition sat_succ32 (v : N) : N := N.min (v + 1) (2 ^ 32 - 1).

(* post_execution.rs: finalize_outputs — touches the transaction's outputs only *)
Definition finalize_outputs (s : mstate) (fin_ok : bool) : mstate * res :=
  if fin_ok then (s, Ok) else (s, Err BugUncomputableRefund).

(* ---------- storage/interpreter.rs ---------- *)
Definition storage_contract_exists (s : mstate) (id : N) : bool :=
  is_some (sget N.compare (m_contracts s) id).

(* storage_contract_insert, then contract_state_insert for every slot, in order *)
Definition deploy_contract_with_id (s : mstate) (slots : list (N * bytes)) (contract : bytes) (id : N) : mstate :=
  let s1 := set_contracts s (sins N.compare (m_contracts s) id contract) in
  set_state s1 (fold_left (fun st kv => sins key2_cmp st (id, fst kv) (snd kv)) slots (m_state s1)).

Definition contains_state_transition_bytecode_root (s : mstate) (root : N) : bool :=
  match sget N.compare (m_uploads s) root with
  | Some (Completed _) => true
  | Some (Uncompleted _ _) => false
  | None => false
  end.

(* ---------- executors/main.rs ---------- *)
Definition deploy_inner (s : mstate) (id : N) (code : bytes) (slots : list (N * bytes)) (fin_ok : bool)
  : mstate * res :=
  (* Prevent redeployment of contracts *)
  if storage_contract_exists s id then (s, Err ContractIdAlreadyDeployed)
  else
    let s1 := deploy_contract_with_id s slots code id in
    finalize_outputs s1 fin_ok.

(* upgrade_inner (current code, after the `fix:` commit for finding F8): `set_*` is
   BTreeMap::insert, which overwrites and returns the previous value; when there was one, the
   code writes it back (`set_*(next_version, &prev)`) before returning the Overriding error. *)
Definition upgrade_inner_cp (s : mstate) (params : bytes) (fin_ok : bool) : mstate * res :=
  let current_version := m_cp_cur s in
  let next_version := sat_succ32 current_version in
  let prev := sget N.compare (m_cpv s) next_version in
  let s1 := set_cpv s (sins N.compare (m_cpv s) next_version params) in      (* set_consensus_parameters *)
  match prev with
  | Some p => (* restore the entry that has just been replaced *)
      (set_cpv s1 (sins N.compare (m_cpv s1) next_version p), Err OverridingConsensusParameters)
  | None => finalize_outputs s1 fin_ok
  end.

Definition upgrade_inner_st (s : mstate) (root : N) (fin_ok : bool) : mstate * res :=
  let exists_ := contains_state_transition_bytecode_root s root in
  if negb exists_ then (s, Err UnknownStateTransactionBytecodeRoot)
  else
    let current_version := m_st_cur s in
    let next_version := sat_succ32 current_version in
    let prev := sget N.compare (m_stv s) next_version in
    let s1 := set_stv s (sins N.compare (m_stv s) next_version root) in      (* set_state_transition_bytecode *)
    match prev with
    | Some p => (set_stv s1 (sins N.compare (m_stv s1) next_version p), Err OverridingStateTransactionBytecode)
    | None => finalize_outputs s1 fin_ok
    end.

(* HISTORICAL — model of upgrade_inner as it was BEFORE the fix commit (not the current code):
   `set_*` ran and the function returned the error without restoring.  Kept only so that the
   reason for the fix stays machine-checked (UpgradeProofs.before_fix_failed_unchanged_refuted)
   and so that a regression to the old behaviour is recognised by name. *)
Definition upgrade_inner_cp_before_fix (s : mstate) (params : bytes) (fin_ok : bool) : mstate * res :=
  let next_version := sat_succ32 (m_cp_cur s) in
  let prev := sget N.compare (m_cpv s) next_version in
  let s1 := set_cpv s (sins N.compare (m_cpv s) next_version params) in
  if is_some prev then (s1, Err OverridingConsensusParameters)
  else finalize_outputs s1 fin_ok.

Definition upgrade_inner_st_before_fix (s : mstate) (root : N) (fin_ok : bool) : mstate * res :=
  if negb (contains_state_transition_bytecode_root s root) then (s, Err UnknownStateTransactionBytecodeRoot)
  else
    let next_version := sat_succ32 (m_st_cur s) in
    let prev := sget N.compare (m_stv s) next_version in
    let s1 := set_stv s (sins N.compare (m_stv s) next_version root) in
    if is_some prev then (s1, Err OverridingStateTransactionBytecode)
    else finalize_outputs s1 fin_ok.

(* upload_bytecode_subsection: Result<UploadedBytecode, _> *)
Definition upload_bytecode_subsection (idx total : N) (part : bytes) (uploaded_bytecode : bytes)
           (uploaded_subsections_number : N) : err + uploaded :=
  let index_of_next_subsection := uploaded_subsections_number in
  if negb (idx =? index_of_next_subsection) then inl ThePartIsNotSequentiallyConnected
  else
    let uploaded_bytecode := uploaded_bytecode ++ part in
    (* u16::checked_add(1) *)
    if 65535 <? uploaded_subsections_number + 1 then inl ArithmeticOverflow
    else
      let new_uploaded_subsections_number := uploaded_subsections_number + 1 in
      if total <? new_uploaded_subsections_number
      then inl BugNextSubsectionIndexIsHigherThanTotalNumberOfParts
      else if total =? new_uploaded_subsections_number
           then inr (Completed uploaded_bytecode)
           else inr (Uncompleted uploaded_bytecode new_uploaded_subsections_number).

Definition upload_inner (s : mstate) (root idx total : N) (part : bytes) (fin_ok : bool) : mstate * res :=
  let uploaded_bytecode := match sget N.compare (m_uploads s) root with
                           | Some x => x
                           | None => Uncompleted [] 0
                           end in
  match uploaded_bytecode with
  | Uncompleted bytecode n =>
      match upload_bytecode_subsection idx total part bytecode n with
      | inl e => (s, Err e)
      | inr new_bytecode =>
          let s1 := set_uploads s (sins N.compare (m_uploads s) root new_bytecode) in
          finalize_outputs s1 fin_ok
      end
  | Completed _ => (s, Err BytecodeAlreadyUploaded)
  end.

(* blob_inner: `replace` (BTreeMap::insert) runs before `old.is_some()` is tested *)
Definition blob_inner (s : mstate) (id : N) (data : bytes) (fin_ok : bool) : mstate * res :=
  let old := sget N.compare (m_blobs s) id in
  let s1 := set_blobs s (sins N.compare (m_blobs s) id data) in
  if is_some old then (s1, Err BlobIdAlreadyUploaded)
  else finalize_outputs s1 fin_ok.

(* ---------- one event.  [fixed = true]: the current code; [fixed = false]: the HISTORICAL
   upgrade_inner of before the fix commit ---------- *)
Definition step_gen (fixed : bool) (s : mstate) (e : event) (fin_ok : bool) : mstate * res :=
  match e with
  | ETx (Deploy id code slots) => deploy_inner s id code slots fin_ok
  | ETx (Blob id data) => blob_inner s id data fin_ok
  | ETx (Upload root idx total part) => upload_inner s root idx total part fin_ok
  | ETx (UpgradeConsensus params) =>
      if fixed then upgrade_inner_cp s params fin_ok else upgrade_inner_cp_before_fix s params fin_ok
  | ETx (UpgradeStateTransition root) =>
      if fixed then upgrade_inner_st s root fin_ok else upgrade_inner_st_before_fix s root fin_ok
  | ESetCpVersion v => (set_cp_cur s v, Ok)      (* MemoryStorage::set_consensus_parameters_version *)
  | ESetStVersion v => (set_st_cur s v, Ok)      (* MemoryStorage::set_state_transition_version *)
  end.

Fixpoint exec_gen (fixed : bool) (s : mstate) (h : list event) : mstate * list (event * res) :=
  match h with
  | [] => (s, [])
  | e :: r => let '(s1, x) := step_gen fixed s e true in
              let '(s2, tr) := exec_gen fixed s1 r in (s2, (e, x) :: tr)
  end.

(* the current code (finalize_outputs succeeds) *)
Definition step (s : mstate) (e : event) : mstate * res := step_gen true s e true.
Definition run (s : mstate) (h : list event) : mstate := fst (exec_gen true s h).
Definition trace (s : mstate) (h : list event) : list (event * res) := snd (exec_gen true s h).
(* HISTORICAL: the code before the fix commit *)
Definition step_before_fix (s : mstate) (e : event) : mstate * res := step_gen false s e true.
Definition run_before_fix (s : mstate) (h : list event) : mstate := fst (exec_gen false s h).
Definition trace_before_fix (s : mstate) (h : list event) : list (event * res) := snd (exec_gen false s h).

(* ---------- observations used by the theorems ---------- *)
(* extensional equality of the tables (and registers) of two storage states *)
Definition tables_eq (a b : mstate) : Prop :=
  (forall k, sget N.compare (m_contracts a) k = sget N.compare (m_contracts b) k) /\
  (forall k, sget key2_cmp (m_state a) k = sget key2_cmp (m_state b) k) /\
  (forall k, sget N.compare (m_blobs a) k = sget N.compare (m_blobs b) k) /\
  (forall k, sget N.compare (m_uploads a) k = sget N.compare (m_uploads b) k) /\
  (forall k, sget N.compare (m_cpv a) k = sget N.compare (m_cpv b) k) /\
  (forall k, sget N.compare (m_stv a) k = sget N.compare (m_stv b) k) /\
  m_cp_cur a = m_cp_cur b /\ m_st_cur a = m_st_cur b.

(* the upload entry of the model agrees with the specification's progress record *)
Definition upload_agree (mu : option uploaded) (su : option upload_entry) : Prop :=
  match mu, su with
  | None, None => True
  | Some (Uncompleted b n), Some e =>
      u_complete e = false /\ b = concat_parts (u_parts e) /\ n = lenN (u_parts e)
  | Some (Completed b), Some e => u_complete e = true /\ b = concat_parts (u_parts e)
  | _, _ => False
  end.

(* the abstraction relation L1 ~ L3.  [full = true]: all tables agree (what holds for the current
   code).  [full = false]: the two version tables only agree on WHICH versions are taken (all that
   held for the code before the fix commit; used only for the HISTORICAL model). *)
Definition agree (full : bool) (m : mstate) (s : sstate) : Prop :=
  (forall id, sget N.compare (m_contracts m) id = option_map fst (s_contracts s id)) /\
  (forall id k, sget key2_cmp (m_state m) (id, k) =
                match s_contracts s id with Some (_, sl) => sl k | None => None end) /\
  (forall id, sget N.compare (m_blobs m) id = s_blobs s id) /\
  (forall r, upload_agree (sget N.compare (m_uploads m) r) (s_uploads s r)) /\
  (forall v, if full then sget N.compare (m_cpv m) v = s_cp_versions s v
             else is_some (sget N.compare (m_cpv m) v) = is_some (s_cp_versions s v)) /\
  (forall v, if full then sget N.compare (m_stv m) v = s_st_versions s v
             else is_some (sget N.compare (m_stv m) v) = is_some (s_st_versions s v)) /\
  m_cp_cur m = s_cp_cur s /\ m_st_cur m = s_st_cur s.

Definition is_override (r : res) : bool :=
  match r with
  | Err OverridingConsensusParameters | Err OverridingStateTransactionBytecode => true
  | _ => false
  end.
Definition is_upgrade (e : event) : bool :=
  match e with ETx (UpgradeConsensus _) | ETx (UpgradeStateTransition _) => true | _ => false end.
Definition is_err (r : res) : bool := match r with Err _ => true | Ok => false end.

(* "a failed transaction leaves the tables unchanged" over all well-formed histories, for the
   current code ([fixed = true]) or the HISTORICAL code before the fix commit ([fixed = false]) *)
Definition failed_unchanged_statement (fixed : bool) : Prop :=
  forall cp st h e, hist_ok (h ++ [e]) ->
    let m := fst (exec_gen fixed (minit cp st) h) in
    is_err (snd (step_gen fixed m e true)) = true ->
    tables_eq (fst (step_gen fixed m e true)) m.
