(* Upgrade/UpgradeProofs.v — proofs for C35 (statements are collected in Properties/C35.v).

   Structure:
   1. facts about the sorted association lists (BTreeMap model);
   2. one-step simulation  L1 (UpgradeModel.step_gen)  ~  L3 (UpgradeSpec.spec_step)  under the
      abstraction relation [agree]; lifted to histories by induction over the event list;
   3. history facts proved on the specification and transported to the model through [agree];
   4. failed-transaction facts proved directly on the model; HISTORICAL facts about the model of
      the code before the fix commit of finding F8 (clearly labelled; not the current code). *)
From FV Require Import Base.Bytes Upgrade.UpgradeSpec Upgrade.UpgradeModel.
Open Scope N_scope.

(* ------------------------------------------------------------------ 1. maps *)
Section SMapFacts.
  Context {K V : Type} (cmp : K -> K -> comparison).
  Hypothesis cmp_eq : forall a b, cmp a b = Eq <-> a = b.

  Lemma sget_sins_eq (m : list (K * V)) k v : sget cmp (sins cmp m k v) k = Some v.
  Proof.
    assert (Hr : cmp k k = Eq) by (apply cmp_eq; reflexivity).
    induction m as [|[k' v'] r IH]; cbn [sins sget].
    - rewrite Hr. reflexivity.
    - destruct (cmp k k') eqn:E; cbn [sget].
      + rewrite Hr. reflexivity.
      + rewrite Hr. reflexivity.
      + rewrite E. exact IH.
  Qed.

  Lemma sget_sins_neq (m : list (K * V)) k j v : j <> k -> sget cmp (sins cmp m k v) j = sget cmp m j.
  Proof.
    intros Hn.
    assert (Hjk : cmp j k <> Eq) by (intros H; apply cmp_eq in H; contradiction).
    induction m as [|[k' v'] r IH]; cbn [sins sget].
    - destruct (cmp j k); [contradiction | reflexivity | reflexivity].
    - destruct (cmp k k') eqn:E; cbn [sget].
      + apply cmp_eq in E. subst k'. destruct (cmp j k); [contradiction | reflexivity | reflexivity].
      + destruct (cmp j k); [contradiction | reflexivity | reflexivity].
      + destruct (cmp j k'); [reflexivity | exact IH | exact IH].
  Qed.
End SMapFacts.

Lemma key2_cmp_eq a b : key2_cmp a b = Eq <-> a = b.
Proof.
  destruct a as [a1 a2], b as [b1 b2]. unfold key2_cmp. cbn [fst snd].
  destruct (N.compare a1 b1) eqn:E.
  - apply N.compare_eq_iff in E. subst b1. rewrite N.compare_eq_iff.
    split; [intros ->; reflexivity | intros H; injection H; auto].
  - split; [discriminate | intros H; injection H as -> ->; rewrite N.compare_refl in E; discriminate].
  - split; [discriminate | intros H; injection H as -> ->; rewrite N.compare_refl in E; discriminate].
Qed.

Definition nget_ins_eq {V} := @sget_sins_eq N V N.compare N.compare_eq_iff.
Definition nget_ins_neq {V} := @sget_sins_neq N V N.compare N.compare_eq_iff.
Definition kget_ins_eq {V} := @sget_sins_eq (N * N) V key2_cmp key2_cmp_eq.
Definition kget_ins_neq {V} := @sget_sins_neq (N * N) V key2_cmp key2_cmp_eq.

Lemma fupd_eq {V} (m : fmap V) k v : fupd m k v k = Some v.
Proof. unfold fupd. rewrite N.eqb_refl. reflexivity. Qed.
Lemma fupd_neq {V} (m : fmap V) k j v : j <> k -> fupd m k v j = m j.
Proof. intros H. unfold fupd. destruct (N.eqb_spec j k); [contradiction | reflexivity]. Qed.

Lemma fold_slots_same (id : N) : forall slots ms (f : fmap bytes),
  (forall k, sget key2_cmp ms (id, k) = f k) ->
  forall k, sget key2_cmp (fold_left (fun st kv => sins key2_cmp st (id, fst kv) (snd kv)) slots ms) (id, k)
            = fold_left (fun m kv => fupd m (fst kv) (snd kv)) slots f k.
Proof.
  induction slots as [|[k0 v0] r IH]; intros ms f H k; cbn [fold_left].
  - apply H.
  - apply IH. intros k1. cbn [fst snd]. destruct (N.eq_dec k1 k0) as [->|Hn].
    + rewrite kget_ins_eq, fupd_eq. reflexivity.
    + rewrite kget_ins_neq by (intros Heq; injection Heq; auto). rewrite fupd_neq by exact Hn. apply H.
Qed.

Lemma fold_slots_other (id id' : N) : id' <> id -> forall (slots : list (N * bytes)) (ms : list ((N * N) * bytes)) k,
  sget key2_cmp (fold_left (fun st kv => sins key2_cmp st (id, fst kv) (snd kv)) slots ms) (id', k)
  = sget key2_cmp ms (id', k).
Proof.
  intros Hn. induction slots as [|[k0 v0] r IH]; intros ms k; cbn [fold_left]; [reflexivity|].
  rewrite IH. apply kget_ins_neq. intros Heq. injection Heq. intros _ H. contradiction.
Qed.

(* ------------------------------------------------------------------ 2. simulation *)
Lemma next_version_sat v : sat_succ32 v = next_version v.
Proof. reflexivity. Qed.

Lemma lenN_snoc {A} (l : list A) x : lenN (l ++ [x]) = lenN l + 1.
Proof. unfold lenN. rewrite app_length. cbn [length]. lia. Qed.

Lemma concat_snoc (ps : list bytes) p : concat (ps ++ [p]) = concat ps ++ p.
Proof. rewrite concat_app. cbn [concat]. rewrite app_nil_r. reflexivity. Qed.

(* upload_bytecode_subsection on a well-formed subsection *)
Lemma ubs_spec idx total part (parts : list bytes) :
  (idx <? total) && (total <=? 65535) = true ->
  upload_bytecode_subsection idx total part (concat parts) (lenN parts) =
    if negb (idx =? lenN parts) then inl ThePartIsNotSequentiallyConnected
    else if idx + 1 =? total then inr (Completed (concat (parts ++ [part])))
         else inr (Uncompleted (concat (parts ++ [part])) (lenN (parts ++ [part]))).
Proof.
  intros Hwf. apply andb_true_iff in Hwf as [H1 H2]. apply N.ltb_lt in H1. apply N.leb_le in H2.
  unfold upload_bytecode_subsection.
  destruct (N.eqb_spec idx (lenN parts)) as [He|Hne]; cbn [negb]; [|reflexivity].
  rewrite <- He.
  replace (65535 <? idx + 1) with false by (symmetry; apply N.ltb_ge; lia).
  replace (total <? idx + 1) with false by (symmetry; apply N.ltb_ge; lia).
  rewrite (N.eqb_sym total (idx + 1)). rewrite concat_snoc, lenN_snoc, <- He. reflexivity.
Qed.

Definition blob_ok (s : sstate) (e : event) : Prop :=
  forall id data d, e = ETx (Blob id data) -> s_blobs s id = Some d -> d = data.

Ltac agree_split H :=
  let Hc := fresh "Hc" in let Hs := fresh "Hs" in let Hb := fresh "Hb" in let Hu := fresh "Hu" in
  let Hcp := fresh "Hcp" in let Hst := fresh "Hst" in let Hr1 := fresh "Hr1" in let Hr2 := fresh "Hr2" in
  destruct H as (Hc & Hs & Hb & Hu & Hcp & Hst & Hr1 & Hr2).

Lemma agree_init full cp st : agree full (minit cp st) (sinit cp st).
Proof.
  unfold agree, minit, sinit; cbn. repeat split; try reflexivity; intros; destruct full; reflexivity.
Qed.

Lemma agree_weaken m s : agree true m s -> agree false m s.
Proof.
  intros H. agree_split H. unfold agree. repeat split; auto; intros v; cbn in *.
  - rewrite Hcp. reflexivity.
  - rewrite Hst. reflexivity.
Qed.

Lemma sim_deploy full m s id code slots :
  agree full m s ->
  snd (deploy_inner m id code slots true) = snd (spec_tx s (Deploy id code slots)) /\
  agree full (fst (deploy_inner m id code slots true)) (fst (spec_tx s (Deploy id code slots))).
Proof.
  intros H. pose proof H as H0. agree_split H.
  unfold deploy_inner, storage_contract_exists. cbn [spec_tx]. rewrite Hc.
  destruct (s_contracts s id) as [[c sl]|] eqn:E; cbn [option_map is_some fst snd].
  - split; [reflexivity | exact H0].
  - unfold finalize_outputs, deploy_contract_with_id. cbn [fst snd]. split; [reflexivity|].
    unfold agree; cbn. repeat split; auto.
    + intros id'. destruct (N.eq_dec id' id) as [->|Hn].
      * rewrite nget_ins_eq, fupd_eq. reflexivity.
      * rewrite nget_ins_neq, fupd_neq by exact Hn. apply Hc.
    + intros id' k. destruct (N.eq_dec id' id) as [->|Hn].
      * rewrite fupd_eq. unfold slots_map. apply fold_slots_same. intros k1. rewrite Hs, E. reflexivity.
      * rewrite fupd_neq by exact Hn. rewrite fold_slots_other by exact Hn. apply Hs.
Qed.

Lemma sim_blob full m s id data :
  agree full m s -> blob_ok s (ETx (Blob id data)) ->
  snd (blob_inner m id data true) = snd (spec_tx s (Blob id data)) /\
  agree full (fst (blob_inner m id data true)) (fst (spec_tx s (Blob id data))).
Proof.
  intros H Hok. agree_split H.
  unfold blob_inner. cbn [spec_tx]. rewrite Hb.
  destruct (s_blobs s id) as [d|] eqn:E; cbn [is_some fst snd finalize_outputs].
  - split; [reflexivity|]. unfold agree; cbn. repeat split; auto.
    intros id'. destruct (N.eq_dec id' id) as [->|Hn].
    + rewrite nget_ins_eq, E. f_equal. symmetry. eapply Hok; [reflexivity | exact E].
    + rewrite nget_ins_neq by exact Hn. apply Hb.
  - split; [reflexivity|]. unfold agree; cbn. repeat split; auto.
    intros id'. destruct (N.eq_dec id' id) as [->|Hn].
    + rewrite nget_ins_eq, fupd_eq. reflexivity.
    + rewrite nget_ins_neq, fupd_neq by exact Hn. apply Hb.
Qed.

Lemma upload_agree_new (m : mstate) (s : sstate) root mu su :
  (forall r, upload_agree (sget N.compare (m_uploads m) r) (s_uploads s r)) ->
  upload_agree (Some mu) (Some su) ->
  forall r, upload_agree (sget N.compare (sins N.compare (m_uploads m) root mu) r) (fupd (s_uploads s) root su r).
Proof.
  intros Hu Hnew r. destruct (N.eq_dec r root) as [->|Hn].
  - rewrite nget_ins_eq, fupd_eq. exact Hnew.
  - rewrite nget_ins_neq, fupd_neq by exact Hn. apply Hu.
Qed.

Lemma sim_upload full m s root idx total part :
  agree full m s -> tx_wf (Upload root idx total part) = true ->
  snd (upload_inner m root idx total part true) = snd (spec_tx s (Upload root idx total part)) /\
  agree full (fst (upload_inner m root idx total part true)) (fst (spec_tx s (Upload root idx total part))).
Proof.
  intros H Hwf. pose proof H as H0. agree_split H. cbn [tx_wf] in Hwf.
  unfold upload_inner. cbn [spec_tx].
  pose proof (Hu root) as Hr.
  destruct (sget N.compare (m_uploads m) root) as [[bc n|bc]|] eqn:E1;
    destruct (s_uploads s root) as [e|] eqn:E2; cbn [upload_agree] in Hr; try contradiction.
  - (* partially uploaded *)
    destruct Hr as (Hcomp & -> & ->). rewrite Hcomp. unfold concat_parts.
    rewrite (ubs_spec idx total part (u_parts e) Hwf).
    destruct (negb (idx =? lenN (u_parts e))); cbn [fst snd]; [split; [reflexivity | exact H0]|].
    destruct (idx + 1 =? total) eqn:Efin; cbn [finalize_outputs fst snd]; (split; [reflexivity|]);
      unfold agree; cbn; repeat split; auto; apply upload_agree_new; auto; cbn [upload_agree u_complete u_parts];
      unfold concat_parts; auto.
  - (* completed *)
    destruct Hr as (Hcomp & _). rewrite Hcomp. cbn [fst snd]. split; [reflexivity | exact H0].
  - (* first subsection of this root *)
    cbn [u_complete u_parts].
    change (@nil N) with (concat (@nil bytes)). change 0 with (lenN (@nil bytes)).
    rewrite (ubs_spec idx total part [] Hwf).
    destruct (negb (idx =? lenN (@nil bytes))); cbn [fst snd]; [split; [reflexivity | exact H0]|].
    destruct (idx + 1 =? total) eqn:Efin; cbn [finalize_outputs fst snd]; (split; [reflexivity|]);
      unfold agree; cbn; repeat split; auto; apply upload_agree_new; auto; cbn [upload_agree u_complete u_parts];
      unfold concat_parts; auto.
Qed.

(* the two upgrade branches; [fixed] = repaired code, [full] = version tables compared by value.
   The unchanged code keeps full agreement only when the upgrade is not rejected as Overriding. *)
Lemma sim_upgrade_cp fixed full m s params :
  agree full m s ->
  (fixed = false -> full = true -> is_override (snd (spec_tx s (UpgradeConsensus params))) = false) ->
  let mr := if fixed then upgrade_inner_cp m params true else upgrade_inner_cp_before_fix m params true in
  snd mr = snd (spec_tx s (UpgradeConsensus params)) /\
  agree full (fst mr) (fst (spec_tx s (UpgradeConsensus params))).
Proof.
  intros H Hov. pose proof H as H0. agree_split H. cbn [spec_tx] in *.
  unfold upgrade_inner_cp, upgrade_inner_cp_before_fix. rewrite next_version_sat, Hr1.
  set (v := next_version (s_cp_cur s)) in *.
  assert (Hsome : is_some (sget N.compare (m_cpv m) v) = is_some (s_cp_versions s v)).
  { pose proof (Hcp v) as Hv. destruct full; [rewrite Hv; reflexivity | exact Hv]. }
  destruct (s_cp_versions s v) as [old|] eqn:E.
  - (* version taken *)
    destruct (sget N.compare (m_cpv m) v) as [p|] eqn:Ep; [|discriminate Hsome].
    destruct fixed; cbn [is_some fst snd]; (split; [reflexivity|]).
    + unfold agree; cbn. repeat split; auto. intros v'. pose proof (Hcp v') as Hv'.
      destruct (N.eq_dec v' v) as [->|Hn].
      * rewrite nget_ins_eq. destruct full; [rewrite <- Hv'; auto | rewrite E; reflexivity].
      * rewrite !nget_ins_neq by exact Hn. exact Hv'.
    + destruct full.
      * cbn [snd is_override] in Hov. discriminate (Hov eq_refl eq_refl).
      * unfold agree; cbn. repeat split; auto. intros v'. pose proof (Hcp v') as Hv'. cbn in Hv'.
        destruct (N.eq_dec v' v) as [->|Hn].
        -- rewrite nget_ins_eq, E. reflexivity.
        -- rewrite nget_ins_neq by exact Hn. exact Hv'.
  - (* version free *)
    destruct (sget N.compare (m_cpv m) v) as [p|] eqn:Ep; [discriminate Hsome|].
    assert (Hgoal : agree full (set_cpv m (sins N.compare (m_cpv m) v params))
              {| s_contracts := s_contracts s; s_blobs := s_blobs s; s_uploads := s_uploads s;
                 s_cp_versions := fupd (s_cp_versions s) v params; s_st_versions := s_st_versions s;
                 s_cp_cur := s_cp_cur s; s_st_cur := s_st_cur s |}).
    { unfold agree; cbn. repeat split; auto. intros v'. pose proof (Hcp v') as Hv'.
      destruct (N.eq_dec v' v) as [->|Hn].
      - rewrite nget_ins_eq, fupd_eq. destruct full; reflexivity.
      - rewrite nget_ins_neq, fupd_neq by exact Hn. exact Hv'. }
    destruct fixed; cbn [is_some finalize_outputs fst snd]; (split; [reflexivity | exact Hgoal]).
Qed.

Lemma contains_root_agree m s root :
  (forall r, upload_agree (sget N.compare (m_uploads m) r) (s_uploads s r)) ->
  contains_state_transition_bytecode_root m root = is_complete s root.
Proof.
  intros Hu. pose proof (Hu root) as Hr. unfold contains_state_transition_bytecode_root, is_complete.
  destruct (sget N.compare (m_uploads m) root) as [[bc n|bc]|]; destruct (s_uploads s root) as [e|];
    cbn [upload_agree] in Hr; try contradiction; try reflexivity.
  - destruct Hr as (-> & _). reflexivity.
  - destruct Hr as (-> & _). reflexivity.
Qed.

Lemma sim_upgrade_st fixed full m s root :
  agree full m s ->
  (fixed = false -> full = true -> is_override (snd (spec_tx s (UpgradeStateTransition root))) = false) ->
  let mr := if fixed then upgrade_inner_st m root true else upgrade_inner_st_before_fix m root true in
  snd mr = snd (spec_tx s (UpgradeStateTransition root)) /\
  agree full (fst mr) (fst (spec_tx s (UpgradeStateTransition root))).
Proof.
  intros H Hov. pose proof H as H0. agree_split H. cbn [spec_tx] in *.
  unfold upgrade_inner_st, upgrade_inner_st_before_fix. rewrite (contains_root_agree m s root Hu).
  destruct (is_complete s root); cbn [negb];
    [| destruct fixed; cbn [fst snd]; (split; [reflexivity | exact H0])].
  rewrite next_version_sat, Hr2.
  set (v := next_version (s_st_cur s)) in *.
  assert (Hsome : is_some (sget N.compare (m_stv m) v) = is_some (s_st_versions s v)).
  { pose proof (Hst v) as Hv. destruct full; [rewrite Hv; reflexivity | exact Hv]. }
  destruct (s_st_versions s v) as [old|] eqn:E.
  - destruct (sget N.compare (m_stv m) v) as [p|] eqn:Ep; [|discriminate Hsome].
    destruct fixed; cbn [is_some fst snd]; (split; [reflexivity|]).
    + unfold agree; cbn. repeat split; auto. intros v'. pose proof (Hst v') as Hv'.
      destruct (N.eq_dec v' v) as [->|Hn].
      * rewrite nget_ins_eq. destruct full; [rewrite <- Hv'; auto | rewrite E; reflexivity].
      * rewrite !nget_ins_neq by exact Hn. exact Hv'.
    + destruct full.
      * cbn [snd is_override] in Hov. discriminate (Hov eq_refl eq_refl).
      * unfold agree; cbn. repeat split; auto. intros v'. pose proof (Hst v') as Hv'. cbn in Hv'.
        destruct (N.eq_dec v' v) as [->|Hn].
        -- rewrite nget_ins_eq, E. reflexivity.
        -- rewrite nget_ins_neq by exact Hn. exact Hv'.
  - destruct (sget N.compare (m_stv m) v) as [p|] eqn:Ep; [discriminate Hsome|].
    assert (Hgoal : agree full (set_stv m (sins N.compare (m_stv m) v root))
              {| s_contracts := s_contracts s; s_blobs := s_blobs s; s_uploads := s_uploads s;
                 s_cp_versions := s_cp_versions s; s_st_versions := fupd (s_st_versions s) v root;
                 s_cp_cur := s_cp_cur s; s_st_cur := s_st_cur s |}).
    { unfold agree; cbn. repeat split; auto. intros v'. pose proof (Hst v') as Hv'.
      destruct (N.eq_dec v' v) as [->|Hn].
      - rewrite nget_ins_eq, fupd_eq. destruct full; reflexivity.
      - rewrite nget_ins_neq, fupd_neq by exact Hn. exact Hv'. }
    destruct fixed; cbn [is_some finalize_outputs fst snd]; (split; [reflexivity | exact Hgoal]).
Qed.

(* one event *)
Lemma sim_step fixed full m s e :
  agree full m s -> ev_wf e = true -> blob_ok s e ->
  (fixed = false -> full = true -> is_override (snd (spec_step s e)) = false) ->
  snd (step_gen fixed m e true) = snd (spec_step s e) /\
  agree full (fst (step_gen fixed m e true)) (fst (spec_step s e)).
Proof.
  intros H Hwf Hbo Hov. destruct e as [t|v|v]; cbn [ev_wf] in Hwf.
  - unfold spec_step in *. rewrite Hwf in *. destruct t; cbn [step_gen].
    + apply sim_deploy; exact H.
    + apply sim_blob; assumption.
    + apply sim_upload; assumption.
    + apply (sim_upgrade_cp fixed full m s params H Hov).
    + apply (sim_upgrade_st fixed full m s root H Hov).
  - agree_split H. cbn. split; [reflexivity|]. unfold agree; cbn. repeat split; auto.
  - agree_split H. cbn. split; [reflexivity|]. unfold agree; cbn. repeat split; auto.
Qed.

(* ---- histories ---- *)
Definition blob_inv (s : sstate) (h : list event) : Prop :=
  (forall id data d, In (ETx (Blob id data)) h -> s_blobs s id = Some d -> d = data) /\ blob_bind h.

Lemma spec_step_blobs s e id d :
  s_blobs (fst (spec_step s e)) id = Some d -> s_blobs s id = Some d \/ e = ETx (Blob id d).
Proof.
  destruct e as [t|v|v]; cbn; auto.
  destruct (tx_wf t); cbn; auto.
  destruct t; cbn; auto.
  - destruct (s_contracts s id0); cbn; auto.
  - destruct (s_blobs s id0) eqn:E; cbn; auto.
    unfold fupd. destruct (N.eqb_spec id id0) as [->|Hn]; auto. intros H. injection H as ->. auto.
  - destruct (match s_uploads s root with Some e => e | None => _ end) as [ps tt c]. cbn.
    destruct c; cbn; auto. destruct (negb (idx =? lenN ps)); cbn; auto.
  - destruct (s_cp_versions s (next_version (s_cp_cur s))); cbn; auto.
  - destruct (negb (is_complete s root)); cbn; auto.
    destruct (s_st_versions s (next_version (s_st_cur s))); cbn; auto.
Qed.

Lemma blob_inv_step s e h : blob_inv s (e :: h) -> blob_inv (fst (spec_step s e)) h.
Proof.
  intros [H1 H2]. split.
  - intros id data d Hin Hs. apply spec_step_blobs in Hs as [Hs| ->].
    + eapply H1; [right; exact Hin | exact Hs].
    + apply (H2 id d data); [left; reflexivity | right; exact Hin].
  - intros id d1 d2 Ha Hb. apply (H2 id); right; assumption.
Qed.

Lemma blob_inv_ok s e h : blob_inv s (e :: h) -> blob_ok s e.
Proof. intros [H1 _] id data d -> Hs. eapply H1; [left; reflexivity | exact Hs]. Qed.

Lemma blob_inv_init cp st h : blob_bind h -> blob_inv (sinit cp st) h.
Proof. intros H. split; [intros id data d _ Hs; discriminate Hs | exact H]. Qed.

Definition no_override (tr : list (event * res)) : bool :=
  forallb (fun er => negb (is_override (snd er))) tr.

Lemma spec_exec_cons s e h :
  spec_exec s (e :: h) =
  (fst (spec_exec (fst (spec_step s e)) h), (e, snd (spec_step s e)) :: snd (spec_exec (fst (spec_step s e)) h)).
Proof.
  cbn [spec_exec]. destruct (spec_step s e) as [s1 x]. cbn [fst snd].
  destruct (spec_exec s1 h) as [s2 tr]. reflexivity.
Qed.
Lemma exec_gen_cons fixed m e h :
  exec_gen fixed m (e :: h) =
  (fst (exec_gen fixed (fst (step_gen fixed m e true)) h),
   (e, snd (step_gen fixed m e true)) :: snd (exec_gen fixed (fst (step_gen fixed m e true)) h)).
Proof.
  cbn [exec_gen]. destruct (step_gen fixed m e true) as [m1 x]. cbn [fst snd].
  destruct (exec_gen fixed m1 h) as [m2 tr]. reflexivity.
Qed.

Lemma sim_exec fixed full : forall h m s,
  agree full m s -> hist_wf h = true -> blob_inv s h ->
  (fixed = false -> full = true -> no_override (snd (spec_exec s h)) = true) ->
  snd (exec_gen fixed m h) = snd (spec_exec s h) /\
  agree full (fst (exec_gen fixed m h)) (fst (spec_exec s h)).
Proof.
  induction h as [|e h IH]; intros m s Ha Hwf Hbi Hov.
  - cbn. split; [reflexivity | exact Ha].
  - rewrite spec_exec_cons, exec_gen_cons. cbn [fst snd].
    cbn [hist_wf forallb] in Hwf. apply andb_true_iff in Hwf as [Hwe Hwh].
    assert (Hov1 : fixed = false -> full = true -> is_override (snd (spec_step s e)) = false).
    { intros F1 F2. specialize (Hov F1 F2). rewrite spec_exec_cons in Hov. cbn [snd no_override forallb] in Hov.
      apply andb_true_iff in Hov as [Hx _]. cbn [snd] in Hx. apply negb_true_iff in Hx. exact Hx. }
    assert (Hov2 : fixed = false -> full = true -> no_override (snd (spec_exec (fst (spec_step s e)) h)) = true).
    { intros F1 F2. specialize (Hov F1 F2). rewrite spec_exec_cons in Hov. cbn [snd no_override forallb] in Hov.
      apply andb_true_iff in Hov as [_ Hx]. exact Hx. }
    destruct (sim_step fixed full m s e Ha Hwe (blob_inv_ok _ _ _ Hbi) Hov1) as [Hr Ha1].
    destruct (IH _ _ Ha1 Hwh (blob_inv_step _ _ _ Hbi) Hov2) as [Htr Ha2].
    split; [rewrite Hr, Htr; reflexivity | exact Ha2].
Qed.

(* ---- the refinement theorem (current code): all tables, all histories ---- *)
Theorem refines_spec : forall cp st h, hist_ok h ->
  trace (minit cp st) h = spec_trace (sinit cp st) h /\
  agree true (run (minit cp st) h) (spec_run (sinit cp st) h).
Proof.
  intros cp st h [Hwf Hbb]. unfold trace, run, spec_trace, spec_run.
  apply sim_exec; auto using agree_init, blob_inv_init. intros F; discriminate F.
Qed.

(* HISTORICAL (code before the fix commit): verdicts and the other tables agreed, the version
   tables only in which versions are taken; by value only without a rejected Overriding upgrade *)
Lemma before_fix_refines_spec : forall cp st h, hist_ok h ->
  trace_before_fix (minit cp st) h = spec_trace (sinit cp st) h /\
  agree false (run_before_fix (minit cp st) h) (spec_run (sinit cp st) h).
Proof.
  intros cp st h [Hwf Hbb]. unfold trace_before_fix, run_before_fix, spec_trace, spec_run.
  apply sim_exec; auto using agree_init, blob_inv_init. intros _ F; discriminate F.
Qed.
Lemma before_fix_refines_spec_versions : forall cp st h, hist_ok h ->
  no_override (spec_trace (sinit cp st) h) = true ->
  agree true (run_before_fix (minit cp st) h) (spec_run (sinit cp st) h).
Proof.
  intros cp st h [Hwf Hbb] Hno. unfold run_before_fix, spec_run.
  apply sim_exec; auto using agree_init, blob_inv_init.
Qed.

(* ------------------------------------------------------------------ 3. history facts *)
Lemma spec_exec_app : forall h1 h2 s,
  spec_exec s (h1 ++ h2) =
  (fst (spec_exec (fst (spec_exec s h1)) h2), snd (spec_exec s h1) ++ snd (spec_exec (fst (spec_exec s h1)) h2)).
Proof.
  induction h1 as [|e h1 IH]; intros h2 s.
  - cbn. destruct (spec_exec s h2); reflexivity.
  - rewrite <- app_comm_cons, !spec_exec_cons. cbn [fst snd]. rewrite IH. reflexivity.
Qed.
Lemma exec_gen_app fixed : forall h1 h2 m,
  exec_gen fixed m (h1 ++ h2) =
  (fst (exec_gen fixed (fst (exec_gen fixed m h1)) h2),
   snd (exec_gen fixed m h1) ++ snd (exec_gen fixed (fst (exec_gen fixed m h1)) h2)).
Proof.
  induction h1 as [|e h1 IH]; intros h2 m.
  - cbn. destruct (exec_gen fixed m h2); reflexivity.
  - rewrite <- app_comm_cons, !exec_gen_cons. cbn [fst snd]. rewrite IH. reflexivity.
Qed.

Lemma hist_wf_app h1 h2 : hist_wf (h1 ++ h2) = true -> hist_wf h1 = true /\ hist_wf h2 = true.
Proof. unfold hist_wf. rewrite forallb_app. apply andb_true_iff. Qed.

Lemma blob_inv_prefix s h1 h2 : blob_inv s (h1 ++ h2) -> blob_inv s h1.
Proof.
  intros [H1 H2]. split.
  - intros id data d Hin. apply H1. apply in_or_app. left. exact Hin.
  - intros id d1 d2 Ha Hb. apply (H2 id); apply in_or_app; left; assumption.
Qed.
Lemma blob_inv_run : forall h1 h2 s, blob_inv s (h1 ++ h2) -> blob_inv (fst (spec_exec s h1)) h2.
Proof.
  induction h1 as [|e h1 IH]; intros h2 s H; [exact H|].
  rewrite spec_exec_cons. cbn [fst]. apply IH. apply blob_inv_step with (e := e). exact H.
Qed.

(* a history split around one event: everything the later theorems need *)
Lemma sandwich fixed full cp st h1 e h2 :
  hist_ok (h1 ++ e :: h2) -> (fixed = false -> full = false) ->
  let m1 := fst (exec_gen fixed (minit cp st) h1) in
  let s1 := spec_run (sinit cp st) h1 in
  agree full m1 s1 /\ blob_ok s1 e /\ ev_wf e = true /\
  snd (step_gen fixed m1 e true) = snd (spec_step s1 e) /\
  agree full (fst (step_gen fixed m1 e true)) (fst (spec_step s1 e)) /\
  agree full (fst (exec_gen fixed (fst (step_gen fixed m1 e true)) h2)) (spec_run (fst (spec_step s1 e)) h2).
Proof.
  intros [Hwf Hbb] Hff m1 s1.
  apply hist_wf_app in Hwf as [Hw1 Hw2]. cbn [hist_wf forallb] in Hw2. apply andb_true_iff in Hw2 as [Hwe Hw2].
  pose proof (blob_inv_init cp st _ Hbb) as Hbi.
  assert (Hov : forall tr, fixed = false -> full = true -> no_override tr = true).
  { intros tr F1 F2. rewrite (Hff F1) in F2. discriminate F2. }
  destruct (sim_exec fixed full h1 (minit cp st) (sinit cp st) (agree_init _ _ _) Hw1
              (blob_inv_prefix _ _ _ Hbi) (Hov _)) as [_ Ha1].
  fold m1 in Ha1. change (fst (spec_exec (sinit cp st) h1)) with s1 in Ha1.
  pose proof (blob_inv_run _ _ _ Hbi) as Hbi1. change (fst (spec_exec (sinit cp st) h1)) with s1 in Hbi1.
  assert (Hov1 : fixed = false -> full = true -> is_override (snd (spec_step s1 e)) = false).
  { intros F1 F2. rewrite (Hff F1) in F2. discriminate F2. }
  destruct (sim_step fixed full m1 s1 e Ha1 Hwe (blob_inv_ok _ _ _ Hbi1) Hov1) as [Hr Ha2].
  destruct (sim_exec fixed full h2 _ _ Ha2 Hw2 (blob_inv_step _ _ _ Hbi1) (Hov _)) as [_ Ha3].
  split; [exact Ha1|]. split; [exact (blob_inv_ok _ _ _ Hbi1)|]. split; [exact Hwe|].
  split; [exact Hr|]. split; [exact Ha2 | exact Ha3].
Qed.

(* ---- contracts and blobs are never modified once present (specification) ---- *)
Lemma spec_step_contracts_stable s e id x :
  s_contracts s id = Some x -> s_contracts (fst (spec_step s e)) id = Some x.
Proof.
  intros H. destruct e as [t|v|v]; cbn; auto.
  destruct (tx_wf t); cbn; auto.
  destruct t; cbn; auto.
  - destruct (s_contracts s id0) eqn:E; cbn; auto.
    rewrite fupd_neq; [exact H | intros ->; rewrite H in E; discriminate E].
  - destruct (s_blobs s id0); cbn; auto.
  - destruct (match s_uploads s root with Some e => e | None => _ end) as [ps tt c]. cbn.
    destruct c; cbn; auto. destruct (negb (idx =? lenN ps)); cbn; auto.
  - destruct (s_cp_versions s (next_version (s_cp_cur s))); cbn; auto.
  - destruct (negb (is_complete s root)); cbn; auto.
    destruct (s_st_versions s (next_version (s_st_cur s))); cbn; auto.
Qed.
Lemma spec_step_blobs_stable s e id x :
  s_blobs s id = Some x -> s_blobs (fst (spec_step s e)) id = Some x.
Proof.
  intros H. destruct e as [t|v|v]; cbn; auto.
  destruct (tx_wf t); cbn; auto.
  destruct t; cbn; auto.
  - destruct (s_contracts s id0); cbn; auto.
  - destruct (s_blobs s id0) eqn:E; cbn; auto.
    rewrite fupd_neq; [exact H | intros ->; rewrite H in E; discriminate E].
  - destruct (match s_uploads s root with Some e => e | None => _ end) as [ps tt c]. cbn.
    destruct c; cbn; auto. destruct (negb (idx =? lenN ps)); cbn; auto.
  - destruct (s_cp_versions s (next_version (s_cp_cur s))); cbn; auto.
  - destruct (negb (is_complete s root)); cbn; auto.
    destruct (s_st_versions s (next_version (s_st_cur s))); cbn; auto.
Qed.
Lemma spec_run_contracts_stable : forall h s id x,
  s_contracts s id = Some x -> s_contracts (spec_run s h) id = Some x.
Proof.
  unfold spec_run. induction h as [|e h IH]; intros s id x H; [exact H|].
  rewrite spec_exec_cons. cbn [fst]. apply IH. apply spec_step_contracts_stable. exact H.
Qed.
Lemma spec_run_blobs_stable : forall h s id x,
  s_blobs s id = Some x -> s_blobs (spec_run s h) id = Some x.
Proof.
  unfold spec_run. induction h as [|e h IH]; intros s id x H; [exact H|].
  rewrite spec_exec_cons. cbn [fst]. apply IH. apply spec_step_blobs_stable. exact H.
Qed.

(* ---- C35_once ---- *)
Theorem once_contract : forall cp st h1 h2 id code slots,
  hist_ok (h1 ++ ETx (Deploy id code slots) :: h2) ->
  let m1 := run (minit cp st) h1 in
  let m1' := fst (step m1 (ETx (Deploy id code slots))) in
  let r := snd (step m1 (ETx (Deploy id code slots))) in
  let m2 := run m1' h2 in
  match sget N.compare (m_contracts m1) id with
  | None => r = Ok /\ sget N.compare (m_contracts m2) id = Some code /\
            forall k, sget key2_cmp (m_state m2) (id, k) = slots_map slots k
  | Some c => r = Err ContractIdAlreadyDeployed /\ sget N.compare (m_contracts m2) id = Some c /\
              forall k, sget key2_cmp (m_state m2) (id, k) = sget key2_cmp (m_state m1) (id, k)
  end.
Proof.
  intros cp st h1 h2 id code slots Hok m1 m1' r m2.
  destruct (sandwich true true cp st h1 _ h2 Hok (fun F => match Bool.diff_true_false F with end)) as (Ha1 & _ & _ & Hr & _ & Ha3).
  fold m1 in Ha1, Hr, Ha3. unfold step in m1', r. fold m1' in Ha3. fold r in Hr.
  change (fst (exec_gen true m1' h2)) with m2 in Ha3.
  set (s1 := spec_run (sinit cp st) h1) in *.
  destruct Ha1 as (Hc1 & Hs1 & _). destruct Ha3 as (Hc3 & Hs3 & _).
  rewrite Hc1. cbn [spec_step tx_wf spec_tx] in Hr, Hc3, Hs3.
  destruct (s_contracts s1 id) as [[c sl]|] eqn:E; cbn [option_map fst snd] in *.
  - pose proof (spec_run_contracts_stable h2 s1 id _ E) as Hst.
    split; [exact Hr|]. split.
    + rewrite Hc3, Hst. reflexivity.
    + intros k. rewrite Hs3, Hst, Hs1, E. reflexivity.
  - set (s1' := {| s_contracts := fupd (s_contracts s1) id (code, slots_map slots) |}) in *.
    assert (E' : s_contracts s1' id = Some (code, slots_map slots)) by (cbn; apply fupd_eq).
    pose proof (spec_run_contracts_stable h2 s1' id _ E') as Hst.
    split; [exact Hr|]. split.
    + rewrite Hc3, Hst. reflexivity.
    + intros k. rewrite Hs3, Hst. reflexivity.
Qed.

Theorem once_blob : forall cp st h1 h2 id data,
  hist_ok (h1 ++ ETx (Blob id data) :: h2) ->
  let m1 := run (minit cp st) h1 in
  let m1' := fst (step m1 (ETx (Blob id data))) in
  let r := snd (step m1 (ETx (Blob id data))) in
  let m2 := run m1' h2 in
  match sget N.compare (m_blobs m1) id with
  | None => r = Ok /\ sget N.compare (m_blobs m2) id = Some data
  | Some d => r = Err BlobIdAlreadyUploaded /\ d = data /\ sget N.compare (m_blobs m2) id = Some d
  end.
Proof.
  intros cp st h1 h2 id data Hok m1 m1' r m2.
  destruct (sandwich true true cp st h1 _ h2 Hok (fun F => match Bool.diff_true_false F with end)) as (Ha1 & Hbo & _ & Hr & _ & Ha3).
  fold m1 in Ha1, Hr, Ha3. unfold step in m1', r. fold m1' in Ha3. fold r in Hr.
  change (fst (exec_gen true m1' h2)) with m2 in Ha3.
  set (s1 := spec_run (sinit cp st) h1) in *.
  destruct Ha1 as (_ & _ & Hb1 & _). destruct Ha3 as (_ & _ & Hb3 & _).
  rewrite Hb1. cbn [spec_step tx_wf spec_tx] in Hr, Hb3.
  destruct (s_blobs s1 id) as [d|] eqn:E; cbn [fst snd] in *.
  - pose proof (spec_run_blobs_stable h2 s1 id _ E) as Hst.
    split; [exact Hr|]. split; [eapply Hbo; [reflexivity | exact E]|].
    rewrite Hb3, Hst. reflexivity.
  - set (s1' := {| s_blobs := fupd (s_blobs s1) id data |}) in *.
    assert (E' : s_blobs s1' id = Some data) by (cbn; apply fupd_eq).
    pose proof (spec_run_blobs_stable h2 s1' id _ E') as Hst.
    split; [exact Hr|]. rewrite Hb3, Hst. reflexivity.
Qed.

(* ---- uploads (specification) ---- *)
Definition parts_of (s : sstate) (root : N) : list bytes :=
  match s_uploads s root with Some e => u_parts e | None => [] end.

Lemma spec_upload_step root s e :
  let s1 := fst (spec_step s e) in
  match accepted_of (e, snd (spec_step s e)) root with
  | [] => parts_of s1 root = parts_of s root /\ is_complete s1 root = is_complete s root
  | [a] => parts_of s1 root = parts_of s root ++ [a_part a] /\ a_idx a = lenN (parts_of s root) /\
           is_complete s root = false /\ is_complete s1 root = is_final a
  | _ => False
  end.
Proof.
  unfold parts_of, is_complete.
  destruct e as [t|v|v]; cbn [spec_step accepted_of fst snd]; auto.
  destruct (tx_wf t); cbn [fst snd]; [|destruct t; auto].
  destruct t; cbn [spec_tx].
  - destruct (s_contracts s id); cbn; auto.
  - destruct (s_blobs s id); cbn; auto.
  - destruct (s_uploads s root0) as [e0|] eqn:E0.
    + destruct (u_complete e0) eqn:Ec; cbn [fst snd]; auto.
      destruct (N.eqb_spec idx (lenN (u_parts e0))) as [Hi|Hi]; cbn [negb fst snd]; auto.
      destruct (N.eqb_spec root0 root) as [->|Hn]; cbn [s_uploads].
      * rewrite fupd_eq, E0. cbn. auto.
      * rewrite fupd_neq by auto. auto.
    + cbn [u_complete u_parts].
      destruct (N.eqb_spec idx (lenN (@nil bytes))) as [Hi|Hi]; cbn [negb fst snd]; auto.
      destruct (N.eqb_spec root0 root) as [->|Hn]; cbn [s_uploads].
      * rewrite fupd_eq, E0. cbn. auto.
      * rewrite fupd_neq by auto. auto.
  - destruct (s_cp_versions s (next_version (s_cp_cur s))); cbn; auto.
  - destruct (negb (is_complete s root0)); cbn; auto.
    destruct (s_st_versions s (next_version (s_st_cur s))); cbn; auto.
Qed.

Lemma accepted_cons e x tr root :
  accepted_uploads ((e, x) :: tr) root = accepted_of (e, x) root ++ accepted_uploads tr root.
Proof. reflexivity. Qed.

Lemma last_opt_cons_some {A} : forall (l : list A) (b : A), exists x, last_opt (b :: l) = Some x.
Proof.
  induction l as [|c l IH]; intros b; [exists b; reflexivity|].
  destruct (IH c) as [x Hx]. exists x. exact Hx.
Qed.

Lemma spec_upload_hist root : forall h s,
  let s' := fst (spec_exec s h) in
  let acc := accepted_uploads (snd (spec_exec s h)) root in
  parts_of s' root = parts_of s root ++ map a_part acc /\
  consecutive_from (lenN (parts_of s root)) (map a_idx acc) /\
  is_complete s' root = match last_opt acc with Some a => is_final a | None => is_complete s root end /\
  (is_complete s root = true -> acc = []).
Proof.
  induction h as [|e h IH]; intros s.
  - cbn. rewrite app_nil_r. auto.
  - rewrite spec_exec_cons. cbn [fst snd]. rewrite accepted_cons.
    pose proof (spec_upload_step root s e) as Hst. cbv zeta in Hst.
    specialize (IH (fst (spec_step s e))). cbv zeta in IH.
    destruct IH as (IH1 & IH2 & IH3 & IH4).
    set (s1 := fst (spec_step s e)) in *.
    set (rest := accepted_uploads (snd (spec_exec s1 h)) root) in *.
    destruct (accepted_of (e, snd (spec_step s e)) root) as [|a [|b l]]; [| |contradiction].
    + destruct Hst as [Hp Hc]. cbn [app]. rewrite <- Hp, <- Hc. auto.
    + destruct Hst as (Hp & Hi & Hc0 & Hc1). cbn [app map].
      split; [rewrite IH1, Hp, <- app_assoc; reflexivity|].
      split; [cbn [consecutive_from]; split; [exact Hi|]; rewrite Hp, lenN_snoc in IH2; exact IH2|].
      split; [|intros Ht; rewrite Ht in Hc0; discriminate Hc0].
      rewrite IH3. destruct rest as [|b l]; [cbn; exact Hc1 |].
      change (last_opt (a :: b :: l)) with (last_opt (b :: l)).
      destruct (last_opt_cons_some l b) as [x ->]. reflexivity.
Qed.

(* ---- C35_upload ---- *)
Theorem upload_history : forall cp st h root, hist_ok h ->
  let m := run (minit cp st) h in
  let acc := accepted_uploads (trace (minit cp st) h) root in
  consecutive_from 0 (map a_idx acc) /\
  match sget N.compare (m_uploads m) root with
  | None => acc = []
  | Some (Uncompleted b n) =>
      b = concat (map a_part acc) /\ n = lenN acc /\
      match last_opt acc with Some a => is_final a = false | None => True end
  | Some (Completed b) =>
      b = concat (map a_part acc) /\ exists a, last_opt acc = Some a /\ a_idx a + 1 = a_total a
  end.
Proof.
  intros cp st h root Hok m acc.
  destruct (refines_spec cp st h Hok) as [Htr Ha]. fold m in Ha. unfold acc. rewrite Htr.
  destruct (spec_upload_hist root h (sinit cp st)) as (H1 & H2 & H3 & _).
  unfold spec_trace. set (acc' := accepted_uploads (snd (spec_exec (sinit cp st) h)) root) in *.
  change (fst (spec_exec (sinit cp st) h)) with (spec_run (sinit cp st) h) in H1, H3.
  set (s' := spec_run (sinit cp st) h) in *.
  change (parts_of (sinit cp st) root) with (@nil bytes) in H1, H2.
  change (is_complete (sinit cp st) root) with false in H3. cbn [app] in H1.
  split; [exact H2|].
  destruct Ha as (_ & _ & _ & Hu & _). specialize (Hu root).
  unfold parts_of in H1. unfold is_complete in H3.
  destruct (sget N.compare (m_uploads m) root) as [[b n|b]|]; destruct (s_uploads s' root) as [e|];
    cbn [upload_agree] in Hu; try contradiction.
  - destruct Hu as (Hc & -> & ->). unfold concat_parts. rewrite H1. split; [reflexivity|].
    split; [unfold lenN; rewrite map_length; reflexivity|].
    rewrite Hc in H3. destruct (last_opt acc'); [symmetry; exact H3 | exact I].
  - destruct Hu as (Hc & ->). unfold concat_parts. rewrite H1. split; [reflexivity|].
    rewrite Hc in H3. destruct (last_opt acc') as [a|]; [|discriminate H3].
    exists a. split; [reflexivity|]. unfold is_final in H3. apply N.eqb_eq. symmetry. exact H3.
  - symmetry in H1. apply map_eq_nil in H1. exact H1.
Qed.

(* once complete, nothing more is accepted for that root (model, any state) *)
Theorem upload_after_complete : forall m root b idx total part,
  sget N.compare (m_uploads m) root = Some (Completed b) ->
  step m (ETx (Upload root idx total part)) = (m, Err BytecodeAlreadyUploaded).
Proof. intros m root b idx total part H. unfold step. cbn [step_gen]. unfold upload_inner. rewrite H. reflexivity. Qed.

(* ---- C35_version_next (model, any state) ---- *)
Lemma sat_succ32_next v : v < 2 ^ 32 - 1 -> sat_succ32 v = v + 1.
Proof. intros H. unfold sat_succ32. apply N.min_l. lia. Qed.

Ltac vfin :=
  intros; cbn;
  first [ reflexivity | discriminate | assumption | apply nget_ins_eq | (apply nget_ins_neq; assumption)
        | (rewrite !nget_ins_neq by assumption; reflexivity)
        | (rewrite nget_ins_eq; symmetry; assumption)
        | (exfalso; match goal with H : ?x <> ?x |- _ => apply H; reflexivity end)
        | match goal with H : _ /\ _ |- _ => destruct H; discriminate end ].

Theorem version_next_cp : forall m params,
  let v := sat_succ32 (m_cp_cur m) in
  let m' := fst (step m (ETx (UpgradeConsensus params))) in
  let r := snd (step m (ETx (UpgradeConsensus params))) in
  (m_cp_cur m < 2 ^ 32 - 1 -> v = m_cp_cur m + 1) /\
  (r = Ok <-> sget N.compare (m_cpv m) v = None) /\
  (r <> Ok -> r = Err OverridingConsensusParameters) /\
  (r = Ok -> sget N.compare (m_cpv m') v = Some params) /\
  (r <> Ok -> sget N.compare (m_cpv m') v = sget N.compare (m_cpv m) v) /\
  (forall v', v' <> v -> sget N.compare (m_cpv m') v' = sget N.compare (m_cpv m) v') /\
  m_contracts m' = m_contracts m /\ m_state m' = m_state m /\ m_blobs m' = m_blobs m /\
  m_uploads m' = m_uploads m /\ m_stv m' = m_stv m /\ m_cp_cur m' = m_cp_cur m /\ m_st_cur m' = m_st_cur m.
Proof.
  intros m params v m' r. unfold step in m', r. cbn [step_gen] in m', r. unfold upgrade_inner_cp in m', r.
  fold v in m', r. split; [apply sat_succ32_next|].
  destruct (sget N.compare (m_cpv m) v) as [p|] eqn:E; cbn [is_some finalize_outputs] in m', r; subst m' r;
    cbn [fst snd]; repeat split; vfin.
Qed.

Theorem version_next_st : forall m root,
  let v := sat_succ32 (m_st_cur m) in
  let m' := fst (step m (ETx (UpgradeStateTransition root))) in
  let r := snd (step m (ETx (UpgradeStateTransition root))) in
  let complete := contains_state_transition_bytecode_root m root in
  (m_st_cur m < 2 ^ 32 - 1 -> v = m_st_cur m + 1) /\
  (r = Ok <-> complete = true /\ sget N.compare (m_stv m) v = None) /\
  (complete = false -> r = Err UnknownStateTransactionBytecodeRoot /\ m' = m) /\
  (complete = true -> r <> Ok -> r = Err OverridingStateTransactionBytecode) /\
  (r = Ok -> sget N.compare (m_stv m') v = Some root) /\
  (r <> Ok -> sget N.compare (m_stv m') v = sget N.compare (m_stv m) v) /\
  (forall v', v' <> v -> sget N.compare (m_stv m') v' = sget N.compare (m_stv m) v') /\
  m_contracts m' = m_contracts m /\ m_state m' = m_state m /\ m_blobs m' = m_blobs m /\
  m_uploads m' = m_uploads m /\ m_cpv m' = m_cpv m /\ m_cp_cur m' = m_cp_cur m /\ m_st_cur m' = m_st_cur m.
Proof.
  intros m root v m' r complete. unfold step in m', r. cbn [step_gen] in m', r. unfold upgrade_inner_st in m', r.
  fold complete in m', r. fold v in m', r. split; [apply sat_succ32_next|].
  destruct complete; cbn [negb] in m', r.
  - destruct (sget N.compare (m_stv m) v) as [p|] eqn:E; cbn [is_some finalize_outputs] in m', r; subst m' r;
      cbn [fst snd]; repeat split; vfin.
  - subst m' r. cbn [fst snd]. repeat split; vfin.
Qed.

(* ---- checked transactions never reach the Bug / overflow branches ---- *)
Lemma spec_step_res_ok s e : ev_wf e = true -> spec_res_ok (snd (spec_step s e)) = true.
Proof.
  intros Hwf. destruct e as [t|v|v]; cbn; auto. cbn [ev_wf] in Hwf. rewrite Hwf.
  destruct t; cbn.
  - destruct (s_contracts s id); reflexivity.
  - destruct (s_blobs s id); reflexivity.
  - destruct (match s_uploads s root with Some e => e | None => _ end) as [ps tt c]. cbn.
    destruct c; cbn; auto. destruct (negb (idx =? lenN ps)); reflexivity.
  - destruct (s_cp_versions s (next_version (s_cp_cur s))); reflexivity.
  - destruct (negb (is_complete s root)); cbn; auto.
    destruct (s_st_versions s (next_version (s_st_cur s))); reflexivity.
Qed.
Lemma spec_trace_res_ok : forall h s, hist_wf h = true ->
  forallb (fun er => spec_res_ok (snd er)) (snd (spec_exec s h)) = true.
Proof.
  induction h as [|e h IH]; intros s Hwf; [reflexivity|].
  cbn [hist_wf forallb] in Hwf. apply andb_true_iff in Hwf as [Hwe Hwh].
  rewrite spec_exec_cons. cbn [snd forallb]. rewrite spec_step_res_ok by exact Hwe. apply IH. exact Hwh.
Qed.
Theorem no_bug : forall cp st h, hist_ok h ->
  forallb (fun er => spec_res_ok (snd er)) (trace (minit cp st) h) = true.
Proof.
  intros cp st h Hok. destruct (refines_spec cp st h Hok) as [-> _]. apply spec_trace_res_ok. apply Hok.
Qed.

(* ------------------------------------------------------------------ 4. failed transactions *)
Lemma tables_eq_refl m : tables_eq m m.
Proof. unfold tables_eq. repeat split. Qed.

Lemma hist_ok_prefix h e : hist_ok (h ++ [e]) -> hist_ok h.
Proof.
  intros [Hwf Hbb]. split; [apply hist_wf_app in Hwf; apply Hwf|].
  intros id d1 d2 Ha Hb. apply (Hbb id); apply in_or_app; left; assumption.
Qed.

(* every kind except a rejected upgrade: identical for the unchanged and the repaired code *)
Lemma failed_unchanged_common fixed full m s e :
  agree full m s -> blob_ok s e -> is_upgrade e = false ->
  is_err (snd (step_gen fixed m e true)) = true -> tables_eq (fst (step_gen fixed m e true)) m.
Proof.
  intros Ha Hbo Hup Herr. destruct e as [t|v|v]; [|discriminate Herr|discriminate Herr].
  destruct t; cbn [is_upgrade] in Hup; try discriminate Hup; cbn [step_gen] in *.
  - unfold deploy_inner in *. destruct (storage_contract_exists m id); [apply tables_eq_refl | discriminate Herr].
  - unfold blob_inner in *. destruct Ha as (_ & _ & Hb & _).
    destruct (sget N.compare (m_blobs m) id) as [d|] eqn:E; cbn [is_some finalize_outputs] in *; [|discriminate Herr].
    cbn [fst]. unfold tables_eq; cbn. repeat split; auto.
    intros k. destruct (N.eq_dec k id) as [->|Hn].
    + rewrite nget_ins_eq, E. f_equal. symmetry. eapply Hbo; [reflexivity|]. rewrite <- Hb. exact E.
    + apply nget_ins_neq. exact Hn.
  - unfold upload_inner in *.
    destruct (match sget N.compare (m_uploads m) root with Some x => x | None => Uncompleted [] 0 end) as [bc n|bc];
      [|apply tables_eq_refl].
    destruct (upload_bytecode_subsection idx total part bc n); [apply tables_eq_refl | discriminate Herr].
Qed.

Lemma failed_unchanged_upgrade m e :
  is_upgrade e = true -> is_err (snd (step_gen true m e true)) = true -> tables_eq (fst (step_gen true m e true)) m.
Proof.
  intros Hup Herr. destruct e as [t|v|v]; try discriminate Hup. destruct t; try discriminate Hup; cbn [step_gen] in *.
  - unfold upgrade_inner_cp in *.
    destruct (sget N.compare (m_cpv m) (sat_succ32 (m_cp_cur m))) as [p|] eqn:E; [|discriminate Herr].
    cbn [fst]. unfold tables_eq; cbn. repeat split; auto.
    intros k. destruct (N.eq_dec k (sat_succ32 (m_cp_cur m))) as [->|Hn].
    + rewrite nget_ins_eq, E. reflexivity.
    + rewrite !nget_ins_neq by exact Hn. reflexivity.
  - unfold upgrade_inner_st in *.
    destruct (negb (contains_state_transition_bytecode_root m root)); [apply tables_eq_refl|].
    destruct (sget N.compare (m_stv m) (sat_succ32 (m_st_cur m))) as [p|] eqn:E; [|discriminate Herr].
    cbn [fst]. unfold tables_eq; cbn. repeat split; auto.
    intros k. destruct (N.eq_dec k (sat_succ32 (m_st_cur m))) as [->|Hn].
    + rewrite nget_ins_eq, E. reflexivity.
    + rewrite !nget_ins_neq by exact Hn. reflexivity.
Qed.

Lemma last_event_facts fixed full cp st h e :
  hist_ok (h ++ [e]) -> (fixed = false -> full = false) ->
  agree full (fst (exec_gen fixed (minit cp st) h)) (spec_run (sinit cp st) h) /\
  blob_ok (spec_run (sinit cp st) h) e.
Proof.
  intros Hok Hff. destruct (sandwich fixed full cp st h e [] Hok Hff) as (Ha & Hbo & _). auto.
Qed.

(* C35_failed_unchanged: the FULL statement, for the current code *)
Theorem failed_unchanged : failed_unchanged_statement true.
Proof.
  intros cp st h e Hok m Herr.
  destruct (last_event_facts true true cp st h e Hok (fun F => match Bool.diff_true_false F with end)) as [Ha Hbo].
  fold m in Ha. destruct (is_upgrade e) eqn:Hup.
  - apply failed_unchanged_upgrade; assumption.
  - eapply failed_unchanged_common; eassumption.
Qed.

(* the two sequences that motivated the fix, on the current code: the second upgrade against the
   stale version is rejected and the installed entry is still the first one *)
Definition f8_history : list event := [ETx (UpgradeConsensus [1])].
Definition f8_event : event := ETx (UpgradeConsensus [2]).

Lemma no_blobs_bind (h : list event) :
  forallb (fun e => match e with ETx (Blob _ _) => false | _ => true end) h = true -> blob_bind h.
Proof.
  intros H id d1 d2 Ha _. rewrite forallb_forall in H. specialize (H _ Ha). discriminate H.
Qed.

Lemma f8_hist_ok : hist_ok (f8_history ++ [f8_event]).
Proof. split; [reflexivity | apply no_blobs_bind; reflexivity]. Qed.

Example f8_sequence_consensus :
  let m := run (minit 0 0) f8_history in
  trace (minit 0 0) f8_history = [(ETx (UpgradeConsensus [1]), Ok)] /\
  sget N.compare (m_cpv m) 1 = Some [1] /\
  snd (step m f8_event) = Err OverridingConsensusParameters /\
  sget N.compare (m_cpv (fst (step m f8_event))) 1 = Some [1].
Proof. vm_compute. repeat split. Qed.

Example f8_sequence_state_transition :
  let h := [ETx (Upload 10 0 1 [7]); ETx (Upload 20 0 1 [8]); ETx (UpgradeStateTransition 10)] in
  let m := run (minit 0 5) h in
  sget N.compare (m_stv m) 6 = Some 10 /\
  snd (step m (ETx (UpgradeStateTransition 20))) = Err OverridingStateTransactionBytecode /\
  sget N.compare (m_stv (fst (step m (ETx (UpgradeStateTransition 20))))) 6 = Some 10.
Proof. vm_compute. repeat split. Qed.

(* ---- HISTORICAL: the model of the code BEFORE the fix commit (finding F8) ----
   Nothing below is about the current code. *)
(* before the fix: every failed Create / Blob / Upload and every upgrade rejected for an unknown or
   incomplete root left the tables unchanged ... *)
Lemma before_fix_failed_unchanged_partial : forall cp st h e, hist_ok (h ++ [e]) ->
  let m := run_before_fix (minit cp st) h in
  is_err (snd (step_before_fix m e)) = true ->
  is_upgrade e = false \/ snd (step_before_fix m e) = Err UnknownStateTransactionBytecodeRoot ->
  tables_eq (fst (step_before_fix m e)) m.
Proof.
  intros cp st h e Hok m Herr Hcase.
  destruct (last_event_facts false false cp st h e Hok (fun _ => eq_refl)) as [Ha Hbo].
  change (fst (exec_gen false (minit cp st) h)) with m in Ha. unfold step_before_fix in *.
  destruct (is_upgrade e) eqn:Hup; [|eapply failed_unchanged_common; eassumption].
  destruct Hcase as [F|Hres]; [discriminate F|].
  destruct e as [t|v|v]; try discriminate Hup. destruct t; try discriminate Hup; cbn [step_gen] in *.
  - unfold upgrade_inner_cp_before_fix in *.
    destruct (is_some (sget N.compare (m_cpv m) (sat_succ32 (m_cp_cur m)))); cbn in Hres; discriminate Hres.
  - unfold upgrade_inner_st_before_fix in *.
    destruct (negb (contains_state_transition_bytecode_root m root)); [apply tables_eq_refl|].
    destruct (is_some (sget N.compare (m_stv m) (sat_succ32 (m_st_cur m)))); cbn in Hres; discriminate Hres.
Qed.

(* ... but an upgrade rejected as Overriding had already overwritten the version entry: the full
   statement was FALSE for the code before the fix.  Witness: current version 0; upgrade to A
   (installed as version 1); second upgrade to B against the stale version 0: rejected, yet
   version 1 held B. *)
Theorem before_fix_failed_unchanged_refuted : ~ failed_unchanged_statement false.
Proof.
  intros H. specialize (H 0 0 f8_history f8_event f8_hist_ok eq_refl).
  destruct H as (_ & _ & _ & _ & Hcp & _). specialize (Hcp 1). vm_compute in Hcp. discriminate Hcp.
Qed.

Example before_fix_f8_witness :
  let m := run_before_fix (minit 0 0) f8_history in
  sget N.compare (m_cpv m) 1 = Some [1] /\
  snd (step_before_fix m f8_event) = Err OverridingConsensusParameters /\
  sget N.compare (m_cpv (fst (step_before_fix m f8_event))) 1 = Some [2].
Proof. vm_compute. repeat split. Qed.

(* ---- the premises are satisfiable by a non-trivial history; and they are needed ---- *)
Definition example_history : list event :=
  [ETx (Deploy 5 [1; 2] [(0, [9]); (1, [8])]); ETx (Blob 7 [3]); ETx (Upload 10 0 2 [1]);
   ETx (Upload 11 0 1 [4]); ETx (Upload 10 1 2 [2]); ETx (Blob 7 [3]); ETx (UpgradeStateTransition 10);
   ETx (UpgradeConsensus [5]); ESetCpVersion 1; ETx (UpgradeConsensus [6]); ETx (Deploy 5 [1; 2] []);
   ETx (Upload 10 1 2 [2]); ETx (UpgradeStateTransition 11)].

Lemma blob_bindb_sound : forall h, blob_bindb h = true -> blob_bind h.
Proof.
  induction h as [|e h IH]; intros H id d1 d2 Ha Hb; [destruct Ha|].
  cbn [blob_bindb] in H. apply andb_true_iff in H as [H1 H2].
  destruct Ha as [Ha|Ha], Hb as [Hb|Hb].
  - rewrite Ha in Hb. injection Hb. auto.
  - subst e. cbn [blob_of] in H1. rewrite forallb_forall in H1. specialize (H1 _ Hb). cbn [blob_of] in H1.
    rewrite N.eqb_refl in H1. cbn in H1. apply bytes_eqb_eq in H1. exact H1.
  - subst e. cbn [blob_of] in H1. rewrite forallb_forall in H1. specialize (H1 _ Ha). cbn [blob_of] in H1.
    rewrite N.eqb_refl in H1. cbn in H1. apply bytes_eqb_eq in H1. symmetry. exact H1.
  - apply (IH H2 id); assumption.
Qed.

Example example_history_ok : hist_ok example_history.
Proof. split; [reflexivity | apply blob_bindb_sound; reflexivity]. Qed.

Example example_history_verdicts :
  map snd (trace (minit 0 0) example_history) =
  [Ok; Ok; Ok; Ok; Ok; Err BlobIdAlreadyUploaded; Ok; Ok; Ok; Ok; Err ContractIdAlreadyDeployed;
   Err BytecodeAlreadyUploaded; Err OverridingStateTransactionBytecode].
Proof. vm_compute. reflexivity. Qed.

(* without [blob_bind] (two different data under one blob id — a hash collision) the rejected
   blob transaction of the model would change the table: blob_inner calls `replace` before it tests
   `old.is_some()`; harmless because Checked<Blob> guarantees id = H(data) *)
Example blob_bind_needed :
  let m := run (minit 0 0) [ETx (Blob 7 [1])] in
  snd (step m (ETx (Blob 7 [2]))) = Err BlobIdAlreadyUploaded /\
  sget N.compare (m_blobs (fst (step m (ETx (Blob 7 [2]))))) 7 = Some [2].
Proof. vm_compute. split; reflexivity. Qed.

(* a failure of finalize_outputs (Bug::UncomputableRefund, excluded for checked transactions)
   comes after the write and would keep it *)
Example finalize_failure_keeps_write :
  snd (deploy_inner (minit 0 0) 5 [1] [] false) = Err BugUncomputableRefund /\
  sget N.compare (m_contracts (fst (deploy_inner (minit 0 0) 5 [1] [] false))) 5 = Some [1].
Proof. vm_compute. split; reflexivity. Qed.

(* the extra hypothesis of refines_spec_versions_partial is satisfiable by a history with
   accepted upgrades of both kinds (the chain catches up between the two consensus upgrades) *)
Definition example_history_no_override : list event :=
  [ETx (UpgradeConsensus [5]); ESetCpVersion 1; ETx (UpgradeConsensus [6]); ETx (Upload 10 0 1 [1]);
   ETx (UpgradeStateTransition 10); ETx (UpgradeStateTransition 11)].
Example example_no_override :
  hist_ok example_history_no_override /\
  no_override (spec_trace (sinit 0 0) example_history_no_override) = true /\
  map snd (trace (minit 0 0) example_history_no_override) =
    [Ok; Ok; Ok; Ok; Ok; Err UnknownStateTransactionBytecodeRoot].
Proof. split; [split; [reflexivity | apply blob_bindb_sound; reflexivity] | split; vm_compute; reflexivity]. Qed.

(* the hypothesis of upload_after_complete is reachable *)
Example example_completed :
  sget N.compare (m_uploads (run (minit 0 0) example_history)) 10 = Some (Completed [1; 2]).
Proof. vm_compute. reflexivity. Qed.
