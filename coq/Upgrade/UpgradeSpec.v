(* Upgrade/UpgradeSpec.v — L3 specification for C35, written from the property text:

   "Over any sequence of deployment, blob, upload and upgrade transactions, a contract id or
    blob id can be created only once (with the exact code, storage slots or data), uploaded
    bytecode is accepted only in consecutive subsection order and becomes complete exactly when
    the last subsection arrives holding the concatenation of all parts, and each
    consensus-parameter or state-transition upgrade installs its value under the version one
    higher than the current one, failing if that version is already taken or, for state
    transitions, if the bytecode is not completely uploaded.  Failed transactions leave these
    tables unchanged."

   Four tables (maps) + the two "current version" registers of the chain.  A transaction is
   *abstract*: the parts of a real transaction that are verified by hashing (contract id =
   H(salt, code root, state root); blob id = H(data); the Merkle proof tying (root, index, total,
   part) together; the checksum of serialized consensus parameters) are covered by other
   properties; what reaches this state machine is the already-checked content.

   Nothing here mentions the Rust code.  Stdlib only. *)
From FV Require Import Base.Bytes.
Open Scope N_scope.

(* ---------- abstract (checked) transactions and environment events ---------- *)
Inductive tx :=
| Deploy (id : N) (code : bytes) (slots : list (N * bytes))     (* Create *)
| Blob (id : N) (data : bytes)
| Upload (root idx total : N) (part : bytes)                    (* subsection idx of total *)
| UpgradeConsensus (params : bytes)                             (* identity of the new parameters *)
| UpgradeStateTransition (root : N).

(* Besides transactions a history contains block production moving the current versions
   (in the VM these are inputs read from storage: consensus_parameters_version(),
   state_transition_version()); they never touch the four tables. *)
Inductive event :=
| ETx (t : tx)
| ESetCpVersion (v : N)
| ESetStVersion (v : N).

(* Rejection reasons.  The first seven are the PanicReasons of the specification; the next
   three can only be produced by the implementation model (they are excluded for checked
   transactions by theorem C35_refines_spec); the last one is the specification's answer to a
   transaction that the validity rules reject before execution. *)
Inductive err :=
| ContractIdAlreadyDeployed
| BlobIdAlreadyUploaded
| BytecodeAlreadyUploaded
| ThePartIsNotSequentiallyConnected
| UnknownStateTransactionBytecodeRoot
| OverridingConsensusParameters
| OverridingStateTransactionBytecode
| ArithmeticOverflow
| BugNextSubsectionIndexIsHigherThanTotalNumberOfParts
| BugUncomputableRefund
| MalformedTransaction.
Inductive res := Ok | Err (e : err).

(* ---------- maps ---------- *)
Definition fmap (V : Type) := N -> option V.
Definition fempty {V} : fmap V := fun _ => None.
Definition fupd {V} (m : fmap V) (k : N) (v : V) : fmap V := fun j => if j =? k then Some v else m j.

Definition slots_map (slots : list (N * bytes)) : fmap bytes :=
  fold_left (fun m kv => fupd m (fst kv) (snd kv)) slots fempty.

(* upload progress of one root: parts so far (in order), total declared, complete? *)
Record upload_entry := { u_parts : list bytes; u_total : N; u_complete : bool }.

Record sstate := {
  s_contracts : fmap (bytes * fmap bytes);       (* id -> (code, slots) *)
  s_blobs : fmap bytes;                          (* id -> data *)
  s_uploads : fmap upload_entry;                 (* root -> progress *)
  s_cp_versions : fmap bytes;                    (* version -> consensus parameters *)
  s_st_versions : fmap N;                        (* version -> state transition bytecode root *)
  s_cp_cur : N;                                  (* current consensus-parameters version *)
  s_st_cur : N;                                  (* current state-transition version *)
}.

Definition sinit (cp st : N) : sstate :=
  {| s_contracts := fempty; s_blobs := fempty; s_uploads := fempty;
     s_cp_versions := fempty; s_st_versions := fempty; s_cp_cur := cp; s_st_cur := st |}.

(* versions are 32-bit; "one higher" saturates at the largest version (there is no higher one) *)
Definition next_version (v : N) : N := N.min (v + 1) (2 ^ 32 - 1).

(* what the validity rules guarantee about an Upload: the Merkle proof only verifies for an
   index below the total, and the total is a u16 *)
Definition tx_wf (t : tx) : bool :=
  match t with
  | Upload _ idx total _ => (idx <? total) && (total <=? 65535)
  | _ => true
  end.

Definition concat_parts (ps : list bytes) : bytes := concat ps.

Definition is_complete (s : sstate) (root : N) : bool :=
  match s_uploads s root with Some e => u_complete e | None => false end.

(* ---------- the rules ---------- *)
Definition spec_tx (s : sstate) (t : tx) : sstate * res :=
  match t with
  | Deploy id code slots =>
      match s_contracts s id with
      | Some _ => (s, Err ContractIdAlreadyDeployed)
      | None => ({| s_contracts := fupd (s_contracts s) id (code, slots_map slots); s_blobs := s_blobs s;
                    s_uploads := s_uploads s; s_cp_versions := s_cp_versions s; s_st_versions := s_st_versions s;
                    s_cp_cur := s_cp_cur s; s_st_cur := s_st_cur s |}, Ok)
      end
  | Blob id data =>
      match s_blobs s id with
      | Some _ => (s, Err BlobIdAlreadyUploaded)
      | None => ({| s_contracts := s_contracts s; s_blobs := fupd (s_blobs s) id data;
                    s_uploads := s_uploads s; s_cp_versions := s_cp_versions s; s_st_versions := s_st_versions s;
                    s_cp_cur := s_cp_cur s; s_st_cur := s_st_cur s |}, Ok)
      end
  | Upload root idx total part =>
      let e := match s_uploads s root with
               | Some e => e
               | None => {| u_parts := []; u_total := total; u_complete := false |}
               end in
      if u_complete e then (s, Err BytecodeAlreadyUploaded)
      else if negb (idx =? lenN (u_parts e)) then (s, Err ThePartIsNotSequentiallyConnected)
      else ({| s_contracts := s_contracts s; s_blobs := s_blobs s;
               s_uploads := fupd (s_uploads s) root
                                 {| u_parts := u_parts e ++ [part]; u_total := total;
                                    u_complete := (idx + 1 =? total) |};
               s_cp_versions := s_cp_versions s; s_st_versions := s_st_versions s;
               s_cp_cur := s_cp_cur s; s_st_cur := s_st_cur s |}, Ok)
  | UpgradeConsensus params =>
      let v := next_version (s_cp_cur s) in
      match s_cp_versions s v with
      | Some _ => (s, Err OverridingConsensusParameters)
      | None => ({| s_contracts := s_contracts s; s_blobs := s_blobs s; s_uploads := s_uploads s;
                    s_cp_versions := fupd (s_cp_versions s) v params; s_st_versions := s_st_versions s;
                    s_cp_cur := s_cp_cur s; s_st_cur := s_st_cur s |}, Ok)
      end
  | UpgradeStateTransition root =>
      if negb (is_complete s root) then (s, Err UnknownStateTransactionBytecodeRoot)
      else
        let v := next_version (s_st_cur s) in
        match s_st_versions s v with
        | Some _ => (s, Err OverridingStateTransactionBytecode)
        | None => ({| s_contracts := s_contracts s; s_blobs := s_blobs s; s_uploads := s_uploads s;
                      s_cp_versions := s_cp_versions s; s_st_versions := fupd (s_st_versions s) v root;
                      s_cp_cur := s_cp_cur s; s_st_cur := s_st_cur s |}, Ok)
        end
  end.

Definition spec_step (s : sstate) (e : event) : sstate * res :=
  match e with
  | ETx t => if tx_wf t then spec_tx s t else (s, Err MalformedTransaction)
  | ESetCpVersion v =>
      ({| s_contracts := s_contracts s; s_blobs := s_blobs s; s_uploads := s_uploads s;
          s_cp_versions := s_cp_versions s; s_st_versions := s_st_versions s;
          s_cp_cur := v; s_st_cur := s_st_cur s |}, Ok)
  | ESetStVersion v =>
      ({| s_contracts := s_contracts s; s_blobs := s_blobs s; s_uploads := s_uploads s;
          s_cp_versions := s_cp_versions s; s_st_versions := s_st_versions s;
          s_cp_cur := s_cp_cur s; s_st_cur := v |}, Ok)
  end.

(* histories: final state and the list of (event, verdict) *)
Fixpoint spec_exec (s : sstate) (h : list event) : sstate * list (event * res) :=
  match h with
  | [] => (s, [])
  | e :: r => let '(s1, x) := spec_step s e in
              let '(s2, tr) := spec_exec s1 r in (s2, (e, x) :: tr)
  end.
Definition spec_run (s : sstate) (h : list event) : sstate := fst (spec_exec s h).
Definition spec_trace (s : sstate) (h : list event) : list (event * res) := snd (spec_exec s h).

(* ---------- well-formed histories (what `Checked<Tx>` guarantees) ---------- *)
Definition ev_wf (e : event) : bool := match e with ETx t => tx_wf t | _ => true end.
Definition hist_wf (h : list event) : bool := forallb ev_wf h.
(* a blob id determines its data (id = H(data) is checked by the validity rules; this is the
   collision-freeness of H on the blobs of the history, as an explicit premise) *)
Definition blob_bind (h : list event) : Prop :=
  forall id d1 d2, In (ETx (Blob id d1)) h -> In (ETx (Blob id d2)) h -> d1 = d2.
Definition hist_ok (h : list event) : Prop := hist_wf h = true /\ blob_bind h.

(* executable sufficient check of [blob_bind] (sound: UpgradeProofs.blob_bindb_sound) *)
Definition blob_of (e : event) : option (N * bytes) :=
  match e with ETx (Blob id d) => Some (id, d) | _ => None end.
Fixpoint blob_bindb (h : list event) : bool :=
  match h with
  | [] => true
  | e :: r =>
      match blob_of e with
      | Some (id, d) => forallb (fun e' => match blob_of e' with
                                           | Some (id', d') => negb (id =? id') || bytes_eqb d d'
                                           | None => true
                                           end) r
      | None => true
      end && blob_bindb r
  end.

(* the subsections of [root] accepted in a trace, in order *)
Record accepted := { a_idx : N; a_total : N; a_part : bytes }.
Definition accepted_of (er : event * res) (root : N) : list accepted :=
  match er with
  | (ETx (Upload r idx total part), Ok) =>
      if r =? root then [{| a_idx := idx; a_total := total; a_part := part |}] else []
  | _ => []
  end.
Definition accepted_uploads (tr : list (event * res)) (root : N) : list accepted :=
  flat_map (fun er => accepted_of er root) tr.

(* "k, k+1, k+2, ..." *)
Fixpoint consecutive_from (k : N) (idxs : list N) : Prop :=
  match idxs with
  | [] => True
  | i :: r => i = k /\ consecutive_from (k + 1) r
  end.

Fixpoint last_opt {A} (l : list A) : option A :=
  match l with
  | [] => None
  | [x] => Some x
  | _ :: r => last_opt r
  end.

(* the subsection that completes an upload: index total-1 *)
Definition is_final (a : accepted) : bool := a_idx a + 1 =? a_total a.

(* verdicts the specification can give to a well-formed event *)
Definition spec_res_ok (r : res) : bool :=
  match r with
  | Err ArithmeticOverflow | Err BugNextSubsectionIndexIsHigherThanTotalNumberOfParts
  | Err BugUncomputableRefund | Err MalformedTransaction => false
  | _ => true
  end.
