(* Mem/MemProofs.v — C23: the two-buffer MemoryInstance model (Mem/MemModel.v) refines the flat
   zero-initialised array (Mem/MemSpec.v) on every operation, hence on every history.

   Abstraction.  `abs m` = (length of the stack buffer, hp, x |-> mem_get m x).  A model state
   m and a specification state f are related (`R m f`) when the representation invariant
   `Inv m` holds and `abs m` and `f` have the same bounds and the same bytes at every
   OBSERVABLE address, i.e. below the stack extent or in [hp, MEM_SIZE).  Nothing is claimed
   about the other addresses: no operation can read them, and the model's heap buffer below
   hp may hold stale ("dirty") bytes from before a reset or a rollback. *)
From FV Require Import Base.Bytes Base.U64 Base.Map Mem.SVec Mem.SVecFacts Mem.MemSpec Mem.MemModel.
Open Scope N_scope.

Lemma MEM_facts : 256 <= MEM_SIZE /\ 2 * MEM_SIZE < U64 - 1 /\ 0 < MEM_SIZE.
Proof. unfold MEM_SIZE, U64. lia. Qed.

Ltac inv_R H :=
  let I1 := fresh "I1" in let I2 := fresh "I2" in let I3 := fresh "I3" in let I4 := fresh "I4" in
  let E1 := fresh "E1" in let E2 := fresh "E2" in let E3 := fresh "E3" in
  destruct H as [[I1 [I2 [I3 I4]]] [E1 [E2 E3]]]; cbn [abs stk_hi hp data] in E1, E2, E3;
  unfold observable in E3; cbn [abs stk_hi hp data] in E3.

Lemma heap_offset_eq m : Inv m -> heap_offset m = MEM_SIZE - sv_len (heap m).
Proof. reflexivity. Qed.

Lemma R_init : R mem_new flat_init.
Proof.
  pose proof MEM_facts. split; [|split; [|split]]; cbn [mem_new stack heap mhp sv_empty sv_len abs flat_init stk_hi hp data].
  - unfold Inv; cbn [mem_new stack heap mhp sv_empty sv_len]. lia.
  - reflexivity.
  - reflexivity.
  - unfold observable; cbn [abs mem_new stack heap mhp sv_empty sv_len stk_hi hp]. intros x [Hx|Hx]; lia.
Qed.

(* ---------------------------------------------------------------- verify *)
Lemma verify_refines m f a n :
  R m f -> verify m a n = match check_range f a n with Some e => inr e | None => inl (a, a + n) end.
Proof.
  intros HR. inv_R HR. pose proof MEM_facts as [M1 [M2 M3]].
  unfold verify, to_addr, check_range, accessible, rerr, rok. rewrite <- E1, <- E2.
  destruct (N.ltb_spec MEM_SIZE a).
  { replace (MEM_SIZE <? a + n) with true by (symmetry; apply N.ltb_lt; lia). reflexivity. }
  destruct (N.ltb_spec MEM_SIZE n).
  { replace (MEM_SIZE <? a + n) with true by (symmetry; apply N.ltb_lt; lia). reflexivity. }
  replace (saturating_add U64 a n) with (a + n) by (unfold saturating_add; lia).
  destruct (N.ltb_spec MEM_SIZE (a + n)); [reflexivity|].
  replace (a + n <=? MEM_SIZE) with true by (symmetry; apply N.leb_le; lia). cbn [andb].
  destruct ((a + n <=? sv_len (stack m)) || (mhp m <=? a)); reflexivity.
Qed.

(* a successfully checked range lies in one of the two buffers *)
Lemma locate_ok m f a n :
  R m f -> check_range f a n = None ->
  (a + n <= sv_len (stack m) /\ locate m (a, a + n) = inl (InStack a (a + n))) \/
  (sv_len (stack m) < a + n /\ mhp m <= a /\ a + n <= MEM_SIZE /\ heap_offset m <= a /\
   locate m (a, a + n) = inl (InHeap (a - heap_offset m) (a + n - heap_offset m))).
Proof.
  intros HR Hc. inv_R HR. unfold check_range, accessible in Hc. rewrite <- E1, <- E2 in Hc.
  unfold locate, heap_offset, saturating_sub, rok, rerr.
  destruct (N.ltb_spec MEM_SIZE (a + n)); [discriminate|].
  replace (a + n <=? MEM_SIZE) with true in Hc by (symmetry; apply N.leb_le; lia). cbn [andb] in Hc.
  destruct (N.leb_spec (a + n) (sv_len (stack m))).
  - left. split; [assumption|]. replace (a <=? a + n) with true by (symmetry; apply N.leb_le; lia). reflexivity.
  - cbn [orb] in Hc. destruct (N.leb_spec (mhp m) a); [|discriminate]. right.
    repeat split; try lia.
    replace (MEM_SIZE - sv_len (heap m) <=? a) with true by (symmetry; apply N.leb_le; lia).
    replace ((a - (MEM_SIZE - sv_len (heap m)) <=? a + n - (MEM_SIZE - sv_len (heap m))) &&
             (a + n - (MEM_SIZE - sv_len (heap m)) <=? sv_len (heap m))) with true; [reflexivity|].
    symmetry. apply andb_true_iff; split; apply N.leb_le; lia.
Qed.

(* the bytes of an accessible range are the specification's bytes *)
Lemma mem_get_stack m x : x < sv_len (stack m) -> mem_get m x = sv_get (stack m) x.
Proof. intros H. unfold mem_get. replace (x <? sv_len (stack m)) with true by (symmetry; apply N.ltb_lt; lia). reflexivity. Qed.
Lemma mem_get_heap m x :
  sv_len (stack m) <= mhp m -> mhp m <= x -> x < MEM_SIZE -> mem_get m x = sv_get (heap m) (x - heap_offset m).
Proof.
  intros H1 H2 H3. unfold mem_get.
  destruct (N.ltb_spec x (sv_len (stack m))); [lia|].
  replace ((mhp m <=? x) && (x <? MEM_SIZE)) with true; [reflexivity|].
  symmetry. apply andb_true_iff; split; [apply N.leb_le | apply N.ltb_lt]; lia.
Qed.

(* R in terms of the two buffers *)
Lemma R_intro m f :
  Inv m -> stk_hi f = sv_len (stack m) -> hp f = mhp m ->
  (forall x, x < sv_len (stack m) -> sv_get (stack m) x = data f x) ->
  (forall x, mhp m <= x -> x < MEM_SIZE -> sv_get (heap m) (x - heap_offset m) = data f x) ->
  R m f.
Proof.
  intros HI H1 H2 H3 H4. split; [assumption|]. split; [|split]; cbn [abs stk_hi hp data]; try congruence.
  unfold observable; cbn [abs stk_hi hp data]. destruct HI as [I1 _]. intros x [Hx|[Hx Hy]].
  - rewrite mem_get_stack by assumption. auto.
  - rewrite mem_get_heap by assumption. auto.
Qed.

Lemma R_elim m f :
  R m f ->
  Inv m /\ stk_hi f = sv_len (stack m) /\ hp f = mhp m /\
  (forall x, x < sv_len (stack m) -> sv_get (stack m) x = data f x) /\
  (forall x, mhp m <= x -> x < MEM_SIZE -> sv_get (heap m) (x - heap_offset m) = data f x).
Proof.
  intros HR. pose proof HR as [HI _]. inv_R HR. repeat split; try assumption; try congruence.
  - intros x Hx. rewrite <- E3 by (left; assumption). symmetry; apply mem_get_stack; assumption.
  - intros x Hx Hy. rewrite <- E3 by (right; split; assumption). symmetry; apply mem_get_heap; assumption.
Qed.

Ltac elim_R H :=
  let HI := fresh "HI" in let E1 := fresh "E1" in let E2 := fresh "E2" in
  let ES := fresh "ES" in let EH := fresh "EH" in
  apply R_elim in H; destruct H as [HI [E1 [E2 [ES EH]]]].

(* ---------------------------------------------------------------- read *)
Lemma read_refines m f a n :
  R m f ->
  match read m a n with
  | inl v => check_range f a n = None /\ sv_to_list v = read_range (data f) a n
  | inr e => check_range f a n = Some e
  end.
Proof.
  intros HR. unfold read. rewrite (verify_refines m f a n HR).
  destruct (check_range f a n) eqn:Hc; cbn [rbind]; [reflexivity|].
  destruct (locate_ok m f a n HR Hc) as [[H1 L]|[H1 [H2 [H3 [H4 L]]]]]; rewrite L; cbn [rbind rok];
    (split; [reflexivity|]); rewrite sv_to_list_slice; unfold read_range; elim_R HR.
  - replace (a + n - a) with n by lia. apply map_seqN_ext. intros j Hj. rewrite N2Nat.id in Hj.
    apply ES. lia.
  - replace (a + n - heap_offset m - (a - heap_offset m)) with n by lia.
    apply map_seqN_ext. intros j Hj. rewrite N2Nat.id in Hj.
    replace (a - heap_offset m + j) with (a + j - heap_offset m) by lia. apply EH; lia.
Qed.

(* ---------------------------------------------------------------- write *)
Lemma write_refines m f a bs :
  R m f ->
  match write_noownerchecks m a bs with
  | inl m' => check_range f a (lenN bs) = None /\
              R m' {| stk_hi := stk_hi f; hp := hp f; data := upd_range (data f) a bs |}
  | inr e => check_range f a (lenN bs) = Some e
  end.
Proof.
  intros HR. unfold write_noownerchecks. rewrite (verify_refines m f a _ HR).
  destruct (check_range f a (lenN bs)) eqn:Hc; cbn [rbind]; [reflexivity|].
  destruct (locate_ok m f a _ HR Hc) as [[H1 L]|[H1 [H2 [H3 [H4 L]]]]]; rewrite L; cbn [rbind rok];
    (split; [reflexivity|]); elim_R HR; destruct HI as [I1 [I2 [I3 I4]]].
  - apply R_intro; cbn [stack heap mhp stk_hi hp data]; rewrite ?sv_len_write; try assumption.
    + unfold Inv; cbn [stack heap mhp]; rewrite sv_len_write; auto.
    + intros x Hx. rewrite sv_get_write. unfold upd_range.
      replace (x <? sv_len (stack m)) with true by (symmetry; apply N.ltb_lt; assumption).
      rewrite andb_true_r. unfold in_range. destruct ((a <=? x) && (x <? a + lenN bs)); [reflexivity | auto].
    + intros x Hx Hy. unfold upd_range. unfold heap_offset; cbn [heap]. fold (heap_offset m).
      replace ((a <=? x) && (x <? a + lenN bs)) with false by nbs. auto.
  - apply R_intro; cbn [stack heap mhp stk_hi hp data]; rewrite ?sv_len_write; try assumption.
    + unfold Inv; cbn [stack heap mhp]; rewrite sv_len_write; auto.
    + intros x Hx. unfold upd_range. replace ((a <=? x) && (x <? a + lenN bs)) with false by nbs. auto.
    + intros x Hx Hy. unfold heap_offset; cbn [heap]. rewrite sv_len_write. fold (heap_offset m).
      rewrite sv_get_write. unfold upd_range, in_range.
      assert (Hoff : heap_offset m = MEM_SIZE - sv_len (heap m)) by reflexivity.
      replace (x - heap_offset m <? sv_len (heap m)) with true by (symmetry; apply N.ltb_lt; lia).
      rewrite andb_true_r.
      replace (a - heap_offset m <=? x - heap_offset m) with (a <=? x) by nbs.
      replace (x - heap_offset m <? a - heap_offset m + lenN bs) with (x <? a + lenN bs) by nbs.
      destruct ((a <=? x) && (x <? a + lenN bs)) eqn:Hin; [|auto].
      f_equal. f_equal. revert Hin; nbs.
Qed.

(* ---------------------------------------------------------------- grow_stack *)
Lemma grow_stack_refines m f new_sp :
  R m f ->
  if MEM_SIZE <? new_sp then grow_stack m new_sp = inr MemoryOverflow
  else if new_sp <=? stk_hi f then grow_stack m new_sp = inl m
  else if hp f <? new_sp then grow_stack m new_sp = inr MemoryGrowthOverlap
  else exists m', grow_stack m new_sp = inl m' /\
       R m' {| stk_hi := new_sp; hp := hp f; data := zero_range (data f) (stk_hi f) new_sp |}.
Proof.
  intros HR. elim_R HR. destruct HI as [I1 [I2 [I3 I4]]]. unfold grow_stack, rerr, rok. rewrite E1, E2.
  destruct (N.ltb_spec MEM_SIZE new_sp); [reflexivity|].
  destruct (N.leb_spec new_sp (sv_len (stack m))).
  { replace (sv_len (stack m) <? new_sp) with false by nbs. reflexivity. }
  replace (sv_len (stack m) <? new_sp) with true by nbs.
  destruct (N.ltb_spec (mhp m) new_sp); [reflexivity|].
  eexists; split; [reflexivity|].
  apply R_intro; cbn [stack heap mhp stk_hi hp data]; rewrite ?sv_len_resize; try reflexivity; try assumption.
  - unfold Inv; cbn [stack heap mhp]; rewrite sv_len_resize. auto.
  - intros x Hx. rewrite sv_get_resize. replace (x <? new_sp) with true by nbs.
    unfold zero_range. destruct (N.leb_spec (sv_len (stack m)) x).
    + replace (x <? new_sp) with true by nbs. cbn [andb]. apply sv_get_beyond; assumption.
    + cbn [andb]. apply ES; assumption.
  - intros x Hx Hy. unfold zero_range. replace ((sv_len (stack m) <=? x) && (x <? new_sp)) with false by nbs.
    apply EH; assumption.
Qed.

(* ---------------------------------------------------------------- reset *)
Lemma reset_refines m : Inv m -> R (mem_reset m) flat_init.
Proof.
  intros [I1 [I2 [I3 I4]]]. pose proof MEM_facts as [M1 [M2 M3]].
  apply R_intro; cbn [mem_reset stack heap mhp flat_init stk_hi hp data]; rewrite ?sv_len_truncate.
  - unfold Inv, mem_reset; cbn [stack heap mhp]; rewrite sv_len_truncate. lia.
  - lia.
  - reflexivity.
  - intros x Hx. lia.
  - intros x Hx Hy. lia.
Qed.

(* ---------------------------------------------------------------- grow_heap_by *)
Lemma next_pow2_ge x : x <= next_pow2 x.
Proof.
  unfold next_pow2. destruct (N.leb_spec x 1); [assumption|].
  apply N.log2_up_spec. lia.
Qed.

Lemma clamp_bounds x : x <= MEM_SIZE -> x <= clamp (next_pow2 x) 256 MEM_SIZE <= MEM_SIZE.
Proof.
  intros H. pose proof (next_pow2_ge x). pose proof MEM_facts as [M1 _]. unfold clamp.
  destruct (N.ltb_spec (next_pow2 x) 256); [lia|].
  destruct (N.ltb_spec MEM_SIZE (next_pow2 x)); lia.
Qed.

Lemma grow_heap_refines m f sp_reg amount :
  R m f ->
  if hp f <? amount then grow_heap_by m sp_reg amount = inr MemoryOverflow
  else if hp f - amount <? sp_reg then grow_heap_by m sp_reg amount = inr MemoryGrowthOverlap
  else exists m', grow_heap_by m sp_reg amount = inl m' /\
       R m' {| stk_hi := N.min (stk_hi f) (hp f - amount); hp := hp f - amount;
               data := zero_range (data f) (hp f - amount) (hp f) |}.
Proof.
  intros HR. elim_R HR. destruct HI as [I1 [I2 [I3 I4]]]. rewrite E1, E2.
  unfold grow_heap_by, checked_sub, rerr.
  destruct (N.ltb_spec (mhp m) amount).
  { replace (amount <=? mhp m) with false by nbs. reflexivity. }
  replace (amount <=? mhp m) with true by nbs.
  set (new_hp := mhp m - amount).
  destruct (N.ltb_spec new_hp sp_reg); [reflexivity|].
  assert (Hnh : new_hp <= mhp m) by (unfold new_hp; lia).
  assert (Hoff : heap_offset m = MEM_SIZE - sv_len (heap m)) by reflexivity.
  unfold usub at 1. replace (new_hp <=? MEM_SIZE) with true by nbs. cbn [rbind rok].
  destruct (N.leb_spec (MEM_SIZE - new_hp) (sv_len (heap m))) as [Hcap|Hcap].
  - (* enough capacity: zero [new_hp, hp) in place *)
    unfold usub. replace (heap_offset m <=? new_hp) with true by nbs.
    replace (heap_offset m <=? mhp m) with true by nbs. cbn [rbind rok].
    replace ((new_hp - heap_offset m <=? mhp m - heap_offset m) && (mhp m - heap_offset m <=? sv_len (heap m)))
      with true by nbs.
    cbn [rbind rok]. eexists; split; [reflexivity|].
    apply R_intro; cbn [stack heap mhp stk_hi hp data]; rewrite ?sv_len_truncate, ?sv_len_fill0; try reflexivity.
    + unfold Inv; cbn [stack heap mhp]; rewrite sv_len_truncate, sv_len_fill0. lia.
    + lia.
    + intros x Hx. rewrite sv_get_truncate. replace (x <? new_hp) with true by nbs.
      unfold zero_range. replace ((new_hp <=? x) && (x <? mhp m)) with false by nbs. apply ES. lia.
    + intros x Hx Hy. unfold heap_offset; cbn [heap]; rewrite sv_len_fill0. fold (heap_offset m).
      rewrite sv_get_fill0. unfold zero_range, in_range.
      replace (new_hp - heap_offset m <=? x - heap_offset m) with (new_hp <=? x) by nbs.
      replace (x - heap_offset m <? mhp m - heap_offset m) with (x <? mhp m) by nbs.
      destruct ((new_hp <=? x) && (x <? mhp m)) eqn:Hin; [reflexivity|].
      apply EH; [revert Hin; nbs | assumption].
  - (* reallocation *)
    replace (heap_offset m <=? mhp m) with true by nbs.
    replace (mhp m - heap_offset m <=? sv_len (heap m)) with true by nbs. cbn [rbind rok].
    rewrite sv_len_fill0.
    pose proof (clamp_bounds (MEM_SIZE - new_hp) ltac:(lia)) as [Hc1 Hc2].
    set (cap := clamp (next_pow2 (MEM_SIZE - new_hp)) 256 MEM_SIZE) in *.
    unfold usub. replace (sv_len (heap m) <=? cap) with true by nbs. cbn [rbind rok].
    eexists; split; [reflexivity|].
    apply R_intro; cbn [stack heap mhp stk_hi hp data];
      rewrite ?sv_len_truncate, ?sv_len_fill0, ?sv_len_blit, ?sv_len_resize; try reflexivity.
    + unfold Inv; cbn [stack heap mhp]; rewrite sv_len_truncate, sv_len_fill0, sv_len_blit, sv_len_resize. lia.
    + lia.
    + intros x Hx. rewrite sv_get_truncate. replace (x <? new_hp) with true by nbs.
      unfold zero_range. replace ((new_hp <=? x) && (x <? mhp m)) with false by nbs. apply ES. lia.
    + intros x Hx Hy. unfold heap_offset; cbn [heap].
      rewrite sv_len_fill0, sv_len_blit, sv_len_resize.
      unfold saturating_sub.
      rewrite sv_get_fill0, sv_get_blit, sv_len_resize, !sv_get_resize, sv_get_fill0.
      set (i := x - (MEM_SIZE - cap)). set (p := cap - sv_len (heap m)).
      unfold zero_range, in_range.
      destruct (N.ltb_spec x (heap_offset m)) as [Hlow|Hhigh].
      * (* x lies below the old buffer: inside the fresh zero prefix *)
        replace ((0 <=? i) && (i <? p)) with true by (unfold i, p; nbs).
        replace ((new_hp <=? x) && (x <? mhp m)) with true by nbs. reflexivity.
      * replace ((0 <=? i) && (i <? p)) with false by (unfold i, p; nbs).
        replace ((p <=? i) && (i <? p + sv_len (heap m)) && (i <? cap)) with true by (unfold i, p; nbs).
        replace (i - p + 0) with (x - heap_offset m) by (unfold i, p; lia).
        replace (x - heap_offset m <? cap) with true by nbs.
        replace (x - heap_offset m <? sv_len (heap m)) with true by nbs.
        replace (0 <=? x - heap_offset m) with true by nbs. cbn [andb].
        destruct (N.ltb_spec x (mhp m)).
        -- replace (new_hp <=? x) with true by nbs. cbn [andb].
           match goal with |- context [?a <? ?b] => replace (a <? b) with true by nbs end. reflexivity.
        -- rewrite andb_false_r.
           match goal with |- context [?a <? ?b] => replace (a <? b) with false by nbs end.
           apply EH; assumption.
Qed.

(* ---------------------------------------------------------------- memcopy *)
Lemma overlap_is_share_byte a b n : ranges_overlap a (a + n) b (b + n) = share_byte a b n.
Proof. unfold ranges_overlap, share_byte. nbs. Qed.

Lemma range_cases m f a n :
  R m f -> check_range f a n = None ->
  a + n <= sv_len (stack m) \/
  (sv_len (stack m) < a + n /\ mhp m <= a /\ a + n <= MEM_SIZE /\ heap_offset m <= a).
Proof.
  intros HR Hc. destruct (locate_ok m f a n HR Hc) as [[H _]|[H1 [H2 [H3 [H4 _]]]]]; [left | right]; auto.
Qed.

Lemma memcopy_refines m f dst src n o :
  R m f ->
  match check_range f dst n with
  | Some e => memcopy m dst src n o = inr e
  | None =>
    match check_range f src n with
    | Some e => memcopy m dst src n o = inr e
    | None =>
      if share_byte dst src n then memcopy m dst src n o = inr MemoryWriteOverlap
      else if negb (owns o dst (dst + n)) then memcopy m dst src n o = inr MemoryOwnership
      else exists m', memcopy m dst src n o = inl m' /\
           R m' {| stk_hi := stk_hi f; hp := hp f; data := copy_range (data f) dst src n |}
    end
  end.
Proof.
  intros HR. unfold memcopy. rewrite (verify_refines m f dst n HR).
  destruct (check_range f dst n) eqn:Hd; cbn [rbind]; [reflexivity|].
  rewrite (verify_refines m f src n HR).
  destruct (check_range f src n) eqn:Hs; cbn [rbind]; [reflexivity|].
  rewrite overlap_is_share_byte. destruct (share_byte dst src n); [reflexivity|].
  destruct (owns o dst (dst + n)); cbn [negb]; [|reflexivity].
  pose proof (range_cases m f dst n HR Hd) as Cd. pose proof (range_cases m f src n HR Hs) as Cs.
  elim_R HR. destruct HI as [I1 [I2 [I3 I4]]].
  assert (Hoff : heap_offset m = MEM_SIZE - sv_len (heap m)) by reflexivity.
  replace (src + n - src) with n by lia.
  destruct Cs as [Cs|[Cs1 [Cs2 [Cs3 Cs4]]]].
  - replace (src + n <=? sv_len (stack m)) with true by nbs.
    destruct Cd as [Cd|[Cd1 [Cd2 [Cd3 Cd4]]]].
    + (* stack -> stack *)
      replace (dst + n <=? sv_len (stack m)) with true by nbs.
      eexists; split; [reflexivity|].
      apply R_intro; cbn [stack heap mhp stk_hi hp data]; rewrite ?sv_len_blit; try assumption.
      * unfold Inv; cbn [stack heap mhp]; rewrite sv_len_blit; auto.
      * intros x Hx. rewrite sv_get_blit. unfold copy_range, in_range.
        replace (x <? sv_len (stack m)) with true by nbs. rewrite andb_true_r.
        destruct ((dst <=? x) && (x <? dst + n)) eqn:Hin; [|auto]. apply ES. revert Hin; nbs.
      * intros x Hx Hy. unfold copy_range. replace ((dst <=? x) && (x <? dst + n)) with false by nbs.
        apply EH; assumption.
    + (* stack -> heap *)
      replace (dst + n <=? sv_len (stack m)) with false by nbs.
      replace (heap_offset m <=? dst) with true by nbs.
      replace ((dst - heap_offset m <=? dst + n - heap_offset m) && (dst + n - heap_offset m <=? sv_len (heap m)))
        with true by nbs.
      eexists; split; [reflexivity|].
      apply R_intro; cbn [stack heap mhp stk_hi hp data]; rewrite ?sv_len_blit; try assumption.
      * unfold Inv; cbn [stack heap mhp]; rewrite sv_len_blit; auto.
      * intros x Hx. unfold copy_range. replace ((dst <=? x) && (x <? dst + n)) with false by nbs. auto.
      * intros x Hx Hy. unfold heap_offset; cbn [heap]; rewrite sv_len_blit. fold (heap_offset m).
        rewrite sv_get_blit. unfold copy_range, in_range.
        replace (x - heap_offset m <? sv_len (heap m)) with true by nbs. rewrite andb_true_r.
        replace (dst - heap_offset m <=? x - heap_offset m) with (dst <=? x) by nbs.
        replace (x - heap_offset m <? dst - heap_offset m + n) with (x <? dst + n) by nbs.
        destruct ((dst <=? x) && (x <? dst + n)) eqn:Hin; [|auto].
        replace (x - heap_offset m - (dst - heap_offset m) + src) with (x - dst + src) by (revert Hin; nbs).
        apply ES. revert Hin; nbs.
  - replace (src + n <=? sv_len (stack m)) with false by nbs.
    replace (heap_offset m <=? src) with true by nbs.
    replace ((src - heap_offset m <=? src + n - heap_offset m) && (src + n - heap_offset m <=? sv_len (heap m)))
      with true by nbs. cbn [negb].
    replace (src + n - heap_offset m - (src - heap_offset m)) with n by lia.
    destruct Cd as [Cd|[Cd1 [Cd2 [Cd3 Cd4]]]].
    + (* heap -> stack *)
      replace (dst + n <=? sv_len (stack m)) with true by nbs.
      eexists; split; [reflexivity|].
      apply R_intro; cbn [stack heap mhp stk_hi hp data]; rewrite ?sv_len_blit; try assumption.
      * unfold Inv; cbn [stack heap mhp]; rewrite sv_len_blit; auto.
      * intros x Hx. rewrite sv_get_blit. unfold copy_range, in_range.
        replace (x <? sv_len (stack m)) with true by nbs. rewrite andb_true_r.
        destruct ((dst <=? x) && (x <? dst + n)) eqn:Hin; [|auto].
        replace (x - dst + (src - heap_offset m)) with (x - dst + src - heap_offset m) by (revert Hin; nbs).
        apply EH; revert Hin; nbs.
      * intros x Hx Hy. unfold copy_range. replace ((dst <=? x) && (x <? dst + n)) with false by nbs.
        apply EH; assumption.
    + (* heap -> heap *)
      replace (dst + n <=? sv_len (stack m)) with false by nbs.
      replace (heap_offset m <=? dst) with true by nbs.
      replace (dst - heap_offset m + n <=? sv_len (heap m)) with true by nbs.
      eexists; split; [reflexivity|].
      apply R_intro; cbn [stack heap mhp stk_hi hp data]; rewrite ?sv_len_blit; try assumption.
      * unfold Inv; cbn [stack heap mhp]; rewrite sv_len_blit; auto.
      * intros x Hx. unfold copy_range. replace ((dst <=? x) && (x <? dst + n)) with false by nbs. auto.
      * intros x Hx Hy. unfold heap_offset; cbn [heap]; rewrite sv_len_blit. fold (heap_offset m).
        rewrite sv_get_blit. unfold copy_range, in_range.
        replace (x - heap_offset m <? sv_len (heap m)) with true by nbs. rewrite andb_true_r.
        replace (dst - heap_offset m <=? x - heap_offset m) with (dst <=? x) by nbs.
        replace (x - heap_offset m <? dst - heap_offset m + n) with (x <? dst + n) by nbs.
        destruct ((dst <=? x) && (x <? dst + n)) eqn:Hin; [|auto].
        replace (x - heap_offset m - (dst - heap_offset m) + (src - heap_offset m))
          with (x - dst + src - heap_offset m) by (revert Hin; nbs).
        apply EH; revert Hin; nbs.
Qed.

(* ---------------------------------------------------------------- equality, rollback *)
Lemma mem_eqb_sound m m0 f0 :
  Inv m -> mem_eqb m m0 = true -> R m0 f0 -> R m f0.
Proof.
  intros [I1 [I2 [I3 I4]]] He HR. elim_R HR. destruct HI as [J1 [J2 [J3 J4]]].
  unfold mem_eqb in He. apply andb_true_iff in He as [He H4]. apply andb_true_iff in He as [He H3].
  apply andb_true_iff in He as [H1 H2]. apply N.eqb_eq in H1, H3.
  pose proof (sv_range_eqb_sound _ _ _ _ _ H2) as S2. pose proof (sv_range_eqb_sound _ _ _ _ _ H4) as S4.
  assert (Hoff : heap_offset m = MEM_SIZE - sv_len (heap m)) by reflexivity.
  assert (Hoff0 : heap_offset m0 = MEM_SIZE - sv_len (heap m0)) by reflexivity.
  apply R_intro; try congruence.
  - unfold Inv; auto.
  - intros x Hx. specialize (S2 x Hx). rewrite !N.add_0_l in S2. rewrite S2. apply ES. lia.
  - intros x Hx Hy. specialize (S4 (x - mhp m) ltac:(lia)).
    replace (mhp m - heap_offset m + (x - mhp m)) with (x - heap_offset m) in S4 by lia.
    replace (mhp m0 - heap_offset m0 + (x - mhp m)) with (x - heap_offset m0) in S4 by lia.
    rewrite S4. apply EH; lia.
Qed.

Lemma apply_single_changes (D : N -> N) base offset : forall (is : list N) v,
  base <= offset ->
  (forall i, In i is -> offset - base + i < sv_len v) ->
  exists v', apply_changes v base (map (fun i => (offset + i, [D i])) is) = inl v' /\
    sv_len v' = sv_len v /\
    forall j, sv_get v' j =
              if existsb (fun i => offset - base + i =? j) is then D (j - (offset - base)) else sv_get v j.
Proof.
  induction is as [|i is IH]; intros v Hb Hin.
  - exists v. repeat split; reflexivity.
  - unfold apply_changes in *. cbn [map fold_left]. match goal with |- context [apply_step base (rok v) ?c] =>
      change (apply_step base (rok v) c) with
        (let? v0 := rok v in let? local := usub (fst c) base in
         if local + lenN (snd c) <=? sv_len v0 then rok (sv_write v0 local (snd c)) else rerr HostPanic) end. cbn [fst snd rbind rok].
    unfold usub. replace (base <=? offset + i) with true by nbs. cbn [rbind rok].
    unfold lenN; cbn [length].
    replace (offset + i - base + N.of_nat 1 <=? sv_len v) with true
      by (specialize (Hin i (or_introl eq_refl)); nbs).
    destruct (IH (sv_write v (offset + i - base) [D i]) Hb) as [v' [A [B C]]].
    { intros k Hk. rewrite sv_len_write. apply Hin. right; assumption. }
    exists v'. split; [exact A|]. split; [rewrite B; apply sv_len_write|].
    intros j. rewrite C. cbn [existsb].
    destruct (existsb (fun i0 => offset - base + i0 =? j) is); [rewrite orb_true_r; reflexivity|].
    rewrite orb_false_r, sv_get_write. unfold lenN, in_range; cbn [length].
    specialize (Hin i (or_introl eq_refl)).
    destruct (N.eqb_spec (offset - base + i) j) as [<-|Hne].
    + replace ((offset + i - base <=? offset - base + i) && (offset - base + i <? offset + i - base + N.of_nat 1) &&
               (offset - base + i <? sv_len v)) with true by nbs.
      replace (offset - base + i - (offset + i - base)) with 0 by lia.
      replace (offset - base + i - (offset - base)) with i by lia. reflexivity.
    + replace ((offset + i - base <=? j) && (j <? offset + i - base + N.of_nat 1)) with false by nbs.
      reflexivity.
Qed.

Lemma apply_get_changes latest lo desired dlo n offset v base :
  base <= offset -> offset - base + n <= sv_len v ->
  (forall i, i < n -> sv_get v (offset - base + i) = sv_get latest (lo + i)) ->
  exists v', apply_changes v base (get_changes latest lo desired dlo n offset) = inl v' /\
    sv_len v' = sv_len v /\
    (forall i, i < n -> sv_get v' (offset - base + i) = sv_get desired (dlo + i)) /\
    (forall j, j < offset - base \/ offset - base + n <= j -> sv_get v' j = sv_get v j).
Proof.
  intros Hb Hlen Hv. unfold get_changes.
  set (keys := sv_range_keys latest lo n ++ sv_range_keys desired dlo n).
  set (is := filter (fun i => negb (sv_get latest (lo + i) =? sv_get desired (dlo + i))) keys).
  assert (Hlt : forall i, In i is -> i < n).
  { intros i Hi. apply filter_In in Hi as [Hi _]. apply in_app_or in Hi as [Hi|Hi]; eapply range_keys_lt; eassumption. }
  destruct (apply_single_changes (fun i => sv_get desired (dlo + i)) base offset is v Hb) as [v' [A [B C]]].
  { intros i Hi. specialize (Hlt i Hi). lia. }
  exists v'. split; [exact A|]. split; [exact B|]. split.
  - intros i Hi. rewrite C.
    destruct (existsb (fun i0 => offset - base + i0 =? offset - base + i) is) eqn:He.
    + f_equal. lia.
    + rewrite Hv by assumption.
      destruct (in_dec N.eq_dec i keys) as [Hk|Hk].
      * destruct (N.eqb_spec (sv_get latest (lo + i)) (sv_get desired (dlo + i))) as [Heq|Hne]; [exact Heq|].
        exfalso. assert (Hin : In i is).
        { apply filter_In. split; [exact Hk|]. apply negb_true_iff. apply N.eqb_neq. exact Hne. }
        assert (Ht : existsb (fun i0 => offset - base + i0 =? offset - base + i) is = true).
        { apply existsb_exists. exists i. split; [exact Hin | apply N.eqb_refl]. }
        congruence.
      * rewrite (range_keys_cover latest lo n i), (range_keys_cover desired dlo n i); auto;
          intros Hc; apply Hk; apply in_or_app; auto.
  - intros j Hj. rewrite C.
    destruct (existsb (fun i0 => offset - base + i0 =? j) is) eqn:He; [|reflexivity].
    exfalso. apply existsb_exists in He as [i [Hi Heq]]. apply N.eqb_eq in Heq.
    specialize (Hlt i Hi). lia.
Qed.

Lemma apply_changes_app v base a b :
  apply_changes v base (a ++ b) =
  match apply_changes v base a with inl v1 => apply_changes v1 base b | inr e => inr e end.
Proof.
  unfold apply_changes. rewrite fold_left_app.
  destruct (fold_left (apply_step base) a (rok v)) as [v1|e]; [reflexivity|].
  induction b as [|c b IH]; [reflexivity | exact IH].
Qed.

Lemma rollback_refines m f m0 f0 :
  R m f -> R m0 f0 ->
  match collect_rollback_data m m0 with
  | inr e => e = HostPanic /\ hp f0 < hp f
  | inl None => R m f0 /\ ~ hp f0 < hp f
  | inl (Some d) => ~ hp f0 < hp f /\ exists m', rollback m d = inl m' /\ R m' f0
  end.
Proof.
  intros HR HR0. unfold collect_rollback_data.
  destruct (mem_eqb m m0) eqn:Heq.
  { pose proof HR as [HI _]. split; [eapply mem_eqb_sound; eassumption|].
    elim_R HR. elim_R HR0. unfold mem_eqb in Heq. apply andb_true_iff in Heq as [Heq _].
    apply andb_true_iff in Heq as [_ Heq]. apply N.eqb_eq in Heq. lia. }
  pose proof HR0 as HR0'. elim_R HR. elim_R HR0. rename E0 into F1, E3 into F2, ES0 into FS, EH0 into FH.
  destruct HI as [I1 [I2 [I3 I4]]]. destruct HI0 as [J1 [J2 [J3 J4]]].
  assert (Hoff : heap_offset m = MEM_SIZE - sv_len (heap m)) by reflexivity.
  assert (Hoff0 : heap_offset m0 = MEM_SIZE - sv_len (heap m0)) by reflexivity.
  unfold rerr, rok. rewrite E2, F2.
  destruct (N.ltb_spec (mhp m0) (mhp m)); [split; [reflexivity | assumption]|].
  unfold checked_sub. replace (heap_offset m <=? mhp m0) with true by nbs.
  replace (heap_offset m0 <=? mhp m0) with true by nbs.
  replace ((sv_len (heap m) <? mhp m0 - heap_offset m) || (sv_len (heap m0) <? mhp m0 - heap_offset m0))
    with false by nbs.
  replace (N.min (sv_len (heap m) - (mhp m0 - heap_offset m)) (sv_len (heap m0) - (mhp m0 - heap_offset m0)))
    with (MEM_SIZE - mhp m0) by lia.
  split; [lia|].
  unfold rollback; cbn [rd_sp rd_hp rd_stack rd_heap].
  replace (mhp m0 <? mhp m) with false by nbs.
  (* stack changes: the common prefix against the current stack, the missing tail against zeros *)
  set (sp := sv_len (stack m0)). set (common := N.min sp (sv_len (stack m))).
  rewrite apply_changes_app.
  destruct (apply_get_changes (stack m) 0 (stack m0) 0 common 0 (sv_resize (stack m) sp) 0) as [st1 [A0 [B0 [C0 D0]]]].
  { lia. }
  { rewrite sv_len_resize. unfold common. lia. }
  { intros i Hi. rewrite sv_get_resize. replace (0 - 0 + i <? sp) with true by (unfold common in Hi; nbs).
    f_equal; lia. }
  rewrite A0. rewrite sv_len_resize in B0.
  destruct (apply_get_changes (sv_resize sv_empty (saturating_sub sp common)) 0 (stack m0) common (sp - common) common st1 0)
    as [st' [A1 [B1' [C1' D1']]]].
  { lia. }
  { rewrite B0. unfold common. lia. }
  { intros i Hi. rewrite sv_get_resize, sv_get_empty.
    replace (sv_get st1 (common - 0 + i)) with 0; [destruct (0 + i <? saturating_sub sp common); reflexivity|].
    rewrite D0 by (right; lia). rewrite sv_get_resize.
    destruct (common - 0 + i <? sp); [|reflexivity]. symmetry. apply sv_get_beyond. unfold common in *. lia. }
  assert (B1 : sv_len st' = sp) by congruence.
  assert (C1 : forall i, i < sp -> sv_get st' (0 - 0 + i) = sv_get (stack m0) (0 + i)).
  { intros i Hi. destruct (N.ltb_spec i common) as [Hlt|Hge].
    - rewrite D1' by (left; lia). apply C0. exact Hlt.
    - specialize (C1' (i - common) ltac:(lia)).
      replace (common - 0 + (i - common)) with (0 - 0 + i) in C1' by lia.
      replace (common + (i - common)) with (0 + i) in C1' by lia. exact C1'. }
  rewrite A1. cbn [rbind]. unfold saturating_sub. rewrite <- Hoff.
  (* heap changes *)
  destruct (apply_get_changes (heap m) (mhp m0 - heap_offset m) (heap m0) (mhp m0 - heap_offset m0)
              (MEM_SIZE - mhp m0) (mhp m0) (heap m) (heap_offset m)) as [h' [A2 [B2 [C2 _]]]].
  { lia. }
  { lia. }
  { intros i Hi. reflexivity. }
  rewrite A2. cbn [rbind rok]. eexists; split; [reflexivity|].
  subst common. subst sp.
  apply R_intro; cbn [stack heap mhp]; try congruence.
  - unfold Inv; cbn [stack heap mhp]. rewrite B1, B2. lia.
  - rewrite B1. intros x Hx. specialize (C1 x Hx). rewrite !N.sub_diag, !N.add_0_l in C1. rewrite C1. apply FS; assumption.
  - intros x Hx Hy. unfold heap_offset at 1; cbn [heap]. rewrite B2. fold (heap_offset m).
    specialize (C2 (x - mhp m0) ltac:(lia)).
    replace (mhp m0 - heap_offset m + (x - mhp m0)) with (x - heap_offset m) in C2 by lia.
    replace (mhp m0 - heap_offset m0 + (x - mhp m0)) with (x - heap_offset m0) in C2 by lia.
    rewrite C2. apply FH; assumption.
Qed.

(* ================================================================ every operation, every history *)
Lemma R_abs m : Inv m -> R m (abs m).
Proof. intros H. split; [exact H|]. repeat split. Qed.

Ltac fin := split; [split; cbn [fst snd]; assumption | try reflexivity].

Theorem step_refines st sst op :
  Rst st sst ->
  Rst (fst (step st op)) (fst (step_spec sst op)) /\
  snd (step_spec sst op) = denote_out (snd (step st op)).
Proof.
  destruct st as [m snap], sst as [f fsnap]. intros [HR HS]. cbn [fst snd] in HR, HS.
  destruct op; cbn [step step_spec].
  - (* grow_stack *)
    pose proof (grow_stack_refines m f new_sp HR) as H.
    destruct (MEM_SIZE <? new_sp); [rewrite H; cbn; fin|].
    destruct (new_sp <=? stk_hi f); [rewrite H; cbn; fin|].
    destruct (hp f <? new_sp); [rewrite H; cbn; fin|].
    destruct H as [m' [-> HR']]. cbn. fin.
  - (* grow_heap_by *)
    pose proof (grow_heap_refines m f sp_reg amount HR) as H.
    destruct (hp f <? amount); [rewrite H; cbn; fin|].
    destruct (hp f - amount <? sp_reg); [rewrite H; cbn; fin|].
    destruct H as [m' [-> HR']]. cbn. fin.
  - (* verify *)
    rewrite (verify_refines m f a n HR).
    destruct (check_range f a n); cbn; fin.
  - (* read *)
    pose proof (read_refines m f a n HR) as H.
    destruct (read m a n) as [v|e].
    + destruct H as [-> Hb]. cbn. fin. congruence.
    + rewrite H. cbn. fin.
  - (* write *)
    pose proof (write_refines m f a bs HR) as H.
    destruct (write_noownerchecks m a bs) as [m'|e].
    + destruct H as [-> HR']. cbn. fin.
    + rewrite H. cbn. fin.
  - (* memcopy *)
    pose proof (memcopy_refines m f dst src n o HR) as H.
    destruct (check_range f dst n); [rewrite H; cbn; fin|].
    destruct (check_range f src n); [rewrite H; cbn; fin|].
    destruct (share_byte dst src n); [rewrite H; cbn; fin|].
    destruct (negb (owns o dst (dst + n))); [rewrite H; cbn; fin|].
    destruct H as [m' [-> HR']]. cbn. fin.
  - (* reset *)
    cbn. split; [split; cbn [fst snd]; [apply reset_refines; apply HR | assumption] | reflexivity].
  - (* snapshot *)
    cbn. split; [split; cbn [fst snd Rsnap]; assumption | reflexivity].
  - (* rollback *)
    destruct snap as [m0|], fsnap as [f0|]; cbn [Rsnap] in HS; try contradiction.
    2:{ cbn. fin. }
    pose proof (rollback_refines m f m0 f0 HR HS) as H.
    destruct (collect_rollback_data m m0) as [[d|]|e].
    + destruct H as [Hn [m' [-> HR']]].
      replace (hp f0 <? hp f) with false by (symmetry; apply N.ltb_ge; lia).
      cbn. fin.
    + destruct H as [HR' Hn].
      replace (hp f0 <? hp f) with false by (symmetry; apply N.ltb_ge; lia).
      cbn. fin.
    + destruct H as [-> Hlt].
      replace (hp f0 <? hp f) with true by (symmetry; apply N.ltb_lt; assumption).
      cbn. fin.
Qed.

Theorem run_refines ops : forall st sst,
  Rst st sst ->
  Rst (fst (run st ops)) (fst (run_spec sst ops)) /\
  snd (run_spec sst ops) = map denote_out (snd (run st ops)).
Proof.
  induction ops as [|op r IH]; intros st sst HR.
  - cbn. split; [assumption | reflexivity].
  - cbn [run run_spec].
    destruct (step_refines st sst op HR) as [HR' Ho].
    destruct (step st op) as [st' o]. destruct (step_spec sst op) as [sst' so]. cbn [fst snd] in *.
    destruct (IH st' sst' HR') as [HR'' Hos].
    destruct (run st' r) as [st'' os]. destruct (run_spec sst' r) as [sst'' sos]. cbn [fst snd map] in *.
    split; [assumption|]. congruence.
Qed.

Lemma Rst_init : Rst state_init sstate_init.
Proof. split; [apply R_init | exact I]. Qed.

Theorem run_refines_init ops :
  Rst (fst (run state_init ops)) (fst (run_spec sstate_init ops)) /\
  snd (run_spec sstate_init ops) = map denote_out (snd (run state_init ops)).
Proof. apply run_refines. apply Rst_init. Qed.

(* ---------------------------------------------------------------- the invariant, unconditionally *)
Lemma InvSt_Rst st :
  InvSt st -> Rst st (abs (fst st), option_map abs (snd st)).
Proof.
  destruct st as [m [m0|]]; intros [H1 H2]; split; cbn [fst snd option_map Rsnap]; try apply R_abs; auto.
Qed.

Lemma mem_eqb_stack_len m m0 : mem_eqb m m0 = true -> sv_len (stack m) = sv_len (stack m0).
Proof.
  unfold mem_eqb. intros H. apply andb_true_iff in H as [H _]. apply andb_true_iff in H as [H _].
  apply andb_true_iff in H as [H _]. apply N.eqb_eq. exact H.
Qed.

Theorem step_preserves_inv st op : InvSt st -> InvSt (fst (step st op)).
Proof.
  intros HI. pose proof (InvSt_Rst st HI) as HR.
  destruct (step_refines st _ op HR) as [[[H1 _] H2] _].
  split; [exact H1|]. destruct (snd (fst (step st op))) as [m0'|]; [|exact I].
  destruct (snd (fst (step_spec (abs (fst st), option_map abs (snd st)) op))); [apply H2 | contradiction].
Qed.

Lemma InvSt_init : InvSt state_init.
Proof. split; [apply R_init | exact I]. Qed.

Theorem reachable_inv ops : forall st, InvSt st -> InvSt (fst (run st ops)).
Proof.
  induction ops as [|op r IH]; intros st HI; [exact HI|].
  cbn [run]. pose proof (step_preserves_inv st op HI) as H.
  destruct (step st op) as [st' o]. cbn [fst] in H. specialize (IH st' H).
  destruct (run st' r) as [st'' os]. exact IH.
Qed.

Theorem reachable_inv_init ops : InvSt (fst (run state_init ops)).
Proof. apply reachable_inv. exact InvSt_init. Qed.

(* no Rust panic (unchecked subtraction, slice bound, unreachable!) outside rollback *)
Theorem no_host_panic st op :
  InvSt st -> op <> SRollback -> snd (step st op) <> OErr HostPanic.
Proof.
  intros HI Hop. pose proof (InvSt_Rst st HI) as HR.
  destruct (step_refines st _ op HR) as [_ Ho]. intros Hc. rewrite Hc in Ho. cbn [denote_out] in Ho.
  destruct st as [m snap]. cbn [fst snd option_map] in Ho.
  destruct op; cbn [step_spec] in Ho; try congruence; try (cbn [snd] in Ho; discriminate).
  - destruct (MEM_SIZE <? new_sp); [discriminate|]. destruct (new_sp <=? stk_hi (abs m)); [discriminate|].
    destruct (hp (abs m) <? new_sp); discriminate.
  - destruct (hp (abs m) <? amount); [discriminate|]. destruct (hp (abs m) - amount <? sp_reg); discriminate.
  - unfold check_range in Ho. destruct (MEM_SIZE <? a + n); [discriminate|]. destruct (accessible (abs m) a n); discriminate.
  - unfold check_range in Ho. destruct (MEM_SIZE <? a + n); [discriminate|]. destruct (accessible (abs m) a n); discriminate.
  - unfold check_range in Ho. destruct (MEM_SIZE <? a + lenN bs); [discriminate|]. destruct (accessible (abs m) a (lenN bs)); discriminate.
  - unfold check_range in Ho. destruct (MEM_SIZE <? dst + n); [discriminate|]. destruct (accessible (abs m) dst n); [|discriminate].
    destruct (MEM_SIZE <? src + n); [discriminate|]. destruct (accessible (abs m) src n); [|discriminate].
    destruct (share_byte dst src n); [discriminate|]. destruct (negb (owns o dst (dst + n))); discriminate.
Qed.

(* ---------------------------------------------------------------- named consequences *)
(* bytes exposed by grow_heap_by read zero whatever the buffers held before (in particular after
   reset left a dirty heap buffer): both branches of grow_heap_by *)
Theorem fresh_heap_zero m sp_reg amount m' :
  Inv m -> grow_heap_by m sp_reg amount = inl m' ->
  mhp m' = mhp m - amount /\ amount <= mhp m /\
  forall x, mhp m' <= x -> x < mhp m -> mem_get m' x = 0.
Proof.
  intros HI Hg. pose proof (grow_heap_refines m (abs m) sp_reg amount (R_abs m HI)) as H.
  cbn [abs hp stk_hi data] in H.
  destruct (N.ltb_spec (mhp m) amount); [congruence|].
  destruct (mhp m - amount <? sp_reg); [congruence|].
  destruct H as [m'' [Hg' HR']]. assert (m'' = m') by congruence. subst m''.
  pose proof HR' as HRc. elim_R HRc. cbn [hp stk_hi data] in *.
  split; [congruence|]. split; [assumption|]. intros x Hx Hy.
  destruct HR' as [_ [_ [_ Ho]]]. cbn [abs data] in Ho. rewrite Ho.
  - cbn [data]. unfold zero_range. replace ((mhp m - amount <=? x) && (x <? mhp m)) with true by nbs. reflexivity.
  - unfold observable; cbn [abs stk_hi hp]. right. destruct HI as [_ [? _]]. split; lia.
Qed.

(* a copy between two ranges that share a byte never succeeds *)
Theorem copy_overlap_refused m dst src n o :
  Inv m -> share_byte dst src n = true -> exists e, memcopy m dst src n o = inr e.
Proof.
  intros HI Hs. pose proof (memcopy_refines m (abs m) dst src n o (R_abs m HI)) as H.
  destruct (check_range (abs m) dst n); [eauto|]. destruct (check_range (abs m) src n); [eauto|].
  rewrite Hs in H. eauto.
Qed.

Theorem copy_overlap_refused_kind m dst src n o :
  Inv m -> check_range (abs m) dst n = None -> check_range (abs m) src n = None ->
  share_byte dst src n = true -> memcopy m dst src n o = inr MemoryWriteOverlap.
Proof.
  intros HI H1 H2 Hs. pose proof (memcopy_refines m (abs m) dst src n o (R_abs m HI)) as H.
  rewrite H1, H2, Hs in H. exact H.
Qed.

(* rollback restores the snapshot's accessible contents *)
Theorem rollback_restores m m0 d m' :
  Inv m -> Inv m0 ->
  collect_rollback_data m m0 = inl (Some d) -> rollback m d = inl m' ->
  flat_obs_eq (abs m') (abs m0).
Proof.
  intros HI HI0 Hc Hr.
  pose proof (rollback_refines m (abs m) m0 (abs m0) (R_abs m HI) (R_abs m0 HI0)) as H.
  rewrite Hc in H. destruct H as [_ [m'' [Hr' HR]]]. assert (m'' = m') by congruence. subst. apply HR.
Qed.

Theorem rollback_noop_when_equal m m0 :
  Inv m -> Inv m0 -> collect_rollback_data m m0 = inl None -> flat_obs_eq (abs m) (abs m0).
Proof.
  intros HI HI0 Hc. unfold collect_rollback_data in Hc.
  destruct (mem_eqb m m0) eqn:He.
  - apply (mem_eqb_sound m m0 (abs m0) HI He (R_abs m0 HI0)).
  - destruct (mhp m0 <? mhp m); [discriminate|].
    destruct (checked_sub (mhp m0) (heap_offset m)); [|discriminate].
    destruct (checked_sub (mhp m0) (heap_offset m0)); [|discriminate].
    destruct ((sv_len (heap m) <? n) || (sv_len (heap m0) <? n0)); discriminate.
Qed.

(* ---------------------------------------------------------------- the documented precondition *)
(* rollback still has ONE precondition, stated in the code as an assertion: the snapshot's heap
   pointer must not be below the current one ("we only allow shrinking of the heap during
   rollback").  The specification has the same rule (SRollback returns HostPanic), so the
   refinement needs no side condition; these two lemmas spell the rule out. *)
Theorem rollback_heap_precondition m m0 :
  mhp m0 < mhp m -> collect_rollback_data m m0 = inr HostPanic.
Proof.
  intros H. unfold collect_rollback_data.
  assert (He : mem_eqb m m0 = false).
  { unfold mem_eqb. destruct (N.eqb_spec (mhp m) (mhp m0)); [lia|]. rewrite andb_false_r. reflexivity. }
  rewrite He. replace (mhp m0 <? mhp m) with true by (symmetry; apply N.ltb_lt; exact H). reflexivity.
Qed.

Theorem rollback_never_panics_otherwise m m0 :
  Inv m -> Inv m0 -> mhp m <= mhp m0 ->
  match collect_rollback_data m m0 with
  | inr _ => False
  | inl None => True
  | inl (Some d) => exists m', rollback m d = inl m'
  end.
Proof.
  intros HI HI0 Hh. pose proof (rollback_refines m (abs m) m0 (abs m0) (R_abs m HI) (R_abs m0 HI0)) as H.
  cbn [abs hp] in H. destruct (collect_rollback_data m m0) as [[d|]|e].
  - destruct H as [_ [m' [Hr _]]]. eauto.
  - exact I.
  - destruct H as [_ Hlt]. lia.
Qed.

(* the regression witness of 75e7afe now restores the snapshot *)
Lemma witness_history_restores :
  map denote_out (snd (run state_init witness_history)) =
  [SUnit; SUnit; SUnit; SUnit; SUnit; SBytes [0; 0; 1; 2; 3; 0]] /\
  snd (run_spec sstate_init witness_history) = map denote_out (snd (run state_init witness_history)).
Proof. split; [vm_compute; reflexivity | apply run_refines_init]. Qed.
