(* Mem/SVec.v — sparse byte vectors: the executable representation of a Rust `Vec<u8>` whose
   length may be 64 MiB.  A vector is its length plus an association list of the positions
   that were written (first match wins, every other position reads 0).  Every operation of
   `Vec<u8>`/slices used by fuel-vm/src/interpreter/memory.rs is provided:
     len, index read, resize(n,0), truncate, [lo..hi].fill(0), slice write,
     copy_within / copy_from_slice (sv_blit).
   Definitions only; the facts are in Mem/SVecFacts.v. *)
From FV Require Import Base.Bytes Base.U64 Base.Map.
From FV Require Export Mem.SeqN.
From Coq Require Import Orders Mergesort.
Open Scope N_scope.

Record svec := { sv_len : N; sv_m : list (N * N) }.

Definition sv_empty : svec := {| sv_len := 0; sv_m := [] |}.

(* v[i]; positions outside the vector read 0 (the callers check bounds before) *)
Definition sv_get (s : svec) (i : N) : N :=
  if i <? sv_len s then match aget (sv_m s) i with Some b => b | None => 0 end else 0.

Definition in_range (lo hi k : N) : bool := (lo <=? k) && (k <? hi).

(* Vec::truncate(n): no effect when n >= len *)
Definition sv_truncate (s : svec) (n : N) : svec :=
  if n <? sv_len s then {| sv_len := n; sv_m := sv_m s |} else s.

(* Vec::resize(n, 0): truncation, or extension by zero bytes (entries at or beyond the old
   length are dropped so that the new positions read 0) *)
Definition sv_resize (s : svec) (n : N) : svec :=
  if n <=? sv_len s then {| sv_len := n; sv_m := sv_m s |}
  else {| sv_len := n; sv_m := filter (fun kv => fst kv <? sv_len s) (sv_m s) |}.

(* v[lo..hi].fill(0) *)
Definition sv_fill0 (s : svec) (lo hi : N) : svec :=
  {| sv_len := sv_len s; sv_m := filter (fun kv => negb (in_range lo hi (fst kv))) (sv_m s) |}.

Definition sv_put (s : svec) (i b : N) : svec := {| sv_len := sv_len s; sv_m := (i, b) :: sv_m s |}.

(* v[off..off+len data].copy_from_slice(data) *)
Fixpoint sv_write (s : svec) (off : N) (data : bytes) : svec :=
  match data with
  | [] => s
  | b :: r => sv_write (sv_put s off b) (off + 1) r
  end.

(* dst[d..d+n].copy_from_slice(&src[s..s+n]); with dst = src this is copy_within (the source is
   read from the vector as it was before the copy: memmove semantics) *)
Definition sv_blit (dst : svec) (d : N) (src : svec) (s n : N) : svec :=
  {| sv_len := sv_len dst;
     sv_m := map (fun kv => (fst kv - s + d, snd kv))
                 (filter (fun kv => in_range s (s + n) (fst kv) && (fst kv <? sv_len src)) (sv_m src))
             ++ filter (fun kv => negb (in_range d (d + n) (fst kv))) (sv_m dst) |}.

(* &v[a..a+n] as a vector of its own *)
Definition sv_slice (s : svec) (a n : N) : svec := sv_blit {| sv_len := n; sv_m := [] |} 0 s a n.

(* ---------- denotation as a list (never computed on large vectors) ---------- *)
Definition sv_to_list (s : svec) : bytes := map (sv_get s) (seqN 0 (N.to_nat (sv_len s))).

(* ---------- canonical sparse view: sorted (position, non-zero byte) pairs ---------- *)
Module NLeOrder <: Orders.TotalLeBool.
  Definition t := N.
  Definition leb := N.leb.
  Lemma leb_total : forall a b, is_true (leb a b) \/ is_true (leb b a).
  Proof. intros a b. unfold leb, is_true. destruct (N.leb_spec a b); [left; reflexivity|right; apply N.leb_le; lia]. Qed.
End NLeOrder.
Module NSort := Mergesort.Sort NLeOrder.

Fixpoint dedup_sorted (l : list N) : list N :=
  match l with
  | x :: ((y :: _) as r) => if x =? y then dedup_sorted r else x :: dedup_sorted r
  | _ => l
  end.
Definition sort_keys (l : list N) : list N := dedup_sorted (NSort.sort l).

(* entries tagged with their position in the list, sorted by (key, position): the first entry of
   every run of equal keys is the one `aget` finds *)
Module EntryOrder <: Orders.TotalLeBool.
  Definition t := (N * (N * N))%type.            (* key, (position, byte) *)
  Definition leb (a b : t) : bool :=
    if fst a =? fst b then fst (snd a) <=? fst (snd b) else fst a <=? fst b.
  Lemma leb_total : forall a b, is_true (leb a b) \/ is_true (leb b a).
  Proof.
    intros [k1 [p1 v1]] [k2 [p2 v2]]. unfold leb, is_true; cbn [fst snd].
    rewrite (N.eqb_sym k2 k1). destruct (N.eqb_spec k1 k2).
    - destruct (N.leb_spec p1 p2); [left; reflexivity | right; apply N.leb_le; lia].
    - destruct (N.leb_spec k1 k2); [left; reflexivity | right; apply N.leb_le; lia].
  Qed.
End EntryOrder.
Module EntrySort := Mergesort.Sort EntryOrder.

Fixpoint tag_entries (p : N) (m : list (N * N)) : list (N * (N * N)) :=
  match m with [] => [] | (k, v) :: r => (k, (p, v)) :: tag_entries (p + 1) r end.
(* keep the first entry of every run of equal keys; `prev` is the key of the previous entry *)
Fixpoint first_of_runs (prev : option N) (l : list (N * (N * N))) : list (N * N) :=
  match l with
  | [] => []
  | (k, (_, v)) :: r =>
      match prev with
      | Some k0 => if k0 =? k then first_of_runs prev r else (k, v) :: first_of_runs (Some k) r
      | None => (k, v) :: first_of_runs (Some k) r
      end
  end.
Definition sv_keys (s : svec) : list N := sort_keys (map fst (sv_m s)).
(* sorted (position, byte) for the positions below the length that hold a non-zero byte;
   equal to filtering `sv_get` over the sorted keys, computed in O(n log n) *)
Definition sv_nz (s : svec) : list (N * N) :=
  filter (fun kv => (fst kv <? sv_len s) && negb (snd kv =? 0))
         (first_of_runs None (EntrySort.sort (tag_entries 0 (sv_m s)))).

(* ---------- equality of two ranges of equal length n (used by MemoryInstance::eq) ---------- *)
Definition sv_range_keys (s : svec) (o n : N) : list N :=
  map (fun kv => fst kv - o) (filter (fun kv => in_range o (o + n) (fst kv)) (sv_m s)).
Definition sv_range_eqb (s1 : svec) (o1 : N) (s2 : svec) (o2 n : N) : bool :=
  forallb (fun i => sv_get s1 (o1 + i) =? sv_get s2 (o2 + i))
          (sv_range_keys s1 o1 n ++ sv_range_keys s2 o2 n).
