(* Mem/SVec.v — sparse byte vectors: the executable representation of a Rust `Vec<u8>` whose
   length may be 64 MiB.  A vector is its length plus an association list of the positions
   that were written (first match wins, every other position reads 0).  Every operation of
   `Vec<u8>`/slices used by fuel-vm/src/interpreter/memory.rs is provided:
     len, index read, resize(n,0), truncate, [lo..hi].fill(0), slice write,
     copy_within / copy_from_slice (sv_blit).
   Definitions only; the facts are in Mem/SVecFacts.v. *)
From FV Require Import Base.Bytes Base.U64 Base.Map.
From FV Require Export Mem.SeqN.
Open Scope N_scope.

Record svec := { sv_len : N; sv_m : list (N * N) }.

Definition sv_empty : svec := {| sv_len := 0; sv_m := [] |}.

(* v[i]; positions outside the vector read 0 (the callers check bounds before) *)
Definition sv_get (s : svec) (i : N) : N :=
  if i <? sv_len s then match aget (sv_m s) i with Some b => b | None => 0 end else 0.

Definition in_range (lo hi k : N) : bool := (lo <=? k) && (k <? hi).

(* Vec::truncate(n): no effect when n >= len *)
Definition sv_truncate (s : svec) (n : N) : svec :=
  if n <? sv_len s then {| sv_len := n; sv_m := sv_m s |} else s.

(* Vec::resize(n, 0): truncation, or extension by zero bytes (entries at or beyond the old
   length are dropped so that the new positions read 0) *)
Definition sv_resize (s : svec) (n : N) : svec :=
  if n <=? sv_len s then {| sv_len := n; sv_m := sv_m s |}
  else {| sv_len := n; sv_m := filter (fun kv => fst kv <? sv_len s) (sv_m s) |}.

(* v[lo..hi].fill(0) *)
Definition sv_fill0 (s : svec) (lo hi : N) : svec :=
  {| sv_len := sv_len s; sv_m := filter (fun kv => negb (in_range lo hi (fst kv))) (sv_m s) |}.

Definition sv_put (s : svec) (i b : N) : svec := {| sv_len := sv_len s; sv_m := (i, b) :: sv_m s |}.

(* v[off..off+len data].copy_from_slice(data) *)
Fixpoint sv_write (s : svec) (off : N) (data : bytes) : svec :=
  match data with
  | [] => s
  | b :: r => sv_write (sv_put s off b) (off + 1) r
  end.

(* dst[d..d+n].copy_from_slice(&src[s..s+n]); with dst = src this is copy_within (the source is
   read from the vector as it was before the copy: memmove semantics) *)
Definition sv_blit (dst : svec) (d : N) (src : svec) (s n : N) : svec :=
  {| sv_len := sv_len dst;
     sv_m := map (fun kv => (fst kv - s + d, snd kv))
                 (filter (fun kv => in_range s (s + n) (fst kv) && (fst kv <? sv_len src)) (sv_m src))
             ++ filter (fun kv => negb (in_range d (d + n) (fst kv))) (sv_m dst) |}.

(* &v[a..a+n] as a vector of its own *)
Definition sv_slice (s : svec) (a n : N) : svec := sv_blit {| sv_len := n; sv_m := [] |} 0 s a n.

(* ---------- denotation as a list (never computed on large vectors) ---------- *)
Definition sv_to_list (s : svec) : bytes := map (sv_get s) (seqN 0 (N.to_nat (sv_len s))).

(* ---------- canonical sparse view: sorted (position, non-zero byte) pairs ---------- *)
Fixpoint ins_key (k : N) (l : list N) : list N :=
  match l with
  | [] => [k]
  | x :: r => if k <? x then k :: l else if k =? x then l else x :: ins_key k r
  end.
Definition sort_keys (l : list N) : list N := fold_right ins_key [] l.

Definition sv_keys (s : svec) : list N := sort_keys (map fst (sv_m s)).
Definition sv_nz (s : svec) : list (N * N) :=
  filter (fun kv => negb (snd kv =? 0)) (map (fun k => (k, sv_get s k)) (sv_keys s)).

(* ---------- equality of two ranges of equal length n (used by MemoryInstance::eq) ---------- *)
Definition sv_range_keys (s : svec) (o n : N) : list N :=
  map (fun kv => fst kv - o) (filter (fun kv => in_range o (o + n) (fst kv)) (sv_m s)).
Definition sv_range_eqb (s1 : svec) (o1 : N) (s2 : svec) (o2 n : N) : bool :=
  forallb (fun i => sv_get s1 (o1 + i) =? sv_get s2 (o2 + i))
          (sv_range_keys s1 o1 n ++ sv_range_keys s2 o2 n).
