(* Mem/MemModel.v — L1 model of fuel-vm/src/interpreter/memory.rs `MemoryInstance`,
   function by function: two buffers (`stack: Vec<u8>` whose length is the stack high-water
   mark, `heap: Vec<u8>` which may be over-allocated and holds address MEM_SIZE-1 in its last
   element) and the heap pointer `hp`.  `usize`/`u64` arithmetic is written out over N;
   every place where the Rust code can panic (unchecked subtraction under overflow checks,
   slice index out of range, assert!, unreachable!) returns `HostPanic`.
   Vectors are sparse (Mem/SVec.v) so that 64 MiB buffers are executable.
   Definitions only. *)
From FV Require Import Base.Bytes Base.U64 Base.Map Mem.SVec Mem.MemSpec.
Open Scope N_scope.

Record mem := { stack : svec; heap : svec; mhp : N }.

(* MemoryInstance::new *)
Definition mem_new : mem := {| stack := sv_empty; heap := sv_empty; mhp := MEM_SIZE |}.

(* MemoryInstance::reset: the buffers keep their (dirty) contents *)
Definition mem_reset (m : mem) : mem :=
  {| stack := sv_truncate (stack m) 0; heap := heap m; mhp := MEM_SIZE |}.

(* heap_offset: MEM_SIZE.saturating_sub(heap.len()) *)
Definition heap_offset (m : mem) : N := saturating_sub MEM_SIZE (sv_len (heap m)).

(* ToAddr for Word/usize: Err(MemoryOverflow) when the value exceeds MEM_SIZE *)
Definition to_addr (x : N) : option N := if MEM_SIZE <? x then None else Some x.

Definition res (A : Type) := (A + merr)%type.
Definition rok {A} (a : A) : res A := inl a.
Definition rerr {A} (e : merr) : res A := inr e.
Definition rbind {A B} (r : res A) (k : A -> res B) : res B :=
  match r with inl a => k a | inr e => inr e end.
Notation "'let?' x := r 'in' k" := (rbind r (fun x => k)) (at level 200, x pattern, r at level 100, k at level 200).
(* `a - b` on usize with overflow checks *)
Definition usub (a b : N) : res N := if b <=? a then rok (a - b) else rerr HostPanic.

(* grow_stack *)
Definition grow_stack (m : mem) (new_sp : N) : res mem :=
  if MEM_SIZE <? new_sp then rerr MemoryOverflow
  else if sv_len (stack m) <? new_sp then
         if mhp m <? new_sp then rerr MemoryGrowthOverlap
         else rok {| stack := sv_resize (stack m) new_sp; heap := heap m; mhp := mhp m |}
       else rok m.

(* next_power_of_two(x).clamp(256, MEM_SIZE) *)
Definition clamp (x lo hi : N) : N := if x <? lo then lo else if hi <? x then hi else x.

(* grow_heap_by(sp_reg, hp_reg, amount); the hp register is kept equal to `hp` by the caller *)
Definition grow_heap_by (m : mem) (sp_reg amount : N) : res mem :=
  (* usize::try_from(amount): usize is 64 bits, never fails *)
  match checked_sub (mhp m) amount with
  | None => rerr MemoryOverflow
  | Some new_hp =>
    if new_hp <? sp_reg then rerr MemoryGrowthOverlap
    else
      let? new_len := usub MEM_SIZE new_hp in
      let? heap' :=
        if new_len <=? sv_len (heap m) then
          (* enough capacity: zero the newly exposed part, it may be dirty from before a reset *)
          let? start := usub new_hp (heap_offset m) in
          let? end_ := usub (mhp m) (heap_offset m) in
          if (start <=? end_) && (end_ <=? sv_len (heap m)) then rok (sv_fill0 (heap m) start end_)
          else rerr HostPanic
        else
          (* clear the dirty part below hp, then reallocate to a power of two and move the
             old contents to the end of the new buffer *)
          let h1 := match checked_sub (mhp m) (heap_offset m) with
                    | Some end_ => if end_ <=? sv_len (heap m) then rok (sv_fill0 (heap m) 0 end_) else rerr HostPanic
                    | None => rok (heap m)
                    end in
          let? h1 := h1 in
          let cap := clamp (next_pow2 new_len) 256 MEM_SIZE in
          let old_len := sv_len h1 in
          let? prefix_zeroes := usub cap old_len in
          let h2 := sv_resize h1 cap in
          let h3 := sv_blit h2 prefix_zeroes h2 0 old_len in
          rok (sv_fill0 h3 0 prefix_zeroes)
      in
      (* if the heap enters the region where the stack has been, truncate the stack *)
      rok {| stack := sv_truncate (stack m) new_hp; heap := heap'; mhp := new_hp |}
  end.

(* verify(addr, count) -> MemoryRange(start..end) *)
Definition verify (m : mem) (addr count : N) : res (N * N) :=
  match to_addr addr, to_addr count with
  | None, _ => rerr MemoryOverflow
  | _, None => rerr MemoryOverflow
  | Some start, Some len =>
    let end_ := saturating_add U64 start len in
    if MEM_SIZE <? end_ then rerr MemoryOverflow
    else if (end_ <=? sv_len (stack m)) || (mhp m <=? start) then rok (start, end_)
    else rerr UninitalizedMemoryAccess
  end.

(* where a verified range lives: the common skeleton of read / write_noownerchecks *)
Inductive place := InStack (s e : N) | InHeap (s e : N).
Definition locate (m : mem) (r : N * N) : res place :=
  let '(s, e) := r in
  if e <=? sv_len (stack m) then
    if s <=? e then rok (InStack s e) else rerr HostPanic
  else if heap_offset m <=? s then
    let start := s - heap_offset m in
    let end_ := e - heap_offset m in   (* e >= s >= heap_offset whenever verify succeeded *)
    if (start <=? end_) && (end_ <=? sv_len (heap m)) then rok (InHeap start end_) else rerr HostPanic
  else rerr HostPanic.                 (* unreachable!("Range was verified to be valid") *)

(* read(addr, count): the bytes, as a (sparse) vector of length count *)
Definition read (m : mem) (addr count : N) : res svec :=
  let? r := verify m addr count in
  let? p := locate m r in
  match p with
  | InStack s e => rok (sv_slice (stack m) s (e - s))
  | InHeap s e => rok (sv_slice (heap m) s (e - s))
  end.

(* write_noownerchecks(addr, len).copy_from_slice(data) with len = data.len() *)
Definition write_noownerchecks (m : mem) (addr : N) (bs : bytes) : res mem :=
  let? r := verify m addr (lenN bs) in
  let? p := locate m r in
  match p with
  | InStack s e => rok {| stack := sv_write (stack m) s bs; heap := heap m; mhp := mhp m |}
  | InHeap s e => rok {| stack := stack m; heap := sv_write (heap m) s bs; mhp := mhp m |}
  end.

(* the overlap test of memcopy, as written *)
Definition ranges_overlap (ds de ss se : N) : bool :=
  ((ds <=? ss) && (ss <? de)) || ((ss <=? ds) && (ds <? se)) ||
  ((ds <? se) && (se <=? de)) || ((ss <? de) && (de <=? se)).

(* memcopy(dst, src, length, owner) *)
Definition memcopy (m : mem) (dst src len : N) (o : owner) : res mem :=
  let? dr := verify m dst len in
  let? sr := verify m src len in
  let '(ds, de) := dr in
  let '(ss, se) := sr in
  if ranges_overlap ds de ss se then rerr MemoryWriteOverlap
  else if negb (owns o ds de) then rerr MemoryOwnership
  else
    if se <=? sv_len (stack m) then
      if de <=? sv_len (stack m) then
        rok {| stack := sv_blit (stack m) ds (stack m) ss (se - ss); heap := heap m; mhp := mhp m |}
      else if heap_offset m <=? ds then
        let dst_start := ds - heap_offset m in
        let dst_end := de - heap_offset m in
        if (dst_start <=? dst_end) && (dst_end <=? sv_len (heap m)) then
          rok {| stack := stack m; heap := sv_blit (heap m) dst_start (stack m) ss (se - ss); mhp := mhp m |}
        else rerr HostPanic
      else rerr HostPanic
    else if heap_offset m <=? ss then
      let src_start := ss - heap_offset m in
      let src_end := se - heap_offset m in
      if negb ((src_start <=? src_end) && (src_end <=? sv_len (heap m))) then rerr HostPanic
      else if de <=? sv_len (stack m) then
        rok {| stack := sv_blit (stack m) ds (heap m) src_start (src_end - src_start); heap := heap m; mhp := mhp m |}
      else if heap_offset m <=? ds then
        let dst_start := ds - heap_offset m in
        if dst_start + (src_end - src_start) <=? sv_len (heap m) then
          rok {| stack := stack m; heap := sv_blit (heap m) dst_start (heap m) src_start (src_end - src_start); mhp := mhp m |}
        else rerr HostPanic
      else rerr HostPanic
    else rerr HostPanic.

(* PartialEq for MemoryInstance: "equality comparison of the accessible memory" *)
Definition mem_eqb (a b : mem) : bool :=
  (sv_len (stack a) =? sv_len (stack b)) &&
  sv_range_eqb (stack a) 0 (stack b) 0 (sv_len (stack a)) &&
  (mhp a =? mhp b) &&
  sv_range_eqb (heap a) (mhp a - heap_offset a) (heap b) (mhp b - heap_offset b) (MEM_SIZE - mhp a).

(* MemoryRollbackData.  get_changes groups adjacent differing bytes into runs; the grouping
   is not observable (the type is opaque and rollback applies the runs one after the other),
   so the model keeps one single-byte run per differing position. *)
Record rollback_data := { rd_sp : N; rd_hp : N;
                          rd_stack : list (N * bytes); rd_heap : list (N * bytes) }.

(* get_changes(latest[lo..lo+n], desired[dlo..dlo+n], offset) *)
Definition get_changes (latest : svec) (lo : N) (desired : svec) (dlo n offset : N) : list (N * bytes) :=
  map (fun i => (offset + i, [sv_get desired (dlo + i)]))
      (filter (fun i => negb (sv_get latest (lo + i) =? sv_get desired (dlo + i)))
              (sv_range_keys latest lo n ++ sv_range_keys desired dlo n)).

(* collect_rollback_data(&self, desired) *)
Definition collect_rollback_data (m desired : mem) : res (option rollback_data) :=
  if mem_eqb m desired then rok None
  else
    let sp := sv_len (stack desired) in
    let hp := mhp desired in
    if hp <? mhp m then rerr HostPanic                 (* assert!(hp >= self.hp) *)
    else
      (* the current stack can be shorter than the desired one (the heap has grown over it, or
         the memory was reset): rollback re-extends it with zeros, so the missing tail is
         compared against zeros (repaired in 75e7afe; before, `&self.stack[..sp]` panicked) *)
      let common := N.min sp (sv_len (stack m)) in
      let missing_tail := sv_resize sv_empty (saturating_sub sp common) in
      let stack_changes := get_changes (stack m) 0 (stack desired) 0 common 0 ++
                           get_changes missing_tail 0 (stack desired) common (sp - common) common in
      match checked_sub hp (heap_offset m), checked_sub hp (heap_offset desired) with
      | Some heap_start, Some desired_heap_start =>
        if (sv_len (heap m) <? heap_start) || (sv_len (heap desired) <? desired_heap_start)
        then rerr HostPanic
        else
          (* zip stops at the shorter slice *)
          let n := N.min (sv_len (heap m) - heap_start) (sv_len (heap desired) - desired_heap_start) in
          rok (Some {| rd_sp := sp; rd_hp := hp; rd_stack := stack_changes;
                       rd_heap := get_changes (heap m) heap_start (heap desired) desired_heap_start n hp |})
      | _, _ => rerr HostPanic                         (* expect("hp is out of bounds") *)
      end.

Definition apply_step (base : N) (acc : res svec) (c : N * bytes) : res svec :=
  let? v := acc in
  let? local := usub (fst c) base in
  if local + lenN (snd c) <=? sv_len v then rok (sv_write v local (snd c)) else rerr HostPanic.
Definition apply_changes (v : svec) (base : N) (cs : list (N * bytes)) : res svec :=
  fold_left (apply_step base) cs (rok v).

(* rollback(&mut self, data) *)
Definition rollback (m : mem) (d : rollback_data) : res mem :=
  let st := sv_resize (stack m) (rd_sp d) in
  if rd_hp d <? mhp m then rerr HostPanic               (* assert!(data.hp >= self.hp) *)
  else
    let? st := apply_changes st 0 (rd_stack d) in
    let off := saturating_sub MEM_SIZE (sv_len (heap m)) in
    let? hp' := apply_changes (heap m) off (rd_heap d) in
    rok {| stack := st; heap := hp'; mhp := rd_hp d |}.

(* ---------------------------------------------------------------- operations and histories *)
Inductive out := OUnit | OErr (e : merr) | OBytes (v : svec).

(* the state of a history: the instance and at most one saved clone of it *)
Definition state := (mem * option mem)%type.
Definition state_init : state := (mem_new, None).

Definition lift (st : state) (r : res mem) : state * out :=
  match r with inl m' => ((m', snd st), OUnit) | inr e => (st, OErr e) end.

Definition step (st : state) (op : sop) : state * out :=
  let '(m, snap) := st in
  match op with
  | SGrowStack new_sp => lift st (grow_stack m new_sp)
  | SGrowHeap sp_reg amount => lift st (grow_heap_by m sp_reg amount)
  | SVerify a n => match verify m a n with inl _ => (st, OUnit) | inr e => (st, OErr e) end
  | SRead a n => match read m a n with inl v => (st, OBytes v) | inr e => (st, OErr e) end
  | SWrite a bs => lift st (write_noownerchecks m a bs)
  | SCopy dst src n o => lift st (memcopy m dst src n o)
  | SReset => ((mem_reset m, snap), OUnit)
  | SSnapshot => ((m, Some m), OUnit)                    (* Clone *)
  | SRollback =>
      match snap with
      | None => (st, OUnit)
      | Some m0 =>
          match collect_rollback_data m m0 with
          | inr e => (st, OErr e)
          | inl None => (st, OUnit)
          | inl (Some d) => lift st (rollback m d)
          end
      end
  end.

Fixpoint run (st : state) (ops : list sop) : state * list out :=
  match ops with
  | [] => (st, [])
  | op :: r => let '(st', o) := step st op in
               let '(st'', os) := run st' r in (st'', o :: os)
  end.

(* ---------------------------------------------------------------- abstraction *)
(* the byte the instance holds for address x: the stack buffer below its length, the heap
   buffer at or above hp; addresses in between (and the heap buffer below hp, which may be
   dirty) are not part of the abstract state *)
Definition mem_get (m : mem) (x : N) : N :=
  if x <? sv_len (stack m) then sv_get (stack m) x
  else if (mhp m <=? x) && (x <? MEM_SIZE) then sv_get (heap m) (x - heap_offset m)
  else 0.

Definition abs (m : mem) : flat := {| stk_hi := sv_len (stack m); hp := mhp m; data := mem_get m |}.

(* representation invariant *)
Definition Inv (m : mem) : Prop :=
  sv_len (stack m) <= mhp m /\ mhp m <= MEM_SIZE /\
  MEM_SIZE - mhp m <= sv_len (heap m) /\ sv_len (heap m) <= MEM_SIZE.

Definition denote_out (o : out) : sout :=
  match o with OUnit => SUnit | OErr e => SErr e | OBytes v => SBytes (sv_to_list v) end.

(* ---------------------------------------------------------------- refinement relation *)
(* A model state m and a specification state f are related when the representation invariant
   holds and `abs m` and f have the same bounds and the same bytes at every observable address
   (below the stack extent, or in [hp, MEM_SIZE)). *)
Definition R (m : mem) (f : flat) : Prop := Inv m /\ flat_obs_eq (abs m) f.

Definition Rsnap (a : option mem) (b : option flat) : Prop :=
  match a, b with
  | None, None => True
  | Some m0, Some f0 => R m0 f0
  | _, _ => False
  end.

Definition Rst (st : state) (sst : sstate) : Prop :=
  R (fst st) (fst sst) /\ Rsnap (snd st) (snd sst).

(* the representation invariant of a history state (instance and saved clone) *)
Definition InvSt (st : state) : Prop :=
  Inv (fst st) /\ match snd st with Some m0 => Inv m0 | None => True end.

(* Regression witness for the rollback repair 75e7afe: heap growth truncates the stack below the
   snapshot's extent, then rollback.  HISTORICAL: before 75e7afe collect_rollback_data panicked here
   (slice `self.stack[..sp]` out of range) and the refinement needed a side condition on rollback;
   the history is kept in the harness corpus and in MemProofs.witness_history_restores. *)
Definition witness_history : list sop :=
  [SGrowStack 1000; SWrite 900 [1; 2; 3]; SSnapshot; SGrowHeap 0 (MEM_SIZE - 500); SRollback; SRead 898 6].
