(* Mem/ReadSpec.v — L3 specification of the storage read contract (property C36), written from
   the property text and the doc comments of fuel_storage::StorageRead:

     "an exact read succeeds and copies the requested bytes exactly when offset plus length is
      within the value, a zero-filling read copies what exists from the offset and zero-fills
      the rest (failing only when the offset is beyond the value), and missing keys report
      key-not-found; code loading and blob loading instructions built on these reads copy
      exactly the specified bytes and zero padding."

   A stored value is `Some bytes`, a missing key is `None`.  A read takes the caller's buffer
   (its old contents) and returns the buffer's new contents together with the result; a failed
   read leaves the buffer untouched. *)
From FV Require Import Base.Bytes Base.U64.
Open Scope N_scope.

Inductive read_err := KeyNotFound | OutOfBounds.

Definition read_result := (N + read_err)%type.       (* Ok(total length of the value) | Err *)

(* value[off .. off+n] *)
Definition slice (d : bytes) (off n : N) : bytes := firstn (N.to_nat n) (skipn (N.to_nat off) d).

Definition spec_read_exact (v : option bytes) (off : N) (buf : bytes) : bytes * read_result :=
  match v with
  | None => (buf, inr KeyNotFound)
  | Some d =>
      if off + lenN buf <=? lenN d then (slice d off (lenN buf), inl (lenN d))
      else (buf, inr OutOfBounds)
  end.

(* what exists from the offset, then zeros, cut to n bytes *)
Definition slice_zerofill (d : bytes) (off n : N) : bytes :=
  firstn (N.to_nat n) (skipn (N.to_nat off) d ++ zeros (N.to_nat n)).

Definition spec_read_zerofill (v : option bytes) (off : N) (buf : bytes) : bytes * read_result :=
  match v with
  | None => (buf, inr KeyNotFound)
  | Some d =>
      if off <=? lenN d then (slice_zerofill d off (lenN buf), inl (lenN d))
      else (buf, inr OutOfBounds)
  end.

(* read_alloc / size_of_value *)
Definition spec_read_alloc (v : option bytes) : option bytes := v.
Definition spec_size (v : option bytes) : option N := option_map lenN v.

(* the bytes a code/blob loading instruction must leave in its destination of n bytes:
   value[off .. off+n] followed by zero padding; everything zero when off is beyond the value *)
Definition loaded_bytes (d : bytes) (off n : N) : bytes := slice_zerofill d off n.

(* word padding of a length (8-byte words) *)
Definition padded_len (n : N) : N := if n mod 8 =? 0 then n else n + (8 - n mod 8).
