(* Mem/MemSpec.v — L3 specification of VM memory (property C23), written from the property text:

     "VM memory behaves like a flat zero-initialized byte array of 64 MiB in which a range is
      accessible exactly when it lies entirely below the highest stack extent not yet overtaken
      by the heap, or entirely at or above the heap pointer.  Newly allocated heap bytes read as
      zero even when the memory instance is reused, copies between ranges that share a byte are
      refused, and rolling back to an earlier snapshot restores exactly that snapshot's
      accessible contents."

   The state is ONE total function from addresses to bytes plus the two region bounds.  There
   are no buffers, no capacities and no offsets here.  Bytes that become accessible (stack
   growth, heap allocation) are zero at that moment; bytes outside the two regions cannot be
   observed by any operation. *)
From FV Require Import Base.Bytes Base.U64 Mem.SeqN.
Open Scope N_scope.

Definition MEM_SIZE : N := 67108864.          (* 64 MiB = VM_MAX_RAM (fuel-vm/src/consts.rs) *)

Record flat := { stk_hi : N; hp : N; data : N -> N }.

Definition flat_init : flat := {| stk_hi := 0; hp := MEM_SIZE; data := fun _ => 0 |}.

(* the accessibility rule of the property text, for the range [a, a+n) *)
Definition accessible (f : flat) (a n : N) : bool :=
  (a + n <=? MEM_SIZE) && ((a + n <=? stk_hi f) || (hp f <=? a)).

(* an address is observable when a one-byte read of it is accessible *)
Definition observable (f : flat) (x : N) : Prop := x < stk_hi f \/ (hp f <= x /\ x < MEM_SIZE).

Inductive merr :=
| MemoryOverflow | MemoryGrowthOverlap | UninitalizedMemoryAccess | MemoryWriteOverlap | MemoryOwnership
| HostPanic.       (* a Rust panic (assert!, slice index, arithmetic overflow check) *)

(* ownership registers ($sp, $ssp, $hp, previous frame's $hp): who may WRITE is the subject of
   C24; here the predicate is only a parameter of the copy operation.  Transcribed from
   OwnershipRegisters::has_ownership_{stack,heap} for the range [s, e). *)
Record owner := { o_sp : N; o_ssp : N; o_hp : N; o_prev_hp : N }.
Definition owns_stack (o : owner) (s e : N) : bool :=
  if (e <=? s) && (s =? o_ssp o) then true
  else if negb ((o_ssp o <=? s) && (s <? o_sp o)) then false
  else if MEM_SIZE <? e then false
  else (o_ssp o <=? e) && (e <=? o_sp o).
Definition owns_heap (o : owner) (s e : N) : bool :=
  if (e <=? s) && (s =? o_hp o) then true
  else if s <? o_hp o then false
  else negb (o_hp o =? o_prev_hp o) && (e <=? o_prev_hp o).
Definition owns (o : owner) (s e : N) : bool := owns_stack o s e || owns_heap o s e.

Definition upd_range (d : N -> N) (a : N) (bs : bytes) : N -> N :=
  fun x => if (a <=? x) && (x <? a + lenN bs) then nth (N.to_nat (x - a)) bs 0 else d x.
Definition zero_range (d : N -> N) (lo hi : N) : N -> N :=
  fun x => if (lo <=? x) && (x <? hi) then 0 else d x.
Definition copy_range (d : N -> N) (dst src n : N) : N -> N :=
  fun x => if (dst <=? x) && (x <? dst + n) then d (x - dst + src) else d x.

Definition read_range (d : N -> N) (a n : N) : bytes := map d (seqN a (N.to_nat n)).

(* two ranges of the same length n share a byte *)
Definition share_byte (a b n : N) : bool := (0 <? n) && (a <? b + n) && (b <? a + n).

Definition check_range (f : flat) (a n : N) : option merr :=
  if MEM_SIZE <? a + n then Some MemoryOverflow
  else if accessible f a n then None else Some UninitalizedMemoryAccess.

Inductive sop :=
| SGrowStack (new_sp : N)
| SGrowHeap (sp_reg amount : N)
| SVerify (a n : N)
| SRead (a n : N)
| SWrite (a : N) (bs : bytes)
| SCopy (dst src n : N) (o : owner)
| SReset
| SSnapshot
| SRollback.

Inductive sout := SUnit | SErr (e : merr) | SBytes (bs : bytes).

(* the specification state: the memory and (at most) one saved snapshot *)
Definition sstate := (flat * option flat)%type.

Definition step_spec (st : sstate) (op : sop) : sstate * sout :=
  let '(f, snap) := st in
  match op with
  | SGrowStack new_sp =>
      if MEM_SIZE <? new_sp then (st, SErr MemoryOverflow)
      else if new_sp <=? stk_hi f then (st, SUnit)
      else if hp f <? new_sp then (st, SErr MemoryGrowthOverlap)
      else (({| stk_hi := new_sp; hp := hp f; data := zero_range (data f) (stk_hi f) new_sp |}, snap), SUnit)
  | SGrowHeap sp_reg amount =>
      if hp f <? amount then (st, SErr MemoryOverflow)
      else let new_hp := hp f - amount in
           if new_hp <? sp_reg then (st, SErr MemoryGrowthOverlap)
           else (({| stk_hi := N.min (stk_hi f) new_hp; hp := new_hp;
                     data := zero_range (data f) new_hp (hp f) |}, snap), SUnit)
  | SVerify a n =>
      match check_range f a n with Some e => (st, SErr e) | None => (st, SUnit) end
  | SRead a n =>
      match check_range f a n with Some e => (st, SErr e) | None => (st, SBytes (read_range (data f) a n)) end
  | SWrite a bs =>
      match check_range f a (lenN bs) with
      | Some e => (st, SErr e)
      | None => (({| stk_hi := stk_hi f; hp := hp f; data := upd_range (data f) a bs |}, snap), SUnit)
      end
  | SCopy dst src n o =>
      match check_range f dst n with
      | Some e => (st, SErr e)
      | None =>
        match check_range f src n with
        | Some e => (st, SErr e)
        | None =>
          if share_byte dst src n then (st, SErr MemoryWriteOverlap)
          else if negb (owns o dst (dst + n)) then (st, SErr MemoryOwnership)
          else (({| stk_hi := stk_hi f; hp := hp f; data := copy_range (data f) dst src n |}, snap), SUnit)
        end
      end
  | SReset => ((flat_init, snap), SUnit)
  | SSnapshot => ((f, Some f), SUnit)
  | SRollback =>
      match snap with
      | None => (st, SUnit)
      | Some f0 =>
          (* the documented precondition of rollback: the heap may only shrink *)
          if hp f0 <? hp f then (st, SErr HostPanic)
          else ((f0, snap), SUnit)
      end
  end.

Definition sstate_init : sstate := (flat_init, None).

Fixpoint run_spec (st : sstate) (ops : list sop) : sstate * list sout :=
  match ops with
  | [] => (st, [])
  | op :: r => let '(st', o) := step_spec st op in
               let '(st'', os) := run_spec st' r in (st'', o :: os)
  end.

(* what can be observed of a specification state: the two bounds and the bytes of the two
   accessible regions (of the memory and of the saved snapshot) *)
Definition flat_obs_eq (f g : flat) : Prop :=
  stk_hi f = stk_hi g /\ hp f = hp g /\ forall x, observable f x -> data f x = data g x.
