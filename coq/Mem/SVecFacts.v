(* Mem/SVecFacts.v — what every sparse-vector operation does to `sv_len` and `sv_get`.
   All later proofs use only these equations, never the representation. *)
From FV Require Import Base.Bytes Base.U64 Base.Map Mem.SVec.
Open Scope N_scope.

Ltac nb :=
  repeat match goal with
  | H : context [N.ltb ?a ?b] |- _ => destruct (N.ltb_spec a b)
  | H : context [N.leb ?a ?b] |- _ => destruct (N.leb_spec a b)
  | H : context [N.eqb ?a ?b] |- _ => destruct (N.eqb_spec a b)
  | |- context [N.ltb ?a ?b] => destruct (N.ltb_spec a b)
  | |- context [N.leb ?a ?b] => destruct (N.leb_spec a b)
  | |- context [N.eqb ?a ?b] => destruct (N.eqb_spec a b)
  end.

Ltac nbs := unfold in_range in *; nb; cbn [andb orb negb] in *; try congruence; try lia.

(* ---------- association lists ---------- *)
Lemma aget_filter_key (p : N -> bool) (m : list (N * N)) i :
  aget (filter (fun kv => p (fst kv)) m) i = if p i then aget m i else None.
Proof.
  induction m as [|[k v] m IH]; cbn [filter aget fst]; [destruct (p i); reflexivity|].
  destruct (p k) eqn:Hk; cbn [aget].
  - destruct (N.eqb_spec k i) as [->|Hne]; [rewrite Hk; reflexivity | exact IH].
  - destruct (N.eqb_spec k i) as [->|Hne]; [rewrite Hk in *; exact IH | exact IH].
Qed.

Lemma aget_app (a b : list (N * N)) i :
  aget (a ++ b) i = match aget a i with Some v => Some v | None => aget b i end.
Proof.
  induction a as [|[k v] a IH]; cbn [app aget]; [reflexivity|].
  destruct (k =? i); [reflexivity | exact IH].
Qed.

Lemma aget_shift (q : N -> bool) (m : list (N * N)) s d n i :
  aget (map (fun kv => (fst kv - s + d, snd kv))
            (filter (fun kv => in_range s (s + n) (fst kv) && q (fst kv)) m)) i
  = if in_range d (d + n) i && q (i - d + s) then aget m (i - d + s) else None.
Proof.
  induction m as [|[k v] m IH]; cbn [filter map aget fst snd].
  - destruct (in_range d (d + n) i && q (i - d + s)); reflexivity.
  - destruct (in_range s (s + n) k && q k) eqn:Hk; cbn [map aget fst snd].
    + apply andb_true_iff in Hk as [Hr Hq].
      destruct (N.eqb_spec (k - s + d) i) as [He|Hne].
      * assert (k = i - d + s) as -> by (revert Hr; nbs).
        rewrite Hq, N.eqb_refl. replace (in_range d (d + n) i) with true by (revert Hr; nbs). reflexivity.
      * rewrite IH. destruct (in_range d (d + n) i) eqn:Hi; cbn [andb]; [|reflexivity].
        destruct (N.eqb_spec k (i - d + s)) as [->|]; [|reflexivity].
        exfalso. revert Hr Hi; nbs.
    + rewrite IH. destruct (N.eqb_spec k (i - d + s)) as [->|]; [|reflexivity].
      destruct (in_range d (d + n) i) eqn:Hi; cbn [andb]; [|reflexivity].
      destruct (q (i - d + s)) eqn:Hq; [|reflexivity].
      exfalso. rewrite andb_true_r in Hk. revert Hk Hi; nbs.
Qed.

Lemma aget_some_in (m : list (N * N)) k v : aget m k = Some v -> In (k, v) m.
Proof.
  induction m as [|[k' v'] m IH]; cbn [aget]; [discriminate|].
  destruct (N.eqb_spec k' k) as [->|]; intros H; [injection H as ->; left; reflexivity | right; auto].
Qed.

(* ---------- length ---------- *)
Lemma sv_len_truncate s n : sv_len (sv_truncate s n) = N.min n (sv_len s).
Proof. unfold sv_truncate. nb; cbn [sv_len]; lia. Qed.
Lemma sv_len_resize s n : sv_len (sv_resize s n) = n.
Proof. unfold sv_resize. nb; reflexivity. Qed.
Lemma sv_len_fill0 s lo hi : sv_len (sv_fill0 s lo hi) = sv_len s.
Proof. reflexivity. Qed.
Lemma sv_len_put s i b : sv_len (sv_put s i b) = sv_len s.
Proof. reflexivity. Qed.
Lemma sv_len_write bs : forall s off, sv_len (sv_write s off bs) = sv_len s.
Proof. induction bs as [|b r IH]; intros; cbn [sv_write]; [reflexivity | rewrite IH; reflexivity]. Qed.
Lemma sv_len_blit dst d src s n : sv_len (sv_blit dst d src s n) = sv_len dst.
Proof. reflexivity. Qed.
Lemma sv_len_slice s a n : sv_len (sv_slice s a n) = n.
Proof. reflexivity. Qed.

(* ---------- contents ---------- *)
Lemma sv_get_beyond s i : sv_len s <= i -> sv_get s i = 0.
Proof. intros H. unfold sv_get. nb; [lia | reflexivity]. Qed.

Lemma sv_get_empty i : sv_get sv_empty i = 0.
Proof. apply sv_get_beyond. cbn [sv_len sv_empty]. lia. Qed.

Lemma sv_get_truncate s n i : sv_get (sv_truncate s n) i = if i <? n then sv_get s i else 0.
Proof.
  unfold sv_truncate. destruct (N.ltb_spec n (sv_len s)).
  - unfold sv_get; cbn [sv_len sv_m]. nb; try reflexivity; lia.
  - destruct (N.ltb_spec i n); [reflexivity | apply sv_get_beyond; lia].
Qed.

Lemma sv_get_resize s n i : sv_get (sv_resize s n) i = if i <? n then sv_get s i else 0.
Proof.
  unfold sv_resize. destruct (N.leb_spec n (sv_len s)).
  - unfold sv_get; cbn [sv_len sv_m]. nb; try reflexivity; lia.
  - unfold sv_get; cbn [sv_len sv_m].
    rewrite (aget_filter_key (fun k => k <? sv_len s)). nb; try reflexivity; lia.
Qed.

Lemma sv_get_fill0 s lo hi i :
  sv_get (sv_fill0 s lo hi) i = if in_range lo hi i then 0 else sv_get s i.
Proof.
  unfold sv_get, sv_fill0; cbn [sv_len sv_m].
  rewrite (aget_filter_key (fun k => negb (in_range lo hi k))).
  destruct (in_range lo hi i); cbn [negb]; [destruct (i <? sv_len s); reflexivity | reflexivity].
Qed.

Lemma sv_get_put s k b i :
  sv_get (sv_put s k b) i = if (i =? k) && (i <? sv_len s) then b else sv_get s i.
Proof.
  unfold sv_get, sv_put; cbn [sv_len sv_m aget].
  rewrite (N.eqb_sym k i). destruct (i =? k), (i <? sv_len s); reflexivity.
Qed.

Lemma sv_get_write bs : forall s off i,
  sv_get (sv_write s off bs) i =
  if in_range off (off + lenN bs) i && (i <? sv_len s) then nth (N.to_nat (i - off)) bs 0 else sv_get s i.
Proof.
  induction bs as [|b r IH]; intros s off i; cbn [sv_write].
  - unfold lenN; cbn [length]. replace (in_range off (off + N.of_nat 0) i) with false by nbs. reflexivity.
  - rewrite IH, sv_len_put, sv_get_put. unfold lenN; cbn [length]. rewrite Nat2N.inj_succ.
    destruct (N.ltb_spec i (sv_len s)); [|rewrite !andb_false_r; reflexivity]. rewrite !andb_true_r.
    destruct (N.eqb_spec i off) as [->|Hne].
    + replace (in_range (off + 1) (off + 1 + N.of_nat (length r)) off) with false by nbs.
      replace (in_range off (off + N.succ (N.of_nat (length r))) off) with true by nbs.
      rewrite N.sub_diag. reflexivity.
    + destruct (in_range (off + 1) (off + 1 + N.of_nat (length r)) i) eqn:Hr.
      * replace (in_range off (off + N.succ (N.of_nat (length r))) i) with true by (revert Hr; nbs).
        replace (N.to_nat (i - off)) with (S (N.to_nat (i - (off + 1)))) by (revert Hr; nbs). reflexivity.
      * replace (in_range off (off + N.succ (N.of_nat (length r))) i) with false by (revert Hr; nbs). reflexivity.
Qed.

Lemma sv_get_blit dst d src s n i :
  sv_get (sv_blit dst d src s n) i =
  if in_range d (d + n) i && (i <? sv_len dst) then sv_get src (i - d + s) else sv_get dst i.
Proof.
  unfold sv_get at 1, sv_blit; cbn [sv_len sv_m].
  destruct (N.ltb_spec i (sv_len dst)); [|rewrite andb_false_r; symmetry; apply sv_get_beyond; assumption].
  rewrite andb_true_r, aget_app, (aget_shift (fun k => k <? sv_len src)).
  rewrite (aget_filter_key (fun k => negb (in_range d (d + n) k))).
  destruct (in_range d (d + n) i) eqn:Hi; cbn [andb negb].
  - unfold sv_get. destruct (i - d + s <? sv_len src); [|reflexivity].
    destruct (aget (sv_m src) (i - d + s)); reflexivity.
  - unfold sv_get. replace (i <? sv_len dst) with true by (symmetry; apply N.ltb_lt; assumption). reflexivity.
Qed.

Lemma sv_get_slice s a n i : sv_get (sv_slice s a n) i = if i <? n then sv_get s (a + i) else 0.
Proof.
  unfold sv_slice. rewrite sv_get_blit. cbn [sv_len].
  destruct (N.ltb_spec i n).
  - replace (in_range 0 (0 + n) i) with true by nbs. cbn [andb]. f_equal. lia.
  - rewrite andb_false_r. apply sv_get_beyond. cbn [sv_len]. assumption.
Qed.

(* ---------- lists ---------- *)
Lemma map_seqN_ext {A} (f g : N -> A) k : forall a b,
  (forall j, j < N.of_nat k -> f (a + j) = g (b + j)) -> map f (seqN a k) = map g (seqN b k).
Proof.
  induction k as [|k IH]; intros a b H; cbn [seqN map]; [reflexivity|].
  f_equal.
  - specialize (H 0). rewrite !N.add_0_r in H. apply H. lia.
  - apply IH. intros j Hj. replace (a + 1 + j) with (a + (1 + j)) by lia.
    replace (b + 1 + j) with (b + (1 + j)) by lia. apply H. lia.
Qed.

Lemma seqN_length a k : length (seqN a k) = k.
Proof. revert a; induction k as [|k IH]; intros a; cbn [seqN length]; [reflexivity | rewrite IH; reflexivity]. Qed.

Lemma sv_to_list_slice s a n : sv_to_list (sv_slice s a n) = map (sv_get s) (seqN a (N.to_nat n)).
Proof.
  unfold sv_to_list. rewrite sv_len_slice. apply map_seqN_ext. intros j Hj.
  rewrite N2Nat.id in Hj. rewrite sv_get_slice, N.add_0_l.
  replace (j <? n) with true by (symmetry; apply N.ltb_lt; assumption). reflexivity.
Qed.

Lemma sv_to_list_length s : length (sv_to_list s) = N.to_nat (sv_len s).
Proof. unfold sv_to_list. rewrite map_length, seqN_length. reflexivity. Qed.

(* ---------- range keys: every position holding a non-zero byte is listed ---------- *)
Lemma range_keys_cover s o n i :
  i < n -> ~ In i (sv_range_keys s o n) -> sv_get s (o + i) = 0.
Proof.
  intros Hi Hn. unfold sv_get. destruct (o + i <? sv_len s); [|reflexivity].
  destruct (aget (sv_m s) (o + i)) as [v|] eqn:Hg; [|reflexivity].
  exfalso. apply Hn. apply aget_some_in in Hg. unfold sv_range_keys.
  apply in_map_iff. exists (o + i, v). cbn [fst]. split; [lia|].
  apply filter_In. split; [assumption|]. cbn [fst]. nbs.
Qed.

Lemma range_keys_lt s o n i : In i (sv_range_keys s o n) -> i < n.
Proof.
  unfold sv_range_keys. intros H. apply in_map_iff in H as [[k v] [<- H]].
  apply filter_In in H as [_ H]. cbn [fst] in *. revert H; nbs.
Qed.

Lemma sv_range_eqb_sound s1 o1 s2 o2 n :
  sv_range_eqb s1 o1 s2 o2 n = true ->
  forall i, i < n -> sv_get s1 (o1 + i) = sv_get s2 (o2 + i).
Proof.
  unfold sv_range_eqb. intros H i Hi. rewrite forallb_forall in H.
  destruct (in_dec N.eq_dec i (sv_range_keys s1 o1 n ++ sv_range_keys s2 o2 n)) as [Hin|Hnin].
  - apply N.eqb_eq, H, Hin.
  - rewrite (range_keys_cover s1 o1 n i), (range_keys_cover s2 o2 n i); auto;
      intros Hc; apply Hnin, in_or_app; auto.
Qed.
