(* Mem/ReadModel.v — L1 model for C36:
   (1) the StorageRead impls of MemoryStorage (fuel-vm/src/storage/memory.rs; the three impls for
       ContractsRawCode, ContractsState and BlobData have the same body, the table only selects
       the BTreeMap), over lists with explicit usize arithmetic;
   (2) copy_from_storage_zero_fill (fuel-vm/src/interpreter/memory.rs) on top of the C23
       memory model;
   (3) the instructions built on it: CCP (code_copy), BLDD (blob_load_data), LDC in its three
       modes (load_contract_code / load_blob_code / load_memory_code), CSIZ, BSIZ
       (fuel-vm/src/interpreter/blockchain.rs, blob.rs) with the padding / length arithmetic
       written out over u64.
   Not modelled: gas (assumed sufficient), the contract-in-inputs check (the correspondence run
   uses the AttemptContinue verifier) and the predicate-context refusal of LDC mode 0.
   Definitions only. *)
From FV Require Import Base.Bytes Base.U64 Base.Map Mem.SVec Mem.MemSpec Mem.MemModel Mem.ReadSpec.
Open Scope N_scope.

(* ---------------------------------------------------------------- (1) StorageRead *)
(* read_exact(key, offset, buf) *)
Definition m_read_exact (v : option bytes) (off : N) (buf : bytes) : bytes * read_result :=
  match v with
  | None => (buf, inr KeyNotFound)
  | Some data =>
      let total_len := lenN data in
      let end_ := saturating_add U64 off (lenN buf) in           (* offset.saturating_add(buf.len()) *)
      if total_len <? end_ then (buf, inr OutOfBounds)
      else (firstn (N.to_nat (end_ - off)) (skipn (N.to_nat off) data), inl total_len)
                                                                  (* buf.copy_from_slice(&data[offset..end]) *)
  end.

(* read_zerofill(key, offset, buf) *)
Definition m_read_zerofill (v : option bytes) (off : N) (buf : bytes) : bytes * read_result :=
  match v with
  | None => (buf, inr KeyNotFound)
  | Some data =>
      let total_len := lenN data in
      if total_len <? off then (buf, inr OutOfBounds)             (* split_at_checked(offset) = None *)
      else
        let after := skipn (N.to_nat off) data in
        let k := N.min (lenN after) (lenN buf) in                 (* buf.split_at_mut(after.len().min(buf.len())) *)
        (firstn (N.to_nat k) after ++ zeros (N.to_nat (lenN buf - k)), inl total_len)
  end.

Definition m_read_alloc (v : option bytes) : option bytes := v.
Definition m_size_of_value (v : option bytes) : option N :=
  match v with Some d => Some (lenN d) | None => None end.

(* ---------------------------------------------------------------- (2) copy_from_storage_zero_fill *)
Inductive vmerr :=
| VMem (e : merr)
| ExpectedUnallocatedStack | ContractMaxSize | ContractNotFound | BlobNotFound | InvalidImmediateValue.

Definition vres (A : Type) := (A + vmerr)%type.
Definition vbind {A B} (r : vres A) (k : A -> vres B) : vres B :=
  match r with inl a => k a | inr e => inr e end.
Notation "'let!' x := r 'in' k" := (vbind r (fun x => k)) (at level 200, x pattern, r at level 100, k at level 200).
Definition of_res {A} (r : res A) : vres A := match r with inl a => inl a | inr e => inr (VMem e) end.

(* memory.write(owner, addr, len): verify, then the ownership check (the final
   write_noownerchecks verifies the same range again) *)
Definition write_range (m : mem) (o : owner) (addr len : N) : vres (N * N) :=
  let! r := of_res (verify m addr len) in
  if owns o (fst r) (snd r) then inl r else inr (VMem MemoryOwnership).

(* the current bytes of [a, a+n) *)
Definition mem_bytes (m : mem) (a n : N) : bytes := map (mem_get m) (seqN a (N.to_nat n)).

(* the new contents of the destination buffer (everything after `memory.write(...)`) *)
Definition zero_fill_buffer (v : option bytes) (write_buffer : bytes) (src_offset src_len : N)
           (not_found : vmerr) : vres bytes :=
  let dst_len := lenN write_buffer in
  if src_offset <? src_len then
    if U32 <=? src_offset then inr (VMem MemoryOverflow)        (* u32::try_from(src_offset) *)
    else
      let src_read_length := N.min (saturating_sub src_len src_offset) dst_len in
      let '(b, r) := m_read_zerofill v src_offset (firstn (N.to_nat src_read_length) write_buffer) in
      match r with
      | inl _ => inl (b ++ zeros (N.to_nat (dst_len - src_read_length)))   (* empty_offset = src_read_length *)
      | inr KeyNotFound => inr not_found
      | inr OutOfBounds => inl (zeros (N.to_nat dst_len))                   (* empty_offset = 0 *)
      end
  else inl (zeros (N.to_nat dst_len)).

Definition copy_from_storage_zero_fill (m : mem) (o : owner) (v : option bytes)
           (dst_addr dst_len src_offset src_len : N) (not_found : vmerr) : vres mem :=
  let! _ := write_range m o dst_addr dst_len in
  let write_buffer := mem_bytes m dst_addr dst_len in             (* old contents of the destination *)
  let! buf := zero_fill_buffer v write_buffer src_offset src_len not_found in
  of_res (write_noownerchecks m dst_addr buf).

(* ---------------------------------------------------------------- (3) instructions *)
Definition storage := list (bytes * bytes).           (* id (32 bytes) |-> value *)
Fixpoint lookup (s : storage) (id : bytes) : option bytes :=
  match s with
  | [] => None
  | (k, v) :: r => if bytes_eqb k id then Some v else lookup r id
  end.

(* the registers these instructions use, the memory, and the contract_max_size parameter *)
Record vm := { v_mem : mem; v_ssp : N; v_sp : N; v_hp : N; v_fp : N; v_internal : bool; v_max_size : N }.

(* read_bytes::<32>(addr) *)
Definition read_id (m : mem) (addr : N) : vres bytes :=
  let! v := of_res (read m addr 32) in inl (sv_to_list v).

(* OwnershipRegisters::new with no call frame: prev_hp = VM_MAX_RAM *)
Definition owner_regs (s : vm) : owner :=
  {| o_sp := v_sp s; o_ssp := v_ssp s; o_hp := v_hp s; o_prev_hp := MEM_SIZE |}.
(* OwnershipRegisters::only_allow_stack_write(sp, ssp, hp) *)
Definition only_stack (sp ssp hp : N) : owner := {| o_sp := sp; o_ssp := ssp; o_hp := hp; o_prev_hp := hp |}.

(* padded_len_word: None when the padded length does not fit a u64 *)
Definition padded_len_word (len : N) : option N :=
  let modulo := len mod 8 in
  if modulo =? 0 then Some len else checked_add U64 len (8 - modulo).

Definition set_mem (s : vm) (m : mem) : vm :=
  {| v_mem := m; v_ssp := v_ssp s; v_sp := v_sp s; v_hp := v_hp s; v_fp := v_fp s;
     v_internal := v_internal s; v_max_size := v_max_size s |}.

(* CCP: code_copy(dst_addr, contract_id_addr, contract_offset, length) *)
Definition ccp (s : vm) (contracts : storage) (dst id_addr off len : N) : vres vm :=
  let! id := read_id (v_mem s) id_addr in
  let! _ := write_range (v_mem s) (owner_regs s) dst len in
  match m_size_of_value (lookup contracts id) with
  | None => inr ContractNotFound
  | Some contract_len =>
      let! m' := copy_from_storage_zero_fill (v_mem s) (owner_regs s) (lookup contracts id)
                                             dst len off contract_len ContractNotFound in
      inl (set_mem s m')
  end.

(* BLDD: blob_load_data(dst_ptr, blob_id_ptr, blob_offset, len) *)
Definition bldd (s : vm) (blobs : storage) (dst id_addr off len : N) : vres vm :=
  let! id := read_id (v_mem s) id_addr in
  match m_size_of_value (lookup blobs id) with
  | None => inr BlobNotFound
  | Some blob_len =>
      let! m' := copy_from_storage_zero_fill (v_mem s) (owner_regs s) (lookup blobs id)
                                             dst len off blob_len BlobNotFound in
      inl (set_mem s m')
  end.

(* CSIZ / BSIZ: the value written to the destination register *)
Definition csiz (s : vm) (contracts : storage) (id_addr : N) : vres N :=
  let! id := read_id (v_mem s) id_addr in
  match m_size_of_value (lookup contracts id) with None => inr ContractNotFound | Some n => inl n end.
Definition bsiz (s : vm) (blobs : storage) (id_addr : N) : vres N :=
  let! id := read_id (v_mem s) id_addr in
  match m_size_of_value (lookup blobs id) with None => inr BlobNotFound | Some n => inl n end.

(* CallFrame::code_size_offset() = ContractId::LEN + AssetId::LEN + WORD_SIZE * VM_REGISTER_COUNT *)
Definition CODE_SIZE_OFFSET : N := 32 + 32 + 8 * 64.

(* "Update frame code size, if we have a stack frame": $fp->codesize += length.  `strict` is
   true in load_contract_code (padding overflow is a MemoryOverflow panic) and false in
   load_blob_code / load_memory_code (`.expect(...)`: a host panic) *)
Definition update_code_size (s : vm) (m : mem) (length : N) (strict : bool) : vres mem :=
  if v_internal s then
    let code_size_ptr := saturating_add U64 (v_fp s) CODE_SIZE_OFFSET in
    let! v := of_res (read m code_size_ptr 8) in
    let old_code_size := be_decode (sv_to_list v) in
    match padded_len_word old_code_size with
    | None => inr (VMem (if strict then MemoryOverflow else HostPanic))
    | Some old =>
        match checked_add U64 old length with
        | None => inr (VMem MemoryOverflow)
        | Some new_code_size => of_res (write_noownerchecks m code_size_ptr (be_encode 8 new_code_size))
        end
    end
  else inl m.

(* the common tail of load_contract_code / load_blob_code once `length` is known *)
Definition ldc_storage_tail (s : vm) (v : option bytes) (value_len off length : N) (nf : vmerr) (strict : bool) : vres vm :=
  let ssp := v_ssp s in
  let new_sp := saturating_add U64 ssp length in
  let! m1 := of_res (grow_stack (v_mem s) new_sp) in
  let owner := only_stack new_sp ssp (v_hp s) in
  let! m2 := copy_from_storage_zero_fill m1 owner v ssp length off value_len nf in
  let! m3 := update_code_size s m2 length strict in
  inl {| v_mem := m3; v_ssp := new_sp; v_sp := new_sp; v_hp := v_hp s; v_fp := v_fp s;
         v_internal := v_internal s; v_max_size := v_max_size s |}.

(* LDC mode 0 *)
Definition ldc_contract (s : vm) (contracts : storage) (id_addr off length_unpadded : N) : vres vm :=
  if negb (v_ssp s =? v_sp s) then inr ExpectedUnallocatedStack
  else
    let! id := read_id (v_mem s) id_addr in
    match padded_len_word length_unpadded with
    | None => inr (VMem MemoryOverflow)
    | Some length =>
        if v_max_size s <? length then inr ContractMaxSize
        else match m_size_of_value (lookup contracts id) with
             | None => inr ContractNotFound
             | Some contract_len => ldc_storage_tail s (lookup contracts id) contract_len off length ContractNotFound true
             end
    end.

(* LDC mode 1 *)
Definition ldc_blob (s : vm) (blobs : storage) (id_addr off length_unpadded : N) : vres vm :=
  if negb (v_ssp s =? v_sp s) then inr ExpectedUnallocatedStack
  else
    let! id := read_id (v_mem s) id_addr in
    let length := match padded_len_word length_unpadded with Some l => l | None => u64_max end in
    match m_size_of_value (lookup blobs id) with
    | None => inr BlobNotFound
    | Some blob_len => ldc_storage_tail s (lookup blobs id) blob_len off length BlobNotFound false
    end.

(* LDC mode 2: mem[$ssp, len] = mem[addr + offset, len], then zero padding *)
Definition ldc_memory (s : vm) (src_addr off length_unpadded : N) : vres vm :=
  if negb (v_ssp s =? v_sp s) then inr ExpectedUnallocatedStack
  else if length_unpadded =? 0 then inl s
  else
    let ssp := v_ssp s in
    let length := match padded_len_word length_unpadded with Some l => l | None => u64_max end in
    let length_padding := saturating_sub length length_unpadded in
    let new_sp := saturating_add U64 ssp length in
    let! m1 := of_res (grow_stack (v_mem s) new_sp) in
    let owner := only_stack new_sp ssp (v_hp s) in
    let src := saturating_add U64 src_addr off in
    let! m2 := of_res (memcopy m1 ssp src length_unpadded owner) in
    let! m3 :=
      if 0 <? length_padding then
        let a := saturating_add U64 ssp length_unpadded in
        let! _ := write_range m2 owner a length_padding in
        of_res (write_noownerchecks m2 a (zeros (N.to_nat length_padding)))
      else inl m2 in
    let! m4 := update_code_size s m3 length false in
    inl {| v_mem := m4; v_ssp := new_sp; v_sp := new_sp; v_hp := v_hp s; v_fp := v_fp s;
           v_internal := v_internal s; v_max_size := v_max_size s |}.

(* LDC dispatch on the immediate *)
Definition ldc (s : vm) (contracts blobs : storage) (a b c mode : N) : vres vm :=
  if mode =? 0 then ldc_contract s contracts a b c
  else if mode =? 1 then ldc_blob s blobs a b c
  else if mode =? 2 then ldc_memory s a b c
  else inr InvalidImmediateValue.

(* ---------------------------------------------------------------- statements about padding *)
(* The strict reading of "copy exactly the specified bytes and zero padding" for LDC modes 0/1:
   the bytes between $rC and the word-padded length are zero.  False for the model (and the
   implementation) when $rC is not a multiple of 8 and the value continues after offset + $rC:
   see ReadProofs.ldc_strict_padding_refuted. *)
Definition ldc_contract_padding_is_zero : Prop :=
  forall (s : vm) (contracts : storage) (id_addr off c : N) (s' : vm),
    Inv (v_mem s) -> v_internal s = false ->
    ldc_contract s contracts id_addr off c = inl s' ->
    forall i, c <= i -> i < padded_len c -> mem_get (v_mem s') (v_ssp s + i) = 0.

Definition ldc_witness_mem : mem :=
  {| stack := sv_write (sv_resize sv_empty 64) 0 (repeat 7 32); heap := sv_empty; mhp := MEM_SIZE |}.
Definition ldc_witness_vm : vm :=
  {| v_mem := ldc_witness_mem; v_ssp := 64; v_sp := 64; v_hp := MEM_SIZE; v_fp := 0;
     v_internal := false; v_max_size := 1024 |}.
Definition ldc_witness_contracts : storage := [(repeat 7 32, [1; 2; 3; 4; 5; 6; 7; 8; 9; 10; 11; 12; 13; 14; 15; 16])].
