(* Mem/ReadProofs.v — C36: the StorageRead model equals the read contract, and
   copy_from_storage_zero_fill / CCP / BLDD / LDC leave exactly `value[off..off+n] ++ zeros` in
   their destination. *)
From FV Require Import Base.Bytes Base.U64 Base.Map Mem.SVec Mem.SVecFacts Mem.MemSpec Mem.MemModel
     Mem.MemProofs Mem.ReadSpec Mem.ReadModel.
From Coq Require Import PeanoNat Arith.
Open Scope N_scope.

(* ---------------------------------------------------------------- lists *)
Lemma firstn_repeat {A} (x : A) k n : firstn k (repeat x n) = repeat x (Nat.min k n).
Proof.
  revert n; induction k as [|k IH]; intros [|n]; cbn [firstn repeat Nat.min]; try reflexivity.
  f_equal. apply IH.
Qed.

Lemma lenN_app {A} (a b : list A) : lenN (a ++ b) = lenN a + lenN b.
Proof. unfold lenN. rewrite app_length. lia. Qed.
Lemma lenN_zeros n : lenN (zeros n) = N.of_nat n.
Proof. unfold lenN, zeros. rewrite repeat_length. reflexivity. Qed.
Lemma lenN_firstn {A} n (l : list A) : lenN (firstn n l) = N.min (N.of_nat n) (lenN l).
Proof. unfold lenN. rewrite firstn_length. lia. Qed.
Lemma lenN_skipn {A} n (l : list A) : lenN (skipn n l) = lenN l - N.of_nat n.
Proof. unfold lenN. rewrite skipn_length. lia. Qed.

(* firstn n (a ++ zeros n) = the first min(|a|, n) bytes of a, then zeros *)
Lemma firstn_app_zeros (a : bytes) n :
  firstn n (a ++ zeros n) = firstn (Nat.min (length a) n) a ++ zeros (n - Nat.min (length a) n).
Proof.
  rewrite firstn_app. unfold zeros. rewrite firstn_repeat.
  destruct (Nat.le_ge_cases (length a) n) as [H|H].
  - rewrite (Nat.min_l _ _ H). rewrite !firstn_all2 by lia. f_equal. f_equal. lia.
  - rewrite (Nat.min_r _ _ H). replace (n - length a)%nat with 0%nat by lia.
    replace (n - n)%nat with 0%nat by lia. reflexivity.
Qed.

Lemma my_nth_firstn {A} (d : A) : forall n i l, (i < n)%nat -> nth i (firstn n l) d = nth i l d.
Proof.
  induction n as [|n IH]; intros i l Hi; [lia|]. destruct l as [|x l]; [destruct i; reflexivity|].
  destruct i as [|i]; cbn [firstn nth]; [reflexivity | apply IH; lia].
Qed.
Lemma my_nth_skipn {A} (d : A) : forall n i l, nth i (skipn n l) d = nth (n + i) l d.
Proof.
  induction n as [|n IH]; intros i l; [reflexivity|]. destruct l as [|x l]; [destruct i; reflexivity|].
  cbn [skipn Nat.add nth]. apply IH.
Qed.

Lemma slice_zerofill_length d off n : length (slice_zerofill d off n) = N.to_nat n.
Proof.
  unfold slice_zerofill. rewrite firstn_length, app_length. unfold zeros. rewrite repeat_length. lia.
Qed.

Lemma nth_zeros i n : nth i (zeros n) 0 = 0.
Proof. unfold zeros. revert i; induction n as [|n IH]; intros [|i]; cbn [repeat nth]; auto. Qed.

(* byte i of the zero-filled slice: the value's byte off+i when it exists, otherwise 0 *)
Lemma slice_zerofill_nth d off n i :
  (i < N.to_nat n)%nat ->
  nth i (slice_zerofill d off n) 0 = nth (N.to_nat off + i) d 0.
Proof.
  intros Hi. unfold slice_zerofill. rewrite my_nth_firstn by exact Hi.
  destruct (Nat.lt_ge_cases i (length (skipn (N.to_nat off) d))) as [H|H].
  - rewrite app_nth1 by exact H. apply my_nth_skipn.
  - rewrite app_nth2 by exact H. rewrite nth_zeros. rewrite skipn_length in H.
    symmetry. apply nth_overflow. lia.
Qed.

(* ---------------------------------------------------------------- (1) StorageRead = contract *)
Theorem read_exact_refines v off buf :
  (forall d, v = Some d -> lenN d < U64 - 1) ->
  m_read_exact v off buf = spec_read_exact v off buf.
Proof.
  intros Hd. destruct v as [d|]; [|reflexivity]. specialize (Hd d eq_refl).
  unfold m_read_exact, spec_read_exact, saturating_add, slice.
  destruct (N.leb_spec (off + lenN buf) (lenN d)) as [H|H].
  - replace (N.min (off + lenN buf) (U64 - 1)) with (off + lenN buf) by lia.
    replace (lenN d <? off + lenN buf) with false by (symmetry; apply N.ltb_ge; exact H).
    replace (off + lenN buf - off) with (lenN buf) by lia. reflexivity.
  - replace (lenN d <? N.min (off + lenN buf) (U64 - 1)) with true by (symmetry; apply N.ltb_lt; lia).
    reflexivity.
Qed.

Theorem read_zerofill_refines v off buf :
  m_read_zerofill v off buf = spec_read_zerofill v off buf.
Proof.
  destruct v as [d|]; [|reflexivity]. unfold m_read_zerofill, spec_read_zerofill, slice_zerofill.
  destruct (N.leb_spec off (lenN d)) as [H|H].
  - replace (lenN d <? off) with false by (symmetry; apply N.ltb_ge; exact H).
    f_equal. rewrite firstn_app_zeros. unfold lenN.
    set (a := skipn (N.to_nat off) d).
    replace (N.to_nat (N.min (N.of_nat (length a)) (N.of_nat (length buf))))
      with (Nat.min (length a) (N.to_nat (N.of_nat (length buf)))) by lia.
    f_equal. f_equal. lia.
  - replace (lenN d <? off) with true by (symmetry; apply N.ltb_lt; exact H). reflexivity.
Qed.

Theorem read_missing off buf :
  m_read_exact None off buf = (buf, inr KeyNotFound) /\
  m_read_zerofill None off buf = (buf, inr KeyNotFound) /\
  m_size_of_value None = None /\ m_read_alloc None = None.
Proof. repeat split. Qed.

Theorem size_alloc_refine v : m_size_of_value v = spec_size v /\ m_read_alloc v = spec_read_alloc v.
Proof. destruct v; split; reflexivity. Qed.

(* the contract, spelled out on the specification *)
Theorem spec_exact_ok d off buf :
  off + lenN buf <= lenN d ->
  exists b, spec_read_exact (Some d) off buf = (b, inl (lenN d)) /\ length b = length buf /\
            forall i, (i < length buf)%nat -> nth i b 0 = nth (N.to_nat off + i) d 0.
Proof.
  intros H. unfold spec_read_exact. replace (off + lenN buf <=? lenN d) with true by (symmetry; apply N.leb_le; exact H).
  eexists; split; [reflexivity|]. unfold slice, lenN in *. split.
  - rewrite firstn_length, skipn_length. lia.
  - intros i Hi. rewrite my_nth_firstn by lia. apply my_nth_skipn.
Qed.

Theorem spec_exact_err d off buf :
  lenN d < off + lenN buf -> spec_read_exact (Some d) off buf = (buf, inr OutOfBounds).
Proof.
  intros H. unfold spec_read_exact. replace (off + lenN buf <=? lenN d) with false by (symmetry; apply N.leb_gt; exact H). reflexivity.
Qed.

Theorem spec_zerofill_ok d off buf :
  off <= lenN d ->
  exists b, spec_read_zerofill (Some d) off buf = (b, inl (lenN d)) /\ length b = length buf /\
            forall i, (i < length buf)%nat -> nth i b 0 = nth (N.to_nat off + i) d 0.
Proof.
  intros H. unfold spec_read_zerofill. replace (off <=? lenN d) with true by (symmetry; apply N.leb_le; exact H).
  eexists; split; [reflexivity|]. split.
  - rewrite slice_zerofill_length. unfold lenN. lia.
  - intros i Hi. apply slice_zerofill_nth. unfold lenN. lia.
Qed.

Theorem spec_zerofill_err d off buf :
  lenN d < off -> spec_read_zerofill (Some d) off buf = (buf, inr OutOfBounds).
Proof.
  intros H. unfold spec_read_zerofill. replace (off <=? lenN d) with false by (symmetry; apply N.leb_gt; exact H). reflexivity.
Qed.

(* ---------------------------------------------------------------- (2) copy_from_storage_zero_fill *)
Lemma mem_bytes_len m a n : lenN (mem_bytes m a n) = n.
Proof. unfold mem_bytes, lenN. rewrite map_length, seqN_length. lia. Qed.

Lemma zero_fill_buffer_ok d wb off nf b :
  zero_fill_buffer (Some d) wb off (lenN d) nf = inl b -> b = loaded_bytes d off (lenN wb).
Proof.
  unfold zero_fill_buffer, loaded_bytes, slice_zerofill. rewrite firstn_app_zeros.
  destruct (N.ltb_spec off (lenN d)) as [Hlt|Hge].
  - destruct (U32 <=? off); [discriminate|].
    unfold m_read_zerofill. replace (lenN d <? off) with false by (symmetry; apply N.ltb_ge; lia).
    intros H. injection H as <-. unfold saturating_sub.
    set (a := skipn (N.to_nat off) d).
    assert (Ha : lenN a = lenN d - off) by (unfold a; rewrite lenN_skipn; lia).
    set (srl := N.min (lenN d - off) (lenN wb)).
    assert (Hf : lenN (firstn (N.to_nat srl) wb) = srl) by (rewrite lenN_firstn; unfold srl; lia).
    rewrite Hf, Ha. replace (N.min (lenN d - off) srl) with srl by (unfold srl; lia).
    replace (srl - srl) with 0 by lia. cbn [N.to_nat zeros repeat]. rewrite app_nil_r.
    replace (Nat.min (length a) (N.to_nat (lenN wb))) with (N.to_nat srl) by (unfold srl, lenN in *; lia).
    f_equal. f_equal. unfold srl, lenN in *. lia.
  - intros H. injection H as <-.
    assert (Hs : skipn (N.to_nat off) d = []) by (apply skipn_all2; unfold lenN in Hge; lia).
    rewrite Hs. cbn [length Nat.min firstn app]. f_equal. lia.
Qed.

Lemma zero_fill_buffer_succeeds d wb off nf :
  (off < lenN d -> off < U32) -> exists b, zero_fill_buffer (Some d) wb off (lenN d) nf = inl b.
Proof.
  intros H. unfold zero_fill_buffer.
  destruct (N.ltb_spec off (lenN d)) as [Hlt|Hge]; [|eauto].
  replace (U32 <=? off) with false by (symmetry; apply N.leb_gt; auto).
  unfold m_read_zerofill. replace (lenN d <? off) with false by (symmetry; apply N.ltb_ge; lia). eauto.
Qed.

(* success of copy_from_storage_zero_fill: the destination range was accessible and owned, and
   afterwards memory is the old memory with value[off..off+len] ++ zeros at [dst, dst+len) *)
Theorem copy_zero_fill_ok m o d dst len off nf m' :
  Inv m -> copy_from_storage_zero_fill m o (Some d) dst len off (lenN d) nf = inl m' ->
  check_range (abs m) dst len = None /\ owns o dst (dst + len) = true /\
  R m' {| stk_hi := sv_len (stack m); hp := mhp m;
          data := upd_range (mem_get m) dst (loaded_bytes d off len) |}.
Proof.
  intros HI. unfold copy_from_storage_zero_fill, write_range.
  rewrite (verify_refines m (abs m) dst len (R_abs m HI)).
  destruct (check_range (abs m) dst len) eqn:Hc; cbn [of_res vbind fst snd]; [discriminate|].
  destruct (owns o dst (dst + len)) eqn:Ho; [|discriminate]. cbn [vbind].
  destruct (zero_fill_buffer (Some d) (mem_bytes m dst len) off (lenN d) nf) as [b|e] eqn:Hb; [|discriminate].
  cbn [vbind]. apply zero_fill_buffer_ok in Hb. rewrite mem_bytes_len in Hb. subst b.
  pose proof (write_refines m (abs m) dst (loaded_bytes d off len) (R_abs m HI)) as W.
  assert (Hl : lenN (loaded_bytes d off len) = len).
  { unfold lenN, loaded_bytes. rewrite slice_zerofill_length. lia. }
  rewrite Hl in W.
  destruct (write_noownerchecks m dst (loaded_bytes d off len)) as [m''|e]; cbn [of_res]; [|discriminate].
  intros H. injection H as <-. destruct W as [_ W]. split; [reflexivity|]. split; [reflexivity|]. exact W.
Qed.

(* and it does succeed whenever the destination is accessible and owned and the offset, if it is
   inside the value, fits 32 bits *)
Theorem copy_zero_fill_succeeds m o d dst len off nf :
  Inv m -> check_range (abs m) dst len = None -> owns o dst (dst + len) = true ->
  (off < lenN d -> off < U32) ->
  exists m', copy_from_storage_zero_fill m o (Some d) dst len off (lenN d) nf = inl m'.
Proof.
  intros HI Hc Ho Hoff. unfold copy_from_storage_zero_fill, write_range.
  rewrite (verify_refines m (abs m) dst len (R_abs m HI)), Hc. cbn [of_res vbind fst snd]. rewrite Ho. cbn [vbind].
  destruct (zero_fill_buffer_succeeds d (mem_bytes m dst len) off nf Hoff) as [b Hb]. rewrite Hb. cbn [vbind].
  pose proof Hb as Hb'. apply zero_fill_buffer_ok in Hb'. rewrite mem_bytes_len in Hb'. subst b.
  pose proof (write_refines m (abs m) dst (loaded_bytes d off len) (R_abs m HI)) as W.
  assert (Hl : lenN (loaded_bytes d off len) = len).
  { unfold lenN, loaded_bytes. rewrite slice_zerofill_length. lia. }
  rewrite Hl, Hc in W.
  destruct (write_noownerchecks m dst (loaded_bytes d off len)) as [m''|e]; [eexists; reflexivity | discriminate].
Qed.

(* ---------------------------------------------------------------- (3) instructions *)
Lemma R_ext m f f' :
  R m f -> stk_hi f' = stk_hi f -> hp f' = hp f ->
  (forall x, observable f x -> data f' x = data f x) -> R m f'.
Proof.
  intros [HI [E1 [E2 E3]]] H1 H2 H3. split; [exact HI|]. split; [congruence|]. split; [congruence|].
  intros x Hx. rewrite E3 by exact Hx. symmetry. apply H3.
  unfold observable in *. rewrite <- E1, <- E2. exact Hx.
Qed.

Lemma R_inv m f : R m f -> Inv m.
Proof. intros [H _]; exact H. Qed.

Lemma R_mem_get m f x : R m f -> observable f x -> mem_get m x = data f x.
Proof.
  intros [_ [E1 [E2 E3]]] Hx. apply (E3 x). unfold observable in *. cbn [abs stk_hi hp] in *.
  rewrite E1, E2. exact Hx.
Qed.

(* CCP *)
Theorem ccp_ok s contracts dst id_addr off len s' :
  Inv (v_mem s) -> ccp s contracts dst id_addr off len = inl s' ->
  exists id code,
    read_id (v_mem s) id_addr = inl id /\ lookup contracts id = Some code /\
    v_ssp s' = v_ssp s /\ v_sp s' = v_sp s /\ v_hp s' = v_hp s /\
    owns (owner_regs s) dst (dst + len) = true /\
    R (v_mem s') {| stk_hi := sv_len (stack (v_mem s)); hp := mhp (v_mem s);
                    data := upd_range (mem_get (v_mem s)) dst (loaded_bytes code off len) |}.
Proof.
  intros HI. unfold ccp. destruct (read_id (v_mem s) id_addr) as [id|e]; cbn [vbind]; [|discriminate].
  destruct (write_range (v_mem s) (owner_regs s) dst len); cbn [vbind]; [|discriminate].
  destruct (lookup contracts id) as [code|] eqn:Hl; cbn [m_size_of_value]; [|discriminate].
  destruct (copy_from_storage_zero_fill (v_mem s) (owner_regs s) (Some code) dst len off (lenN code) ContractNotFound)
    as [m'|e] eqn:Hc; cbn [vbind]; [|discriminate].
  intros H. injection H as <-. destruct (copy_zero_fill_ok _ _ _ _ _ _ _ _ HI Hc) as [_ [Ho HR]].
  exists id, code. split; [reflexivity|]. split; [exact Hl|]. split; [reflexivity|]. split; [reflexivity|].
  split; [reflexivity|]. split; [exact Ho | exact HR].
Qed.

(* BLDD *)
Theorem bldd_ok s blobs dst id_addr off len s' :
  Inv (v_mem s) -> bldd s blobs dst id_addr off len = inl s' ->
  exists id blob,
    read_id (v_mem s) id_addr = inl id /\ lookup blobs id = Some blob /\
    v_ssp s' = v_ssp s /\ v_sp s' = v_sp s /\ v_hp s' = v_hp s /\
    owns (owner_regs s) dst (dst + len) = true /\
    R (v_mem s') {| stk_hi := sv_len (stack (v_mem s)); hp := mhp (v_mem s);
                    data := upd_range (mem_get (v_mem s)) dst (loaded_bytes blob off len) |}.
Proof.
  intros HI. unfold bldd. destruct (read_id (v_mem s) id_addr) as [id|e]; cbn [vbind]; [|discriminate].
  destruct (lookup blobs id) as [code|] eqn:Hl; cbn [m_size_of_value]; [|discriminate].
  destruct (copy_from_storage_zero_fill (v_mem s) (owner_regs s) (Some code) dst len off (lenN code) BlobNotFound)
    as [m'|e] eqn:Hc; cbn [vbind]; [|discriminate].
  intros H. injection H as <-. destruct (copy_zero_fill_ok _ _ _ _ _ _ _ _ HI Hc) as [_ [Ho HR]].
  exists id, code. split; [reflexivity|]. split; [exact Hl|]. split; [reflexivity|]. split; [reflexivity|].
  split; [reflexivity|]. split; [exact Ho | exact HR].
Qed.

(* CSIZ / BSIZ return the length of the stored value *)
Theorem csiz_ok s contracts id_addr n :
  csiz s contracts id_addr = inl n ->
  exists id code, read_id (v_mem s) id_addr = inl id /\ lookup contracts id = Some code /\ n = lenN code.
Proof.
  unfold csiz. destruct (read_id (v_mem s) id_addr) as [id|e]; cbn [vbind]; [|discriminate].
  destruct (lookup contracts id) as [code|] eqn:Hl; cbn [m_size_of_value]; [|discriminate].
  intros H. injection H as <-. eauto.
Qed.
Theorem bsiz_ok s blobs id_addr n :
  bsiz s blobs id_addr = inl n ->
  exists id blob, read_id (v_mem s) id_addr = inl id /\ lookup blobs id = Some blob /\ n = lenN blob.
Proof.
  unfold bsiz. destruct (read_id (v_mem s) id_addr) as [id|e]; cbn [vbind]; [|discriminate].
  destruct (lookup blobs id) as [code|] eqn:Hl; cbn [m_size_of_value]; [|discriminate].
  intros H. injection H as <-. eauto.
Qed.

(* stack growth as used by LDC *)
Lemma grow_stack_ok m n m1 :
  Inv m -> grow_stack m n = inl m1 ->
  n <= MEM_SIZE /\
  R m1 {| stk_hi := N.max (sv_len (stack m)) n; hp := mhp m;
          data := zero_range (mem_get m) (sv_len (stack m)) n |}.
Proof.
  intros HI Hg. pose proof (grow_stack_refines m (abs m) n (R_abs m HI)) as H. cbn [abs stk_hi hp data] in H.
  destruct (N.ltb_spec MEM_SIZE n); [congruence|]. split; [assumption|].
  destruct (N.leb_spec n (sv_len (stack m))).
  - assert (m1 = m) by congruence. subst m1.
    apply (R_ext m (abs m)); [apply R_abs; exact HI | cbn [abs stk_hi]; lia | reflexivity |].
    intros x Hx. cbn [data abs]. unfold zero_range. unfold observable in Hx; cbn [abs stk_hi hp] in Hx.
    destruct HI as [I1 _]. replace ((sv_len (stack m) <=? x) && (x <? n)) with false by nbs. reflexivity.
  - destruct (mhp m <? n); [congruence|]. destruct H as [m' [Hg' HR]]. assert (m' = m1) by congruence. subst m'.
    replace (N.max (sv_len (stack m)) n) with n by lia. exact HR.
Qed.

Lemma padded_len_word_spec c l : padded_len_word c = Some l -> l = padded_len c /\ c <= l /\ l < c + 8 /\ l mod 8 = 0.
Proof.
  unfold padded_len_word, padded_len, checked_add. pose proof (N.mod_upper_bound c 8 ltac:(lia)) as Hm.
  destruct (N.eqb_spec (c mod 8) 0) as [He|Hne].
  - intros H. injection H as <-. split; [reflexivity|]. split; [lia|]. split; [lia | exact He].
  - destruct (c + (8 - c mod 8) <? U64); [|discriminate]. intros H. injection H as <-.
    split; [reflexivity|]. split; [lia|]. split; [generalize dependent (c mod 8); intros; lia|].
    pose proof (N.div_mod c 8 ltac:(lia)) as Hd.
    replace (c + (8 - c mod 8)) with ((c / 8 + 1) * 8) by lia. apply N.mod_mul. lia.
Qed.

(* the storage tail of LDC modes 0 and 1: registers, stack growth and the loaded region *)
Theorem ldc_storage_tail_ok s code off length nf strict s' :
  Inv (v_mem s) -> ldc_storage_tail s (Some code) (lenN code) off length nf strict = inl s' ->
  let m := v_mem s in
  let new_sp := v_ssp s + length in
  new_sp <= MEM_SIZE /\ v_ssp s' = new_sp /\ v_sp s' = new_sp /\ v_hp s' = v_hp s /\
  owns (only_stack new_sp (v_ssp s) (v_hp s)) (v_ssp s) new_sp = true /\
  exists m2,
    R m2 {| stk_hi := N.max (sv_len (stack m)) new_sp; hp := mhp m;
            data := upd_range (zero_range (mem_get m) (sv_len (stack m)) new_sp) (v_ssp s)
                              (loaded_bytes code off length) |} /\
    update_code_size s m2 length strict = inl (v_mem s').
Proof.
  intros HI. unfold ldc_storage_tail. pose proof MEM_facts as [M1 [M2 M3]].
  destruct (grow_stack (v_mem s) (saturating_add U64 (v_ssp s) length)) as [m1|e] eqn:Hg; cbn [of_res vbind]; [|discriminate].
  destruct (grow_stack_ok _ _ _ HI Hg) as [Hle HR1].
  assert (Hsat : saturating_add U64 (v_ssp s) length = v_ssp s + length) by (unfold saturating_add in *; lia).
  rewrite Hsat in *.
  destruct (copy_from_storage_zero_fill m1 _ (Some code) (v_ssp s) length off (lenN code) nf) as [m2|e] eqn:Hc;
    cbn [vbind]; [|discriminate].
  destruct (update_code_size s m2 length strict) as [m3|e] eqn:Hu; cbn [vbind]; [|discriminate].
  intros H. injection H as <-. cbn [v_ssp v_sp v_hp v_mem].
  destruct (copy_zero_fill_ok _ _ _ _ _ _ _ _ (R_inv _ _ HR1) Hc) as [Hchk [Ho HR2]].
  split; [exact Hle|]. split; [reflexivity|]. split; [reflexivity|]. split; [reflexivity|]. split; [exact Ho|].
  exists m2. split; [|exact Hu].
  pose proof HR1 as [_ [E1 [E2 _]]]. cbn [abs stk_hi hp] in E1, E2.
  eapply R_ext; [exact HR2 | cbn [stk_hi]; congruence | cbn [hp]; congruence |].
  intros x Hx. cbn [data]. unfold upd_range.
  destruct ((v_ssp s <=? x) && (x <? v_ssp s + lenN (loaded_bytes code off length))); [reflexivity|].
  unfold observable in Hx. cbn [stk_hi hp] in Hx. symmetry.
  apply (R_mem_get m1 _ x HR1). unfold observable; cbn [stk_hi hp]. rewrite <- E1, <- E2. exact Hx.
Qed.

(* LDC mode 0 *)
Theorem ldc_contract_ok s contracts id_addr off c s' :
  Inv (v_mem s) -> ldc_contract s contracts id_addr off c = inl s' ->
  exists id code,
    v_ssp s = v_sp s /\ read_id (v_mem s) id_addr = inl id /\ lookup contracts id = Some code /\
    padded_len c <= v_max_size s /\
    ldc_storage_tail s (Some code) (lenN code) off (padded_len c) ContractNotFound true = inl s'.
Proof.
  intros HI. unfold ldc_contract. destruct (N.eqb_spec (v_ssp s) (v_sp s)) as [He|]; cbn [negb]; [|discriminate].
  destruct (read_id (v_mem s) id_addr) as [id|e]; cbn [vbind]; [|discriminate].
  destruct (padded_len_word c) as [l|] eqn:Hp; [|discriminate].
  apply padded_len_word_spec in Hp as [-> _].
  destruct (N.ltb_spec (v_max_size s) (padded_len c)); [discriminate|].
  destruct (lookup contracts id) as [code|] eqn:Hl; cbn [m_size_of_value]; [|discriminate].
  intros Ht. exists id, code. split; [exact He|]. split; [reflexivity|]. split; [exact Hl|]. split; [assumption | exact Ht].
Qed.

(* LDC mode 1 *)
Theorem ldc_blob_ok s blobs id_addr off c s' :
  Inv (v_mem s) -> ldc_blob s blobs id_addr off c = inl s' ->
  exists id blob,
    v_ssp s = v_sp s /\ read_id (v_mem s) id_addr = inl id /\ lookup blobs id = Some blob /\
    ldc_storage_tail s (Some blob) (lenN blob) off (padded_len c) BlobNotFound false = inl s'.
Proof.
  intros HI. unfold ldc_blob. destruct (N.eqb_spec (v_ssp s) (v_sp s)) as [He|]; cbn [negb]; [|discriminate].
  destruct (read_id (v_mem s) id_addr) as [id|e]; cbn [vbind]; [|discriminate].
  destruct (lookup blobs id) as [code|] eqn:Hl; cbn [m_size_of_value]; [|discriminate].
  destruct (padded_len_word c) as [l|] eqn:Hp.
  - apply padded_len_word_spec in Hp as [-> _]. intros H. exists id, code.
    split; [exact He|]. split; [reflexivity|]. split; [exact Hl | exact H].
  - (* the padded length does not fit a word: the stack cannot grow that far *)
    intros H. exfalso. pose proof MEM_facts as [M1 [M2 M3]].
    unfold ldc_storage_tail in H.
    destruct (grow_stack (v_mem s) (saturating_add U64 (v_ssp s) u64_max)) as [m1|e] eqn:Hg; cbn [of_res vbind] in H; [|discriminate].
    destruct (grow_stack_ok _ _ _ HI Hg) as [Hle _]. unfold saturating_add, u64_max, U64 in Hle. unfold U64 in M2. lia.
Qed.

(* when the loaded region ends at or beyond the value, or $rC is word aligned, the padding is zero *)
Lemma loaded_bytes_strict d off c l :
  lenN d <= off + c -> c <= l ->
  loaded_bytes d off l = loaded_bytes d off c ++ zeros (N.to_nat (l - c)).
Proof.
  intros H1 H2. unfold loaded_bytes, slice_zerofill. rewrite !firstn_app_zeros.
  set (a := skipn (N.to_nat off) d).
  assert (Ha : (length a <= N.to_nat c)%nat) by (unfold a; rewrite skipn_length; unfold lenN in H1; lia).
  rewrite !Nat.min_l by lia. rewrite <- app_assoc. f_equal. unfold zeros. rewrite <- repeat_app. f_equal. lia.
Qed.

(* the strict reading of the padding rule is false *)
Theorem ldc_strict_padding_refuted : ~ ldc_contract_padding_is_zero.
Proof.
  intros H.
  assert (HI : Inv (v_mem ldc_witness_vm)).
  { unfold Inv; cbn [ldc_witness_vm v_mem ldc_witness_mem stack heap mhp].
    rewrite sv_len_write, sv_len_resize. cbn [sv_len sv_empty]. unfold MEM_SIZE. lia. }
  destruct (ldc_contract ldc_witness_vm ldc_witness_contracts 0 0 1) as [s'|e] eqn:He.
  - specialize (H ldc_witness_vm ldc_witness_contracts 0 0 1 s' HI eq_refl He 1 ltac:(lia) ltac:(vm_compute; reflexivity)).
    revert He H. vm_compute. intros He. injection He as <-. vm_compute. discriminate.
  - revert He. vm_compute. discriminate.
Qed.

(* ---------------------------------------------------------------- statements for Properties/C36.v *)
Theorem loaded_bytes_spec d off n :
  length (loaded_bytes d off n) = N.to_nat n /\
  forall i, (i < N.to_nat n)%nat -> nth i (loaded_bytes d off n) 0 = nth (N.to_nat off + i) d 0.
Proof. split; [apply slice_zerofill_length | intros i Hi; apply slice_zerofill_nth; exact Hi]. Qed.

Theorem csiz_bsiz_ok (s : vm) (tbl : storage) (id_addr n : N) :
  (csiz s tbl id_addr = inl n ->
     exists id code, read_id (v_mem s) id_addr = inl id /\ lookup tbl id = Some code /\ n = lenN code) /\
  (bsiz s tbl id_addr = inl n ->
     exists id blob, read_id (v_mem s) id_addr = inl id /\ lookup tbl id = Some blob /\ n = lenN blob).
Proof. split; [apply csiz_ok | apply bsiz_ok]. Qed.

(* the hypotheses of the instruction theorems are satisfiable (non-vacuity) *)
Definition example_vm : vm :=
  {| v_mem := ldc_witness_mem; v_ssp := 32; v_sp := 64; v_hp := MEM_SIZE; v_fp := 0;
     v_internal := false; v_max_size := 1024 |}.
Example example_inv : Inv (v_mem example_vm).
Proof.
  unfold Inv; cbn [example_vm v_mem ldc_witness_mem stack heap mhp].
  rewrite sv_len_write, sv_len_resize. cbn [sv_len sv_empty]. unfold MEM_SIZE. lia.
Qed.
Example ccp_example : exists s', ccp example_vm ldc_witness_contracts 40 0 3 16 = inl s'.
Proof. eexists. vm_compute. reflexivity. Qed.
Example bldd_example : exists s', bldd example_vm ldc_witness_contracts 40 0 15 8 = inl s'.
Proof. eexists. vm_compute. reflexivity. Qed.
Example ldc_contract_example : exists s', ldc_contract ldc_witness_vm ldc_witness_contracts 0 3 9 = inl s'.
Proof. eexists. vm_compute. reflexivity. Qed.
Example ldc_blob_example : exists s', ldc_blob ldc_witness_vm ldc_witness_contracts 0 0 16 = inl s'.
Proof. eexists. vm_compute. reflexivity. Qed.
Example read_exact_hyp_example : forall d, Some [1; 2; 3] = Some d -> lenN d < U64 - 1.
Proof. intros d H. injection H as <-. vm_compute. reflexivity. Qed.

(* ---------------------------------------------------------------- LDC mode 2 *)
Lemma memcopy_ok m f dst src n o m' :
  R m f -> memcopy m dst src n o = inl m' ->
  check_range f dst n = None /\ check_range f src n = None /\ share_byte dst src n = false /\
  owns o dst (dst + n) = true /\
  R m' {| stk_hi := stk_hi f; hp := hp f; data := copy_range (data f) dst src n |}.
Proof.
  intros HR Hm. pose proof (memcopy_refines m f dst src n o HR) as H.
  destruct (check_range f dst n); [congruence|]. destruct (check_range f src n); [congruence|].
  destruct (share_byte dst src n); [congruence|]. destruct (owns o dst (dst + n)); cbn [negb] in H; [|congruence].
  destruct H as [m'' [Hm' HR']]. assert (m'' = m') by congruence. subst.
  split; [reflexivity|]. split; [reflexivity|]. split; [reflexivity|]. split; [reflexivity | exact HR'].
Qed.

Theorem ldc_memory_ok s src_addr off c s' :
  Inv (v_mem s) -> c <> 0 -> ldc_memory s src_addr off c = inl s' ->
  let m := v_mem s in
  let length := padded_len c in
  let new_sp := v_ssp s + length in
  let src := saturating_add U64 src_addr off in
  v_ssp s = v_sp s /\ new_sp <= MEM_SIZE /\ v_ssp s' = new_sp /\ v_sp s' = new_sp /\ v_hp s' = v_hp s /\
  share_byte (v_ssp s) src c = false /\
  exists m3,
    R m3 {| stk_hi := N.max (sv_len (stack m)) new_sp; hp := mhp m;
            data := upd_range (copy_range (zero_range (mem_get m) (sv_len (stack m)) new_sp) (v_ssp s) src c)
                              (v_ssp s + c) (zeros (N.to_nat (length - c))) |} /\
    update_code_size s m3 length false = inl (v_mem s').
Proof.
  intros HI Hc. unfold ldc_memory. pose proof MEM_facts as [M1 [M2 M3]].
  destruct (N.eqb_spec (v_ssp s) (v_sp s)) as [He|]; cbn [negb]; [|discriminate].
  destruct (N.eqb_spec c 0); [contradiction|].
  destruct (padded_len_word c) as [l|] eqn:Hp.
  2:{ (* unpaddable length: the stack cannot grow that far *)
      destruct (grow_stack (v_mem s) (saturating_add U64 (v_ssp s) u64_max)) as [m1|e] eqn:Hg; cbn [of_res vbind]; [|discriminate].
      destruct (grow_stack_ok _ _ _ HI Hg) as [Hle _]. unfold saturating_add, u64_max, U64 in Hle. unfold U64 in M2. lia. }
  apply padded_len_word_spec in Hp as [-> [Hp1 [Hp2 Hp3]]].
  destruct (grow_stack (v_mem s) (saturating_add U64 (v_ssp s) (padded_len c))) as [m1|e] eqn:Hg; cbn [of_res vbind]; [|discriminate].
  destruct (grow_stack_ok _ _ _ HI Hg) as [Hle HR1].
  assert (Hsat : saturating_add U64 (v_ssp s) (padded_len c) = v_ssp s + padded_len c) by (unfold saturating_add in *; lia).
  rewrite Hsat in *.
  destruct (memcopy m1 (v_ssp s) (saturating_add U64 src_addr off) c _) as [m2|e] eqn:Hm; cbn [of_res vbind]; [|discriminate].
  destruct (memcopy_ok _ _ _ _ _ _ _ HR1 Hm) as [Hd [Hs [Hsh [Ho HR2]]]]. cbn [stk_hi hp data] in HR2.
  assert (Hsat2 : saturating_add U64 (v_ssp s) c = v_ssp s + c) by (unfold saturating_add; lia).
  rewrite Hsat2. unfold saturating_sub.
  destruct (N.ltb_spec 0 (padded_len c - c)) as [Hpad|Hpad].
  - (* padding written *)
    destruct (write_range m2 _ (v_ssp s + c) (padded_len c - c)) as [r|e]; cbn [vbind]; [|discriminate].
    pose proof (write_refines m2 _ (v_ssp s + c) (zeros (N.to_nat (padded_len c - c))) HR2) as W.
    destruct (write_noownerchecks m2 (v_ssp s + c) (zeros (N.to_nat (padded_len c - c)))) as [m3|e]; cbn [of_res vbind]; [|discriminate].
    destruct W as [_ W]. cbn [stk_hi hp data] in W.
    destruct (update_code_size s m3 (padded_len c) false) as [m4|e] eqn:Hu; cbn [vbind]; [|discriminate].
    intros H. injection H as <-. cbn [v_ssp v_sp v_hp v_mem].
    split; [exact He|]. split; [exact Hle|]. split; [reflexivity|]. split; [reflexivity|]. split; [reflexivity|].
    split; [exact Hsh|]. exists m3. split; [exact W | exact Hu].
  - (* no padding: c is word aligned *)
    cbn [vbind]. destruct (update_code_size s m2 (padded_len c) false) as [m4|e] eqn:Hu; cbn [vbind]; [|discriminate].
    intros H. injection H as <-. cbn [v_ssp v_sp v_hp v_mem].
    split; [exact He|]. split; [exact Hle|]. split; [reflexivity|]. split; [reflexivity|]. split; [reflexivity|].
    split; [exact Hsh|]. exists m2. split; [|exact Hu].
    eapply R_ext; [exact HR2 | reflexivity | reflexivity |].
    intros x Hx. cbn [data]. unfold upd_range. replace (padded_len c - c) with 0 by lia.
    cbn [N.to_nat zeros repeat lenN length]. change (N.of_nat 0) with 0. rewrite N.add_0_r.
    replace ((v_ssp s + c <=? x) && (x <? v_ssp s + c)) with false by nbs. reflexivity.
Qed.

Example ldc_memory_example : exists s', ldc_memory ldc_witness_vm 0 3 9 = inl s'.
Proof. eexists. vm_compute. reflexivity. Qed.
