(* Mem/ReadProofs.v — C36: the StorageRead model equals the read contract, and
   copy_from_storage_zero_fill / CCP / BLDD / LDC leave exactly `value[off..off+n] ++ zeros` in
   their destination. *)
From FV Require Import Base.Bytes Base.U64 Base.Map Mem.SVec Mem.SVecFacts Mem.MemSpec Mem.MemModel
     Mem.MemProofs Mem.ReadSpec Mem.ReadModel.
From Coq Require Import PeanoNat Arith.
Open Scope N_scope.

(* ---------------------------------------------------------------- lists *)
Lemma firstn_repeat {A} (x : A) k n : firstn k (repeat x n) = repeat x (Nat.min k n).
Proof.
  revert n; induction k as [|k IH]; intros [|n]; cbn [firstn repeat Nat.min]; try reflexivity.
  f_equal. apply IH.
Qed.

Lemma lenN_app {A} (a b : list A) : lenN (a ++ b) = lenN a + lenN b.
Proof. unfold lenN. rewrite app_length. lia. Qed.
Lemma lenN_zeros n : lenN (zeros n) = N.of_nat n.
Proof. unfold lenN, zeros. rewrite repeat_length. reflexivity. Qed.
Lemma lenN_firstn {A} n (l : list A) : lenN (firstn n l) = N.min (N.of_nat n) (lenN l).
Proof. unfold lenN. rewrite firstn_length. lia. Qed.
Lemma lenN_skipn {A} n (l : list A) : lenN (skipn n l) = lenN l - N.of_nat n.
Proof. unfold lenN. rewrite skipn_length. lia. Qed.

(* firstn n (a ++ zeros n) = the first min(|a|, n) bytes of a, then zeros *)
Lemma firstn_app_zeros (a : bytes) n :
  firstn n (a ++ zeros n) = firstn (Nat.min (length a) n) a ++ zeros (n - Nat.min (length a) n).
Proof.
  rewrite firstn_app. unfold zeros. rewrite firstn_repeat.
  destruct (Nat.le_ge_cases (length a) n) as [H|H].
  - rewrite (Nat.min_l _ _ H). rewrite !firstn_all2 by lia. f_equal. f_equal. lia.
  - rewrite (Nat.min_r _ _ H). replace (n - length a)%nat with 0%nat by lia.
    replace (n - n)%nat with 0%nat by lia. reflexivity.
Qed.

Lemma my_nth_firstn {A} (d : A) : forall n i l, (i < n)%nat -> nth i (firstn n l) d = nth i l d.
Proof.
  induction n as [|n IH]; intros i l Hi; [lia|]. destruct l as [|x l]; [destruct i; reflexivity|].
  destruct i as [|i]; cbn [firstn nth]; [reflexivity | apply IH; lia].
Qed.
Lemma my_nth_skipn {A} (d : A) : forall n i l, nth i (skipn n l) d = nth (n + i) l d.
Proof.
  induction n as [|n IH]; intros i l; [reflexivity|]. destruct l as [|x l]; [destruct i; reflexivity|].
  cbn [skipn Nat.add nth]. apply IH.
Qed.

Lemma slice_zerofill_length d off n : length (slice_zerofill d off n) = N.to_nat n.
Proof.
  unfold slice_zerofill. rewrite firstn_length, app_length. unfold zeros. rewrite repeat_length. lia.
Qed.

Lemma nth_zeros i n : nth i (zeros n) 0 = 0.
Proof. unfold zeros. revert i; induction n as [|n IH]; intros [|i]; cbn [repeat nth]; auto. Qed.

(* byte i of the zero-filled slice: the value's byte off+i when it exists, otherwise 0 *)
Lemma slice_zerofill_nth d off n i :
  (i < N.to_nat n)%nat ->
  nth i (slice_zerofill d off n) 0 = nth (N.to_nat off + i) d 0.
Proof.
  intros Hi. unfold slice_zerofill. rewrite my_nth_firstn by exact Hi.
  destruct (Nat.lt_ge_cases i (length (skipn (N.to_nat off) d))) as [H|H].
  - rewrite app_nth1 by exact H. apply my_nth_skipn.
  - rewrite app_nth2 by exact H. rewrite nth_zeros. rewrite skipn_length in H.
    symmetry. apply nth_overflow. lia.
Qed.

(* ---------------------------------------------------------------- (1) StorageRead = contract *)
Theorem read_exact_refines v off buf :
  (forall d, v = Some d -> lenN d < U64 - 1) ->
  m_read_exact v off buf = spec_read_exact v off buf.
Proof.
  intros Hd. destruct v as [d|]; [|reflexivity]. specialize (Hd d eq_refl).
  unfold m_read_exact, spec_read_exact, saturating_add, slice.
  destruct (N.leb_spec (off + lenN buf) (lenN d)) as [H|H].
  - replace (N.min (off + lenN buf) (U64 - 1)) with (off + lenN buf) by lia.
    replace (lenN d <? off + lenN buf) with false by (symmetry; apply N.ltb_ge; exact H).
    replace (off + lenN buf - off) with (lenN buf) by lia. reflexivity.
  - replace (lenN d <? N.min (off + lenN buf) (U64 - 1)) with true by (symmetry; apply N.ltb_lt; lia).
    reflexivity.
Qed.

Theorem read_zerofill_refines v off buf :
  m_read_zerofill v off buf = spec_read_zerofill v off buf.
Proof.
  destruct v as [d|]; [|reflexivity]. unfold m_read_zerofill, spec_read_zerofill, slice_zerofill.
  destruct (N.leb_spec off (lenN d)) as [H|H].
  - replace (lenN d <? off) with false by (symmetry; apply N.ltb_ge; exact H).
    f_equal. rewrite firstn_app_zeros. unfold lenN.
    set (a := skipn (N.to_nat off) d).
    replace (N.to_nat (N.min (N.of_nat (length a)) (N.of_nat (length buf))))
      with (Nat.min (length a) (N.to_nat (N.of_nat (length buf)))) by lia.
    f_equal. f_equal. lia.
  - replace (lenN d <? off) with true by (symmetry; apply N.ltb_lt; exact H). reflexivity.
Qed.

Theorem read_missing off buf :
  m_read_exact None off buf = (buf, inr KeyNotFound) /\
  m_read_zerofill None off buf = (buf, inr KeyNotFound) /\
  m_size_of_value None = None /\ m_read_alloc None = None.
Proof. repeat split. Qed.

Theorem size_alloc_refine v : m_size_of_value v = spec_size v /\ m_read_alloc v = spec_read_alloc v.
Proof. destruct v; split; reflexivity. Qed.

(* the contract, spelled out on the specification *)
Theorem spec_exact_ok d off buf :
  off + lenN buf <= lenN d ->
  exists b, spec_read_exact (Some d) off buf = (b, inl (lenN d)) /\ length b = length buf /\
            forall i, (i < length buf)%nat -> nth i b 0 = nth (N.to_nat off + i) d 0.
Proof.
  intros H. unfold spec_read_exact. replace (off + lenN buf <=? lenN d) with true by (symmetry; apply N.leb_le; exact H).
  eexists; split; [reflexivity|]. unfold slice, lenN in *. split.
  - rewrite firstn_length, skipn_length. lia.
  - intros i Hi. rewrite my_nth_firstn by lia. apply my_nth_skipn.
Qed.

Theorem spec_exact_err d off buf :
  lenN d < off + lenN buf -> spec_read_exact (Some d) off buf = (buf, inr OutOfBounds).
Proof.
  intros H. unfold spec_read_exact. replace (off + lenN buf <=? lenN d) with false by (symmetry; apply N.leb_gt; exact H). reflexivity.
Qed.

Theorem spec_zerofill_ok d off buf :
  off <= lenN d ->
  exists b, spec_read_zerofill (Some d) off buf = (b, inl (lenN d)) /\ length b = length buf /\
            forall i, (i < length buf)%nat -> nth i b 0 = nth (N.to_nat off + i) d 0.
Proof.
  intros H. unfold spec_read_zerofill. replace (off <=? lenN d) with true by (symmetry; apply N.leb_le; exact H).
  eexists; split; [reflexivity|]. split.
  - rewrite slice_zerofill_length. unfold lenN. lia.
  - intros i Hi. apply slice_zerofill_nth. unfold lenN. lia.
Qed.

Theorem spec_zerofill_err d off buf :
  lenN d < off -> spec_read_zerofill (Some d) off buf = (buf, inr OutOfBounds).
Proof.
  intros H. unfold spec_read_zerofill. replace (off <=? lenN d) with false by (symmetry; apply N.leb_gt; exact H). reflexivity.
Qed.
