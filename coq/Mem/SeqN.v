(* Mem/SeqN.v — the list a, a+1, ..., a+n-1 of binary naturals (shared by spec and model). *)
From FV Require Import Base.Bytes.
Open Scope N_scope.

Fixpoint seqN (a : N) (n : nat) : list N :=
  match n with O => [] | S k => a :: seqN (a + 1) k end.
