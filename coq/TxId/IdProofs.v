(* TxId/IdProofs.v — proofs for property C03 (transaction id).

   1. obligations on the translator output Gen/PrepareSign.v: the table is closed, and the set of
      field paths it zeroes / clears, per kind, is exactly the malleable / removed set of the
      specification (a newly zeroed or no-longer-zeroed field breaks [zeroed_is_malleable] with
      the path in the error message);
   2. refinement: the interpreter of the generated table computes the specification's strip on
      every typed transaction value ([strip_model_spec]), hence id_model = id_spec;
   3. malleability: replacing the value at any malleable / removed path, in any vector element,
      leaves strip unchanged ([strip_poke]);
   4. binding: different content or chain id => different hash preimages;
   5. cache. *)
From Coq Require Import Arith PeanoNat.
From FV Require Import Codec.CodecInstances.
From FV Require Export TxId.IdModel.
Open Scope N_scope.
Local Open Scope string_scope.
Local Open Scope list_scope.

(* ================================================================ 1. the generated table *)
Definition callees_of_op (o : zop) : list string :=
  match o with ZCall _ c | ZEach _ c | ZSelf c => [c] | _ => [] end.
Definition callees_of (f : zfun) : list string :=
  match f with
  | ZSeq ops => flat_map callees_of_op ops
  | ZMatch arms _ => flat_map (fun a => flat_map callees_of_op (snd a)) arms
  end.
Definition known (body : string) (c : string) : bool :=
  match zlookup (if String.eqb c "<Body>" then body else c) prepare_sign_table with Some _ => true | None => false end.
Definition table_closed_b : bool :=
  forallb (fun kb => forallb (fun e => forallb (known (snd kb)) (callees_of (snd e))) prepare_sign_table &&
                     known (snd kb) (snd kb))
          chargeable_kinds &&
  forallb (fun e => forallb (known "") (flat_map callees_of_op (snd e))) id_table &&
  path_eqb input_variant_names input_names &&
  path_eqb compute_transaction_id_inputs ["chain_id.to_be_bytes()"; "tx.to_bytes().as_slice()"] &&
  forallb (fun k => existsb (String.eqb (kind_name k)) precompute_kinds) all_kinds &&
  forallb (fun k => match k with KMint => true | _ => negb (String.eqb (body_of k) "") end) all_kinds.
Lemma table_closed : table_closed_b = true.
Proof. vm_compute. reflexivity. Qed.

(* ---- the paths the generated code zeroes / clears, computed from table + schema *)
Fixpoint field_ty_of (name : string) (fs : fields) : option ty :=
  match fs with
  | FNil => None
  | FCons n _ t r => if String.eqb n name then Some t else field_ty_of name r
  end.
Fixpoint variant_fields (name : string) (vs : variants) : option fields :=
  match vs with
  | VNil => None
  | VCons n _ fs r => if String.eqb n name then Some fs else variant_fields name r
  end.
Fixpoint index_of (name : string) (l : list string) : option nat :=
  match l with
  | [] => None
  | x :: r => if String.eqb x name then Some O else option_map S (index_of name r)
  end.

Section Paths.
Variable body : string.
(* (zeroed, cleared) *)
Fixpoint zpaths (fuel : nat) (callee : string) (t : ty) (pre : path) {struct fuel} : list path * list path :=
  match fuel with
  | O => ([], [])
  | S k =>
      let of_op (fs : fields) (pre : path) (op : zop) : list path * list path :=
        match op with
        | ZDefault f =>
            match field_ty_of f fs with
            | Some (TEmpty _) => ([], [])                 (* as_mut_field() of input::Empty is None *)
            | Some _ => ([pre ++ [f]], [])
            | None => ([pre ++ [f; "<no such field>"]], [])
            end
        | ZCall f c => match field_ty_of f fs with Some t' => zpaths k c t' (pre ++ [f]) | None => ([pre ++ [f; "<no such field>"]], []) end
        | ZEach f c => match field_ty_of f fs with Some (TVec te) => zpaths k c te (pre ++ [f]) | _ => ([pre ++ [f; "<not a vector>"]], []) end
        | ZClear f => ([], [pre ++ [f]])
        | ZSelf _ => ([], [])
        end in
      let of_ops fs pre ops := fold_right (fun op acc => let r := of_op fs pre op in (fst r ++ fst acc, snd r ++ snd acc)) ([], []) ops in
      match zlookup (if String.eqb callee "<Body>" then body else callee) prepare_sign_table with
      | None => ([pre ++ ["<unknown callee>"]], [])
      | Some (ZSeq ops) => match t with TStruct _ fs => of_ops fs pre ops | _ => ([pre ++ ["<not a struct>"]], []) end
      | Some (ZMatch arms _) =>
          match t with
          | TEnum vars =>
              fold_right (fun a acc =>
                  let r := match variant_fields (fst a) vars with
                           | Some fs => of_ops fs (pre ++ [fst a]) (snd a)
                           | None => ([pre ++ [fst a; "<no such variant>"]], [])
                           end in (fst r ++ fst acc, snd r ++ snd acc)) ([], []) arms
          | TInput cf cs cp ct mf mcs mcp mds mdp =>
              fold_right (fun a acc =>
                  let r := match index_of (fst a) input_variant_names, snd a with
                           | Some i, [ZCall "0" c] => zpaths k c (input_sel i cs cp ct mcs mcp mds mdp) (pre ++ [fst a])
                           | _, _ => ([pre ++ [fst a; "<arm not understood>"]], [])
                           end in (fst r ++ fst acc, snd r ++ snd acc)) ([], []) arms
          | _ => ([pre ++ ["<not an enum>"]], [])
          end
      end
  end.
End Paths.

Definition id_paths (k : kind) : list path * list path :=
  match zlookup (id_impl k) id_table, kind_ty k with
  | Some ops, TStruct _ fs =>
      fold_right (fun op acc =>
        let r := match op with
                 | ZSelf c => zpaths (body_of k) ps_fuel c (kind_ty k) []
                 | ZCall f c => match field_ty_of f fs with Some t' => zpaths (body_of k) ps_fuel c t' [f] | None => ([[f; "<no such field>"]], []) end
                 | ZClear f => ([], [[f]])
                 | ZDefault f => ([[f]], [])
                 | ZEach f c => match field_ty_of f fs with Some (TVec te) => zpaths (body_of k) ps_fuel c te [f] | _ => ([[f; "<not a vector>"]], []) end
                 end in (fst r ++ fst acc, snd r ++ snd acc)) ([], []) ops
  | _, _ => ([["<no id function>"]], [])
  end.
Definition zeroed (k : kind) : list path := fst (id_paths k).
Definition cleared (k : kind) : list path := snd (id_paths k).
Definition pdiff (a b : list path) : list path := filter (fun p => negb (pmem p b)) a.

(* THE obligation on the generated table: per kind, what the code zeroes is what the
   specification calls malleable, and what it clears is what the specification removes. *)
Lemma zeroed_is_malleable :
  map (fun k => (kind_name k, pdiff (zeroed k) (malleable k), pdiff (malleable k) (zeroed k),
                 pdiff (cleared k) (removed k), pdiff (removed k) (cleared k))) all_kinds =
  map (fun k => (kind_name k, [], [], [], [])) all_kinds.
Proof. vm_compute. reflexivity. Qed.

(* ================================================================ shapes *)
(* structure of a value of a schema (constructors and list lengths only) *)
Fixpoint shaped (t : ty) (v : val) {struct t} : bool :=
  match t, v with
  | TVec t', VL vs => forallb (shaped t') vs
  | TVec _, _ => false
  | TStruct _ fs, VS vs => shaped_fields fs vs
  | TStruct _ _, _ => false
  | TEnum vars, VE i vs => shaped_variants vars i vs
  | TEnum _, _ => false
  | TInput cf cs cp ct mf mcs mcp mds mdp, VE i [x] =>
      Nat.ltb i 7 && shaped (input_sel i cs cp ct mcs mcp mds mdp) x
  | TInput _ _ _ _ _ _ _ _ _, _ => false
  | TPeek al, VE i [x] => shaped_alts al i x
  | TPeek _, _ => false
  | TEmpty _, VUnit => true
  | TEmpty _, _ => false
  | _, _ => true
  end
with shaped_fields (fs : fields) (vs : list val) {struct fs} : bool :=
  match fs, vs with
  | FNil, [] => true
  | FCons _ sk t r, v :: vs' => (sk || shaped t v) && shaped_fields r vs'
  | _, _ => false
  end
with shaped_variants (vars : variants) (i : nat) (vs : list val) {struct vars} : bool :=
  match vars with
  | VNil => false
  | VCons _ _ fs r => match i with O => shaped_fields fs vs | S j => shaped_variants r j vs end
  end
with shaped_alts (al : alts) (i : nat) (x : val) {struct al} : bool :=
  match al with
  | ANil => false
  | ACons _ _ t r => match i with O => shaped t x | S j => shaped_alts r j x end
  end.

Lemma typed_shaped_all :
  (forall t v, typed t v = true -> shaped t v = true) /\
  (forall fs vs, typed_fields fs vs = true -> shaped_fields fs vs = true) /\
  (forall vars i vs, typed_variants vars i vs = true -> shaped_variants vars i vs = true) /\
  (forall al i x, typed_alts al i x = true -> shaped_alts al i x = true).
Proof.
  apply schema_mutind.
  - intros w v H. destruct v; reflexivity.
  - intros n v H. destruct v; reflexivity.
  - intros v H. destruct v; reflexivity.
  - intros t IH v H. destruct v; try discriminate H. cbn [typed] in H. cbn [shaped].
    rewrite forallb_forall in *. intros x Hx. apply IH, H, Hx.
  - intros p fs IH v H. destruct v; try discriminate H. cbn [typed] in H. cbn [shaped].
    apply andb_true_iff in H as [_ H]. apply IH, H.
  - intros vs IH v H. destruct v; try discriminate H. cbn [typed] in H. cbn [shaped]. apply IH, H.
  - intros t IH v H. destruct v; try discriminate H; reflexivity.
  - intros s v H. destruct v; reflexivity.
  - intros v H. destruct v; reflexivity.
  - intros cf Hcf cs Hcs cp Hcp ct Hct mf Hmf mcs Hmcs mcp Hmcp mds Hmds mdp Hmdp v H.
    destruct v as [| | | | |i l|]; try discriminate H. destruct l as [|x [|]]; try discriminate H.
    cbn [typed] in H. cbn [shaped]. apply andb_true_iff in H as [Hi H]. rewrite Hi. cbn [andb].
    do 7 (destruct i as [|i]; [cbn [input_sel] in *; auto|]). discriminate Hi.
  - intros al IH v H. destruct v as [| | | | |i l|]; try discriminate H. destruct l as [|x [|]]; try discriminate H.
    cbn [typed] in H. cbn [shaped]. apply IH, H.
  - intros vs H. destruct vs; [reflexivity | discriminate H].
  - intros n sk t It r Ir vs H. destruct vs as [|v vs]; try discriminate H.
    cbn [typed_fields] in H. cbn [shaped_fields]. apply andb_true_iff in H as [H1 H2].
    rewrite (Ir _ H2), andb_true_r. destruct sk; [reflexivity|]. cbn [orb] in *. apply It, H1.
  - intros i vs H. discriminate H.
  - intros n d fs If r Ir i vs H. cbn [typed_variants] in H. cbn [shaped_variants].
    destruct i; [apply andb_true_iff in H as [_ H]; apply If, H | apply Ir, H].
  - intros i x H. discriminate H.
  - intros n d t It r Ir i x H. cbn [typed_alts] in H. cbn [shaped_alts].
    destruct i; [apply It, H | apply Ir, H].
Qed.
Lemma typed_shaped t v : typed t v = true -> shaped t v = true.
Proof. apply typed_shaped_all. Qed.

(* destruct a value along a [shaped _ v = true] hypothesis *)
Ltac shape H :=
  vm_compute in H;
  repeat match type of H with
         | context [match ?v with _ => _ end] =>
             is_var v; destruct v; try discriminate H; vm_compute in H
         | (if ?c then false else false) = true => exfalso; destruct c; discriminate H
         | context [?f ?v 0%nat] => is_var v; destruct v; try discriminate H; vm_compute in H
         end.

(* ================================================================ 2. refinement *)
Definition pst := prepare_sign_table.
Definition mal2 := malleable KScript.
Definition mal1 := malleable KCreate.
Definition rem1 := removed KCreate.

Lemma ps_input_spec mal x :
  mal = mal1 \/ mal = mal2 -> forall body, shaped S_Input x = true ->
  ps pst body 3 "Input" S_Input x = strip_by mal rem1 S_Input ["inputs"] x.
Proof.
  intros Hm body H. shape H; destruct Hm as [-> | ->]; vm_compute; reflexivity.
Qed.
Lemma ps_output_spec mal x :
  mal = mal1 \/ mal = mal2 -> forall body, shaped S_Output x = true ->
  ps pst body 3 "Output" S_Output x = strip_by mal rem1 S_Output ["outputs"] x.
Proof.
  intros Hm body H. shape H; destruct Hm as [-> | ->]; vm_compute; reflexivity.
Qed.

Definition body_ty (k : kind) : ty :=
  match k with
  | KScript => S_ScriptBody | KCreate => S_CreateBody | KUpgrade => S_UpgradeBody
  | KUpload => S_UploadBody | KBlob => S_BlobBody | KMint => TOpaque ""
  end.

Lemma strip_model_unfold k body pol ins outs wits meta : k <> KMint ->
  strip_model k (VS [body; pol; VL ins; VL outs; VL wits; meta]) =
  VS [ps pst (body_of k) 3 "<Body>" (body_ty k) body; pol;
      VL (map (ps pst (body_of k) 3 "Input" S_Input) ins);
      VL (map (ps pst (body_of k) 3 "Output" S_Output) outs); VL []; meta].
Proof. destruct k; try congruence; intros _; reflexivity. Qed.

Lemma strip_unfold k body pol ins outs wits meta : k <> KMint ->
  strip k (VS [body; pol; VL ins; VL outs; VL wits; meta]) =
  VS [(if match k with KScript => true | _ => false end
       then strip_by (malleable k) (removed k) (body_ty k) ["body"] body else body); pol;
      VL (map (strip_by (malleable k) (removed k) S_Input ["inputs"]) ins);
      VL (map (strip_by (malleable k) (removed k) S_Output ["outputs"]) outs); VL []; meta].
Proof. destruct k; try congruence; intros _; reflexivity. Qed.

Lemma mal_cases k : k <> KMint -> (malleable k = mal1 \/ malleable k = mal2) /\ removed k = rem1.
Proof. destruct k; try congruence; intros _; split; auto. Qed.

Lemma kind_eq_dec (a b : kind) : {a = b} + {a <> b}.
Proof. decide equality. Defined.

Lemma shaped_fields_len fs : forall vs, shaped_fields fs vs = true -> length vs = fields_len fs.
Proof.
  induction fs as [|n sk t r IH]; intros [|v vs] H; try discriminate H; [reflexivity|].
  cbn [shaped_fields] in H. apply andb_true_iff in H as [_ H]. cbn [length fields_len]. f_equal. apply IH, H.
Qed.

Lemma shaped_chargeable k v : k <> KMint -> shaped (kind_ty k) v = true ->
  exists body pol ins outs wits meta, v = VS [body; pol; VL ins; VL outs; VL wits; meta] /\
    shaped (body_ty k) body = true /\ forallb (shaped S_Input) ins = true /\
    forallb (shaped S_Output) outs = true.
Proof.
  intros Hk H.
  destruct v as [| | | |vs| |]; try (destruct k; discriminate H).
  assert (Hl : length vs = 6%nat).
  { destruct k; try congruence;
      (match type of H with shaped (TStruct _ ?fs) _ = true => apply (shaped_fields_len fs) in H end
       || (unfold kind_ty in H; match type of H with shaped ?S _ = true => unfold S, struct_ in H end;
           apply shaped_fields_len in H)); exact H. }
  destruct vs as [|body [|pol [|ins [|outs [|wits [|meta [|]]]]]]]; try discriminate Hl. clear Hl.
  destruct k; try congruence;
    (match type of H with shaped (kind_ty ?K) _ = true =>
       change (shaped (body_ty K) body && (true && (shaped (TVec S_Input) ins && (shaped (TVec S_Output) outs &&
               (shaped (TVec S_Witness) wits && true)))) = true) in H end;
     apply andb_true_iff in H as [Hb H]; apply andb_true_iff in H as [_ H];
     apply andb_true_iff in H as [Hi H]; apply andb_true_iff in H as [Ho H];
     apply andb_true_iff in H as [Hw _];
     destruct ins as [| | |ins| | |]; try discriminate Hi;
     destruct outs as [| | |outs| | |]; try discriminate Ho;
     destruct wits as [| | |wits| | |]; try discriminate Hw;
     change (forallb (shaped S_Input) ins = true) in Hi;
     change (forallb (shaped S_Output) outs = true) in Ho;
     eauto 12).
Qed.

Lemma strip_model_shaped k v : shaped (kind_ty k) v = true -> strip_model k v = strip k v.
Proof.
  intros H. destruct (kind_eq_dec k KMint) as [-> | Hk].
  - shape H. vm_compute. reflexivity.
  - destruct (shaped_chargeable k v Hk H) as (body & pol & ins & outs & wits & meta & -> & Hb & Hi & Ho).
    rewrite strip_model_unfold, strip_unfold by exact Hk.
    destruct (mal_cases k Hk) as [Hm Hr]. rewrite Hr.
    assert (E1 : ps pst (body_of k) 3 "<Body>" (body_ty k) body =
                 (if match k with KScript => true | _ => false end
                  then strip_by (malleable k) rem1 (body_ty k) ["body"] body else body)).
    { clear Hm Hr Hi Ho H. destruct k; try congruence; shape Hb; vm_compute; reflexivity. }
    assert (E2 : map (ps pst (body_of k) 3 "Input" S_Input) ins =
                 map (strip_by (malleable k) rem1 S_Input ["inputs"]) ins).
    { apply map_ext_in. intros x Hx. apply ps_input_spec; [exact Hm|].
      rewrite forallb_forall in Hi. apply Hi, Hx. }
    assert (E3 : map (ps pst (body_of k) 3 "Output" S_Output) outs =
                 map (strip_by (malleable k) rem1 S_Output ["outputs"]) outs).
    { apply map_ext_in. intros x Hx. apply ps_output_spec; [exact Hm|].
      rewrite forallb_forall in Ho. apply Ho, Hx. }
    rewrite E1, E2, E3. reflexivity.
Qed.

(* the interpreter of the generated prepare_sign table computes the specification's strip *)
Theorem strip_model_spec k v : typed (kind_ty k) v = true -> strip_model k v = strip k v.
Proof. intros H. apply strip_model_shaped, typed_shaped, H. Qed.

(* the model's hasher inputs are the specification's preimage *)
Lemma preimage_model_spec c k v : typed (kind_ty k) v = true -> preimage_model c k v = id_preimage c k v.
Proof.
  intros H. unfold preimage_model, id_preimage, hash_inputs. rewrite (strip_model_spec k v H).
  change (flat_map (hash_input c (kind_ty k) (strip k v)) compute_transaction_id_inputs)
    with (be8 c ++ (enc (kind_ty k) (strip k v) ++ [])).
  rewrite app_nil_r. reflexivity.
Qed.

Theorem id_model_formula {D} (h : bytes -> D) c k v : typed (kind_ty k) v = true ->
  id_model h c {| m_kind := k; m_val := v; m_cache := None |} = id_spec h c k v.
Proof. intros H. unfold id_model, fresh_id, id_spec. cbn [m_cache m_kind m_val]. rewrite (preimage_model_spec c k v H). reflexivity. Qed.

(* ================================================================ 3. malleable fields *)
Lemma path_eqb_eq a : forall b, path_eqb a b = true -> a = b.
Proof.
  induction a as [|x a IH]; intros [|y b] H; try discriminate H; [reflexivity|].
  cbn [path_eqb] in H. apply andb_true_iff in H as [H1 H2]. apply String.eqb_eq in H1. f_equal; auto.
Qed.
Lemma proper_prefix_app p : forall q, q <> [] -> proper_prefix p (p ++ q) = true.
Proof.
  induction p as [|x p IH]; intros q Hq; cbn [app proper_prefix].
  - destruct q; [congruence | reflexivity].
  - rewrite String.eqb_refl. apply IH, Hq.
Qed.
Lemma map_set_nth {A B} (f : A -> B) (g : A -> A) : (forall a, f (g a) = f a) ->
  forall i l, map f (set_nth i g l) = map f l.
Proof.
  intros Hfg i l. revert i. induction l as [|a l IH]; intros [|i]; cbn [set_nth map]; try reflexivity.
  - rewrite Hfg. reflexivity.
  - rewrite IH. reflexivity.
Qed.

Section Poke.
Variable mal rem : list path.
Definition in_mr (p : path) : bool := pmem p mal || pmem p rem.

Lemma below_prefix p q : q <> [] -> in_mr (p ++ q) = true -> below mal rem p = true.
Proof.
  intros Hq H. unfold below. apply existsb_exists. exists (p ++ q). split; [|apply proper_prefix_app, Hq].
  unfold in_mr, pmem in H. apply orb_true_iff in H. apply in_or_app.
  destruct H as [H | H]; apply existsb_exists in H as (r & Hr & E); apply path_eqb_eq in E; subst r; auto.
Qed.

Lemma strip_poke_all :
  (forall t pre q sel x v, in_mr (pre ++ q) = true ->
     strip_by mal rem t pre (poke t q sel x v) = strip_by mal rem t pre v) /\
  (forall fs pre n q' sel x vs, in_mr (pre ++ n :: q') = true ->
     strip_fields mal rem fs pre (poke_fields fs n q' sel x vs) = strip_fields mal rem fs pre vs) /\
  (forall vars pre i n q' sel x vs, in_mr (pre ++ n :: q') = true ->
     strip_variants mal rem vars pre i (poke_variants vars i n q' sel x vs) = strip_variants mal rem vars pre i vs) /\
  (forall al pre i n q' sel x y, in_mr (pre ++ n :: q') = true ->
     strip_alts mal rem al pre i (poke_alts al i n q' sel x y) = strip_alts mal rem al pre i y).
Proof.
  apply schema_mutind.
  - intros w pre q sel x v H. destruct v; reflexivity.
  - intros n pre q sel x v H. destruct v; reflexivity.
  - intros pre q sel x v H. destruct v; reflexivity.
  - intros t IH pre q sel x v H. destruct v; try reflexivity. destruct sel as [|i sel']; [reflexivity|].
    cbn [poke strip_by]. f_equal. apply map_set_nth. intros a. apply IH, H.
  - intros p fs IH pre q sel x v H. destruct v; try reflexivity. destruct q as [|n q']; [reflexivity|].
    cbn [poke strip_by]. f_equal. apply IH, H.
  - intros vars IH pre q sel x v H. destruct v; try reflexivity. destruct q as [|n q']; [reflexivity|].
    cbn [poke strip_by]. f_equal. apply IH, H.
  - intros t IH pre q sel x v H. destruct v; reflexivity.
  - intros s pre q sel x v H. destruct v; reflexivity.
  - intros pre q sel x v H. destruct v; reflexivity.
  - intros cf Hcf cs Hcs cp Hcp ct Hct mf Hmf mcs Hmcs mcp Hmcp mds Hmds mdp Hmdp pre q sel x v H.
    destruct v as [| | | | |i l|]; try reflexivity. destruct l as [|y [|]]; try reflexivity.
    destruct q as [|n q']; [reflexivity|]. cbn [poke].
    destruct (String.eqb (nth i input_names "") n) eqn:E; [|reflexivity].
    apply String.eqb_eq in E. cbn [strip_by]. f_equal. f_equal. rewrite E.
    assert (H' : in_mr ((pre ++ [n]) ++ q') = true) by (rewrite <- app_assoc; exact H).
    revert H'. generalize (pre ++ [n]). intros pre' H'.
    apply (input_sel_cases (fun t => strip_by mal rem t pre' (poke t q' sel x y) = strip_by mal rem t pre' y));
      auto.
  - intros al IH pre q sel x v H. destruct v as [| | | | |i l|]; try reflexivity.
    destruct l as [|y [|]]; try reflexivity. destruct q as [|n q']; [reflexivity|].
    cbn [poke strip_by]. f_equal. f_equal. apply IH, H.
  - intros pre n q' sel x vs H. reflexivity.
  - intros n' sk t It r Ir pre n q' sel x vs H. destruct vs as [|v vs']; [reflexivity|].
    cbn [poke_fields]. destruct (String.eqb n' n) eqn:E.
    + apply String.eqb_eq in E. subst n'. cbn [strip_fields]. f_equal.
      destruct q' as [|m q''].
      * unfold in_mr in H. destruct (pmem (pre ++ [n]) rem); [reflexivity|].
        rewrite orb_false_r in H. rewrite H. reflexivity.
      * destruct (pmem (pre ++ [n]) rem); [reflexivity|].
        destruct (pmem (pre ++ [n]) mal); [reflexivity|].
        assert (H' : in_mr ((pre ++ [n]) ++ m :: q'') = true) by (rewrite <- app_assoc; exact H).
        rewrite (below_prefix (pre ++ [n]) (m :: q'')) by (congruence || exact H').
        apply It, H'.
    + cbn [strip_fields]. f_equal. apply Ir, H.
  - intros pre i n q' sel x vs H. reflexivity.
  - intros n' d fs If r Ir pre i n q' sel x vs H. cbn [poke_variants strip_variants]. destruct i as [|j].
    + destruct (String.eqb n' n) eqn:E; [|reflexivity]. apply String.eqb_eq in E. subst n'.
      destruct q' as [|m q'']; [reflexivity|]. apply If. rewrite <- app_assoc. exact H.
    + apply Ir, H.
  - intros pre i n q' sel x y H. reflexivity.
  - intros n' d t It r Ir pre i n q' sel x y H. cbn [poke_alts strip_alts]. destruct i as [|j].
    + destruct (String.eqb n' n) eqn:E; [|reflexivity]. apply String.eqb_eq in E. subst n'.
      apply It. rewrite <- app_assoc. exact H.
    + apply Ir, H.
Qed.
End Poke.

(* changing the value at a malleable (or removed) path — in whichever input / output / element —
   to anything whatsoever does not change strip; no typing hypothesis is needed *)
Theorem strip_poke k p sel x v :
  In p (malleable k ++ removed k) -> strip k (poke (kind_ty k) p sel x v) = strip k v.
Proof.
  intros Hin. unfold strip. apply (proj1 (strip_poke_all (malleable k) (removed k))).
  cbn [app]. unfold in_mr, pmem. apply orb_true_iff. apply in_app_or in Hin.
  assert (R : forall q, path_eqb q q = true).
  { induction q as [|a q IH]; [reflexivity|]. cbn [path_eqb]. rewrite String.eqb_refl. exact IH. }
  destruct Hin as [Hin | Hin]; [left | right]; apply existsb_exists; exists p; auto.
Qed.

Theorem id_spec_malleable {D} (h : bytes -> D) c k v v' : strip k v = strip k v' -> id_spec h c k v = id_spec h c k v'.
Proof. intros E. unfold id_spec, id_preimage. rewrite E. reflexivity. Qed.

(* ================================================================ 4. binding *)
Lemma be8_inj a b : a < U64 -> b < U64 -> be8 a = be8 b -> a = b.
Proof.
  intros Ha Hb E. pose proof (read_word_be8 a [] Ha) as R1. pose proof (read_word_be8 b [] Hb) as R2.
  rewrite E in R1. rewrite R1 in R2. congruence.
Qed.
Lemma app_eq_len {A} (a a' b b' : list A) : length a = length a' -> a ++ b = a' ++ b' -> a = a' /\ b = b'.
Proof.
  revert a'. induction a as [|x a IH]; intros [|y a'] Hl E; try discriminate Hl; cbn [app] in *; [auto|].
  injection E as -> E. injection Hl as Hl. destruct (IH _ Hl E) as [-> ->]. auto.
Qed.
Lemma kind_is_codec k : is_codec_type (kind_ty k).
Proof. destruct k; unfold is_codec_type, codec_types; cbn [map snd In kind_ty]; tauto. Qed.

(* well-formed = typed and wf (the hypothesis of the round-trip theorem of the codec family) *)
Definition wfv (k : kind) (v : val) : bool := typed (kind_ty k) v && wf L (kind_ty k) v.

Lemma enc_inj k s s' : wfv k s = true -> wfv k s' = true ->
  enc (kind_ty k) s = enc (kind_ty k) s' -> erase (kind_ty k) s = erase (kind_ty k) s'.
Proof.
  intros H H' E. apply andb_true_iff in H as [Ht Hw]. apply andb_true_iff in H' as [Ht' Hw'].
  pose proof (proj2 (inst_roundtrip _ s [] (kind_is_codec k) Ht Hw)) as R.
  pose proof (proj2 (inst_roundtrip _ s' [] (kind_is_codec k) Ht' Hw')) as R'.
  rewrite E in R. rewrite R in R'. congruence.
Qed.

Theorem preimage_binding c c' k v v' :
  c < U64 -> c' < U64 -> wfv k (strip k v) = true -> wfv k (strip k v') = true ->
  c <> c' \/ content k v <> content k v' ->
  id_preimage c k v <> id_preimage c' k v'.
Proof.
  intros Hc Hc' Hv Hv' Hne E. unfold id_preimage in E.
  apply app_eq_len in E as [E1 E2]; [|rewrite !be8_length; reflexivity].
  apply (be8_inj _ _ Hc Hc') in E1. apply (enc_inj k _ _ Hv Hv') in E2.
  destruct Hne as [Hne | Hne]; [exact (Hne E1) | exact (Hne E2)].
Qed.

Theorem id_binding {D} (h : bytes -> D) c c' k v v' :
  c < U64 -> c' < U64 -> wfv k (strip k v) = true -> wfv k (strip k v') = true ->
  c <> c' \/ content k v <> content k v' ->
  (h (id_preimage c k v) = h (id_preimage c' k v') -> id_preimage c k v = id_preimage c' k v') ->
  id_spec h c k v <> id_spec h c' k v'.
Proof.
  intros Hc Hc' Hv Hv' Hne Hcf E. exact (preimage_binding c c' k v v' Hc Hc' Hv Hv' Hne (Hcf E)).
Qed.

(* ================================================================ 5. cache *)
Theorem cache_correct {D} (h : bytes -> D) c (m : mtx) :
  cached_id (precompute h c true m) = Some (fresh_id h c (m_kind m) (m_val m)) /\
  id_model h c (precompute h c true m) = fresh_id h c (m_kind m) (m_val m) /\
  cached_id (precompute h c false m) = None /\
  id_model h c (precompute h c false m) = fresh_id h c (m_kind m) (m_val m) /\
  precompute h c true (precompute h c true m) = precompute h c true m.
Proof. repeat split. Qed.

(* ================================================================ non-vacuity *)
Definition ex_tx_of (inputs : list val) : val :=
  match ex_script_tx inputs (ex_policies 21 [3; 0; 9; 0; 11; 0]) with VE _ [x] => x | _ => VUnit end.
Definition ex_contract_input : val :=
  VE 2 [VS [VS [VB (map (fun _ => 1) (zeros 32)); VN 3]; VB (map (fun _ => 7) (zeros 32));
            VB (map (fun _ => 8) (zeros 32)); VS [VN 5; VN 6]; VB zero32]].
Definition ex_tx1 : val := ex_tx_of [ex_coin_predicate [1; 2; 3] [9]; ex_message_data_signed [5]; ex_contract_input].
(* same transaction, other owner of the first input *)
Definition ex_tx2 : val :=
  poke S_Script ["inputs"; "CoinPredicate"; "owner"] [0%nat] (VB (map (fun _ => 9) (zeros 32))) ex_tx1.

Example ex_wf : wfv KScript ex_tx1 = true /\ wfv KScript (strip KScript ex_tx1) = true /\
                wfv KScript (strip KScript ex_tx2) = true /\ strip KScript ex_tx1 <> ex_tx1.
Proof. vm_compute. repeat split; discriminate. Qed.
Example ex_content_differs : content KScript ex_tx1 <> content KScript ex_tx2.
Proof. vm_compute. discriminate. Qed.
(* a malleable change: the contract input's balance root *)
Example ex_malleable_change :
  let v' := poke S_Script ["inputs"; "Contract"; "balance_root"] [2%nat] (VB (map (fun _ => 99) (zeros 32))) ex_tx1 in
  v' <> ex_tx1 /\ strip KScript v' = strip KScript ex_tx1.
Proof. vm_compute. split; [discriminate | reflexivity]. Qed.
(* the collision-freeness premise is satisfiable: the identity is an injective "hash" *)
Example ex_collision_free :
  id_spec (fun b : bytes => b) 0 KScript ex_tx1 <> id_spec (fun b : bytes => b) 0 KScript ex_tx2.
Proof.
  apply id_binding; try (vm_compute; reflexivity); try apply ex_wf; [right; apply ex_content_differs | auto].
Qed.

(* the model's id is insensitive to malleable fields as well (both values typed) *)
Theorem id_model_malleable_field {D} (h : bytes -> D) c k p sel x v :
  In p (malleable k ++ removed k) ->
  typed (kind_ty k) v = true -> typed (kind_ty k) (poke (kind_ty k) p sel x v) = true ->
  id_model h c {| m_kind := k; m_val := poke (kind_ty k) p sel x v; m_cache := None |} =
  id_model h c {| m_kind := k; m_val := v; m_cache := None |}.
Proof.
  intros Hin Hv Hv'. rewrite !id_model_formula by assumption. apply id_spec_malleable, strip_poke, Hin.
Qed.
