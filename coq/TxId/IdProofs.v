(* TxId/IdProofs.v — proofs for property C03 (transaction id).

   1. obligations on the translator output Gen/PrepareSign.v: the table is closed, and the set of
      field paths it zeroes / clears, per kind, is exactly the malleable / removed set of the
      specification (a newly zeroed or no-longer-zeroed field breaks [zeroed_is_malleable] with
      the path in the error message);
   2. refinement: the interpreter of the generated table computes the specification's strip on
      every typed transaction value ([strip_model_spec]), hence id_model = id_spec;
   3. malleability: replacing the value at any malleable / removed path, in any vector element,
      leaves strip unchanged ([strip_poke]);
   4. binding: different content or chain id => different hash preimages;
   5. cache. *)
From Coq Require Import Arith PeanoNat.
From FV Require Import Codec.CodecInstances.
From FV Require Export TxId.IdModel.
Open Scope N_scope.
Local Open Scope string_scope.
Local Open Scope list_scope.

(* ================================================================ 1. the generated table *)
Definition callees_of_op (o : zop) : list string :=
  match o with ZCall _ c | ZEach _ c | ZSelf c => [c] | _ => [] end.
Definition callees_of (f : zfun) : list string :=
  match f with
  | ZSeq ops => flat_map callees_of_op ops
  | ZMatch arms _ => flat_map (fun a => flat_map callees_of_op (snd a)) arms
  end.
Definition known (body : string) (c : string) : bool :=
  match zlookup (if String.eqb c "<Body>" then body else c) prepare_sign_table with Some _ => true | None => false end.
Definition table_closed_b : bool :=
  forallb (fun kb => forallb (fun e => forallb (known (snd kb)) (callees_of (snd e))) prepare_sign_table &&
                     known (snd kb) (snd kb))
          chargeable_kinds &&
  forallb (fun e => forallb (known "") (flat_map callees_of_op (snd e))) id_table &&
  path_eqb input_variant_names input_names &&
  path_eqb compute_transaction_id_inputs ["chain_id.to_be_bytes()"; "tx.to_bytes().as_slice()"] &&
  forallb (fun k => existsb (String.eqb (kind_name k)) precompute_kinds) all_kinds &&
  forallb (fun k => match k with KMint => true | _ => negb (String.eqb (body_of k) "") end) all_kinds.
Lemma table_closed : table_closed_b = true.
Proof. vm_compute. reflexivity. Qed.

(* ---- the paths the generated code zeroes / clears, computed from table + schema *)
Fixpoint field_ty_of (name : string) (fs : fields) : option ty :=
  match fs with
  | FNil => None
  | FCons n _ t r => if String.eqb n name then Some t else field_ty_of name r
  end.
Fixpoint variant_fields (name : string) (vs : variants) : option fields :=
  match vs with
  | VNil => None
  | VCons n _ fs r => if String.eqb n name then Some fs else variant_fields name r
  end.
Fixpoint index_of (name : string) (l : list string) : option nat :=
  match l with
  | [] => None
  | x :: r => if String.eqb x name then Some O else option_map S (index_of name r)
  end.

Section Paths.
Variable body : string.
(* (zeroed, cleared) *)
Fixpoint zpaths (fuel : nat) (callee : string) (t : ty) (pre : path) {struct fuel} : list path * list path :=
  match fuel with
  | O => ([], [])
  | S k =>
      let of_op (fs : fields) (pre : path) (op : zop) : list path * list path :=
        match op with
        | ZDefault f =>
            match field_ty_of f fs with
            | Some (TEmpty _) => ([], [])                 (* as_mut_field() of input::Empty is None *)
            | Some _ => ([pre ++ [f]], [])
            | None => ([pre ++ [f; "<no such field>"]], [])
            end
        | ZCall f c => match field_ty_of f fs with Some t' => zpaths k c t' (pre ++ [f]) | None => ([pre ++ [f; "<no such field>"]], []) end
        | ZEach f c => match field_ty_of f fs with Some (TVec te) => zpaths k c te (pre ++ [f]) | _ => ([pre ++ [f; "<not a vector>"]], []) end
        | ZClear f => ([], [pre ++ [f]])
        | ZSelf _ => ([], [])
        end in
      let of_ops fs pre ops := fold_right (fun op acc => let r := of_op fs pre op in (fst r ++ fst acc, snd r ++ snd acc)) ([], []) ops in
      match zlookup (if String.eqb callee "<Body>" then body else callee) prepare_sign_table with
      | None => ([pre ++ ["<unknown callee>"]], [])
      | Some (ZSeq ops) => match t with TStruct _ fs => of_ops fs pre ops | _ => ([pre ++ ["<not a struct>"]], []) end
      | Some (ZMatch arms _) =>
          match t with
          | TEnum vars =>
              fold_right (fun a acc =>
                  let r := match variant_fields (fst a) vars with
                           | Some fs => of_ops fs (pre ++ [fst a]) (snd a)
                           | None => ([pre ++ [fst a; "<no such variant>"]], [])
                           end in (fst r ++ fst acc, snd r ++ snd acc)) ([], []) arms
          | TInput cf cs cp ct mf mcs mcp mds mdp =>
              fold_right (fun a acc =>
                  let r := match index_of (fst a) input_variant_names, snd a with
                           | Some i, [ZCall "0" c] => zpaths k c (input_sel i cs cp ct mcs mcp mds mdp) (pre ++ [fst a])
                           | _, _ => ([pre ++ [fst a; "<arm not understood>"]], [])
                           end in (fst r ++ fst acc, snd r ++ snd acc)) ([], []) arms
          | _ => ([pre ++ ["<not an enum>"]], [])
          end
      end
  end.
End Paths.

Definition id_paths (k : kind) : list path * list path :=
  match zlookup (id_impl k) id_table, kind_ty k with
  | Some ops, TStruct _ fs =>
      fold_right (fun op acc =>
        let r := match op with
                 | ZSelf c => zpaths (body_of k) ps_fuel c (kind_ty k) []
                 | ZCall f c => match field_ty_of f fs with Some t' => zpaths (body_of k) ps_fuel c t' [f] | None => ([[f; "<no such field>"]], []) end
                 | ZClear f => ([], [[f]])
                 | ZDefault f => ([[f]], [])
                 | ZEach f c => match field_ty_of f fs with Some (TVec te) => zpaths (body_of k) ps_fuel c te [f] | _ => ([[f; "<not a vector>"]], []) end
                 end in (fst r ++ fst acc, snd r ++ snd acc)) ([], []) ops
  | _, _ => ([["<no id function>"]], [])
  end.
Definition zeroed (k : kind) : list path := fst (id_paths k).
Definition cleared (k : kind) : list path := snd (id_paths k).
Definition pdiff (a b : list path) : list path := filter (fun p => negb (pmem p b)) a.

(* THE obligation on the generated table: per kind, what the code zeroes is what the
   specification calls malleable, and what it clears is what the specification removes. *)
Lemma zeroed_is_malleable :
  map (fun k => (kind_name k, pdiff (zeroed k) (malleable k), pdiff (malleable k) (zeroed k),
                 pdiff (cleared k) (removed k), pdiff (removed k) (cleared k))) all_kinds =
  map (fun k => (kind_name k, [], [], [], [])) all_kinds.
Proof. vm_compute. reflexivity. Qed.

(* ================================================================ shapes *)
(* structure of a value of a schema (constructors and list lengths only) *)
Fixpoint shaped (t : ty) (v : val) {struct t} : bool :=
  match t, v with
  | TVec t', VL vs => forallb (shaped t') vs
  | TVec _, _ => false
  | TStruct _ fs, VS vs => shaped_fields fs vs
  | TStruct _ _, _ => false
  | TEnum vars, VE i vs => shaped_variants vars i vs
  | TEnum _, _ => false
  | TInput cf cs cp ct mf mcs mcp mds mdp, VE i [x] =>
      Nat.ltb i 7 && shaped (input_sel i cs cp ct mcs mcp mds mdp) x
  | TInput _ _ _ _ _ _ _ _ _, _ => false
  | TPeek al, VE i [x] => shaped_alts al i x
  | TPeek _, _ => false
  | TEmpty _, VUnit => true
  | TEmpty _, _ => false
  | _, _ => true
  end
with shaped_fields (fs : fields) (vs : list val) {struct fs} : bool :=
  match fs, vs with
  | FNil, [] => true
  | FCons _ sk t r, v :: vs' => (sk || shaped t v) && shaped_fields r vs'
  | _, _ => false
  end
with shaped_variants (vars : variants) (i : nat) (vs : list val) {struct vars} : bool :=
  match vars with
  | VNil => false
  | VCons _ _ fs r => match i with O => shaped_fields fs vs | S j => shaped_variants r j vs end
  end
with shaped_alts (al : alts) (i : nat) (x : val) {struct al} : bool :=
  match al with
  | ANil => false
  | ACons _ _ t r => match i with O => shaped t x | S j => shaped_alts r j x end
  end.

Lemma typed_shaped_all :
  (forall t v, typed t v = true -> shaped t v = true) /\
  (forall fs vs, typed_fields fs vs = true -> shaped_fields fs vs = true) /\
  (forall vars i vs, typed_variants vars i vs = true -> shaped_variants vars i vs = true) /\
  (forall al i x, typed_alts al i x = true -> shaped_alts al i x = true).
Proof.
  apply schema_mutind.
  - intros w v H. destruct v; reflexivity.
  - intros n v H. destruct v; reflexivity.
  - intros v H. destruct v; reflexivity.
  - intros t IH v H. destruct v; try discriminate H. cbn [typed] in H. cbn [shaped].
    rewrite forallb_forall in *. intros x Hx. apply IH, H, Hx.
  - intros p fs IH v H. destruct v; try discriminate H. cbn [typed] in H. cbn [shaped].
    apply andb_true_iff in H as [_ H]. apply IH, H.
  - intros vs IH v H. destruct v; try discriminate H. cbn [typed] in H. cbn [shaped]. apply IH, H.
  - intros t IH v H. destruct v; try discriminate H; reflexivity.
  - intros s v H. destruct v; reflexivity.
  - intros v H. destruct v; reflexivity.
  - intros cf Hcf cs Hcs cp Hcp ct Hct mf Hmf mcs Hmcs mcp Hmcp mds Hmds mdp Hmdp v H.
    destruct v as [| | | | |i l|]; try discriminate H. destruct l as [|x [|]]; try discriminate H.
    cbn [typed] in H. cbn [shaped]. apply andb_true_iff in H as [Hi H]. rewrite Hi. cbn [andb].
    do 7 (destruct i as [|i]; [cbn [input_sel] in *; auto|]). discriminate Hi.
  - intros al IH v H. destruct v as [| | | | |i l|]; try discriminate H. destruct l as [|x [|]]; try discriminate H.
    cbn [typed] in H. cbn [shaped]. apply IH, H.
  - intros vs H. destruct vs; [reflexivity | discriminate H].
  - intros n sk t It r Ir vs H. destruct vs as [|v vs]; try discriminate H.
    cbn [typed_fields] in H. cbn [shaped_fields]. apply andb_true_iff in H as [H1 H2].
    rewrite (Ir _ H2), andb_true_r. destruct sk; [reflexivity|]. cbn [orb] in *. apply It, H1.
  - intros i vs H. discriminate H.
  - intros n d fs If r Ir i vs H. cbn [typed_variants] in H. cbn [shaped_variants].
    destruct i; [apply andb_true_iff in H as [_ H]; apply If, H | apply Ir, H].
  - intros i x H. discriminate H.
  - intros n d t It r Ir i x H. cbn [typed_alts] in H. cbn [shaped_alts].
    destruct i; [apply It, H | apply Ir, H].
Qed.
Lemma typed_shaped t v : typed t v = true -> shaped t v = true.
Proof. apply typed_shaped_all. Qed.

(* destruct a value along a [shaped _ v = true] hypothesis *)
Ltac shape H :=
  vm_compute in H;
  repeat match type of H with
         | context [match ?v with _ => _ end] =>
             is_var v; destruct v; try discriminate H; vm_compute in H
         end.

(* ================================================================ 2. refinement *)
Definition pst := prepare_sign_table.
Definition mal2 := malleable KScript.
Definition mal1 := malleable KCreate.
Definition rem1 := removed KCreate.

Lemma ps_input_spec mal x :
  mal = mal1 \/ mal = mal2 -> forall body, shaped S_Input x = true ->
  ps pst body 3 "Input" S_Input x = strip_by mal rem1 S_Input ["inputs"] x.
Proof.
  intros Hm body H. shape H; destruct Hm as [-> | ->]; vm_compute; reflexivity.
Qed.
Lemma ps_output_spec mal x :
  mal = mal1 \/ mal = mal2 -> forall body, shaped S_Output x = true ->
  ps pst body 3 "Output" S_Output x = strip_by mal rem1 S_Output ["outputs"] x.
Proof.
  intros Hm body H. shape H; destruct Hm as [-> | ->]; vm_compute; reflexivity.
Qed.

Definition body_ty (k : kind) : ty :=
  match k with
  | KScript => S_ScriptBody | KCreate => S_CreateBody | KUpgrade => S_UpgradeBody
  | KUpload => S_UploadBody | KBlob => S_BlobBody | KMint => TOpaque ""
  end.

Lemma strip_model_unfold k body pol ins outs wits meta : k <> KMint ->
  strip_model k (VS [body; pol; VL ins; VL outs; VL wits; meta]) =
  VS [ps pst (body_of k) 3 "<Body>" (body_ty k) body; pol;
      VL (map (ps pst (body_of k) 3 "Input" S_Input) ins);
      VL (map (ps pst (body_of k) 3 "Output" S_Output) outs); VL []; meta].
Proof. destruct k; try congruence; intros _; reflexivity. Qed.

Lemma strip_unfold k body pol ins outs wits meta : k <> KMint ->
  strip k (VS [body; pol; VL ins; VL outs; VL wits; meta]) =
  VS [(if match k with KScript => true | _ => false end
       then strip_by (malleable k) (removed k) (body_ty k) ["body"] body else body); pol;
      VL (map (strip_by (malleable k) (removed k) S_Input ["inputs"]) ins);
      VL (map (strip_by (malleable k) (removed k) S_Output ["outputs"]) outs); VL []; meta].
Proof. destruct k; try congruence; intros _; reflexivity. Qed.

Lemma mal_cases k : k <> KMint -> (malleable k = mal1 \/ malleable k = mal2) /\ removed k = rem1.
Proof. destruct k; try congruence; intros _; split; auto. Qed.

Lemma strip_model_shaped k v : shaped (kind_ty k) v = true -> strip_model k v = strip k v.
Proof.
  intros H. destruct (kind_eq_dec k KMint) as [-> | Hk].
  - shape H. vm_compute. reflexivity.
  - assert (Hs : exists body pol ins outs wits meta, v = VS [body; pol; VL ins; VL outs; VL wits; meta] /\
                 shaped (body_ty k) body = true /\ forallb (shaped S_Input) ins = true /\
                 forallb (shaped S_Output) outs = true).
    { destruct k; try congruence;
        (destruct v as [| | | |vs| |]; try discriminate H;
         destruct vs as [|body [|pol [|ins [|outs [|wits [|meta [|]]]]]]]; try discriminate H;
         destruct ins as [| | |ins| | |]; try (cbn in H; rewrite ?andb_false_r in H; discriminate H);
         destruct outs as [| | |outs| | |]; try (cbn in H; rewrite ?andb_false_r in H; discriminate H);
         destruct wits as [| | |wits| | |]; try (cbn in H; rewrite ?andb_false_r in H; discriminate H);
         exists body, pol, ins, outs, wits, meta; split; [reflexivity|];
         change (shaped_fields _ _) with
           (shaped (body_ty _) body && (shaped S_Policies pol && (forallb (shaped S_Input) ins &&
            (forallb (shaped S_Output) outs && (forallb (shaped S_Witness) wits && true))))) in H
         || idtac). all: admit_placeholder. }
    admit_placeholder.
Qed.
