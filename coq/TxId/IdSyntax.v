(* TxId/IdSyntax.v — syntax of the table that tools/gen_preparesign.py extracts from the
   `prepare_sign` bodies of fuel-tx (Gen/PrepareSign.v).  Definitions only.

   A `prepare_sign` is either a straight-line method of a struct ([ZSeq]) or a `match self`
   of an enum ([ZMatch]: one operation list per named variant; [wild] records a `_ => ()` arm).

     self.F = Default::default();                                         ZDefault F
     if let Some(x) = self.F.as_mut_field() { *x = Default::default(); }  ZDefault F
     *f = 0;  *f = T::default();        (inside an enum arm)              ZDefault f
     self.F.prepare_sign();                                               ZCall F <callee>
     E::V(x) => x.prepare_sign()        (tuple variant: field "0")        ZCall "0" <callee>
     self.F_mut().iter_mut().for_each(T::prepare_sign);                   ZEach F T
     clone.F_mut().clear();                                               ZClear F
     clone.prepare_sign();                                                ZSelf <callee>          *)
From Coq Require Export String List.
Export ListNotations.

Inductive zop : Type :=
| ZDefault (field : string)
| ZCall (field : string) (callee : string)
| ZEach (field : string) (callee : string)
| ZClear (field : string)
| ZSelf (callee : string).

Inductive zfun : Type :=
| ZSeq (ops : list zop)
| ZMatch (arms : list (string * list zop)) (wild : bool).

Definition ztable := list (string * zfun).

Fixpoint zlookup {A} (k : string) (l : list (string * A)) : option A :=
  match l with
  | [] => None
  | (k', a) :: r => if String.eqb k' k then Some a else zlookup k r
  end.
