(* TxId/IdSpec.v — L3 specification of the transaction id (property C03), written from the
   property text (and the "Note" sections of fuel-specs tx-format it paraphrases), independent
   of the code:

     id(chain, tx) = H( be8(chain) ++ canonical_encoding( strip(tx) ) )

   where strip(tx) is tx with exactly the *malleable* fields replaced by their zero value and
   the witnesses removed.  The malleable fields are listed below as field paths into the
   schemas of Gen/Schemas.v (a step is a field name or an enum variant name; vector elements
   do not add a step).  Everything not listed is non-malleable.

   Definitions only. *)
From FV Require Export Codec.CodecModel Gen.Schemas.
Open Scope N_scope.
Local Open Scope string_scope.
Local Open Scope list_scope.

(* ---------------------------------------------------------------- kinds *)
Inductive kind : Type := KScript | KCreate | KMint | KUpgrade | KUpload | KBlob.

(* index of the kind in `enum Transaction` (neutral form VE i [x] of S_Transaction) *)
Definition kind_index (k : kind) : nat :=
  match k with KScript => 0 | KCreate => 1 | KMint => 2 | KUpgrade => 3 | KUpload => 4 | KBlob => 5 end%nat.
Definition kind_of_index (i : nat) : option kind :=
  match i with
  | 0 => Some KScript | 1 => Some KCreate | 2 => Some KMint | 3 => Some KUpgrade | 4 => Some KUpload
  | 5 => Some KBlob | _ => None
  end%nat.
Definition kind_ty (k : kind) : ty :=
  match k with
  | KScript => S_Script | KCreate => S_Create | KMint => S_Mint
  | KUpgrade => S_Upgrade | KUpload => S_Upload | KBlob => S_Blob
  end.
Definition kind_name (k : kind) : string :=
  match k with
  | KScript => "Script" | KCreate => "Create" | KMint => "Mint"
  | KUpgrade => "Upgrade" | KUpload => "Upload" | KBlob => "Blob"
  end.
Definition all_kinds : list kind := [KScript; KCreate; KMint; KUpgrade; KUpload; KBlob].

(* ---------------------------------------------------------------- field paths *)
Definition path := list string.
Fixpoint path_eqb (a b : path) : bool :=
  match a, b with
  | [], [] => true
  | x :: a', y :: b' => String.eqb x y && path_eqb a' b'
  | _, _ => false
  end.
Definition pmem (p : path) (l : list path) : bool := existsb (path_eqb p) l.
(* p is a proper prefix of q *)
Fixpoint proper_prefix (p q : path) : bool :=
  match p, q with
  | [], _ :: _ => true
  | x :: p', y :: q' => String.eqb x y && proper_prefix p' q'
  | _, _ => false
  end.

(* variant names of `enum Input`, in declaration order (index of the neutral form) *)
Definition input_names : list string :=
  ["CoinSigned"; "CoinPredicate"; "Contract"; "MessageCoinSigned"; "MessageCoinPredicate";
   "MessageDataSigned"; "MessageDataPredicate"].

(* ---------------------------------------------------------------- the malleable fields (from the text) *)
(* "change and variable output amounts/recipients/assets": the amount of a change output; the
   recipient, amount and asset of a variable output (fuel-specs tx-format/output.md) *)
Definition mal_outputs : list path := [
  ["outputs"; "Change"; "amount"];
  ["outputs"; "Variable"; "to"]; ["outputs"; "Variable"; "amount"]; ["outputs"; "Variable"; "asset_id"];
  (* "contract ... output roots" *)
  ["outputs"; "Contract"; "0"; "balance_root"]; ["outputs"; "Contract"; "0"; "state_root"]].
Definition mal_inputs : list path := [
  (* "contract input ... roots and UTXO data" *)
  ["inputs"; "Contract"; "utxo_id"]; ["inputs"; "Contract"; "balance_root"];
  ["inputs"; "Contract"; "state_root"]; ["inputs"; "Contract"; "tx_pointer"];
  (* "coin tx pointers" *)
  ["inputs"; "CoinSigned"; "tx_pointer"]; ["inputs"; "CoinPredicate"; "tx_pointer"];
  (* "predicate gas used" *)
  ["inputs"; "CoinPredicate"; "predicate_gas_used"];
  ["inputs"; "MessageCoinPredicate"; "predicate_gas_used"];
  ["inputs"; "MessageDataPredicate"; "predicate_gas_used"]].
(* Mint: the contract input and output it carries *)
Definition mal_mint : list path := [
  ["input_contract"; "utxo_id"]; ["input_contract"; "balance_root"];
  ["input_contract"; "state_root"]; ["input_contract"; "tx_pointer"];
  ["output_contract"; "balance_root"]; ["output_contract"; "state_root"]].

Definition malleable (k : kind) : list path :=
  match k with
  | KMint => mal_mint
  | KScript => ["body"; "receipts_root"] :: mal_inputs ++ mal_outputs      (* "receipts root" *)
  | _ => mal_inputs ++ mal_outputs
  end.
(* "witnesses removed" *)
Definition removed (k : kind) : list path :=
  match k with KMint => [] | _ => [["witnesses"]] end.

(* ---------------------------------------------------------------- strip *)
Section Strip.
Variable mal rem : list path.

Definition below (p : path) : bool := existsb (proper_prefix p) (mal ++ rem).

(* One schema-directed pass: a field whose path is in [rem] becomes the empty vector, a field
   whose path is in [mal] becomes Default (all-zero); nothing else changes. *)
Fixpoint strip_by (t : ty) (pre : path) (v : val) {struct t} : val :=
  match t, v with
  | TVec t', VL vs => VL (map (strip_by t' pre) vs)
  | TStruct _ fs, VS vs => VS (strip_fields fs pre vs)
  | TEnum vars, VE i vs => VE i (strip_variants vars pre i vs)
  | TInput cf cs cp ct mf mcs mcp mds mdp, VE i [x] =>
      VE i [strip_by (input_sel i cs cp ct mcs mcp mds mdp) (pre ++ [nth i input_names ""]) x]
  | TPeek al, VE i [x] => VE i [strip_alts al pre i x]
  | _, _ => v
  end
with strip_fields (fs : fields) (pre : path) (vs : list val) {struct fs} : list val :=
  match fs, vs with
  | FCons n _ t r, v :: vs' =>
      let p := pre ++ [n] in
      (if pmem p rem then VL []
       else if pmem p mal then default_val t
       else if below p then strip_by t p v
       else v) :: strip_fields r pre vs'
  | _, _ => vs
  end
with strip_variants (vars : variants) (pre : path) (i : nat) (vs : list val) {struct vars} : list val :=
  match vars with
  | VNil => vs
  | VCons n _ fs r =>
      match i with O => strip_fields fs (pre ++ [n]) vs | S j => strip_variants r pre j vs end
  end
with strip_alts (al : alts) (pre : path) (i : nat) (x : val) {struct al} : val :=
  match al with
  | ANil => x
  | ACons n _ t r => match i with O => strip_by t (pre ++ [n]) x | S j => strip_alts r pre j x end
  end.
End Strip.

Definition strip (k : kind) (v : val) : val := strip_by (malleable k) (removed k) (kind_ty k) [] v.

(* the non-malleable content: what the id commits to.  [erase] defaults the #[canonical(skip)]
   metadata field, which is not part of the encoding. *)
Definition content (k : kind) (v : val) : val := erase (kind_ty k) (strip k v).

(* ---------------------------------------------------------------- single-field change *)
(* [poke t q sel x v]: v with the value of the field at path q replaced by x.  Each vector
   crossed on the way consumes one index of [sel] (which element is changed); a path through
   an enum only applies to a value of that variant.  Used to state "changing a malleable
   field (of any input / output) to anything whatsoever". *)
Fixpoint set_nth {A} (i : nat) (f : A -> A) (l : list A) : list A :=
  match l, i with
  | [], _ => []
  | a :: r, O => f a :: r
  | a :: r, S j => a :: set_nth j f r
  end.

Fixpoint poke (t : ty) (q : path) (sel : list nat) (x : val) (v : val) {struct t} : val :=
  match t, v with
  | TVec t', VL vs =>
      match sel with
      | i :: sel' => VL (set_nth i (poke t' q sel' x) vs)
      | [] => v
      end
  | TStruct _ fs, VS vs =>
      match q with n :: q' => VS (poke_fields fs n q' sel x vs) | [] => v end
  | TEnum vars, VE i vs =>
      match q with n :: q' => VE i (poke_variants vars i n q' sel x vs) | [] => v end
  | TInput cf cs cp ct mf mcs mcp mds mdp, VE i [y] =>
      match q with
      | n :: q' =>
          if String.eqb (nth i input_names "") n
          then VE i [poke (input_sel i cs cp ct mcs mcp mds mdp) q' sel x y] else v
      | [] => v
      end
  | TPeek al, VE i [y] =>
      match q with n :: q' => VE i [poke_alts al i n q' sel x y] | [] => v end
  | _, _ => v
  end
with poke_fields (fs : fields) (n : string) (q' : path) (sel : list nat) (x : val) (vs : list val)
    {struct fs} : list val :=
  match fs, vs with
  | FCons n' _ t r, v :: vs' =>
      if String.eqb n' n
      then (match q' with [] => x | _ => poke t q' sel x v end) :: vs'
      else v :: poke_fields r n q' sel x vs'
  | _, _ => vs
  end
with poke_variants (vars : variants) (i : nat) (n : string) (q' : path) (sel : list nat) (x : val)
    (vs : list val) {struct vars} : list val :=
  match vars with
  | VNil => vs
  | VCons n' _ fs r =>
      match i with
      | O => if String.eqb n' n
             then (match q' with m :: q'' => poke_fields fs m q'' sel x vs | [] => vs end) else vs
      | S j => poke_variants r j n q' sel x vs
      end
  end
with poke_alts (al : alts) (i : nat) (n : string) (q' : path) (sel : list nat) (x : val) (y : val)
    {struct al} : val :=
  match al with
  | ANil => y
  | ACons n' _ t r =>
      match i with
      | O => if String.eqb n' n then poke t q' sel x y else y
      | S j => poke_alts r j n q' sel x y
      end
  end.

(* ---------------------------------------------------------------- the id *)
Definition id_preimage (c : N) (k : kind) (v : val) : bytes := be8 c ++ enc (kind_ty k) (strip k v).

Section Id.
Context {D : Type}.
Variable h : bytes -> D.
Definition id_spec (c : N) (k : kind) (v : val) : D := h (id_preimage c k v).
End Id.
