(* TxId/IdModel.v — L1 executable model of the transaction-id code of fuel-tx (property C03):

     PrepareSign::prepare_sign of every type        [ps]        interpreter of Gen/PrepareSign.v
     UniqueIdentifier::id (ChargeableTransaction, Mint)  [id_model]  cached id first; clone; the
                                                     operations of Gen/PrepareSign.id_table;
                                                     compute_transaction_id
     compute_transaction_id                          [hash_inputs]   hasher inputs in source order
     UniqueIdentifier::cached_id                     [cached_id]
     Cacheable::precompute                           [precompute]    metadata dropped, then id stored

   A transaction is a neutral value of its kind's schema (metadata field = VUnit) together
   with the cached id, if any ([mtx]).  Definitions only. *)
From FV Require Export TxId.IdSyntax TxId.IdSpec Gen.PrepareSign.
Open Scope N_scope.
Local Open Scope string_scope.
Local Open Scope list_scope.

(* ---------------------------------------------------------------- struct field update *)
Fixpoint upd_field (name : string) (fs : fields) (vs : list val) (f : ty -> val -> val) : list val :=
  match fs, vs with
  | FCons n _ t r, v :: vs' =>
      if String.eqb n name then f t v :: vs' else v :: upd_field name r vs' f
  | _, _ => vs
  end.

Fixpoint nth_variant_named (vs : variants) (i : nat) : option (string * fields) :=
  match vs, i with
  | VNil, _ => None
  | VCons n _ fs _, O => Some (n, fs)
  | VCons _ _ _ r, S j => nth_variant_named r j
  end.

Section PrepareSign.
Variable tbl : ztable.
(* the `Body` type parameter of ChargeableTransaction<Body, _> *)
Variable body_key : string.

Definition resolve (c : string) : string := if String.eqb c "<Body>" then body_key else c.

(* `x.prepare_sign()` for x : callee, described by schema t and value v.  [fuel] bounds the
   depth of the call graph (4 in the code); out of fuel / unknown callee = no operation (the
   statement `table_closed` in IdProofs.v shows neither happens for the generated table). *)
Fixpoint ps (fuel : nat) (callee : string) (t : ty) (v : val) {struct fuel} : val :=
  match fuel with
  | O => v
  | S k =>
      let op_fields (fs : fields) (vs : list val) (op : zop) : list val :=
        match op with
        | ZDefault f => upd_field f fs vs (fun t' _ => default_val t')
        | ZCall f c => upd_field f fs vs (ps k c)
        | ZEach f c => upd_field f fs vs (fun t' x =>
                         match t', x with TVec te, VL xs => VL (map (ps k c te) xs) | _, _ => x end)
        | ZClear f => upd_field f fs vs (fun t' x => match t' with TVec _ => VL [] | _ => x end)
        | ZSelf _ => vs
        end in
      match zlookup (resolve callee) tbl with
      | None => v
      | Some (ZSeq ops) =>
          match t, v with
          | TStruct _ fs, VS vs => VS (fold_left (op_fields fs) ops vs)
          | _, _ => v
          end
      | Some (ZMatch arms _) =>
          match t, v with
          | TEnum vars, VE i vs =>
              match nth_variant_named vars i with
              | Some (n, fs) =>
                  match zlookup n arms with
                  | Some ops => VE i (fold_left (op_fields fs) ops vs)
                  | None => v                                   (* `_ => ()` *)
                  end
              | None => v
              end
          | TInput cf cs cp ct mf mcs mcp mds mdp, VE i [x] =>
              match zlookup (nth i input_variant_names "") arms with
              | Some ops =>
                  (* tuple variant: the payload is field "0" *)
                  VE i (fold_left (op_fields (FCons "0" false (input_sel i cs cp ct mcs mcp mds mdp) FNil)) ops [x])
              | None => v
              end
          | _, _ => v
          end
      end
  end.

(* the operations of `id()` on the clone *)
Definition id_op (fuel : nat) (t : ty) (v : val) (op : zop) : val :=
  match op with
  | ZSelf c => ps fuel c t v
  | ZDefault f =>
      match t, v with TStruct p fs, VS vs => VS (upd_field f fs vs (fun t' _ => default_val t')) | _, _ => v end
  | ZCall f c =>
      match t, v with TStruct p fs, VS vs => VS (upd_field f fs vs (ps fuel c)) | _, _ => v end
  | ZEach f c =>
      match t, v with
      | TStruct p fs, VS vs =>
          VS (upd_field f fs vs (fun t' x =>
                match t', x with TVec te, VL xs => VL (map (ps fuel c te) xs) | _, _ => x end))
      | _, _ => v
      end
  | ZClear f =>
      match t, v with
      | TStruct p fs, VS vs => VS (upd_field f fs vs (fun t' x => match t' with TVec _ => VL [] | _ => x end))
      | _, _ => v
      end
  end.
End PrepareSign.

Definition ps_fuel : nat := 4.

(* which `impl UniqueIdentifier` a kind uses, and its Body *)
Definition id_impl (k : kind) : string := match k with KMint => "Mint" | _ => "ChargeableTransaction" end.
Definition body_of (k : kind) : string :=
  match zlookup (kind_name k) chargeable_kinds with Some b => b | None => "" end.

(* the clone after `prepare_sign` / `witnesses_mut().clear()` *)
Definition strip_model (k : kind) (v : val) : val :=
  match zlookup (id_impl k) id_table with
  | Some ops => fold_left (fun x op => id_op prepare_sign_table (body_of k) ps_fuel (kind_ty k) x op) ops v
  | None => v
  end.

(* compute_transaction_id: the hasher inputs, concatenated in source order *)
Definition hash_input (c : N) (t : ty) (v : val) (what : string) : bytes :=
  if String.eqb what "chain_id.to_be_bytes()" then be8 c
  else if String.eqb what "tx.to_bytes().as_slice()" then enc t v
  else [].
Definition hash_inputs (c : N) (t : ty) (v : val) : bytes :=
  flat_map (hash_input c t v) compute_transaction_id_inputs.

Definition preimage_model (c : N) (k : kind) (v : val) : bytes := hash_inputs c (kind_ty k) (strip_model k v).

(* ---------------------------------------------------------------- id, cache *)
Section Id.
Context {D : Type}.
Variable h : bytes -> D.

Record mtx : Type := { m_kind : kind; m_val : val; m_cache : option D }.

Definition fresh_id (c : N) (k : kind) (v : val) : D := h (preimage_model c k v).

(* UniqueIdentifier::id *)
Definition id_model (c : N) (m : mtx) : D :=
  match m_cache m with
  | Some i => i
  | None => fresh_id c (m_kind m) (m_val m)
  end.
Definition cached_id (m : mtx) : option D := m_cache m.

(* Cacheable::precompute: `self.metadata = None; self.metadata = Some(.. id: tx.id(chain_id) ..)`;
   [ok] = the other metadata computations (offsets, body metadata) succeed — otherwise `?`
   returns early and the metadata stays None *)
Definition precompute (c : N) (ok : bool) (m : mtx) : mtx :=
  let cleared := {| m_kind := m_kind m; m_val := m_val m; m_cache := None |} in
  if ok then {| m_kind := m_kind m; m_val := m_val m; m_cache := Some (id_model c cleared) |}
  else cleared.
End Id.
