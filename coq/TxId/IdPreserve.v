(* TxId/IdPreserve.v — `strip` preserves typing and well-formedness (closes the premise of the
   C03 binding theorem): generic over the schema universe for any malleable / removed path sets
   that only hit flat fields (whose Default is a typed, well-formed value) resp. vectors, and do
   not reach the predicate / data fields the Input well-formedness condition inspects. *)
From Coq Require Import Arith PeanoNat.
From FV Require Import Codec.CodecInstances.
From FV Require Export TxId.IdProofs.
Local Open Scope string_scope.
Local Open Scope list_scope.
Open Scope N_scope.

Section Preserve.
Variable mal rem : list path.
Definition is_vec (t : ty) : bool := match t with TVec _ => true | _ => false end.
Definition untouched (p : path) : bool := negb (pmem p rem) && negb (pmem p mal) && negb (below mal rem p).

(* what the path sets may touch *)
Fixpoint mal_ok (t : ty) (pre : path) {struct t} : bool :=
  match t with
  | TVec t' => mal_ok t' pre
  | TStruct _ fs => mal_ok_fields fs pre
  | TEnum vars => mal_ok_variants vars pre
  | TInput cf cs cp ct mf mcs mcp mds mdp =>
      forallb (fun j => let p := pre ++ [nth j input_names ""] in
                        mal_ok (input_sel j cs cp ct mcs mcp mds mdp) p &&
                        untouched (p ++ ["predicate"]) && untouched (p ++ ["data"])) (seq 0 7)
  | TPeek al => mal_ok_alts al pre
  | _ => true
  end
with mal_ok_fields (fs : fields) (pre : path) {struct fs} : bool :=
  match fs with
  | FNil => true
  | FCons n sk t r =>
      let p := pre ++ [n] in
      (if pmem p rem then is_vec t && negb sk
       else if pmem p mal then flat t && negb sk
       else if below mal rem p then mal_ok t p else true) && mal_ok_fields r pre
  end
with mal_ok_variants (vars : variants) (pre : path) {struct vars} : bool :=
  match vars with
  | VNil => true
  | VCons n _ fs r => mal_ok_fields fs (pre ++ [n]) && mal_ok_variants r pre
  end
with mal_ok_alts (al : alts) (pre : path) {struct al} : bool :=
  match al with
  | ANil => true
  | ACons n _ t r => mal_ok t (pre ++ [n]) && mal_ok_alts r pre
  end.

Notation sb := (strip_by mal rem).
Notation sf := (strip_fields mal rem).

Lemma forallb_seq7 (f : nat -> bool) j : forallb f (seq 0 7) = true -> (j < 7)%nat -> f j = true.
Proof. intros H Hj. rewrite forallb_forall in H. apply H. apply in_seq. lia. Qed.

(* ---------------------------------------------------------------- typed *)
Lemma strip_typed_all :
  (forall t pre v, mal_ok t pre = true -> typed t v = true -> typed t (sb t pre v) = true) /\
  (forall fs pre vs, mal_ok_fields fs pre = true -> typed_fields fs vs = true -> typed_fields fs (sf fs pre vs) = true) /\
  (forall vars pre i vs, mal_ok_variants vars pre = true -> typed_variants vars i vs = true ->
     typed_variants vars i (strip_variants mal rem vars pre i vs) = true) /\
  (forall al pre i x, mal_ok_alts al pre = true -> typed_alts al i x = true ->
     typed_alts al i (strip_alts mal rem al pre i x) = true).
Proof.
  apply schema_mutind.
  - intros w pre v _ H. destruct v; exact H.
  - intros n pre v _ H. destruct v; exact H.
  - intros pre v _ H. destruct v; exact H.
  - intros t IH pre v M H. destruct v; try discriminate H. cbn [strip_by typed] in *.
    rewrite forallb_forall in *. intros y Hy. apply in_map_iff in Hy as (x & <- & Hx). apply IH; auto.
  - intros p fs IH pre v M H. destruct v; try discriminate H. cbn [strip_by typed mal_ok] in *.
    apply andb_true_iff in H as [H1 H2]. rewrite H1. cbn [andb]. apply IH; assumption.
  - intros vars IH pre v M H. destruct v; try discriminate H. cbn [strip_by typed mal_ok] in *. apply IH; assumption.
  - intros t IH pre v _ H. destruct v; exact H.
  - intros s pre v _ H. destruct v; exact H.
  - intros pre v _ H. destruct v; exact H.
  - intros cf Hcf cs Hcs cp Hcp ct Hct mf Hmf mcs Hmcs mcp Hmcp mds Hmds mdp Hmdp pre v M H.
    destruct v as [| | | | |i l|]; try discriminate H. destruct l as [|x [|]]; try discriminate H.
    cbn [strip_by typed mal_ok] in *. apply andb_true_iff in H as [Hi H]. rewrite Hi. cbn [andb].
    assert (Hj : (i < 7)%nat) by (apply Nat.ltb_lt; exact Hi).
    pose proof (forallb_seq7 _ i M Hj) as Mi. cbv beta in Mi.
    apply andb_true_iff in Mi as [Mi _]. apply andb_true_iff in Mi as [Mi _].
    revert Mi H. generalize (pre ++ [nth i input_names ""]). intros p.
    apply (input_sel_cases (fun t => mal_ok t p = true -> typed t x = true -> typed t (sb t p x) = true)); auto.
  - intros al IH pre v M H. destruct v as [| | | | |i l|]; try discriminate H. destruct l as [|x [|]]; try discriminate H.
    cbn [strip_by typed mal_ok] in *. apply IH; assumption.
  - intros pre vs _ H. exact H.
  - intros n sk t It r Ir pre vs M H. destruct vs as [|v vs]; [discriminate H|].
    cbn [strip_fields typed_fields mal_ok_fields] in *. apply andb_true_iff in M as [M1 M2].
    apply andb_true_iff in H as [H1 H2]. rewrite (Ir pre vs M2 H2), andb_true_r.
    destruct (pmem (pre ++ [n]) rem).
    + apply andb_true_iff in M1 as [Mv Ms]. destruct sk; [discriminate Ms|]. cbn [orb].
      destruct t; try discriminate Mv. reflexivity.
    + destruct (pmem (pre ++ [n]) mal).
      * apply andb_true_iff in M1 as [Mf Ms]. destruct sk; [discriminate Ms|]. cbn [orb].
        apply (proj1 flat_default_typed), Mf.
      * destruct (below mal rem (pre ++ [n])); [|exact H1].
        destruct sk; [reflexivity|]. cbn [orb] in *. apply It; assumption.
  - intros pre i vs _ H. exact H.
  - intros n d fs If r Ir pre i vs M H. cbn [strip_variants typed_variants mal_ok_variants] in *.
    apply andb_true_iff in M as [M1 M2]. destruct i as [|j].
    + apply andb_true_iff in H as [Hd H]. rewrite Hd. cbn [andb]. apply If; assumption.
    + apply Ir; assumption.
  - intros pre i x _ H. exact H.
  - intros n d t It r Ir pre i x M H. cbn [strip_alts typed_alts mal_ok_alts] in *.
    apply andb_true_iff in M as [M1 M2]. destruct i as [|j]; [apply It | apply Ir]; assumption.
Qed.

(* ---------------------------------------------------------------- wf *)
Lemma get_field_strip name fs : forall pre vs, untouched (pre ++ [name]) = true ->
  get_field name fs (sf fs pre vs) = get_field name fs vs.
Proof.
  induction fs as [|n sk t r IH]; intros pre vs U; [destruct vs; reflexivity|].
  destruct vs as [|v vs]; [reflexivity|]. cbn [strip_fields get_field].
  destruct (String.eqb n name) eqn:E.
  - apply String.eqb_eq in E. subst n. unfold untouched in U.
    apply andb_true_iff in U as [U U3]. apply andb_true_iff in U as [U1 U2].
    apply negb_true_iff in U1, U2, U3. rewrite U1, U2, U3. reflexivity.
  - apply IH, U.
Qed.
Lemma nonempty_field_strip name p fs pre vs : untouched (pre ++ [name]) = true ->
  nonempty_field name (TStruct p fs) (VS (sf fs pre vs)) = nonempty_field name (TStruct p fs) (VS vs).
Proof. intros U. unfold nonempty_field, struct_field. rewrite (get_field_strip name fs pre vs U). reflexivity. Qed.

Lemma zero_le_L : 0 <=? L = true.
Proof. reflexivity. Qed.

Lemma strip_wf_all :
  (forall t pre v, mal_ok t pre = true -> typed t v = true -> wf L t v = true -> wf L t (sb t pre v) = true) /\
  (forall fs pre vs, mal_ok_fields fs pre = true -> typed_fields fs vs = true -> wf_fields L fs vs = true ->
     wf_fields L fs (sf fs pre vs) = true) /\
  (forall vars pre i vs, mal_ok_variants vars pre = true -> typed_variants vars i vs = true ->
     wf_variants L vars i vs = true -> wf_variants L vars i (strip_variants mal rem vars pre i vs) = true) /\
  (forall al pre i x, mal_ok_alts al pre = true -> typed_alts al i x = true -> wf_alts L al i x = true ->
     wf_alts L al i (strip_alts mal rem al pre i x) = true).
Proof.
  apply schema_mutind.
  - intros w pre v _ _ H. destruct v; exact H.
  - intros n pre v _ _ H. destruct v; exact H.
  - intros pre v _ _ H. destruct v; exact H.
  - intros t IH pre v M T H. destruct v; try discriminate T. cbn [strip_by wf mal_ok typed] in *.
    apply andb_true_iff in H as [H1 H2]. apply andb_true_iff. split.
    + unfold lenN in *. rewrite map_length. exact H1.
    + rewrite forallb_forall in *. intros y Hy. apply in_map_iff in Hy as (x & <- & Hx). apply IH; auto.
  - intros p fs IH pre v M T H. destruct v; try discriminate T. cbn [strip_by wf mal_ok typed] in *.
    apply andb_true_iff in T as [_ T]. apply IH; assumption.
  - intros vars IH pre v M T H. destruct v; try discriminate T. cbn [strip_by wf mal_ok typed] in *. apply IH; assumption.
  - intros t IH pre v _ _ H. destruct v; exact H.
  - intros s pre v _ _ H. destruct v; exact H.
  - intros pre v _ _ H. destruct v; exact H.
  - intros cf Hcf cs Hcs cp Hcp ct Hct mf Hmf mcs Hmcs mcp Hmcp mds Hmds mdp Hmdp pre v M T H.
    destruct v as [| | | | |i l|]; try discriminate T. destruct l as [|x [|]]; try discriminate T.
    cbn [strip_by wf mal_ok typed] in *. apply andb_true_iff in T as [Hi T].
    assert (Hj : (i < 7)%nat) by (apply Nat.ltb_lt; exact Hi).
    pose proof (forallb_seq7 _ i M Hj) as Mi. cbv beta in Mi.
    apply andb_true_iff in Mi as [Mi U2]. apply andb_true_iff in Mi as [Mi U1].
    apply andb_true_iff in H as [H1 H2]. apply andb_true_iff. split.
    + revert Mi T H1. generalize (pre ++ [nth i input_names ""]). intros p.
      apply (input_sel_cases (fun t => mal_ok t p = true -> typed t x = true -> wf L t x = true -> wf L t (sb t p x) = true)); auto.
    + (* the predicate / data fields are untouched *)
      revert U1 U2 H2. generalize (pre ++ [nth i input_names ""]). intros p U1 U2.
      generalize (input_sel i cs cp ct mcs mcp mds mdp). intros alt.
      destruct alt as [| | | |pp fs| | | | | |]; destruct x as [| | | |xs| |]; try (intros H2; exact H2).
      cbn [strip_by]. unfold input_variant_wf.
      rewrite !(nonempty_field_strip _ pp fs p xs) by assumption. intros H2; exact H2.
  - intros al IH pre v M T H. destruct v as [| | | | |i l|]; try discriminate T. destruct l as [|x [|]]; try discriminate T.
    cbn [strip_by wf mal_ok typed] in *. apply IH; assumption.
  - intros pre vs _ _ H. exact H.
  - intros n sk t It r Ir pre vs M T H. destruct vs as [|v vs]; [exact H|].
    cbn [strip_fields wf_fields mal_ok_fields typed_fields] in *. apply andb_true_iff in M as [M1 M2].
    apply andb_true_iff in T as [T1 T2].
    apply andb_true_iff in H as [H1 H2]. rewrite (Ir pre vs M2 T2 H2), andb_true_r.
    destruct (pmem (pre ++ [n]) rem).
    + apply andb_true_iff in M1 as [Mv Ms]. destruct sk; [discriminate Ms|]. cbn [orb].
      destruct t; try discriminate Mv. reflexivity.
    + destruct (pmem (pre ++ [n]) mal).
      * apply andb_true_iff in M1 as [Mf Ms]. destruct sk; [discriminate Ms|]. cbn [orb].
        apply (proj1 (flat_default_wf L)), Mf.
      * destruct (below mal rem (pre ++ [n])); [|exact H1].
        destruct sk; [reflexivity|]. cbn [orb] in *. apply It; assumption.
  - intros pre i vs _ _ H. exact H.
  - intros n d fs If r Ir pre i vs M T H. cbn [strip_variants wf_variants mal_ok_variants typed_variants] in *.
    apply andb_true_iff in M as [M1 M2]. destruct i as [|j].
    + apply andb_true_iff in T as [_ T]. apply If; assumption.
    + apply Ir; assumption.
  - intros pre i x _ _ H. exact H.
  - intros n d t It r Ir pre i x M T H. cbn [strip_alts wf_alts mal_ok_alts typed_alts] in *.
    apply andb_true_iff in M as [M1 M2]. destruct i as [|j]; [apply It | apply Ir]; assumption.
Qed.
End Preserve.

(* ---------------------------------------------------------------- the six kinds *)
Lemma kinds_mal_ok : forallb (fun k => mal_ok (malleable k) (removed k) (kind_ty k) []) all_kinds = true.
Proof. vm_compute. reflexivity. Qed.

(* strip keeps a transaction typed and well-formed *)
Theorem strip_preserves_wfv k v : wfv k v = true -> wfv k (strip k v) = true.
Proof.
  intros H. unfold wfv in *. apply andb_true_iff in H as [Ht Hw].
  assert (M : mal_ok (malleable k) (removed k) (kind_ty k) [] = true).
  { pose proof kinds_mal_ok as K. rewrite forallb_forall in K. apply K. destruct k; cbn; tauto. }
  apply andb_true_iff. split.
  - apply (proj1 (strip_typed_all (malleable k) (removed k))); assumption.
  - apply (proj1 (strip_wf_all (malleable k) (removed k))); assumption.
Qed.

(* the binding theorem with the well-formedness premise on the transactions themselves *)
Theorem id_binding_full {D} (h : bytes -> D) c c' k v v' :
  c < U64 -> c' < U64 -> wfv k v = true -> wfv k v' = true ->
  c <> c' \/ content k v <> content k v' ->
  (h (id_preimage c k v) = h (id_preimage c' k v') -> id_preimage c k v = id_preimage c' k v') ->
  id_spec h c k v <> id_spec h c' k v'.
Proof.
  intros Hc Hc' Hv Hv'. apply id_binding; auto using strip_preserves_wfv.
Qed.
