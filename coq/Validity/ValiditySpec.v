(* Validity/ValiditySpec.v — L3 specification for C19.

   What "a specification-valid transaction" means, written from the rule list of the
   property text and the fuel-specs transaction-validity rules (tx-format/transaction.md,
   tx-format/policy.md, protocol/tx-validity.md#sufficient-balance).  Nothing here follows
   the control flow of the Rust code: every rule is a named, order-free proposition over an
   abstract transaction record, and `Valid` is their conjunction.

   The abstract record carries exactly the quantities the rules mention.  Identifiers
   (UTXO id = tx id ++ output index, asset id, contract id, nonce, address) are the natural
   numbers their big-endian bytes denote; byte strings whose content no rule looks at are
   represented by their length; the facts whose definition belongs to other properties
   (serialized size: C01; max_gas: C18; contract id / state root: C15; Merkle proof of an
   upload subsection: C10; SHA-256 checksums) are carried as the value / the truth value the
   rule refers to. *)
From Coq Require Import List NArith ZArith Bool Lia.
Import ListNotations.
Open Scope N_scope.

(* ------------------------------------------------------------------ abstract data *)
Inductive input :=
| ICoinSigned (utxo owner amount asset witness_index : N)
| ICoinPredicate (utxo owner amount asset predicate_len predicate_data_len : N)
| IContract (utxo contract_id : N)
| IMessageCoinSigned (recipient amount nonce witness_index : N)
| IMessageCoinPredicate (recipient amount nonce predicate_len predicate_data_len : N)
| IMessageDataSigned (recipient amount nonce witness_index data_len : N)
| IMessageDataPredicate (recipient amount nonce data_len predicate_len predicate_data_len : N).

Inductive output :=
| OCoin (amount asset : N)
| OContract (input_index : N)
| OChange (asset : N)
| OVariable
| OContractCreated (contract_id state_root : N).

(* policy.md: a bitmask and one word per policy; policy k is present iff bit k is set.
   0 Tip, 1 WitnessLimit, 2 Maturity, 3 MaxFee, 4 Expiration, 5 Owner *)
Record policies := {
  p_bits : N;
  p_tip : N; p_witness_limit : N; p_maturity : N; p_max_fee : N; p_expiration : N; p_owner : N;
}.
Definition POL_TIP : N := 0.
Definition POL_WITNESS_LIMIT : N := 1.
Definition POL_MATURITY : N := 2.
Definition POL_MAX_FEE : N := 3.
Definition POL_EXPIRATION : N := 4.
Definition POL_OWNER : N := 5.
Definition policy_word (p : policies) (k : N) : N :=
  match k with
  | 0 => p_tip p | 1 => p_witness_limit p | 2 => p_maturity p
  | 3 => p_max_fee p | 4 => p_expiration p | 5 => p_owner p | _ => 0
  end.
Definition policy_set (p : policies) (k : N) : Prop := N.testbit (p_bits p) k = true.
(* the value of policy k, if present *)
Definition policy (p : policies) (k : N) : option N :=
  if N.testbit (p_bits p) k then Some (policy_word p k) else None.

Inductive upgrade_purpose :=
| UpConsensusParameters (witness_index : N) (checksum_matches decodes : bool)
| UpStateTransition.

Inductive body :=
| BScript (script_len script_data_len : N)
| BCreate (bytecode_witness_index : N) (storage_slot_keys : list N)
          (computed_contract_id computed_state_root : N)
| BUpgrade (purpose : upgrade_purpose)
| BUpload (subsections_number witness_index : N) (proof_verifies : bool)
| BBlob (witness_index : N) (blob_id_matches : bool).

(* Script / Create / Upgrade / Upload / Blob *)
Record ctx := {
  t_body : body;
  t_policies : policies;
  t_inputs : list input;
  t_outputs : list output;
  t_witnesses : list N;          (* byte length of every witness *)
  t_size : N;                    (* canonical serialized size in bytes *)
  t_max_gas : N;                 (* max_gas of the transaction (fee rules, C18) *)
}.
Record mint := {
  m_size : N;
  m_tx_pointer_height : N;
  m_output_input_index : N;
  m_asset : N;
}.
Inductive tx := TxCharge (t : ctx) | TxMint (m : mint).

Record params := {
  max_inputs : N; max_outputs : N; max_witnesses : N; max_gas_per_tx : N; max_size : N;
  max_bytecode_subsections : N;
  max_predicate_length : N; max_predicate_data_length : N; max_message_data_length : N;
  max_script_length : N; max_script_data_length : N;
  contract_max_size : N; max_storage_slots : N;
  base_asset : N; privileged_address : N;
}.

Definition u32_max : N := 4294967295.
Definition word_bound : Z := 18446744073709551616%Z.     (* 2^64: amounts are 64-bit words *)

(* ------------------------------------------------------------------ derived notions *)
(* "the input set of asset ids": a coin contributes its asset, every message the base asset *)
Definition input_asset (base : N) (i : input) : option N :=
  match i with
  | ICoinSigned _ _ _ a _ => Some a
  | ICoinPredicate _ _ _ a _ _ => Some a
  | IContract _ _ => None
  | IMessageCoinSigned _ _ _ _ => Some base
  | IMessageCoinPredicate _ _ _ _ _ => Some base
  | IMessageDataSigned _ _ _ _ _ => Some base
  | IMessageDataPredicate _ _ _ _ _ _ => Some base
  end.
Definition InInputAssets (base : N) (ins : list input) (a : N) : Prop :=
  exists i, In i ins /\ input_asset base i = Some a.

(* spendable inputs: coins and messages without data *)
Definition Spendable (i : input) : Prop :=
  match i with
  | ICoinSigned _ _ _ _ _ | ICoinPredicate _ _ _ _ _ _
  | IMessageCoinSigned _ _ _ _ | IMessageCoinPredicate _ _ _ _ _ => True
  | _ => False
  end.
(* what a spendable input adds to the balance of asset a *)
Definition spendable_amount (base a : N) (i : input) : Z :=
  match i with
  | ICoinSigned _ _ v a' _ => if a' =? a then Z.of_N v else 0%Z
  | ICoinPredicate _ _ v a' _ _ => if a' =? a then Z.of_N v else 0%Z
  | IMessageCoinSigned _ v _ _ => if base =? a then Z.of_N v else 0%Z
  | IMessageCoinPredicate _ v _ _ _ => if base =? a then Z.of_N v else 0%Z
  | _ => 0%Z
  end.
(* messages with data are only spendable during execution (retryable) *)
Definition retryable_amount (i : input) : Z :=
  match i with
  | IMessageDataSigned _ v _ _ _ => Z.of_N v
  | IMessageDataPredicate _ v _ _ _ _ => Z.of_N v
  | _ => 0%Z
  end.
Definition coin_output_amount (a : N) (o : output) : Z :=
  match o with OCoin v a' => if a' =? a then Z.of_N v else 0%Z | _ => 0%Z end.

Definition sumZ {A} (f : A -> Z) (l : list A) : Z := fold_right (fun x acc => (f x + acc)%Z) 0%Z l.

Definition fee_limit (t : ctx) : Z :=
  match policy (t_policies t) POL_MAX_FEE with Some f => Z.of_N f | None => 0%Z end.
Definition inputs_total (p : params) (t : ctx) (a : N) : Z :=
  sumZ (spendable_amount (base_asset p) a) (t_inputs t).
Definition coin_outputs_total (t : ctx) (a : N) : Z := sumZ (coin_output_amount a) (t_outputs t).
Definition retryable_total (t : ctx) : Z := sumZ retryable_amount (t_inputs t).

(* THE balance equation of the property text *)
Definition free_balance_spec (p : params) (t : ctx) (a : N) : Z :=
  (inputs_total p t a - coin_outputs_total t a - (if N.eqb a (base_asset p) then fee_limit t else 0))%Z.

(* identifiers whose repetition is forbidden *)
Definition coin_utxo (i : input) : option N :=
  match i with ICoinSigned u _ _ _ _ => Some u | ICoinPredicate u _ _ _ _ _ => Some u | _ => None end.
Definition input_contract_id (i : input) : option N :=
  match i with IContract _ c => Some c | _ => None end.
Definition message_nonce (i : input) : option N :=
  match i with
  | IMessageCoinSigned _ _ n _ => Some n | IMessageCoinPredicate _ _ n _ _ => Some n
  | IMessageDataSigned _ _ n _ _ => Some n | IMessageDataPredicate _ _ n _ _ _ => Some n
  | _ => None end.
Definition change_asset (o : output) : option N := match o with OChange a => Some a | _ => None end.
Definition coin_asset (o : output) : option N := match o with OCoin _ a => Some a | _ => None end.
Definition select {A B} (f : A -> option B) (l : list A) : list B :=
  flat_map (fun x => match f x with Some y => [y] | None => [] end) l.

Definition HasOwner (i : input) : Prop := match i with IContract _ _ => False | _ => True end.
Definition input_owner (i : input) : option N :=
  match i with
  | ICoinSigned _ o _ _ _ => Some o | ICoinPredicate _ o _ _ _ _ => Some o
  | IContract _ _ => None
  | IMessageCoinSigned r _ _ _ => Some r | IMessageCoinPredicate r _ _ _ _ => Some r
  | IMessageDataSigned r _ _ _ _ => Some r | IMessageDataPredicate r _ _ _ _ _ => Some r
  end.

(* canonical size of the witness vector's content: every witness is a length word followed
   by its bytes padded to a multiple of 8 *)
Definition pad8 (n : N) : N := (n + 7) / 8 * 8.
Definition witness_bytes (ws : list N) : N := fold_right (fun l acc => 8 + pad8 l + acc) 0 ws.

(* ------------------------------------------------------------------ per-input / per-output rules *)
Definition PredicateOk (p : params) (plen pdlen : N) : Prop :=
  0 < plen /\ plen <= max_predicate_length p /\ pdlen <= max_predicate_data_length p.
Definition WitnessOk (t : ctx) (w : N) : Prop := w < N.of_nat (length (t_witnesses t)).
Definition DataOk (p : params) (dlen : N) : Prop := 0 < dlen /\ dlen <= max_message_data_length p.

(* the input at position idx *)
Definition InputOk (p : params) (t : ctx) (idx : nat) (i : input) : Prop :=
  match i with
  | ICoinSigned _ _ _ _ w => WitnessOk t w
  | ICoinPredicate _ _ _ _ pl pdl => PredicateOk p pl pdl
  | IContract _ _ =>     (* ∃! output contract pointing back at this input *)
      exists! j, nth_error (t_outputs t) j = Some (OContract (N.of_nat idx))
  | IMessageCoinSigned _ _ _ w => WitnessOk t w
  | IMessageCoinPredicate _ _ _ pl pdl => PredicateOk p pl pdl
  | IMessageDataSigned _ _ _ w dl => WitnessOk t w /\ DataOk p dl
  | IMessageDataPredicate _ _ _ dl pl pdl => PredicateOk p pl pdl /\ DataOk p dl
  end.

Definition OutputOk (p : params) (t : ctx) (o : output) : Prop :=
  match o with
  | OContract k => exists u c, nth_error (t_inputs t) (N.to_nat k) = Some (IContract u c)
  | OChange a => InInputAssets (base_asset p) (t_inputs t) a
  | OCoin _ a => InInputAssets (base_asset p) (t_inputs t) a
  | _ => True
  end.

(* ------------------------------------------------------------------ rules common to all chargeable kinds *)
Record PoliciesValid (pl : policies) : Prop := {
  pv_known_bits : p_bits pl < 64;                                   (* only the six policies exist *)
  pv_absent_zero : forall k, k < 6 -> N.testbit (p_bits pl) k = false -> policy_word pl k = 0;
  pv_maturity_u32 : forall v, policy pl POL_MATURITY = Some v -> v <= u32_max;
  pv_expiration_u32 : forall v, policy pl POL_EXPIRATION = Some v -> v <= u32_max;
  pv_owner_u32 : forall v, policy pl POL_OWNER = Some v -> v <= u32_max;
}.

Record ValidCommon (p : params) (height : N) (t : ctx) : Prop := {
  v_size : t_size t <= max_size p;
  v_policies : PoliciesValid (t_policies t);
  v_witness_limit : forall l, policy (t_policies t) POL_WITNESS_LIMIT = Some l -> witness_bytes (t_witnesses t) <= l;
  v_max_gas : t_max_gas t <= max_gas_per_tx p;
  v_max_fee_set : policy_set (t_policies t) POL_MAX_FEE;
  v_maturity : forall m, policy (t_policies t) POL_MATURITY = Some m -> m <= height;
  v_expiration : forall e, policy (t_policies t) POL_EXPIRATION = Some e -> height <= e;
  v_inputs_max : N.of_nat (length (t_inputs t)) <= max_inputs p;
  v_outputs_max : N.of_nat (length (t_outputs t)) <= max_outputs p;
  v_witnesses_max : N.of_nat (length (t_witnesses t)) <= max_witnesses p;
  v_owner : forall o, policy (t_policies t) POL_OWNER = Some o ->
            exists i, nth_error (t_inputs t) (N.to_nat o) = Some i /\ HasOwner i;
  v_spendable : exists i, In i (t_inputs t) /\ Spendable i;
  v_change_unique : NoDup (select change_asset (t_outputs t));       (* at most one change output per asset *)
  v_utxo_unique : NoDup (select coin_utxo (t_inputs t));
  v_contract_unique : NoDup (select input_contract_id (t_inputs t));
  v_nonce_unique : NoDup (select message_nonce (t_inputs t));
  v_inputs : forall idx i, nth_error (t_inputs t) idx = Some i -> InputOk p t idx i;
  v_outputs : forall o, In o (t_outputs t) -> OutputOk p t o;        (* incl. change / coin asset presence *)
}.

(* ------------------------------------------------------------------ sufficient balance *)
Record ValidBalance (p : params) (t : ctx) : Prop := {
  vb_inputs_fit : forall a, (inputs_total p t a < word_bound)%Z;   (* balances are 64-bit words *)
  vb_retryable_fits : (retryable_total t < word_bound)%Z;
  vb_sufficient : forall a, (0 <= free_balance_spec p t a)%Z;      (* outputs + fee limit never exceed inputs *)
}.

(* ------------------------------------------------------------------ kind-specific rules *)
(* Create / Upgrade / Upload / Blob: only base-asset coins and data-less messages in, no
   contract or variable outputs, change only in the base asset *)
Definition BaseOnlyInput (p : params) (i : input) : Prop :=
  match i with
  | ICoinSigned _ _ _ a _ => a = base_asset p
  | ICoinPredicate _ _ _ a _ _ => a = base_asset p
  | IMessageCoinSigned _ _ _ _ | IMessageCoinPredicate _ _ _ _ _ => True
  | _ => False
  end.
Definition PlainOutput (p : params) (allow_created : bool) (o : output) : Prop :=
  match o with
  | OCoin _ _ => True
  | OChange a => a = base_asset p
  | OContractCreated _ _ => allow_created = true
  | OContract _ | OVariable => False
  end.
Definition is_created (o : output) : bool := match o with OContractCreated _ _ => true | _ => false end.

Fixpoint StrictlyIncreasing (l : list N) : Prop :=
  match l with
  | a :: ((b :: _) as r) => a < b /\ StrictlyIncreasing r
  | _ => True
  end.

Definition ValidKind (p : params) (t : ctx) : Prop :=
  match t_body t with
  | BScript sl sdl =>
      sl <= max_script_length p /\ sdl <= max_script_data_length p /\
      (forall o, In o (t_outputs t) -> is_created o = false)
  | BCreate bwi slots cid sroot =>
      (exists len, nth_error (t_witnesses t) (N.to_nat bwi) = Some len /\ len <= contract_max_size p) /\
      N.of_nat (length slots) <= max_storage_slots p /\
      StrictlyIncreasing slots /\
      (forall i, In i (t_inputs t) -> BaseOnlyInput p i) /\
      (forall o, In o (t_outputs t) -> PlainOutput p true o) /\
      (forall c s, In (OContractCreated c s) (t_outputs t) -> c = cid /\ s = sroot) /\
      length (filter is_created (t_outputs t)) = 1%nat
  | BUpgrade pu =>
      (exists i, In i (t_inputs t) /\ input_owner i = Some (privileged_address p)) /\
      match pu with
      | UpConsensusParameters w ck dec =>
          w < N.of_nat (length (t_witnesses t)) /\ ck = true /\ dec = true
      | UpStateTransition => True
      end /\
      (forall i, In i (t_inputs t) -> BaseOnlyInput p i) /\
      (forall o, In o (t_outputs t) -> PlainOutput p false o)
  | BUpload n w ok =>
      n <= max_bytecode_subsections p /\
      w < N.of_nat (length (t_witnesses t)) /\ ok = true /\
      (forall i, In i (t_inputs t) -> BaseOnlyInput p i) /\
      (forall o, In o (t_outputs t) -> PlainOutput p false o)
  | BBlob w ok =>
      w < N.of_nat (length (t_witnesses t)) /\ ok = true /\
      (forall i, In i (t_inputs t) -> BaseOnlyInput p i) /\
      (forall o, In o (t_outputs t) -> PlainOutput p false o)
  end.

Definition ValidMint (p : params) (height : N) (m : mint) : Prop :=
  m_size m <= max_size p /\ m_tx_pointer_height m = height /\
  m_output_input_index m = 0 /\ m_asset m = base_asset p.

(* ------------------------------------------------------------------ the specification *)
Definition Valid (p : params) (height : N) (x : tx) : Prop :=
  match x with
  | TxCharge t => ValidCommon p height t /\ ValidKind p t /\ ValidBalance p t
  | TxMint m => ValidMint p height m
  end.
