(* Validity/ValidityProofs.v — proofs relating the L1 model of transaction checking
   (ValidityModel.v) to the declarative specification (ValiditySpec.v).  C19. *)
From FV Require Import Base.Bytes Base.U64 Validity.ValiditySpec Validity.ValidityModel.
From Coq Require Import ZArith Lia Permutation Morphisms.
Open Scope N_scope.

(* ================================================================== generic facts *)
Lemma fail_if_none c e : fail_if c e = None <-> c = false.
Proof. unfold fail_if; destruct c; split; congruence. Qed.

Lemma seq_none (a b : chk) : (a ;; b) = None <-> a = None /\ b = None.
Proof.
  destruct a as [e|].
  - split; [discriminate | intros [H _]; discriminate].
  - split; [intros H; split; [reflexivity | exact H] | intros [_ H]; exact H].
Qed.

Lemma sumZ_app {A} (f : A -> Z) l1 l2 : sumZ f (l1 ++ l2) = (sumZ f l1 + sumZ f l2)%Z.
Proof. induction l1; cbn; [reflexivity|]. unfold sumZ in *. cbn. rewrite IHl1. lia. Qed.
Lemma sumZ_cons {A} (f : A -> Z) x l : sumZ f (x :: l) = (f x + sumZ f l)%Z.
Proof. reflexivity. Qed.
Lemma sumZ_nonneg {A} (f : A -> Z) l : (forall x, 0 <= f x)%Z -> (0 <= sumZ f l)%Z.
Proof. intros H; induction l; [cbn; lia|]. rewrite sumZ_cons. specialize (H a). lia. Qed.

Lemma spendable_amount_nonneg base a i : (0 <= spendable_amount base a i)%Z.
Proof. destruct i; cbn; try lia; match goal with |- context [if ?c then _ else _] => destruct c end; lia. Qed.
Lemma retryable_amount_nonneg i : (0 <= retryable_amount i)%Z.
Proof. destruct i; cbn; lia. Qed.
Lemma coin_output_amount_nonneg a o : (0 <= coin_output_amount a o)%Z.
Proof. destruct o; cbn; try lia. destruct (asset =? a); lia. Qed.

(* ================================================================== the sorted map *)
Definition keys_above (k : N) (m : bmap) : Prop := Forall (fun kv => k < fst kv) m.
Inductive sorted : bmap -> Prop :=
| sorted_nil : sorted []
| sorted_cons k v r : keys_above k r -> sorted r -> sorted ((k, v) :: r).

Lemma keys_above_get k m : keys_above k m -> bm_get m k = None.
Proof.
  induction 1 as [|[k' v] r Hk _ IH]; [reflexivity|]. cbn [bm_get]. cbn in Hk.
  destruct (N.eqb_spec k k'); [lia | exact IH].
Qed.
Lemma keys_above_weaken k k' m : k' <= k -> keys_above k m -> keys_above k' m.
Proof. intros H. unfold keys_above. apply Forall_impl. intros; lia. Qed.

Lemma recorded_cons_eq k v r : recorded_balance ((k, v) :: r) k = v.
Proof. unfold recorded_balance; cbn [bm_get]. rewrite N.eqb_refl. reflexivity. Qed.

(* entry(k).or_default() followed by a checked update *)
Lemma bm_entry_update_spec m : sorted m -> forall k f,
  match bm_entry_update m k f with
  | None => f (recorded_balance m k) = None
  | Some m' => exists v, f (recorded_balance m k) = Some v /\ sorted m' /\ bm_get m' k = Some v /\
                (forall a, a <> k -> bm_get m' a = bm_get m a) /\
                (forall k0, k0 < k -> keys_above k0 m -> keys_above k0 m')
  end.
Proof.
  induction 1 as [|k' v' r Hab Hs IH]; intros k f.
  - cbn [bm_entry_update]. unfold recorded_balance; cbn [bm_get]. destruct (f 0) as [v|] eqn:E; cbn [opt_bind]; [|reflexivity].
    exists v. repeat split.
    + constructor; constructor.
    + cbn [bm_get]. rewrite N.eqb_refl; reflexivity.
    + intros a Ha. cbn [bm_get]. destruct (N.eqb_spec a k); congruence.
    + intros k0 Hk0 _. constructor; [cbn; lia | constructor].
  - cbn [bm_entry_update]. destruct (N.ltb_spec k k') as [Hlt|Hge].
    + (* insert in front *)
      assert (Hrec : recorded_balance ((k', v') :: r) k = 0).
      { unfold recorded_balance; cbn [bm_get]. destruct (N.eqb_spec k k'); [lia|].
        rewrite (keys_above_get k r); [reflexivity|]. eapply keys_above_weaken; [|exact Hab]. lia. }
      rewrite Hrec. destruct (f 0) as [v|] eqn:E; cbn [opt_bind]; [|reflexivity].
      exists v. repeat split.
      * constructor; [|constructor; assumption]. constructor; [cbn; lia|]. eapply keys_above_weaken; [|exact Hab]. lia.
      * cbn [bm_get]. rewrite N.eqb_refl; reflexivity.
      * intros a Ha. cbn [bm_get]. destruct (N.eqb_spec a k); [congruence|reflexivity].
      * intros k0 Hk0 Hk0a. constructor; [cbn; lia | exact Hk0a].
    + destruct (N.eqb_spec k k') as [->|Hne].
      * rewrite recorded_cons_eq. destruct (f v') as [v|] eqn:E; cbn [opt_bind]; [|reflexivity].
        exists v. repeat split.
        -- constructor; assumption.
        -- cbn [bm_get]. rewrite N.eqb_refl; reflexivity.
        -- intros a Ha. cbn [bm_get]. destruct (N.eqb_spec a k'); [congruence|reflexivity].
        -- intros k0 Hk0 Hk0a. inversion Hk0a; subst. constructor; [cbn; lia | assumption].
      * assert (Hrec : recorded_balance ((k', v') :: r) k = recorded_balance r k).
        { unfold recorded_balance; cbn [bm_get]. destruct (N.eqb_spec k k'); [congruence|reflexivity]. }
        rewrite Hrec. specialize (IH k f). destruct (bm_entry_update r k f) as [r'|]; cbn [opt_bind]; [|exact IH].
        destruct IH as (v & Hf & Hs' & Hg & Hoth & Hab').
        exists v. repeat split; [exact Hf | | | |].
        -- constructor; [|exact Hs']. apply Hab'; [lia | exact Hab].
        -- cbn [bm_get]. destruct (N.eqb_spec k k'); [congruence | exact Hg].
        -- intros a Ha. cbn [bm_get]. destruct (N.eqb_spec a k'); [reflexivity | apply Hoth; exact Ha].
        -- intros k0 Hk0 Hk0a. inversion Hk0a; subst. constructor; [assumption|]. apply Hab'; assumption.
Qed.

Lemma recorded_of_get m a v : bm_get m a = Some v -> recorded_balance m a = v.
Proof. unfold recorded_balance; intros ->; reflexivity. Qed.
Lemma recorded_same m m' a : bm_get m' a = bm_get m a -> recorded_balance m' a = recorded_balance m a.
Proof. unfold recorded_balance; intros ->; reflexivity. Qed.

(* assignment through get_mut *)
Lemma bm_set_spec m k v : bm_get m k <> None ->
  bm_get (bm_set m k v) k = Some v /\ forall a, a <> k -> bm_get (bm_set m k v) a = bm_get m a.
Proof.
  induction m as [|[k' v'] r IH]; cbn [bm_get bm_set]; [congruence|].
  destruct (N.eqb_spec k k') as [->|Hne]; intros H.
  - split; [cbn [bm_get]; rewrite N.eqb_refl; reflexivity|].
    intros a Ha. cbn [bm_get]. destruct (N.eqb_spec a k'); [congruence | reflexivity].
  - destruct (IH H) as [H1 H2]. split.
    + cbn [bm_get]. destruct (N.eqb_spec k k'); [congruence | exact H1].
    + intros a Ha. cbn [bm_get]. destruct (N.eqb_spec a k'); [reflexivity | apply H2; exact Ha].
Qed.

(* ================================================================== balances *)
Definition in_sum (base a : N) (l : list input) : Z := sumZ (spendable_amount base a) l.
Definition retry_sum (l : list input) : Z := sumZ retryable_amount l.
Definition out_sum (a : N) (l : list output) : Z := sumZ (coin_output_amount a) l.

(* the asset a spendable input is booked under *)
Definition booked_asset (base : N) (i : input) : option N :=
  match i with
  | ICoinSigned _ _ _ a _ => Some a
  | ICoinPredicate _ _ _ a _ _ => Some a
  | IMessageCoinSigned _ _ _ _ => Some base
  | IMessageCoinPredicate _ _ _ _ _ => Some base
  | _ => None
  end.

Definition add_up_inv (base : N) (l : list input) (st : option (bmap * N)) : Prop :=
  match st with
  | Some (m, r) =>
      sorted m /\
      (forall a, Z.of_N (recorded_balance m a) = in_sum base a l) /\
      Z.of_N r = retry_sum l /\
      (forall a, (in_sum base a l < word_bound)%Z) /\ (retry_sum l < word_bound)%Z /\
      (forall a, bm_get m a <> None <-> In a (select (booked_asset base) l))
  | None => (exists a, (word_bound <= in_sum base a l)%Z) \/ (word_bound <= retry_sum l)%Z
  end.

Lemma checked_add_U64 b v :
  match checked_add U64 b v with
  | Some s => s = b + v /\ (Z.of_N b + Z.of_N v < word_bound)%Z
  | None => (word_bound <= Z.of_N b + Z.of_N v)%Z
  end.
Proof.
  unfold checked_add, U64, word_bound. destruct (N.ltb_spec (b + v) 18446744073709551616); [split; [reflexivity|]|]; lia.
Qed.

Lemma select_app {A B} (f : A -> option B) l1 l2 : select f (l1 ++ l2) = select f l1 ++ select f l2.
Proof. unfold select. apply flat_map_app. Qed.

Lemma in_sum_snoc base a l x : in_sum base a (l ++ [x]) = (in_sum base a l + spendable_amount base a x)%Z.
Proof. unfold in_sum. rewrite sumZ_app. cbn. lia. Qed.
Lemma retry_sum_snoc l x : retry_sum (l ++ [x]) = (retry_sum l + retryable_amount x)%Z.
Proof. unfold retry_sum. rewrite sumZ_app. cbn. lia. Qed.

(* one booking step on a map that satisfies the invariant *)
Lemma book_step base l m r x k v :
  add_up_inv base l (Some (m, r)) ->
  booked_asset base x = Some k ->
  (forall a, spendable_amount base a x = if k =? a then Z.of_N v else 0%Z) ->
  retryable_amount x = 0%Z ->
  add_up_inv base (l ++ [x])
    (do m' <- bm_entry_update m k (fun b => checked_add U64 b v); Some (m', r)).
Proof.
  intros (Hs & Hrec & Hr & Hlt & Hrl & Hkeys) Hbk Hamt Hret.
  pose proof (bm_entry_update_spec m Hs k (fun b => checked_add U64 b v)) as U.
  destruct (bm_entry_update m k (fun b => checked_add U64 b v)) as [m'|]; cbn [opt_bind].
  - destruct U as (s & Hf & Hs' & Hg & Hoth & _).
    pose proof (checked_add_U64 (recorded_balance m k) v) as C. cbn beta in Hf. rewrite Hf in C. destruct C as [-> C].
    cbn [add_up_inv]. repeat split.
    + exact Hs'.
    + intros a. rewrite in_sum_snoc, Hamt. destruct (N.eqb_spec k a) as [<-|Hne].
      * rewrite (recorded_of_get _ _ _ Hg), <- Hrec. lia.
      * rewrite (recorded_same m m' a) by (apply Hoth; congruence). rewrite Hrec. lia.
    + rewrite retry_sum_snoc, Hret, Hr. lia.
    + intros a. rewrite in_sum_snoc, Hamt. destruct (N.eqb_spec k a) as [<-|Hne].
      * rewrite <- Hrec. exact C.
      * specialize (Hlt a). lia.
    + rewrite retry_sum_snoc, Hret. lia.
    + rewrite select_app, in_app_iff. cbn [select flat_map]. rewrite Hbk. cbn [app In].
      destruct (N.eqb_spec a k) as [->|Hne]; [intros _; right; left; reflexivity|].
      rewrite (Hoth a Hne). intros H. left. apply Hkeys; exact H.
    + rewrite select_app, in_app_iff. cbn [select flat_map]. rewrite Hbk. cbn [app In].
      destruct (N.eqb_spec a k) as [->|Hne]; [intros _; rewrite Hg; discriminate|].
      rewrite (Hoth a Hne). intros [H|[H|[]]]; [apply Hkeys; exact H | congruence].
  - cbn beta in U. pose proof (checked_add_U64 (recorded_balance m k) v) as C. rewrite U in C.
    cbn [add_up_inv]. left. exists k. rewrite in_sum_snoc, Hamt, N.eqb_refl, <- Hrec. exact C.
Qed.

Lemma add_up_inv_none_snoc base l x : add_up_inv base l None -> add_up_inv base (l ++ [x]) None.
Proof.
  cbn [add_up_inv]. intros [[a H]|H]; [left; exists a; rewrite in_sum_snoc; pose proof (spendable_amount_nonneg base a x) |
                                        right; rewrite retry_sum_snoc; pose proof (retryable_amount_nonneg x)]; lia.
Qed.

Lemma add_input_balance_inv base l st x :
  add_up_inv base l st -> add_up_inv base (l ++ [x]) (add_input_balance base st x).
Proof.
  destruct st as [[m r]|]; [|intros H; exact (add_up_inv_none_snoc base l x H)].
  intros H. unfold add_input_balance; cbn [opt_bind].
  destruct x.
  - apply (book_step base l m r _ asset amount H); [reflexivity | intros a; reflexivity | reflexivity].
  - apply (book_step base l m r _ asset amount H); [reflexivity | intros a; reflexivity | reflexivity].
  - (* contract: nothing *)
    destruct H as (Hs & Hrec & Hr & Hlt & Hrl & Hkeys). cbn [add_up_inv]. repeat split; try assumption.
    + intros a. rewrite in_sum_snoc. cbn. rewrite Hrec. lia.
    + rewrite retry_sum_snoc. cbn. lia.
    + intros a. rewrite in_sum_snoc. cbn. specialize (Hlt a). lia.
    + rewrite retry_sum_snoc. cbn. lia.
    + rewrite select_app, in_app_iff. cbn. intros H. left. apply Hkeys; exact H.
    + rewrite select_app, in_app_iff. cbn. intros [H|[]]. apply Hkeys; exact H.
  - apply (book_step base l m r _ base amount H); [reflexivity | intros a; reflexivity | reflexivity].
  - apply (book_step base l m r _ base amount H); [reflexivity | intros a; reflexivity | reflexivity].
  - (* message with data: retryable *)
    destruct H as (Hs & Hrec & Hr & Hlt & Hrl & Hkeys).
    pose proof (checked_add_U64 r amount) as C. destruct (checked_add U64 r amount) as [s|]; cbn [opt_bind].
    + destruct C as [-> C]. cbn [add_up_inv]. repeat split; try assumption.
      * intros a. rewrite in_sum_snoc. cbn. rewrite Hrec. lia.
      * rewrite retry_sum_snoc. cbn. lia.
      * intros a. rewrite in_sum_snoc. cbn. specialize (Hlt a). lia.
      * rewrite retry_sum_snoc. cbn. lia.
      * rewrite select_app, in_app_iff. cbn. intros H. left. apply Hkeys; exact H.
      * rewrite select_app, in_app_iff. cbn. intros [H|[]]. apply Hkeys; exact H.
    + cbn [add_up_inv]. right. rewrite retry_sum_snoc. cbn. lia.
  - destruct H as (Hs & Hrec & Hr & Hlt & Hrl & Hkeys).
    pose proof (checked_add_U64 r amount) as C. destruct (checked_add U64 r amount) as [s|]; cbn [opt_bind].
    + destruct C as [-> C]. cbn [add_up_inv]. repeat split; try assumption.
      * intros a. rewrite in_sum_snoc. cbn. rewrite Hrec. lia.
      * rewrite retry_sum_snoc. cbn. lia.
      * intros a. rewrite in_sum_snoc. cbn. specialize (Hlt a). lia.
      * rewrite retry_sum_snoc. cbn. lia.
      * rewrite select_app, in_app_iff. cbn. intros H. left. apply Hkeys; exact H.
      * rewrite select_app, in_app_iff. cbn. intros [H|[]]. apply Hkeys; exact H.
    + cbn [add_up_inv]. right. rewrite retry_sum_snoc. cbn. lia.
Qed.

Lemma add_up_input_balances_spec base ins : add_up_inv base ins (add_up_input_balances base ins).
Proof.
  unfold add_up_input_balances. induction ins as [|x l IH] using rev_ind.
  - cbn. repeat split; try (unfold word_bound; lia); try (intros; unfold word_bound; cbn; lia); try constructor; try tauto; try congruence.
  - rewrite fold_left_app. cbn [fold_left]. apply add_input_balance_inv. exact IH.
Qed.

(* ---- deduct_max_fee_from_base_asset *)
Lemma checked_sub_spec b v :
  match checked_sub b v with
  | Some s => Z.of_N s = (Z.of_N b - Z.of_N v)%Z /\ v <= b
  | None => b < v
  end.
Proof. unfold checked_sub. destruct (N.leb_spec v b); [split|]; lia. Qed.

Lemma deduct_spec m base fee : sorted m ->
  match deduct_max_fee_from_base_asset m base fee with
  | inr m1 => sorted m1 /\ fee <= recorded_balance m base /\
              Z.of_N (recorded_balance m1 base) = (Z.of_N (recorded_balance m base) - Z.of_N fee)%Z /\
              (forall a, a <> base -> bm_get m1 a = bm_get m a) /\ bm_get m1 base <> None
  | inl e => recorded_balance m base < fee /\ e = EInsufficientFeeAmount fee (recorded_balance m base)
  end.
Proof.
  intros Hs. unfold deduct_max_fee_from_base_asset.
  pose proof (bm_entry_update_spec m Hs base (fun b => checked_sub b fee)) as U.
  destruct (bm_entry_update m base (fun b => checked_sub b fee)) as [m1|].
  - destruct U as (v & Hf & Hs1 & Hg & Hoth & _). cbn beta in Hf.
    pose proof (checked_sub_spec (recorded_balance m base) fee) as C. rewrite Hf in C. destruct C as [C1 C2].
    repeat split; try assumption.
    + rewrite (recorded_of_get _ _ _ Hg). exact C1.
    + rewrite Hg; discriminate.
  - cbn beta in U. pose proof (checked_sub_spec (recorded_balance m base) fee) as C. rewrite U in C.
    split; [exact C | reflexivity].
Qed.

(* ---- reduce_free_balances_by_coin_outputs *)
Lemma out_sum_cons a o l : out_sum a (o :: l) = (coin_output_amount a o + out_sum a l)%Z.
Proof. reflexivity. Qed.

Lemma reduce_spec outs : forall m,
  match reduce_free_balances_by_coin_outputs m outs with
  | inr m2 => (forall a, Z.of_N (recorded_balance m2 a) = (Z.of_N (recorded_balance m a) - out_sum a outs)%Z) /\
              (forall a, bm_get m2 a <> None <-> bm_get m a <> None)
  | inl e => (exists a, In a (select coin_asset outs) /\ bm_get m a = None) \/
             (exists a, (Z.of_N (recorded_balance m a) < out_sum a outs)%Z)
  end.
Proof.
  induction outs as [|o r IH]; intros m.
  - cbn. split; [intros a; unfold out_sum; cbn; lia | tauto].
  - destruct o as [v a0| | | |]; cbn [reduce_free_balances_by_coin_outputs];
      try (specialize (IH m); destruct (reduce_free_balances_by_coin_outputs m r) as [e|m2];
           [ destruct IH as [(a & Ha & Hn)|(a & Ha)]; [left; exists a; split; [exact Ha | exact Hn] | right; exists a; rewrite out_sum_cons; cbn; lia]
           | destruct IH as [IH1 IH2]; split; [intros a; rewrite out_sum_cons, IH1; cbn; lia | exact IH2] ]).
    destruct (bm_get m a0) as [bal|] eqn:Eg.
    + pose proof (checked_sub_spec bal v) as C. destruct (checked_sub bal v) as [b'|].
      * destruct C as [C1 C2].
        assert (Hp : bm_get m a0 <> None) by (rewrite Eg; discriminate).
        destruct (bm_set_spec m a0 b' Hp) as [S1 S2].
        specialize (IH (bm_set m a0 b')). destruct (reduce_free_balances_by_coin_outputs (bm_set m a0 b') r) as [e|m2].
        -- destruct IH as [(a & Ha & Hn)|(a & Ha)].
           ++ left. exists a. split; [cbn [select flat_map coin_asset app In]; right; exact Ha|].
              destruct (N.eqb_spec a a0) as [->|Hne]; [congruence|]. rewrite <- (S2 a Hne). exact Hn.
           ++ right. exists a. rewrite out_sum_cons. cbn [coin_output_amount].
              destruct (N.eqb_spec a0 a) as [<-|Hne].
              ** rewrite (recorded_of_get _ _ _ S1) in Ha. rewrite (recorded_of_get _ _ _ Eg). lia.
              ** rewrite (recorded_same m (bm_set m a0 b') a) in Ha by (apply S2; congruence). lia.
        -- destruct IH as [IH1 IH2]. split.
           ++ intros a. rewrite IH1, out_sum_cons. cbn [coin_output_amount].
              destruct (N.eqb_spec a0 a) as [<-|Hne].
              ** rewrite (recorded_of_get _ _ _ S1), (recorded_of_get _ _ _ Eg). lia.
              ** rewrite (recorded_same m (bm_set m a0 b') a) by (apply S2; congruence). lia.
           ++ intros a. rewrite IH2. destruct (N.eqb_spec a a0) as [->|Hne].
              ** rewrite S1, Eg. split; discriminate.
              ** rewrite (S2 a Hne). tauto.
      * right. exists a0. rewrite out_sum_cons. cbn [coin_output_amount]. rewrite N.eqb_refl.
        rewrite (recorded_of_get _ _ _ Eg). pose proof (sumZ_nonneg (coin_output_amount a0) r (coin_output_amount_nonneg a0)).
        unfold out_sum. lia.
    + left. exists a0. split; [cbn [select flat_map coin_asset app In]; left; reflexivity | exact Eg].
Qed.

(* ---- initial_free_balances, success direction: the recorded balances are the specification's *)
Lemma pol_get_policy pl k : pol_get pl k = policy pl k.
Proof. reflexivity. Qed.

Lemma initial_free_balances_ok p t m r :
  initial_free_balances (base_asset p) t = inr (m, r) ->
  (forall a, Z.of_N (recorded_balance m a) = free_balance_spec p t a) /\
  Z.of_N r = retryable_total t /\
  (forall a, (inputs_total p t a < word_bound)%Z) /\ (retryable_total t < word_bound)%Z /\
  policy_set (t_policies t) POL_MAX_FEE.
Proof.
  unfold initial_free_balances. pose proof (add_up_input_balances_spec (base_asset p) (t_inputs t)) as A.
  destruct (add_up_input_balances (base_asset p) (t_inputs t)) as [[m0 r0]|]; [|discriminate].
  destruct A as (Hs & Hrec & Hr & Hlt & Hrl & Hkeys).
  rewrite pol_get_policy. destruct (policy (t_policies t) POL_MAX_FEE) as [fee|] eqn:Ef; [|discriminate].
  pose proof (deduct_spec m0 (base_asset p) fee Hs) as D.
  destruct (deduct_max_fee_from_base_asset m0 (base_asset p) fee) as [e|m1]; [discriminate|].
  destruct D as (Hs1 & Hle & Hb & Hoth & Hin).
  pose proof (reduce_spec (t_outputs t) m1) as R.
  destruct (reduce_free_balances_by_coin_outputs m1 (t_outputs t)) as [e|m2]; [discriminate|].
  intros E; inversion E; subst m2 r0; clear E. destruct R as [R1 R2].
  repeat split.
  - intros a. rewrite R1. unfold free_balance_spec, inputs_total, coin_outputs_total, fee_limit. rewrite Ef.
    fold (in_sum (base_asset p) a (t_inputs t)). fold (out_sum a (t_outputs t)).
    destruct (N.eqb_spec a (base_asset p)) as [->|Hne].
    + rewrite Hb, Hrec. lia.
    + rewrite (recorded_same m0 m1 a) by (apply Hoth; exact Hne). rewrite Hrec. lia.
  - exact Hr.
  - exact Hlt.
  - exact Hrl.
  - unfold policy_set. unfold policy in Ef. destruct (N.testbit (p_bits (t_policies t)) POL_MAX_FEE); [reflexivity | discriminate].
Qed.

(* what into_checked_basic = COk means, step by step *)
Lemma into_checked_basic_ok p h t m r :
  into_checked_basic p h (TxCharge t) = COk m r <->
  precompute t = None /\ check_common_part p h t = None /\ check_unique_rules p t = None /\
  initial_free_balances (base_asset p) t = inr (m, r).
Proof.
  unfold into_checked_basic, check_without_signatures.
  destruct (precompute t) as [e|]; [split; [discriminate | intros [H _]; discriminate]|].
  destruct (check_common_part p h t) as [e|]; [split; [discriminate | intros (_ & H & _); discriminate]|].
  destruct (check_unique_rules p t) as [e|]; [split; [discriminate | intros (_ & _ & H & _); discriminate]|].
  destruct (initial_free_balances (base_asset p) t) as [e|[m' r']].
  - split; [discriminate | intros (_ & _ & _ & H); discriminate].
  - split; [intros H; inversion H; subst; repeat split | intros (_ & _ & _ & H); inversion H; reflexivity].
Qed.

(* ================================================================== C19_balances / never_overspend *)
Theorem balances_recorded_are_spec p h t m r :
  into_checked_basic p h (TxCharge t) = COk m r ->
  (forall a, Z.of_N (recorded_balance m a) = free_balance_spec p t a) /\ Z.of_N r = retryable_total t.
Proof.
  intros H. apply into_checked_basic_ok in H. destruct H as (_ & _ & _ & H).
  apply initial_free_balances_ok in H. destruct H as (H1 & H2 & _). split; assumption.
Qed.

Theorem overspending_is_rejected p h t :
  (exists a, (inputs_total p t a < coin_outputs_total t a + (if N.eqb a (base_asset p) then fee_limit t else 0))%Z) ->
  exists e, into_checked_basic p h (TxCharge t) = CErr e.
Proof.
  intros [a Ha]. destruct (into_checked_basic p h (TxCharge t)) as [m r|e] eqn:E; [|exists e; reflexivity].
  exfalso. destruct (balances_recorded_are_spec p h t m r E) as [H _]. specialize (H a).
  unfold free_balance_spec in H. lia.
Qed.

(* ---- non-vacuity witnesses for the hypotheses of the two theorems above *)
Definition ex_params : params :=
  {| max_inputs := 255; max_outputs := 255; max_witnesses := 255; max_gas_per_tx := 100000000; max_size := 112640;
     max_bytecode_subsections := 255; max_predicate_length := 1048576; max_predicate_data_length := 1048576;
     max_message_data_length := 1048576; max_script_length := 1048576; max_script_data_length := 1048576;
     contract_max_size := 102400; max_storage_slots := 255; base_asset := 0; privileged_address := 0 |}.
Definition ex_policies (fee : N) : policies :=
  {| p_bits := 8; p_tip := 0; p_witness_limit := 0; p_maturity := 0; p_max_fee := fee; p_expiration := 0; p_owner := 0 |}.
(* a script spending two assets, a message with data, a contract, fee 10 *)
Definition ex_tx (out_amount : N) : ctx :=
  {| t_body := BScript 4 0; t_policies := ex_policies 10;
     t_inputs := [ICoinSigned 1 7 100 0 0; ICoinPredicate 2 7 50 9 3 0; IMessageCoinSigned 7 5 11 0;
                  IMessageDataSigned 7 33 12 0 4; IContract 5 77];
     t_outputs := [OCoin out_amount 0; OChange 9; OContract 4; OVariable; OCoin 20 9];
     t_witnesses := [64]; t_size := 300; t_max_gas := 1000 |}.
Example ex_accepted : into_checked_basic ex_params 0 (TxCharge (ex_tx 95)) = COk [(0, 0); (9, 30)] 33.
Proof. vm_compute. reflexivity. Qed.
Example ex_overspend_premise :
  exists a, (inputs_total ex_params (ex_tx 96) a < coin_outputs_total (ex_tx 96) a + (if N.eqb a (base_asset ex_params) then fee_limit (ex_tx 96) else 0))%Z.
Proof. exists 0. vm_compute. reflexivity. Qed.
Example ex_overspend_rejected : into_checked_basic ex_params 0 (TxCharge (ex_tx 96)) = CErr (EInsufficientInputAmount 0 96 95).
Proof. vm_compute. reflexivity. Qed.

(* ================================================================== reflection of the common checks *)
Lemma nthN_nth_error {A} (l : list A) : forall n, nthN l n = nth_error l (N.to_nat n).
Proof.
  induction l as [|x r IH]; intros n; cbn [nthN].
  - destruct (N.to_nat n); reflexivity.
  - destruct (N.eqb_spec n 0) as [->|Hn]; [reflexivity|].
    replace (N.to_nat n) with (S (N.to_nat (n - 1))) by lia. cbn [nth_error]. apply IH.
Qed.

Lemma memN_In x l : memN x l = true <-> In x l.
Proof.
  unfold memN. rewrite existsb_exists. split.
  - intros (y & Hy & E). apply N.eqb_eq in E. subst; exact Hy.
  - intros H. exists x. split; [exact H | apply N.eqb_refl].
Qed.
Lemma memN_false x l : memN x l = false <-> ~ In x l.
Proof. rewrite <- memN_In. destruct (memN x l); split; congruence. Qed.

Lemma bits_lt_64 b : negb (63 <? b) = true <-> b < 64.
Proof. destruct (N.ltb_spec 63 b); cbn; split; intros; try lia; congruence. Qed.

Lemma le_u32_opt_iff pl k : le_u32_opt (pol_get pl k) = true <-> (forall v, policy pl k = Some v -> v <= u32_max).
Proof.
  rewrite pol_get_policy. unfold le_u32_opt. destruct (policy pl k) as [v|].
  - rewrite N.leb_le. split; [intros H v' E; inversion E; subst; exact H | intros H; apply H; reflexivity].
  - split; [intros _ v E; discriminate | reflexivity].
Qed.

Lemma policies_is_valid_iff pl : policies_is_valid pl = true <-> PoliciesValid pl.
Proof.
  unfold policies_is_valid. rewrite !andb_true_iff, bits_lt_64, !le_u32_opt_iff, forallb_forall.
  split.
  - intros ((((H1 & H2) & H3) & H4) & H5). constructor; try assumption.
    intros k Hk Hb. assert (Hin : In k POLICY_TYPES).
    { unfold POLICY_TYPES. assert (k = 0 \/ k = 1 \/ k = 2 \/ k = 3 \/ k = 4 \/ k = 5) as Hc by lia.
      cbn [In]. intuition. }
    specialize (H2 k Hin). unfold pol_contains in H2. rewrite Hb in H2. cbn in H2. apply N.eqb_eq in H2. exact H2.
  - intros [H1 H2 H3 H4 H5]. repeat split; try assumption.
    intros k Hin. unfold pol_contains. destruct (N.testbit (p_bits pl) k) eqn:Eb; [reflexivity|]. cbn.
    apply N.eqb_eq. apply H2; [|exact Eb]. unfold POLICY_TYPES in Hin. cbn [In] in Hin. intuition; subst; lia.
Qed.

Lemma maturity_iff pl height : PoliciesValid pl ->
  ((height <? tx_maturity pl) = false <-> (forall m, policy pl POL_MATURITY = Some m -> m <= height)).
Proof.
  intros PV. unfold tx_maturity. rewrite pol_get_policy. rewrite N.ltb_ge.
  destruct (policy pl POL_MATURITY) as [v|] eqn:E.
  - pose proof (pv_maturity_u32 pl PV v E) as Hv. apply N.leb_le in Hv. rewrite Hv.
    split; [intros H m Em; inversion Em; subst; exact H | intros H; apply H; reflexivity].
  - split; [intros _ m Em; discriminate | intros _; lia].
Qed.
Lemma expiration_iff pl height : PoliciesValid pl -> height <= u32_max ->
  ((tx_expiration pl <? height) = false <-> (forall e, policy pl POL_EXPIRATION = Some e -> height <= e)).
Proof.
  intros PV Hh. unfold tx_expiration. rewrite pol_get_policy. rewrite N.ltb_ge.
  destruct (policy pl POL_EXPIRATION) as [v|] eqn:E.
  - pose proof (pv_expiration_u32 pl PV v E) as Hv. apply N.leb_le in Hv. rewrite Hv.
    split; [intros H m Em; inversion Em; subst; exact H | intros H; apply H; reflexivity].
  - split; [intros _ m Em; discriminate | intros _; exact Hh].
Qed.

(* check_owner *)
Lemma has_owner_iff i : has_owner i = true <-> HasOwner i.
Proof. destruct i; cbn; split; intros; try tauto; try congruence. Qed.

Lemma check_owner_iff t : PoliciesValid (t_policies t) ->
  (check_owner t = None <->
   (forall o, policy (t_policies t) POL_OWNER = Some o ->
              exists i, nth_error (t_inputs t) (N.to_nat o) = Some i /\ HasOwner i)).
Proof.
  intros PV. unfold check_owner. rewrite pol_get_policy.
  destruct (policy (t_policies t) POL_OWNER) as [o|] eqn:E.
  - pose proof (pv_owner_u32 _ PV o E) as Ho.
    rewrite !seq_none, !fail_if_none, N.ltb_ge, N.leb_gt, nthN_nth_error. unfold lenN.
    split.
    + intros (_ & Hlen & H) o' Eo. inversion Eo; subst o'.
      destruct (nth_error (t_inputs t) (N.to_nat o)) as [i|]; [|discriminate].
      apply fail_if_none in H. exists i. split; [reflexivity|]. apply has_owner_iff. destruct (has_owner i); [reflexivity | discriminate].
    + intros H. destruct (H o eq_refl) as (i & Hi & Hown). split; [exact Ho|]. split.
      * assert (N.to_nat o < length (t_inputs t))%nat by (apply nth_error_Some; rewrite Hi; discriminate). lia.
      * rewrite Hi. apply fail_if_none. apply has_owner_iff in Hown. rewrite Hown. reflexivity.
  - split; [intros _ o Eo; discriminate | reflexivity].
Qed.

Lemma is_spendable_iff i : is_spendable i = true <-> Spendable i.
Proof. destruct i; cbn; split; intros; try tauto; try congruence. Qed.
Lemma spendable_exists ins : negb (existsb is_spendable ins) = false <-> exists i, In i ins /\ Spendable i.
Proof.
  rewrite negb_false_iff, existsb_exists. split; intros (i & Hi & H); exists i; (split; [exact Hi | apply is_spendable_iff; exact H]).
Qed.

(* next_duplicate (std path): None exactly when there is no repetition *)
Lemma next_duplicate_from_none l : forall seen,
  next_duplicate_from seen l = None <-> NoDup l /\ (forall x, In x l -> ~ In x seen).
Proof.
  induction l as [|x r IH]; intros seen; cbn [next_duplicate_from].
  - split; [intros _; split; [constructor | intros x []] | reflexivity].
  - destruct (memN x seen) eqn:E.
    + apply memN_In in E. split; [discriminate|]. intros [_ H]. exfalso. apply (H x); [left; reflexivity | exact E].
    + apply memN_false in E. rewrite IH. split.
      * intros [Hnd Hdis]. split.
        -- constructor; [|exact Hnd]. intros Hin. apply (Hdis x Hin). left; reflexivity.
        -- intros y [<-|Hy]; [exact E|]. intros Hs. apply (Hdis y Hy). right; exact Hs.
      * intros [Hnd Hdis]. inversion Hnd as [|? ? Hx Hr]; subst. split; [exact Hr|].
        intros y Hy [<-|Hs]; [exact (Hx Hy) | apply (Hdis y); [right; exact Hy | exact Hs]].
Qed.
Lemma dup_err_none mk l : dup_err mk l = None <-> NoDup l.
Proof.
  unfold dup_err, next_duplicate. destruct (next_duplicate_from [] l) eqn:E.
  - split; [discriminate|]. intros H. assert (next_duplicate_from [] l = None) as E' by (apply next_duplicate_from_none; split; [exact H | intros x _ []]). congruence.
  - apply next_duplicate_from_none in E. destruct E as [E _]. split; [intros _; exact E | reflexivity].
Qed.

(* next_duplicate (no-std path) reports a duplicate in exactly the same situations *)
Lemma insert_sorted_perm x l : Permutation (insert_sorted x l) (x :: l).
Proof.
  induction l as [|y r IH]; cbn [insert_sorted]; [reflexivity|].
  destruct (x <=? y); [reflexivity|]. rewrite IH. apply perm_swap.
Qed.
Lemma sort_N_perm l : Permutation (sort_N l) l.
Proof. induction l as [|x r IH]; cbn; [reflexivity|]. rewrite insert_sorted_perm. constructor. exact IH. Qed.
Definition lb (x : N) (l : list N) : Prop := Forall (fun y => x <= y) l.
Inductive ascending : list N -> Prop :=
| asc_nil : ascending []
| asc_cons x l : lb x l -> ascending l -> ascending (x :: l).
Lemma insert_sorted_asc x l : ascending l -> ascending (insert_sorted x l).
Proof.
  induction 1 as [|y r Hlb Hasc IH]; cbn [insert_sorted].
  - constructor; constructor.
  - destruct (N.leb_spec x y).
    + constructor; [|constructor; assumption]. constructor; [exact H|]. eapply Forall_impl; [|exact Hlb]. cbn; intros; lia.
    + constructor; [|exact IH]. unfold lb. rewrite (Forall_forall). intros z Hz.
      apply (Permutation_in _ (insert_sorted_perm x r)) in Hz. destruct Hz as [<-|Hz]; [lia|].
      unfold lb in Hlb. rewrite Forall_forall in Hlb. apply Hlb; exact Hz.
Qed.
Lemma sort_N_asc l : ascending (sort_N l).
Proof. induction l; cbn; [constructor | apply insert_sorted_asc; assumption]. Qed.
Lemma first_adjacent_equal_none l : ascending l -> (first_adjacent_equal l = None <-> NoDup l).
Proof.
  induction 1 as [|x r Hlb Hasc IH]; [split; [constructor | reflexivity]|].
  cbn [first_adjacent_equal]. destruct r as [|y r'].
  - split; [intros _; constructor; [intros [] | constructor] | reflexivity].
  - destruct (N.eqb_spec x y) as [->|Hne].
    + split; [discriminate|]. intros H. inversion H as [|? ? Hx _]; subst. exfalso. apply Hx. left; reflexivity.
    + rewrite IH. split.
      * intros Hnd. constructor; [|exact Hnd]. intros [E|Hin]; [congruence|].
        inversion Hasc as [|? ? Hlb' _]; subst. unfold lb in *. rewrite Forall_forall in Hlb, Hlb'.
        assert (x <= y) by (apply Hlb; left; reflexivity). assert (y <= x) by (apply Hlb'; exact Hin). lia.
      * intros H. inversion H; assumption.
Qed.
Lemma next_duplicate_paths_agree l : next_duplicate l = None <-> next_duplicate_nostd l = None.
Proof.
  unfold next_duplicate, next_duplicate_nostd. rewrite (first_adjacent_equal_none _ (sort_N_asc l)).
  rewrite next_duplicate_from_none. split.
  - intros [H _]. eapply Permutation_NoDup; [symmetry; apply sort_N_perm | exact H].
  - intros H. split; [eapply Permutation_NoDup; [apply sort_N_perm | exact H] | intros x _ []].
Qed.

(* unique(): same elements *)
Lemma unique_from_In l : forall seen a, In a (unique_from seen l) <-> In a l /\ ~ In a seen.
Proof.
  induction l as [|x r IH]; intros seen a; cbn [unique_from]; [cbn; tauto|].
  destruct (memN x seen) eqn:E.
  - apply memN_In in E. rewrite IH. cbn [In]. split; [tauto|]. intros [[<-|H] Hn]; [contradiction | tauto].
  - apply memN_false in E. cbn [In]. rewrite IH. cbn [In]. split.
    + intros [<-|[H Hn]]; [tauto|]. split; [tauto|]. intros Hs; apply Hn; right; exact Hs.
    + intros [[<-|H] Hn]; [left; reflexivity|]. destruct (N.eq_dec x a) as [<-|Hne]; [left; reflexivity|].
      right. split; [exact H|]. intros [Hx|Hs]; [congruence | exact (Hn Hs)].
Qed.

(* counting change outputs of an asset = occurrences among the change assets *)
Lemma count_change_count_occ outs a :
  count_change_outputs outs a = N.of_nat (count_occ N.eq_dec (select change_asset outs) a).
Proof.
  unfold count_change_outputs, lenN. f_equal. induction outs as [|o r IH]; [reflexivity|].
  cbn [filter select flat_map]. destruct o; cbn [change_asset app]; try exact IH.
  cbn [count_occ]. destruct (N.eqb_spec a asset) as [->|Hne].
  - destruct (N.eq_dec asset asset); [|congruence]. cbn [length]. f_equal. exact IH.
  - destruct (N.eq_dec asset a); [congruence|]. exact IH.
Qed.
Lemma first_duplicated_change_none outs assets :
  first_duplicated_change outs assets = None <-> (forall a, In a assets -> count_change_outputs outs a <= 1).
Proof.
  induction assets as [|x r IH]; cbn [first_duplicated_change]; [split; [intros _ a [] | reflexivity]|].
  rewrite seq_none, fail_if_none, N.ltb_ge, IH. split.
  - intros [H1 H2] a [<-|Ha]; [exact H1 | apply H2; exact Ha].
  - intros H. split; [apply H; left; reflexivity | intros a Ha; apply H; right; exact Ha].
Qed.

Lemma input_asset_ids_In base ins a : In a (input_asset_ids base ins) <-> InInputAssets base ins a.
Proof.
  unfold input_asset_ids, select, InInputAssets. rewrite in_flat_map. split.
  - intros (i & Hi & H). exists i. split; [exact Hi|]. destruct (input_asset base i); cbn in H; [destruct H as [<-|[]]; reflexivity | contradiction].
  - intros (i & Hi & H). exists i. split; [exact Hi|]. rewrite H. left; reflexivity.
Qed.

(* the change rules, jointly: (no duplicated change among input assets) + (every change asset is an
   input asset)  <=>  (change assets pairwise distinct) + (every change asset is an input asset) *)
Lemma change_rules_iff base ins outs :
  (forall a, In a (select change_asset outs) -> InInputAssets base ins a) ->
  (first_duplicated_change outs (input_asset_ids_unique base ins) = None <-> NoDup (select change_asset outs)).
Proof.
  intros Hall. rewrite first_duplicated_change_none, (NoDup_count_occ N.eq_dec). split.
  - intros H a. destruct (in_dec N.eq_dec a (select change_asset outs)) as [Hin|Hnin].
    + specialize (H a). rewrite count_change_count_occ in H.
      assert (In a (input_asset_ids_unique base ins)).
      { unfold input_asset_ids_unique. apply unique_from_In. split; [apply input_asset_ids_In, Hall, Hin | intros []]. }
      specialize (H H0). lia.
    + rewrite (proj1 (count_occ_not_In N.eq_dec _ _) Hnin). lia.
  - intros H a _. rewrite count_change_count_occ. specialize (H a). lia.
Qed.

(* try_for_each over an enumerated list *)
Lemma try_each_from_none {A} (f : N -> A -> chk) l : forall s,
  try_each_from f s l = None <-> (forall j x, nth_error l j = Some x -> f (s + N.of_nat j) x = None).
Proof.
  induction l as [|y r IH]; intros s; cbn [try_each_from].
  - split; [intros _ j x H; destruct j; discriminate | reflexivity].
  - rewrite seq_none, IH. split.
    + intros [H0 H] j x Hj. destruct j as [|j]; cbn [nth_error] in Hj.
      * inversion Hj; subst. replace (s + N.of_nat 0) with s by lia. exact H0.
      * replace (s + N.of_nat (S j)) with (s + 1 + N.of_nat j) by lia. apply H; exact Hj.
    + intros H. split.
      * replace s with (s + N.of_nat 0) by lia. apply H. reflexivity.
      * intros j x Hj. replace (s + 1 + N.of_nat j) with (s + N.of_nat (S j)) by lia. apply H. exact Hj.
Qed.
Lemma try_each_none {A} (f : N -> A -> chk) l :
  try_each f l = None <-> (forall j x, nth_error l j = Some x -> f (N.of_nat j) x = None).
Proof. unfold try_each. rewrite try_each_from_none. split; intros H j x Hj; specialize (H j x Hj); [rewrite N.add_0_l in H | rewrite N.add_0_l]; exact H. Qed.
(* ... and when the index does not matter *)
Lemma try_each_none_In {A} (f : N -> A -> chk) (g : A -> Prop) l :
  (forall k x, f k x = None <-> g x) ->
  (try_each f l = None <-> forall x, In x l -> g x).
Proof.
  intros Hfg. rewrite try_each_none. split.
  - intros H x Hx. apply In_nth_error in Hx. destruct Hx as [j Hj]. apply (Hfg (N.of_nat j)). apply H; exact Hj.
  - intros H j x Hj. apply Hfg. apply H. eapply nth_error_In; exact Hj.
Qed.

(* ---- "exactly one position holds x" vs counting *)
Lemma filter_length_zero {A} (f : A -> bool) l :
  length (filter f l) = 0%nat <-> (forall j y, nth_error l j = Some y -> f y = false).
Proof.
  induction l as [|x r IH]; cbn [filter].
  - split; [intros _ j y H; destruct j; discriminate | reflexivity].
  - destruct (f x) eqn:E; cbn [length].
    + split; [discriminate|]. intros H. specialize (H 0%nat x eq_refl). congruence.
    + rewrite IH. split.
      * intros H j y Hj. destruct j; cbn in Hj; [inversion Hj; subst; exact E | eapply H; exact Hj].
      * intros H j y Hj. apply (H (S j)). exact Hj.
Qed.
Lemma filter_length_one {A} (f : A -> bool) l :
  length (filter f l) = 1%nat <-> (exists! j, exists y, nth_error l j = Some y /\ f y = true).
Proof.
  induction l as [|x r IH]; cbn [filter].
  - split; [discriminate|]. intros (j & (y & Hj & _) & _). destruct j; discriminate.
  - destruct (f x) eqn:E; cbn [length].
    + split.
      * intros H. assert (Hz : length (filter f r) = 0%nat) by lia. rewrite filter_length_zero in Hz.
        exists 0%nat. split; [exists x; split; [reflexivity | exact E]|].
        intros j' (y & Hj' & Hy). destruct j'; [reflexivity|]. cbn in Hj'. rewrite (Hz _ _ Hj') in Hy. discriminate.
      * intros (j & _ & Huniq). f_equal. apply filter_length_zero. intros j' y Hj'.
        destruct (f y) eqn:Ey; [|reflexivity]. exfalso.
        assert (j = 0%nat) by (apply Huniq; exists x; split; [reflexivity | exact E]).
        assert (j = S j') by (apply Huniq; exists y; split; [exact Hj' | exact Ey]). lia.
    + rewrite IH. split.
      * intros (j & (y & Hj & Hy) & Huniq). exists (S j). split; [exists y; split; assumption|].
        intros j' (y' & Hj' & Hy'). destruct j'; cbn in Hj'; [inversion Hj'; subst; congruence|].
        f_equal. apply Huniq. exists y'; split; assumption.
      * intros (j & (y & Hj & Hy) & Huniq). destruct j; cbn in Hj; [inversion Hj; subst; congruence|].
        exists j. split; [exists y; split; assumption|].
        intros j' (y' & Hj' & Hy'). assert (S j = S j') by (apply Huniq; exists y'; split; assumption). lia.
Qed.

Definition is_contract_output_for (index : N) (o : output) : bool :=
  match o with OContract k => k =? index | _ => false end.
Lemma is_contract_output_for_iff index o : is_contract_output_for index o = true <-> o = OContract index.
Proof. destruct o; cbn; split; try discriminate. - intros H; apply N.eqb_eq in H; subst; reflexivity. - intros H; inversion H; apply N.eqb_refl. Qed.

Lemma contract_output_unique outs index :
  negb (count_contract_outputs outs index =? 1) = false <-> (exists! j, nth_error outs j = Some (OContract index)).
Proof.
  rewrite negb_false_iff, N.eqb_eq. unfold count_contract_outputs, lenN.
  change (fun o : output => match o with OContract k => k =? index | _ => false end) with (is_contract_output_for index).
  assert (H1 : N.of_nat (length (filter (is_contract_output_for index) outs)) = 1 <-> length (filter (is_contract_output_for index) outs) = 1%nat) by lia.
  rewrite H1, filter_length_one. split.
  - intros (j & (y & Hj & Hy) & Hu). apply is_contract_output_for_iff in Hy; subst y. exists j. split; [exact Hj|].
    intros j' Hj'. apply Hu. exists (OContract index). split; [exact Hj' | apply is_contract_output_for_iff; reflexivity].
  - intros (j & Hj & Hu). exists j. split; [exists (OContract index); split; [exact Hj | apply is_contract_output_for_iff; reflexivity]|].
    intros j' (y & Hj' & Hy). apply is_contract_output_for_iff in Hy; subst y. apply Hu; exact Hj'.
Qed.

(* ---- Input::check_without_signature *)
Lemma check_predicate_iff p index pl pdl : check_predicate p index pl pdl = None <-> PredicateOk p pl pdl.
Proof.
  unfold check_predicate, PredicateOk. rewrite !seq_none, !fail_if_none, N.eqb_neq, !N.ltb_ge. lia.
Qed.
Lemma check_witness_index_iff t index w : check_witness_index (lenN (t_witnesses t)) index w = None <-> WitnessOk t w.
Proof. unfold check_witness_index, WitnessOk, lenN. rewrite fail_if_none, N.leb_gt. tauto. Qed.
Lemma check_message_data_iff p index dl : check_message_data p index dl = None <-> DataOk p dl.
Proof.
  unfold check_message_data, DataOk. rewrite fail_if_none, orb_false_iff, N.eqb_neq, N.ltb_ge. lia.
Qed.

Lemma input_check_iff p t idx i :
  input_check_without_signature p (t_outputs t) (lenN (t_witnesses t)) (N.of_nat idx) i = None <-> InputOk p t idx i.
Proof.
  destruct i; cbn [input_check_without_signature InputOk];
    rewrite ?seq_none, ?check_predicate_iff, ?check_witness_index_iff, ?check_message_data_iff; try tauto.
  rewrite fail_if_none. apply contract_output_unique.
Qed.

(* ---- Output::check + change / coin asset presence *)
Lemma output_rules_iff p t index o :
  output_rules (base_asset p) (t_inputs t) index o = None <-> OutputOk p t o.
Proof.
  unfold output_rules. destruct o; cbn [output_check OutputOk]; rewrite ?seq_none.
  - rewrite fail_if_none, negb_false_iff, memN_In, input_asset_ids_In. tauto.
  - rewrite nthN_nth_error. destruct (nth_error (t_inputs t) (N.to_nat input_index)) as [[]|]; split;
      try (intros [H _]; discriminate); try (intros (u & c & H); discriminate).
    + intros _. eexists; eexists; reflexivity.
    + intros _. split; reflexivity.
  - rewrite fail_if_none, negb_false_iff, memN_In, input_asset_ids_In. tauto.
  - tauto.
  - tauto.
Qed.

(* ================================================================== check_common_part <-> ValidCommon *)
Lemma select_change_In outs a : In a (select change_asset outs) <-> In (OChange a) outs.
Proof.
  unfold select. rewrite in_flat_map. split.
  - intros (o & Ho & H). destruct o; cbn in H; try contradiction. destruct H as [<-|[]]. exact Ho.
  - intros H. exists (OChange a). split; [exact H | left; reflexivity].
Qed.

Theorem check_common_part_iff p height t : height <= u32_max ->
  (check_common_part p height t = None <-> ValidCommon p height t).
Proof.
  intros Hh. unfold check_common_part, check_size.
  rewrite !seq_none, !fail_if_none, !dup_err_none, !N.ltb_ge.
  rewrite negb_false_iff, policies_is_valid_iff, spendable_exists.
  rewrite try_each_none.
  rewrite (try_each_none_In (output_rules (base_asset p) (t_inputs t)) (OutputOk p t)) by (intros; apply output_rules_iff).
  split.
  - intros (Hsize & PV & Hwl & Hgas & Hfee & Hmat & Hexp & Hin & Hout & Hwit & Hown & Hsp & Hch & Hu & Hc & Hn & Hins & Houts).
    assert (Hall : forall a, In a (select change_asset (t_outputs t)) -> InInputAssets (base_asset p) (t_inputs t) a).
    { intros a Ha. apply select_change_In in Ha. exact (Houts _ Ha). }
    constructor; try assumption.
    + intros l El. rewrite pol_get_policy, El in Hwl. apply fail_if_none in Hwl. apply N.ltb_ge in Hwl. exact Hwl.
    + unfold policy_set. unfold pol_contains in Hfee. destruct (N.testbit (p_bits (t_policies t)) POL_MAX_FEE); [reflexivity | discriminate].
    + apply maturity_iff; [exact PV | apply N.ltb_ge; exact Hmat].
    + apply expiration_iff; [exact PV | exact Hh | apply N.ltb_ge; exact Hexp].
    + apply check_owner_iff; assumption.
    + apply (proj1 (change_rules_iff _ _ _ Hall)); exact Hch.
    + intros idx i Hi. apply input_check_iff. apply Hins; exact Hi.
  - intros [Hsize PV Hwl Hgas Hfee Hmat Hexp Hin Hout Hwit Hown Hsp Hch Hu Hc Hn Hins Houts].
    assert (Hall : forall a, In a (select change_asset (t_outputs t)) -> InInputAssets (base_asset p) (t_inputs t) a).
    { intros a Ha. apply select_change_In in Ha. exact (Houts _ Ha). }
    repeat split; try assumption; try (destruct PV; assumption).
    + rewrite pol_get_policy. destruct (policy (t_policies t) POL_WITNESS_LIMIT) as [l|] eqn:El; [|reflexivity].
      apply fail_if_none, N.ltb_ge. apply Hwl; reflexivity.
    + unfold pol_contains. unfold policy_set in Hfee. rewrite Hfee. reflexivity.
    + apply N.ltb_ge. apply maturity_iff; assumption.
    + apply N.ltb_ge. apply expiration_iff; assumption.
    + apply check_owner_iff; assumption.
    + apply (proj2 (change_rules_iff _ _ _ Hall)); exact Hch.
    + intros idx i Hi. apply input_check_iff. apply Hins; exact Hi.
Qed.

(* ================================================================== initial_free_balances <-> ValidBalance *)
Lemma in_input_assets_booked base ins a :
  InInputAssets base ins a -> In a (select (booked_asset base) ins) \/ a = base.
Proof.
  intros (i & Hi & H). destruct i; cbn in H; inversion H; subst; try (right; reflexivity);
    left; unfold select; apply in_flat_map; eexists; (split; [exact Hi | cbn; left; reflexivity]).
Qed.
Lemma select_coin_In outs a : In a (select coin_asset outs) -> exists v, In (OCoin v a) outs.
Proof.
  unfold select. rewrite in_flat_map. intros (o & Ho & H). destruct o; cbn in H; try contradiction.
  destruct H as [<-|[]]. eexists; exact Ho.
Qed.

Theorem initial_free_balances_iff p height t : ValidCommon p height t ->
  ((exists m r, initial_free_balances (base_asset p) t = inr (m, r)) <-> ValidBalance p t).
Proof.
  intros VC. split.
  - intros (m & r & H). destruct (initial_free_balances_ok p t m r H) as (H1 & H2 & H3 & H4 & _).
    constructor; [exact H3 | exact H4|]. intros a. rewrite <- H1. lia.
  - intros [Hfit Hrfit Hsuf]. unfold initial_free_balances.
    pose proof (add_up_input_balances_spec (base_asset p) (t_inputs t)) as A.
    destruct (add_up_input_balances (base_asset p) (t_inputs t)) as [[m0 r0]|].
    2:{ exfalso. destruct A as [[a Ha]|Hr].
        - specialize (Hfit a). unfold inputs_total in Hfit. unfold in_sum in Ha. lia.
        - unfold retryable_total in Hrfit. unfold retry_sum in Hr. lia. }
    destruct A as (Hs & Hrec & Hr & Hlt & Hrl & Hkeys).
    pose proof (v_max_fee_set _ _ _ VC) as Hfee. unfold policy_set in Hfee.
    rewrite pol_get_policy. unfold policy. rewrite Hfee.
    assert (Efee : fee_limit t = Z.of_N (policy_word (t_policies t) POL_MAX_FEE)).
    { unfold fee_limit, policy. rewrite Hfee. reflexivity. }
    set (fee := policy_word (t_policies t) POL_MAX_FEE) in *.
    assert (Hout_nonneg : forall a, (0 <= out_sum a (t_outputs t))%Z).
    { intros a. apply sumZ_nonneg. apply coin_output_amount_nonneg. }
    pose proof (deduct_spec m0 (base_asset p) fee Hs) as D.
    destruct (deduct_max_fee_from_base_asset m0 (base_asset p) fee) as [e|m1].
    { exfalso. destruct D as [D _]. specialize (Hsuf (base_asset p)). unfold free_balance_spec in Hsuf.
      rewrite N.eqb_refl, Efee in Hsuf. unfold inputs_total, coin_outputs_total in Hsuf.
      fold (in_sum (base_asset p) (base_asset p) (t_inputs t)) in Hsuf. fold (out_sum (base_asset p) (t_outputs t)) in Hsuf.
      rewrite <- Hrec in Hsuf. specialize (Hout_nonneg (base_asset p)). lia. }
    destruct D as (Hs1 & Hle & Hb & Hoth & Hin).
    pose proof (reduce_spec (t_outputs t) m1) as R.
    destruct (reduce_free_balances_by_coin_outputs m1 (t_outputs t)) as [e|m2]; [|eexists; eexists; reflexivity].
    exfalso. destruct R as [(a & Ha & Hnone)|(a & Ha)].
    + apply select_coin_In in Ha. destruct Ha as [v Hv].
      pose proof (v_outputs _ _ _ VC _ Hv) as Ho. cbn [OutputOk] in Ho.
      destruct (in_input_assets_booked _ _ _ Ho) as [Hbk| -> ]; [|contradiction].
      apply Hkeys in Hbk. destruct (N.eq_dec a (base_asset p)) as [->|Hne]; [contradiction|].
      rewrite (Hoth a Hne) in Hnone. contradiction.
    + specialize (Hsuf a). unfold free_balance_spec, inputs_total, coin_outputs_total in Hsuf.
      fold (in_sum (base_asset p) a (t_inputs t)) in Hsuf. fold (out_sum a (t_outputs t)) in Hsuf.
      destruct (N.eq_dec a (base_asset p)) as [E|Hne].
      * rewrite E in *. rewrite N.eqb_refl, Efee, <- Hrec in Hsuf. lia.
      * rewrite (proj2 (N.eqb_neq _ _) Hne) in Hsuf.
        rewrite (recorded_same m0 m1 a) in Ha by (apply Hoth; exact Hne). rewrite Hrec in Ha. lia.
Qed.

(* ================================================================== kind-specific rules *)
Lemma restricted_input_iff p index i : restricted_input (base_asset p) index i = None <-> BaseOnlyInput p i.
Proof.
  unfold restricted_input. destruct i; cbn [input_asset BaseOnlyInput]; rewrite ?seq_none, ?fail_if_none, ?negb_false_iff, ?N.eqb_eq;
    try tauto; try (rewrite N.eqb_refl; cbn; tauto); split; try tauto; try (intros [_ H]; discriminate); try discriminate.
Qed.
Lemma restricted_output_iff p index o : restricted_output (base_asset p) index o = None <-> PlainOutput p false o.
Proof.
  destruct o; cbn [restricted_output PlainOutput]; rewrite ?fail_if_none, ?negb_false_iff, ?N.eqb_eq; try tauto;
    split; try discriminate; try tauto.
Qed.

Lemma windows_sorted_iff l : windows_sorted l = true <-> StrictlyIncreasing l.
Proof.
  induction l as [|a r IH]; [cbn; tauto|]. destruct r as [|b r']; [cbn; tauto|].
  change (windows_sorted (a :: b :: r')) with ((a <? b) && windows_sorted (b :: r')).
  change (StrictlyIncreasing (a :: b :: r')) with (a < b /\ StrictlyIncreasing (b :: r')).
  rewrite andb_true_iff, N.ltb_lt, IH. tauto.
Qed.

Lemma existsb_filter_length {A} (f : A -> bool) l : existsb f l = true <-> (1 <= length (filter f l))%nat.
Proof.
  induction l as [|x r IH]; cbn [existsb filter]; [cbn; split; [discriminate | lia]|].
  destruct (f x); cbn [orb length]; [split; [lia | reflexivity] | exact IH].
Qed.

Definition create_outputs_ok (p : params) (cid sroot : N) (created : bool) (outs : list output) : Prop :=
  (forall o, In o outs -> PlainOutput p true o) /\
  (forall c s, In (OContractCreated c s) outs -> c = cid /\ s = sroot) /\
  (length (filter is_created outs) + (if created then 1 else 0) <= 1)%nat.

Lemma create_outputs_ok_skip p cid sroot created o r :
  is_created o = false -> PlainOutput p true o ->
  (create_outputs_ok p cid sroot created (o :: r) <-> create_outputs_ok p cid sroot created r).
Proof.
  intros Hc Hp. unfold create_outputs_ok. cbn [filter]. rewrite Hc. split.
  - intros (H1 & H2 & H3). split; [|split; [|exact H3]].
    + intros o' Ho'; apply H1; right; exact Ho'.
    + intros c s Hin; apply (H2 c s); right; exact Hin.
  - intros (H1 & H2 & H3). split; [|split; [|exact H3]].
    + intros o' [<-|Ho']; [exact Hp | apply H1; exact Ho'].
    + intros c s [E|Hin]; [subst o; discriminate | apply (H2 c s); exact Hin].
Qed.
Lemma create_outputs_ok_bad p cid sroot created o r :
  ~ PlainOutput p true o -> ~ create_outputs_ok p cid sroot created (o :: r).
Proof. intros Hn (H1 & _). apply Hn. apply H1. left; reflexivity. Qed.

Lemma create_outputs_spec p cid sroot outs : forall idx created,
  match create_outputs (base_asset p) cid sroot idx created outs with
  | inr b => create_outputs_ok p cid sroot created outs /\ b = created || existsb is_created outs
  | inl _ => ~ create_outputs_ok p cid sroot created outs
  end.
Proof.
  induction outs as [|o r IH]; intros idx created.
  - cbn [create_outputs existsb]. split; [|rewrite orb_false_r; reflexivity]. unfold create_outputs_ok.
    split; [intros o []|]. split; [intros c s []|]. destruct created; cbn; lia.
  - destruct o as [v a|k|a| |c s]; cbn [create_outputs].
    + specialize (IH (idx + 1) created). pose proof (create_outputs_ok_skip p cid sroot created (OCoin v a) r eq_refl I) as Hiff.
      cbn [existsb is_created orb]. destruct (create_outputs (base_asset p) cid sroot (idx + 1) created r); tauto.
    + apply create_outputs_ok_bad. cbn. tauto.
    + destruct (N.eqb_spec a (base_asset p)) as [->|Hne]; cbn [negb].
      * specialize (IH (idx + 1) created). pose proof (create_outputs_ok_skip p cid sroot created (OChange (base_asset p)) r eq_refl eq_refl) as Hiff.
        cbn [existsb is_created orb]. destruct (create_outputs (base_asset p) cid sroot (idx + 1) created r); tauto.
      * apply create_outputs_ok_bad. cbn. exact Hne.
    + apply create_outputs_ok_bad. cbn. tauto.
    + destruct (N.eqb_spec c cid) as [->|Hc]; cbn [negb orb].
      2:{ intros (_ & H2 & _). destruct (H2 c s (or_introl eq_refl)). contradiction. }
      destruct (N.eqb_spec s sroot) as [->|Hs]; cbn [negb].
      2:{ intros (_ & H2 & _). destruct (H2 cid s (or_introl eq_refl)). contradiction. }
      destruct created.
      * intros (_ & _ & H3). cbn [filter is_created length] in H3. lia.
      * specialize (IH (idx + 1) true). destruct (create_outputs (base_asset p) cid sroot (idx + 1) true r) as [e|b].
        -- intros (H1 & H2 & H3). apply IH. repeat split.
           ++ intros o Ho. apply H1. right; exact Ho.
           ++ apply (H2 c s). right; exact H.
           ++ apply (H2 c s). right; exact H.
           ++ cbn [filter is_created length] in H3. lia.
        -- destruct IH as ((H1 & H2 & H3) & Hb). split; [|cbn [existsb is_created orb]; subst b; reflexivity].
           repeat split.
           ++ intros o [<-|Ho]; [reflexivity | apply H1; exact Ho].
           ++ destruct H as [E|Hin]; [inversion E; reflexivity | apply (H2 c s Hin)].
           ++ destruct H as [E|Hin]; [inversion E; reflexivity | apply (H2 c s Hin)].
           ++ cbn [filter is_created length]. lia.
Qed.

Lemma owned_by_exists addr ins :
  negb (existsb (owned_by addr) ins) = false <-> exists i, In i ins /\ input_owner i = Some addr.
Proof.
  rewrite negb_false_iff, existsb_exists. unfold owned_by. split; intros (i & Hi & H); exists i; (split; [exact Hi|]).
  - destruct (input_owner i) as [o|]; [|discriminate]. apply N.eqb_eq in H. subst; reflexivity.
  - rewrite H. apply N.eqb_refl.
Qed.
Lemma upgrade_metadata_iff t pu :
  upgrade_metadata t pu = None <->
  match pu with
  | UpConsensusParameters w ck dec => w < N.of_nat (length (t_witnesses t)) /\ ck = true /\ dec = true
  | UpStateTransition => True
  end.
Proof.
  destruct pu as [w ck dec|]; cbn [upgrade_metadata]; [|tauto].
  rewrite !seq_none, !fail_if_none, !negb_false_iff, N.leb_gt. unfold lenN. tauto.
Qed.

Lemma restricted_io_iff p t :
  (try_each (restricted_input (base_asset p)) (t_inputs t) = None /\
   try_each (restricted_output (base_asset p)) (t_outputs t) = None) <->
  ((forall i, In i (t_inputs t) -> BaseOnlyInput p i) /\ (forall o, In o (t_outputs t) -> PlainOutput p false o)).
Proof.
  rewrite (try_each_none_In _ (BaseOnlyInput p)) by (intros; apply restricted_input_iff).
  rewrite (try_each_none_In _ (PlainOutput p false)) by (intros; apply restricted_output_iff). tauto.
Qed.

Theorem check_unique_rules_iff p t :
  (precompute t = None /\ check_unique_rules p t = None) <-> ValidKind p t.
Proof.
  unfold precompute, check_unique_rules, ValidKind. destruct (t_body t) as [sl sdl|bwi slots cid sroot|pu|n w ok|w ok].
  - (* script *)
    unfold script_unique_rules. rewrite !seq_none, !fail_if_none, !N.ltb_ge.
    rewrite (try_each_none_In _ (fun o => is_created o = false)) by (intros; apply fail_if_none). tauto.
  - (* create *)
    unfold create_unique_rules. rewrite nthN_nth_error.
    destruct (nth_error (t_witnesses t) (N.to_nat bwi)) as [len|] eqn:El.
    2:{ split; [intros [H _]; discriminate | intros ((len & H & _) & _); discriminate]. }
    rewrite !seq_none, !fail_if_none, !N.ltb_ge, negb_false_iff, windows_sorted_iff.
    rewrite (try_each_none_In _ (BaseOnlyInput p)) by (intros; apply restricted_input_iff).
    pose proof (create_outputs_spec p cid sroot (t_outputs t) 0 false) as C. unfold lenN.
    destruct (create_outputs (base_asset p) cid sroot 0 false (t_outputs t)) as [e|b].
    + split; [intros (_ & _ & _ & _ & _ & H); discriminate|].
      intros (_ & _ & _ & _ & H1 & H2 & H3). exfalso. apply C. unfold create_outputs_ok.
      split; [exact H1 | split; [exact H2 | lia]].
    + destruct C as ((C1 & C2 & C3) & Cb). cbn [orb] in Cb. rewrite fail_if_none, negb_false_iff. split.
      * intros (_ & Hlen & Hn & Hso & Hin & Hb).
        split; [exists len; split; [reflexivity | exact Hlen]|].
        split; [exact Hn|]. split; [exact Hso|]. split; [exact Hin|]. split; [exact C1|]. split; [exact C2|].
        subst b. apply existsb_filter_length in Hb. lia.
      * intros ((len' & E & Hlen) & Hn & Hso & Hin & H1 & H2 & H3). inversion E; subst len'.
        split; [reflexivity|]. split; [exact Hlen|]. split; [exact Hn|]. split; [exact Hso|]. split; [exact Hin|].
        subst b. apply existsb_filter_length. lia.
  - (* upgrade *)
    unfold upgrade_unique_rules. rewrite !seq_none, fail_if_none, owned_by_exists, upgrade_metadata_iff.
    pose proof (restricted_io_iff p t). tauto.
  - (* upload *)
    unfold upload_unique_rules. rewrite !seq_none, !fail_if_none, N.ltb_ge, N.leb_gt, negb_false_iff. unfold lenN.
    pose proof (restricted_io_iff p t). tauto.
  - (* blob *)
    unfold blob_unique_rules. rewrite !seq_none, !fail_if_none, N.leb_gt, negb_false_iff. unfold lenN.
    pose proof (restricted_io_iff p t). tauto.
Qed.

(* ================================================================== Mint *)
Lemma mint_check_iff p height m : mint_check_without_signatures p height m = None <-> ValidMint p height m.
Proof.
  unfold mint_check_without_signatures, check_size, ValidMint.
  rewrite !seq_none, !fail_if_none, N.ltb_ge, !negb_false_iff, !N.eqb_eq. tauto.
Qed.

(* ================================================================== C19_iff *)
Theorem accepted_iff_valid p height x : height <= u32_max ->
  ((exists balances retryable, into_checked_basic p height x = COk balances retryable) <-> Valid p height x).
Proof.
  intros Hh. destruct x as [t|m]; cbn [Valid].
  - rewrite <- (check_common_part_iff p height t Hh), <- (check_unique_rules_iff p t). split.
    + intros (b & r & H). apply into_checked_basic_ok in H. destruct H as (H1 & H2 & H3 & H4).
      split; [exact H2|]. split; [split; assumption|].
      apply (initial_free_balances_iff p height t); [apply check_common_part_iff; assumption | eexists; eexists; exact H4].
    + intros (H2 & (H1 & H3) & H4).
      apply (initial_free_balances_iff p height t) in H4; [|apply check_common_part_iff; assumption].
      destruct H4 as (b & r & H4). exists b, r. apply into_checked_basic_ok. repeat split; assumption.
  - rewrite <- mint_check_iff. unfold into_checked_basic.
    destruct (mint_check_without_signatures p height m) as [e|]; split.
    + intros (b & r & H); discriminate.
    + discriminate.
    + reflexivity.
    + intros _. eexists; eexists; reflexivity.
Qed.

(* the block height is a u32 in the implementation; the model's arithmetic needs that bound:
   beyond it a transaction without expiration policy would be "expired" *)
Lemma height_bound_needed :
  exists p height x, Valid p height x /\ forall b r, into_checked_basic p height x <> COk b r.
Proof.
  exists ex_params, 4294967296, (TxCharge (ex_tx 95)). split.
  - (* validity does not depend on the height here: transfer it from height 0 *)
    assert (V0 : Valid ex_params 0 (TxCharge (ex_tx 95))).
    { apply accepted_iff_valid; [unfold u32_max; lia|]. eexists; eexists. exact ex_accepted. }
    destruct V0 as (VC & VK & VB). split; [|split; assumption].
    destruct VC. constructor; try assumption.
    + intros m E. vm_compute in E. discriminate.
    + intros e E. vm_compute in E. discriminate.
  - intros b r. vm_compute. discriminate.
Qed.

Example ex_valid : Valid ex_params 0 (TxCharge (ex_tx 95)).
Proof. apply accepted_iff_valid; [unfold u32_max; lia|]. eexists; eexists. exact ex_accepted. Qed.
Example ex_invalid : ~ Valid ex_params 0 (TxCharge (ex_tx 96)).
Proof.
  intros V. apply accepted_iff_valid in V; [|unfold u32_max; lia]. destruct V as (b & r & H).
  rewrite ex_overspend_rejected in H. discriminate.
Qed.
