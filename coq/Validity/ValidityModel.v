(* Validity/ValidityModel.v — L1 executable model of transaction checking (C19).

   Mirrors, function by function and in source order (so that the FIRST error agrees):
     fuel-tx/src/transaction/validity.rs      check_size, check_owner, check_common_part,
                                              Input::check_without_signature, Output::check,
                                              next_duplicate (std: itertools `duplicates`;
                                              no-std: sorted + adjacent windows)
     fuel-tx/src/transaction/policies.rs      Policies::{get,is_set,is_valid}
     fuel-tx/src/transaction.rs               field::{Maturity,Expiration,Owner},
                                              Executable::{input_asset_ids,input_asset_ids_unique}
     fuel-tx/src/transaction/types/*.rs       check_unique_rules of Script/Create/Upgrade/Upload/Blob,
                                              Mint::check_without_signatures
     fuel-vm/src/checked_transaction/balances.rs   initial_free_balances (BTreeMap = sorted
                                              association list; checked u64 arithmetic)
     fuel-vm/src/checked_transaction/types.rs      IntoChecked::into_checked_basic
   over the abstract transaction record of ValiditySpec.v.  Definitions only. *)
From FV Require Import Base.Bytes Base.U64 Validity.ValiditySpec.
Open Scope N_scope.

(* ValidityError, the kinds reachable from into_checked_basic, with their payloads *)
Inductive verr :=
| ENoSpendableInput
| EInputWitnessIndexBounds (index : N)
| EInputPredicateEmpty (index : N)
| EInputPredicateLength (index : N)
| EInputPredicateDataLength (index : N)
| EInputContractAssociatedOutputContract (index : N)
| EInputMessageDataLength (index : N)
| EDuplicateInputUtxoId (utxo : N)
| EDuplicateInputNonce (nonce : N)
| EDuplicateInputContractId (contract_id : N)
| EOutputContractInputIndex (index : N)
| ETransactionInputContainsNonBaseAssetId (index : N)
| ETransactionInputContainsContract (index : N)
| ETransactionInputContainsMessageData (index : N)
| ETransactionOutputContainsContract (index : N)
| ETransactionOutputContainsVariable (index : N)
| ETransactionChangeChangeUsesNotBaseAsset (index : N)
| ETransactionCreateOutputContractCreatedDoesntMatch (index : N)
| ETransactionCreateOutputContractCreatedMultiple (index : N)
| ETransactionCreateBytecodeLen
| ETransactionCreateBytecodeWitnessIndex
| ETransactionCreateStorageSlotMax
| ETransactionCreateStorageSlotOrder
| ETransactionScriptLength
| ETransactionScriptDataLength
| ETransactionOutputContainsContractCreated (index : N)
| ETransactionMintIncorrectBlockHeight
| ETransactionMintIncorrectOutputIndex
| ETransactionMintNonBaseAsset
| ETransactionUpgradeNoPrivilegedAddress
| ETransactionUpgradeConsensusParametersChecksumMismatch
| ETransactionUpgradeConsensusParametersDeserialization
| ETransactionUploadRootVerificationFailed
| ETransactionUploadTooManyBytecodeSubsections
| ETransactionSizeLimitExceeded
| ETransactionMaxGasExceeded
| ETransactionWitnessLimitExceeded
| ETransactionPoliciesAreInvalid
| ETransactionMaturity
| ETransactionExpiration
| ETransactionMaxFeeNotSet
| ETransactionInputsMax
| ETransactionOutputsMax
| ETransactionWitnessesMax
| ETransactionOutputChangeAssetIdDuplicated (asset : N)
| ETransactionOutputChangeAssetIdNotFound (asset : N)
| ETransactionOutputCoinAssetIdNotFound (asset : N)
| EInsufficientFeeAmount (expected provided : N)
| EInsufficientInputAmount (asset expected provided : N)
| EBalanceOverflow
| ETransactionOutputDoesntContainContractCreated
| ETransactionBlobIdVerificationFailed
| ETransactionOwnerIndexOutOfBounds
| ETransactionOwnerInputHasNoOwner (index : N)
| EOther (code : N).          (* never produced by the model: kinds it does not know *)

(* Result<(), ValidityError>: None = Ok(()) ; `a ;; b` = `a?; b` *)
Definition chk := option verr.
Definition andthen (a b : chk) : chk := match a with Some e => Some e | None => b end.
Notation "a ;; b" := (match a with Some e => Some e | None => b end) (at level 61, right associativity, only parsing).
Definition fail_if (c : bool) (e : verr) : chk := if c then Some e else None.

(* slice.get(i) for i given as a machine integer *)
Fixpoint nthN {A} (l : list A) (n : N) : option A :=
  match l with
  | [] => None
  | x :: r => if n =? 0 then Some x else nthN r (n - 1)
  end.

(* iter().enumerate().try_for_each(f) *)
Fixpoint try_each_from {A} (f : N -> A -> chk) (i : N) (l : list A) : chk :=
  match l with
  | [] => None
  | x :: r => f i x ;; try_each_from f (i + 1) r
  end.
Definition try_each {A} (f : N -> A -> chk) (l : list A) : chk := try_each_from f 0 l.

Definition memN (x : N) (l : list N) : bool := existsb (N.eqb x) l.

(* ------------------------------------------------------------------ policies.rs *)
Definition pol_contains (pl : policies) (k : N) : bool := N.testbit (p_bits pl) k.      (* bits.contains(bit k) *)
Definition pol_get (pl : policies) (k : N) : option N :=                               (* Policies::get *)
  if pol_contains pl k then Some (policy_word pl k) else None.
Definition POLICY_TYPES : list N := [0; 1; 2; 3; 4; 5].
Definition le_u32_opt (o : option N) : bool := match o with Some v => v <=? u32_max | None => true end.
Definition policies_is_valid (pl : policies) : bool :=                                  (* Policies::is_valid *)
  negb (63 <? p_bits pl) &&                                       (* bits > PoliciesBits::all() *)
  forallb (fun k => pol_contains pl k || (policy_word pl k =? 0)) POLICY_TYPES &&   (* values == values_for_bitmask *)
  le_u32_opt (pol_get pl POL_MATURITY) && le_u32_opt (pol_get pl POL_EXPIRATION) && le_u32_opt (pol_get pl POL_OWNER).

(* field::Maturity::maturity / field::Expiration::expiration (BlockHeight = u32) *)
Definition tx_maturity (pl : policies) : N :=
  match pol_get pl POL_MATURITY with
  | Some v => if v <=? u32_max then v else u32_max
  | None => 0
  end.
Definition tx_expiration (pl : policies) : N :=
  match pol_get pl POL_EXPIRATION with
  | Some v => if v <=? u32_max then v else u32_max
  | None => u32_max
  end.

(* ------------------------------------------------------------------ Input / Output helpers *)
Definition is_spendable (i : input) : bool :=
  match i with
  | ICoinSigned _ _ _ _ _ | ICoinPredicate _ _ _ _ _ _
  | IMessageCoinSigned _ _ _ _ | IMessageCoinPredicate _ _ _ _ _ => true
  | _ => false
  end.
Definition is_contract_input (i : input) : bool := match i with IContract _ _ => true | _ => false end.
Definition has_owner (i : input) : bool := negb (is_contract_input i).                  (* input_owner().is_some() *)

(* Executable::input_asset_ids *)
Definition input_asset_ids (base : N) (ins : list input) : list N := select (input_asset base) ins.
(* itertools unique(): first occurrences, in order *)
Fixpoint unique_from (seen : list N) (l : list N) : list N :=
  match l with
  | [] => []
  | x :: r => if memN x seen then unique_from seen r else x :: unique_from (x :: seen) r
  end.
Definition input_asset_ids_unique (base : N) (ins : list input) : list N := unique_from [] (input_asset_ids base ins).

(* next_duplicate, std: itertools duplicates().next() = the first element met for the second time *)
Fixpoint next_duplicate_from (seen : list N) (l : list N) : option N :=
  match l with
  | [] => None
  | x :: r => if memN x seen then Some x else next_duplicate_from (x :: seen) r
  end.
Definition next_duplicate (l : list N) : option N := next_duplicate_from [] l.
(* next_duplicate, no-std: sort, then the first adjacent equal pair *)
Fixpoint insert_sorted (x : N) (l : list N) : list N :=
  match l with [] => [x] | y :: r => if x <=? y then x :: l else y :: insert_sorted x r end.
Definition sort_N (l : list N) : list N := fold_right insert_sorted [] l.
Fixpoint first_adjacent_equal (l : list N) : option N :=
  match l with
  | a :: ((b :: _) as r) => if a =? b then Some a else first_adjacent_equal r
  | _ => None
  end.
Definition next_duplicate_nostd (l : list N) : option N := first_adjacent_equal (sort_N l).

(* Vec<Witness>::size_dynamic *)
Definition witnesses_size_dynamic (ws : list N) : N := fold_right (fun l acc => 8 + pad8 l + acc) 0 ws.

(* ------------------------------------------------------------------ validity.rs *)
Definition check_size (size : N) (p : params) : chk :=
  fail_if (max_size p <? size) ETransactionSizeLimitExceeded.

Definition check_owner (t : ctx) : chk :=
  match pol_get (t_policies t) POL_OWNER with
  | None => None
  | Some owner =>
      fail_if (u32_max <? owner) ETransactionOwnerIndexOutOfBounds ;;          (* u32::try_from *)
      fail_if (lenN (t_inputs t) <=? owner) ETransactionOwnerIndexOutOfBounds ;;
      match nthN (t_inputs t) owner with
      | Some i => fail_if (negb (has_owner i)) (ETransactionOwnerInputHasNoOwner owner)
      | None => Some (ETransactionOwnerInputHasNoOwner owner)
      end
  end.

Definition count_contract_outputs (outs : list output) (index : N) : N :=
  lenN (filter (fun o => match o with OContract k => k =? index | _ => false end) outs).

Definition check_predicate (p : params) (index plen pdlen : N) : chk :=
  fail_if (plen =? 0) (EInputPredicateEmpty index) ;;
  fail_if (max_predicate_length p <? plen) (EInputPredicateLength index) ;;
  fail_if (max_predicate_data_length p <? pdlen) (EInputPredicateDataLength index).
Definition check_witness_index (nwit index w : N) : chk :=
  fail_if (nwit <=? w) (EInputWitnessIndexBounds index).
Definition check_message_data (p : params) (index dlen : N) : chk :=
  fail_if ((dlen =? 0) || (max_message_data_length p <? dlen)) (EInputMessageDataLength index).

(* Input::check_without_signature: the match arms with guards, top to bottom *)
Definition input_check_without_signature (p : params) (outs : list output) (nwit : N) (index : N) (i : input) : chk :=
  match i with
  | ICoinSigned _ _ _ _ w => check_witness_index nwit index w
  | ICoinPredicate _ _ _ _ pl pdl => check_predicate p index pl pdl
  | IContract _ _ =>
      fail_if (negb (count_contract_outputs outs index =? 1)) (EInputContractAssociatedOutputContract index)
  | IMessageCoinSigned _ _ _ w => check_witness_index nwit index w
  | IMessageCoinPredicate _ _ _ pl pdl => check_predicate p index pl pdl
  | IMessageDataSigned _ _ _ w dl => check_witness_index nwit index w ;; check_message_data p index dl
  | IMessageDataPredicate _ _ _ dl pl pdl => check_predicate p index pl pdl ;; check_message_data p index dl
  end.

(* Output::check *)
Definition output_check (ins : list input) (index : N) (o : output) : chk :=
  match o with
  | OContract k =>
      match nthN ins k with
      | Some (IContract _ _) => None
      | _ => Some (EOutputContractInputIndex index)
      end
  | _ => None
  end.

Definition count_change_outputs (outs : list output) (a : N) : N :=
  lenN (filter (fun o => match o with OChange a' => a =? a' | _ => false end) outs).

Fixpoint first_duplicated_change (outs : list output) (assets : list N) : chk :=
  match assets with
  | [] => None
  | a :: r => fail_if (1 <? count_change_outputs outs a) (ETransactionOutputChangeAssetIdDuplicated a) ;;
              first_duplicated_change outs r
  end.

Definition output_rules (base : N) (ins : list input) (index : N) (o : output) : chk :=
  output_check ins index o ;;
  match o with
  | OChange a => fail_if (negb (memN a (input_asset_ids base ins))) (ETransactionOutputChangeAssetIdNotFound a)
  | OCoin _ a => fail_if (negb (memN a (input_asset_ids base ins))) (ETransactionOutputCoinAssetIdNotFound a)
  | _ => None
  end.

Definition dup_err (mk : N -> verr) (l : list N) : chk :=
  match next_duplicate l with Some x => Some (mk x) | None => None end.

Definition check_common_part (p : params) (height : N) (t : ctx) : chk :=
  let pl := t_policies t in
  let ins := t_inputs t in
  let outs := t_outputs t in
  check_size (t_size t) p ;;
  fail_if (negb (policies_is_valid pl)) ETransactionPoliciesAreInvalid ;;
  match pol_get pl POL_WITNESS_LIMIT with
  | Some limit => fail_if (limit <? witnesses_size_dynamic (t_witnesses t)) ETransactionWitnessLimitExceeded
  | None => None
  end ;;
  fail_if (max_gas_per_tx p <? t_max_gas t) ETransactionMaxGasExceeded ;;
  fail_if (negb (pol_contains pl POL_MAX_FEE)) ETransactionMaxFeeNotSet ;;
  fail_if (height <? tx_maturity pl) ETransactionMaturity ;;
  fail_if (tx_expiration pl <? height) ETransactionExpiration ;;
  fail_if (max_inputs p <? lenN ins) ETransactionInputsMax ;;
  fail_if (max_outputs p <? lenN outs) ETransactionOutputsMax ;;
  fail_if (max_witnesses p <? lenN (t_witnesses t)) ETransactionWitnessesMax ;;
  check_owner t ;;
  fail_if (negb (existsb is_spendable ins)) ENoSpendableInput ;;
  first_duplicated_change outs (input_asset_ids_unique (base_asset p) ins) ;;
  dup_err EDuplicateInputUtxoId (select coin_utxo ins) ;;
  dup_err EDuplicateInputContractId (select input_contract_id ins) ;;
  dup_err EDuplicateInputNonce (select message_nonce ins) ;;
  try_each (input_check_without_signature p outs (lenN (t_witnesses t))) ins ;;
  try_each (output_rules (base_asset p) ins) outs.

(* ------------------------------------------------------------------ check_unique_rules *)
(* the input/output loops shared by Create, Upgrade, Upload, Blob *)
Definition restricted_input (base : N) (index : N) (i : input) : chk :=
  match input_asset base i with
  | Some a => fail_if (negb (a =? base)) (ETransactionInputContainsNonBaseAssetId index)
  | None => None
  end ;;
  match i with
  | IContract _ _ => Some (ETransactionInputContainsContract index)
  | IMessageDataSigned _ _ _ _ _ | IMessageDataPredicate _ _ _ _ _ _ => Some (ETransactionInputContainsMessageData index)
  | _ => None
  end.
Definition restricted_output (base : N) (index : N) (o : output) : chk :=
  match o with
  | OContract _ => Some (ETransactionOutputContainsContract index)
  | OVariable => Some (ETransactionOutputContainsVariable index)
  | OChange a => fail_if (negb (a =? base)) (ETransactionChangeChangeUsesNotBaseAsset index)
  | OContractCreated _ _ => Some (ETransactionOutputContainsContractCreated index)
  | OCoin _ _ => None
  end.

Definition script_unique_rules (p : params) (t : ctx) (sl sdl : N) : chk :=
  fail_if (max_script_length p <? sl) ETransactionScriptLength ;;
  fail_if (max_script_data_length p <? sdl) ETransactionScriptDataLength ;;
  try_each (fun index o => fail_if (is_created o) (ETransactionOutputContainsContractCreated index)) (t_outputs t).

(* slots.windows(2).all(|s| s[0] < s[1]) *)
Fixpoint windows_sorted (l : list N) : bool :=
  match l with
  | a :: ((b :: _) as r) => (a <? b) && windows_sorted r
  | _ => true
  end.

(* the output loop of Create with its `contract_created` flag; returns the error or the flag *)
Fixpoint create_outputs (base cid sroot : N) (index : N) (created : bool) (outs : list output) : verr + bool :=
  match outs with
  | [] => inr created
  | o :: r =>
      match o with
      | OContract _ => inl (ETransactionOutputContainsContract index)
      | OVariable => inl (ETransactionOutputContainsVariable index)
      | OChange a =>
          if negb (a =? base) then inl (ETransactionChangeChangeUsesNotBaseAsset index)
          else create_outputs base cid sroot (index + 1) created r
      | OContractCreated c s =>
          if negb (c =? cid) || negb (s =? sroot) then inl (ETransactionCreateOutputContractCreatedDoesntMatch index)
          else if created then inl (ETransactionCreateOutputContractCreatedMultiple index)
          else create_outputs base cid sroot (index + 1) true r
      | OCoin _ _ => create_outputs base cid sroot (index + 1) created r
      end
  end.

Definition create_unique_rules (p : params) (t : ctx) (bwi : N) (slots : list N) (cid sroot : N) : chk :=
  match nthN (t_witnesses t) bwi with
  | None => Some ETransactionCreateBytecodeWitnessIndex
  | Some len =>
      fail_if (contract_max_size p <? len) ETransactionCreateBytecodeLen ;;
      fail_if (max_storage_slots p <? lenN slots) ETransactionCreateStorageSlotMax ;;
      fail_if (negb (windows_sorted slots)) ETransactionCreateStorageSlotOrder ;;
      try_each (restricted_input (base_asset p)) (t_inputs t) ;;
      match create_outputs (base_asset p) cid sroot 0 false (t_outputs t) with
      | inl e => Some e
      | inr created => fail_if (negb created) ETransactionOutputDoesntContainContractCreated
      end
  end.

(* UpgradeMetadata::compute *)
Definition upgrade_metadata (t : ctx) (pu : upgrade_purpose) : chk :=
  match pu with
  | UpConsensusParameters w ck dec =>
      fail_if (lenN (t_witnesses t) <=? w) (EInputWitnessIndexBounds w) ;;
      fail_if (negb ck) ETransactionUpgradeConsensusParametersChecksumMismatch ;;
      fail_if (negb dec) ETransactionUpgradeConsensusParametersDeserialization
  | UpStateTransition => None
  end.
Definition owned_by (addr : N) (i : input) : bool :=
  match input_owner i with Some o => o =? addr | None => false end.
Definition upgrade_unique_rules (p : params) (t : ctx) (pu : upgrade_purpose) : chk :=
  fail_if (negb (existsb (owned_by (privileged_address p)) (t_inputs t))) ETransactionUpgradeNoPrivilegedAddress ;;
  upgrade_metadata t pu ;;
  try_each (restricted_input (base_asset p)) (t_inputs t) ;;
  try_each (restricted_output (base_asset p)) (t_outputs t).

Definition upload_unique_rules (p : params) (t : ctx) (n w : N) (ok : bool) : chk :=
  fail_if (max_bytecode_subsections p <? n) ETransactionUploadTooManyBytecodeSubsections ;;
  fail_if (lenN (t_witnesses t) <=? w) (EInputWitnessIndexBounds w) ;;
  fail_if (negb ok) ETransactionUploadRootVerificationFailed ;;
  try_each (restricted_input (base_asset p)) (t_inputs t) ;;
  try_each (restricted_output (base_asset p)) (t_outputs t).

Definition blob_unique_rules (p : params) (t : ctx) (w : N) (ok : bool) : chk :=
  fail_if (lenN (t_witnesses t) <=? w) (EInputWitnessIndexBounds w) ;;
  fail_if (negb ok) ETransactionBlobIdVerificationFailed ;;
  try_each (restricted_input (base_asset p)) (t_inputs t) ;;
  try_each (restricted_output (base_asset p)) (t_outputs t).

Definition check_unique_rules (p : params) (t : ctx) : chk :=
  match t_body t with
  | BScript sl sdl => script_unique_rules p t sl sdl
  | BCreate bwi slots cid sroot => create_unique_rules p t bwi slots cid sroot
  | BUpgrade pu => upgrade_unique_rules p t pu
  | BUpload n w ok => upload_unique_rules p t n w ok
  | BBlob w ok => blob_unique_rules p t w ok
  end.

(* ChargeableTransaction::check_without_signatures *)
Definition check_without_signatures (p : params) (height : N) (t : ctx) : chk :=
  check_common_part p height t ;; check_unique_rules p t.

(* Mint::check_without_signatures *)
Definition mint_check_without_signatures (p : params) (height : N) (m : mint) : chk :=
  check_size (m_size m) p ;;
  fail_if (negb (m_tx_pointer_height m =? height)) ETransactionMintIncorrectBlockHeight ;;
  fail_if (negb (m_output_input_index m =? 0)) ETransactionMintIncorrectOutputIndex ;;
  fail_if (negb (m_asset m =? base_asset p)) ETransactionMintNonBaseAsset.

(* ------------------------------------------------------------------ balances.rs *)
(* BTreeMap<AssetId, Word> as a list sorted by key *)
Definition bmap := list (N * N).
Fixpoint bm_get (m : bmap) (k : N) : option N :=
  match m with
  | [] => None
  | (k', v) :: r => if k =? k' then Some v else bm_get r k
  end.
(* the idiom  e = m.entry(k).or_default();  e := f(e)?  *)
Fixpoint bm_entry_update (m : bmap) (k : N) (f : N -> option N) : option bmap :=
  match m with
  | [] => do v <- f 0; Some [(k, v)]
  | (k', v') :: r =>
      if k <? k' then do v <- f 0; Some ((k, v) :: m)
      else if k =? k' then do v <- f v'; Some ((k, v) :: r)
      else do r' <- bm_entry_update r k f; Some ((k', v') :: r')
  end.
(* assignment through m.get_mut(k) for a key that is present *)
Fixpoint bm_set (m : bmap) (k v : N) : bmap :=
  match m with
  | [] => []
  | (k', v') :: r => if k =? k' then (k, v) :: r else (k', v') :: bm_set r k v
  end.

Definition add_input_balance (base : N) (st : option (bmap * N)) (i : input) : option (bmap * N) :=
  do s <- st;
  let '(m, retry) := s in
  match i with
  | ICoinSigned _ _ v a _ | ICoinPredicate _ _ v a _ _ =>
      do m' <- bm_entry_update m a (fun b => checked_add U64 b v); Some (m', retry)
  | IMessageCoinSigned _ v _ _ | IMessageCoinPredicate _ v _ _ _ =>
      do m' <- bm_entry_update m base (fun b => checked_add U64 b v); Some (m', retry)
  | IMessageDataSigned _ v _ _ _ | IMessageDataPredicate _ v _ _ _ _ =>
      do r' <- checked_add U64 retry v; Some (m, r')
  | IContract _ _ => Some (m, retry)
  end.
Definition add_up_input_balances (base : N) (ins : list input) : option (bmap * N) :=
  fold_left (add_input_balance base) ins (Some ([], 0)).

Definition deduct_max_fee_from_base_asset (m : bmap) (base max_fee : N) : verr + bmap :=
  let bal := match bm_get m base with Some b => b | None => 0 end in
  match bm_entry_update m base (fun b => checked_sub b max_fee) with
  | Some m' => inr m'
  | None => inl (EInsufficientFeeAmount max_fee bal)
  end.

Fixpoint reduce_free_balances_by_coin_outputs (m : bmap) (outs : list output) : verr + bmap :=
  match outs with
  | [] => inr m
  | OCoin v a :: r =>
      match bm_get m a with
      | None => inl (ETransactionOutputCoinAssetIdNotFound a)
      | Some bal =>
          match checked_sub bal v with
          | None => inl (EInsufficientInputAmount a v bal)
          | Some b' => reduce_free_balances_by_coin_outputs (bm_set m a b') r
          end
      end
  | _ :: r => reduce_free_balances_by_coin_outputs m r
  end.

Definition initial_free_balances (base : N) (t : ctx) : verr + (bmap * N) :=
  match add_up_input_balances base (t_inputs t) with
  | None => inl EBalanceOverflow
  | Some (m, retry) =>
      match pol_get (t_policies t) POL_MAX_FEE with
      | None => inl ETransactionMaxFeeNotSet
      | Some max_fee =>
          match deduct_max_fee_from_base_asset m base max_fee with
          | inl e => inl e
          | inr m1 =>
              match reduce_free_balances_by_coin_outputs m1 (t_outputs t) with
              | inl e => inl e
              | inr m2 => inr (m2, retry)
              end
          end
      end
  end.

(* ------------------------------------------------------------------ into_checked_basic *)
(* what the caller can observe: Err(kind) or the recorded balances (map in key order, and
   the retryable amount; Mint records nothing) *)
Inductive checked := COk (balances : bmap) (retryable : N) | CErr (e : verr).

(* Cacheable::precompute, called first: CommonMetadata::compute only fails when an offset
   overflows usize (not representable here: sizes are those of real byte strings);
   CreateMetadata::compute needs the bytecode witness, UpgradeMetadata::compute validates the
   purpose — so these two errors precede every rule of check_without_signatures *)
Definition precompute (t : ctx) : chk :=
  match t_body t with
  | BCreate bwi _ _ _ =>
      match nthN (t_witnesses t) bwi with
      | None => Some ETransactionCreateBytecodeWitnessIndex
      | Some _ => None
      end
  | BUpgrade pu => upgrade_metadata t pu
  | _ => None
  end.

Definition into_checked_basic (p : params) (height : N) (x : tx) : checked :=
  match x with
  | TxCharge t =>
      match precompute t ;; check_without_signatures p height t with
      | Some e => CErr e
      | None =>
          match initial_free_balances (base_asset p) t with
          | inl e => CErr e
          | inr (m, retry) => COk m retry
          end
      end
  | TxMint m =>
      match mint_check_without_signatures p height m with
      | Some e => CErr e
      | None => COk [] 0
      end
  end.

(* the recorded free balance of an asset (absent = nothing recorded = 0) *)
Definition recorded_balance (m : bmap) (a : N) : N := match bm_get m a with Some v => v | None => 0 end.
