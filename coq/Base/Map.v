(* Base/Map.v — association lists keyed by N: the model of StorageMap / BTreeMap tables. *)
From FV Require Export Base.Bytes.
Open Scope N_scope.

Definition amap (V : Type) := list (N * V).

Fixpoint aget {V} (m : amap V) (k : N) : option V :=
  match m with
  | [] => None
  | (k', v) :: r => if k' =? k then Some v else aget r k
  end.
Definition aset {V} (m : amap V) (k : N) (v : V) : amap V := (k, v) :: m.
Fixpoint adel {V} (m : amap V) (k : N) : amap V :=
  match m with
  | [] => []
  | (k', v) :: r => if k' =? k then adel r k else (k', v) :: adel r k
  end.

Lemma aget_aset_eq {V} (m : amap V) k v : aget (aset m k v) k = Some v.
Proof. unfold aset; cbn [aget]. rewrite N.eqb_refl. reflexivity. Qed.
Lemma aget_aset_neq {V} (m : amap V) k k' v : k <> k' -> aget (aset m k v) k' = aget m k'.
Proof. intros H. unfold aset; cbn [aget]. destruct (N.eqb_spec k k'); [contradiction | reflexivity]. Qed.
Lemma aget_adel_eq {V} (m : amap V) k : aget (adel m k) k = None.
Proof.
  induction m as [|[k' v] r IH]; [reflexivity|]. cbn [adel].
  destruct (N.eqb_spec k' k) as [->|Hn]; [exact IH|]. cbn [aget].
  destruct (N.eqb_spec k' k); [contradiction | exact IH].
Qed.
Lemma aget_adel_neq {V} (m : amap V) k k' : k <> k' -> aget (adel m k) k' = aget m k'.
Proof.
  intros H. induction m as [|[k0 v] r IH]; [reflexivity|]. cbn [adel aget].
  destruct (N.eqb_spec k0 k) as [->|Hn].
  - destruct (N.eqb_spec k k'); [contradiction | exact IH].
  - cbn [aget]. destruct (N.eqb_spec k0 k'); [reflexivity | exact IH].
Qed.
