(* Base/Bytes.v — byte strings as [list N] (each element < 256), hex literals for the
   correspondence cases, big-endian word encoding.  Stdlib only. *)
From Coq Require Export String Ascii.
From Coq Require Export List NArith Bool Lia.
Export ListNotations.
Open Scope N_scope.

Arguments N.add : simpl never.
Arguments N.sub : simpl never.
Arguments N.mul : simpl never.
Arguments N.div : simpl never.
Arguments N.modulo : simpl never.
Arguments N.eqb : simpl never.
Arguments N.ltb : simpl never.
Arguments N.leb : simpl never.
Arguments N.pow : simpl never.
Arguments N.shiftl : simpl never.
Arguments N.shiftr : simpl never.
Arguments N.land : simpl never.
Arguments N.lor : simpl never.

Definition bytes := list N.

Definition is_byte (b : N) : bool := b <? 256.
Definition wf_bytes (bs : bytes) : bool := forallb is_byte bs.

(* ---------- hex literals (used only by generated case files) ---------- *)
Definition hexdigit (c : ascii) : N :=
  let n := N_of_ascii c in
  if (48 <=? n) && (n <=? 57) then n - 48
  else if (97 <=? n) && (n <=? 102) then n - 87
  else if (65 <=? n) && (n <=? 70) then n - 55
  else 0.

Fixpoint hex (s : string) : bytes :=
  match s with
  | String a (String b r) => (16 * hexdigit a + hexdigit b) :: hex r
  | _ => []
  end.

(* ---------- list equality on N ---------- *)
Fixpoint bytes_eqb (a b : bytes) : bool :=
  match a, b with
  | [], [] => true
  | x :: a', y :: b' => (x =? y) && bytes_eqb a' b'
  | _, _ => false
  end.

Lemma bytes_eqb_eq a b : bytes_eqb a b = true <-> a = b.
Proof.
  revert b; induction a as [|x a IH]; intros [|y b]; cbn [bytes_eqb]; split; intros H;
    try reflexivity; try discriminate.
  - apply andb_true_iff in H as [H1 H2]. apply N.eqb_eq in H1. apply IH in H2. congruence.
  - injection H as -> ->. apply andb_true_iff; split; [apply N.eqb_refl | apply IH; reflexivity].
Qed.

(* ---------- big-endian fixed-width encodings ---------- *)
Fixpoint be_encode (n : nat) (v : N) : bytes :=
  match n with
  | O => []
  | S k => be_encode k (v / 256) ++ [v mod 256]
  end.

Fixpoint be_decode_acc (acc : N) (bs : bytes) : N :=
  match bs with
  | [] => acc
  | b :: r => be_decode_acc (acc * 256 + b) r
  end.
Definition be_decode (bs : bytes) : N := be_decode_acc 0 bs.

Lemma be_encode_length n v : length (be_encode n v) = n.
Proof.
  revert v; induction n as [|k IH]; intros v; cbn [be_encode]; [reflexivity|].
  rewrite app_length, IH. cbn [length]. lia.
Qed.

Lemma be_decode_acc_app acc a b :
  be_decode_acc acc (a ++ b) = be_decode_acc (be_decode_acc acc a) b.
Proof. revert acc; induction a as [|x a IH]; intros acc; cbn [app be_decode_acc]; auto. Qed.

Lemma be_decode_acc_encode n : forall acc v, v < 256 ^ N.of_nat n ->
  be_decode_acc acc (be_encode n v) = acc * 256 ^ N.of_nat n + v.
Proof.
  induction n as [|k IH]; intros acc v Hv.
  - cbn [be_encode be_decode_acc]. change (N.of_nat 0) with 0 in *. rewrite N.pow_0_r in *. lia.
  - cbn [be_encode]. rewrite be_decode_acc_app. cbn [be_decode_acc].
    rewrite Nat2N.inj_succ, N.pow_succ_r' in *.
    rewrite IH by (apply N.div_lt_upper_bound; lia).
    pose proof (N.div_mod v 256). lia.
Qed.

Lemma be_decode_encode n v : v < 256 ^ N.of_nat n -> be_decode (be_encode n v) = v.
Proof. intros H. unfold be_decode. rewrite be_decode_acc_encode by exact H. lia. Qed.

Lemma be_encode_wf n v : wf_bytes (be_encode n v) = true.
Proof.
  revert v; induction n as [|k IH]; intros v; [reflexivity|]. cbn [be_encode]. unfold wf_bytes.
  rewrite forallb_app. apply andb_true_iff; split; [apply IH|].
  cbn [forallb]. rewrite andb_true_r. unfold is_byte. apply N.ltb_lt. apply N.mod_lt; lia.
Qed.

(* ---------- misc ---------- *)
Definition zeros (n : nat) : bytes := repeat 0 n.

Definition lenN {A} (l : list A) : N := N.of_nat (length l).
