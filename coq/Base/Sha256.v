(* Base/Sha256.v — executable SHA-256 (FIPS 180-4) used ONLY as the executable instance of
   the hash parameters in correspondence runs (so model roots/ids can be compared byte for
   byte with what the Rust code returns).  No theorem depends on it: every theorem is
   parametric in the hash functions.  It is written over Coq's primitive 63-bit integers
   (Uint63) for speed; 32-bit words are kept masked.  Validated by known-answer Examples
   below and on every run by the correspondence stream against fuel_crypto::Hasher. *)
From Coq Require Import Uint63 ZArith.
From FV Require Import Base.Bytes.
Open Scope uint63_scope.

Definition m32 : int := 4294967295.
Definition add32 (a b : int) : int := (a + b) land m32.
Definition rotr (x : int) (n : int) : int := ((x >> n) lor (x << (32 - n))) land m32.
Definition shr (x : int) (n : int) : int := x >> n.
Definition not32 (x : int) : int := x lxor m32.

Definition ch (x y z : int) := (x land y) lxor ((not32 x) land z).
Definition maj (x y z : int) := (x land y) lxor (x land z) lxor (y land z).
Definition bsig0 x := (rotr x 2) lxor (rotr x 13) lxor (rotr x 22).
Definition bsig1 x := (rotr x 6) lxor (rotr x 11) lxor (rotr x 25).
Definition ssig0 x := (rotr x 7) lxor (rotr x 18) lxor (shr x 3).
Definition ssig1 x := (rotr x 17) lxor (rotr x 19) lxor (shr x 10).

Definition K : list int := [
 0x428a2f98; 0x71374491; 0xb5c0fbcf; 0xe9b5dba5; 0x3956c25b; 0x59f111f1; 0x923f82a4; 0xab1c5ed5;
 0xd807aa98; 0x12835b01; 0x243185be; 0x550c7dc3; 0x72be5d74; 0x80deb1fe; 0x9bdc06a7; 0xc19bf174;
 0xe49b69c1; 0xefbe4786; 0x0fc19dc6; 0x240ca1cc; 0x2de92c6f; 0x4a7484aa; 0x5cb0a9dc; 0x76f988da;
 0x983e5152; 0xa831c66d; 0xb00327c8; 0xbf597fc7; 0xc6e00bf3; 0xd5a79147; 0x06ca6351; 0x14292967;
 0x27b70a85; 0x2e1b2138; 0x4d2c6dfc; 0x53380d13; 0x650a7354; 0x766a0abb; 0x81c2c92e; 0x92722c85;
 0xa2bfe8a1; 0xa81a664b; 0xc24b8b70; 0xc76c51a3; 0xd192e819; 0xd6990624; 0xf40e3585; 0x106aa070;
 0x19a4c116; 0x1e376c08; 0x2748774c; 0x34b0bcb5; 0x391c0cb3; 0x4ed8aa4a; 0x5b9cca4f; 0x682e6ff3;
 0x748f82ee; 0x78a5636f; 0x84c87814; 0x8cc70208; 0x90befffa; 0xa4506ceb; 0xbef9a3f7; 0xc67178f2].

Definition H0 : list int := [
 0x6a09e667; 0xbb67ae85; 0x3c6ef372; 0xa54ff53a; 0x510e527f; 0x9b05688c; 0x1f83d9ab; 0x5be0cd19].

Definition i2n (x : int) : N := Z.to_N (Uint63.to_Z x).
Definition n2i (x : N) : int := Uint63.of_Z (Z.of_N x).

(* message schedule: keep the last 16 words, most recent first *)
Fixpoint words_of_bytes (bs : list int) : list int :=
  match bs with
  | a :: b :: c :: d :: r => ((a << 24) lor (b << 16) lor (c << 8) lor d) :: words_of_bytes r
  | _ => []
  end.

Definition nth_i (l : list int) (n : nat) : int := nth n l 0.

(* one round *)
Definition round (st : list int) (k w : int) : list int :=
  match st with
  | [a; b; c; d; e; f; g; h] =>
      let t1 := add32 (add32 (add32 (add32 h (bsig1 e)) (ch e f g)) k) w in
      let t2 := add32 (bsig0 a) (maj a b c) in
      [add32 t1 t2; a; b; c; add32 d t1; e; f; g]
  | _ => st
  end.

(* window: last 16 schedule words, most recent first; extend by one *)
Definition next_w (win : list int) : int :=
  add32 (add32 (add32 (ssig1 (nth_i win 1)) (nth_i win 6)) (ssig0 (nth_i win 14))) (nth_i win 15).

Fixpoint rounds_first (st : list int) (ks ws : list int) (win : list int) : list int * list int * list int :=
  match ws, ks with
  | w :: ws', k :: ks' => rounds_first (round st k w) ks' ws' (w :: win)
  | _, _ => (st, ks, win)
  end.

Fixpoint rounds_rest (st : list int) (ks : list int) (win : list int) : list int :=
  match ks with
  | [] => st
  | k :: ks' =>
      let w := next_w win in
      rounds_rest (round st k w) ks' (w :: firstn 15 win)
  end.

Definition compress (h : list int) (block : list int) : list int :=
  let ws := words_of_bytes block in
  let '(st, ks, win) := rounds_first h K ws [] in
  let st' := rounds_rest st ks win in
  map (fun p => add32 (fst p) (snd p)) (combine h st').

Fixpoint take_block (n : nat) (l : list int) (acc : list int) : list int * list int :=
  match n, l with
  | S k, x :: r => take_block k r (x :: acc)
  | _, _ => (rev acc, l)
  end.

(* process [l], which must have a length multiple of 64; fuel = number of blocks *)
Fixpoint blocks (fuel : nat) (h : list int) (l : list int) : list int :=
  match fuel with
  | O => h
  | S f => match l with
           | [] => h
           | _ => let '(b, r) := take_block 64 l [] in blocks f (compress h b) r
           end
  end.

Definition be8_i (n : N) : list int := map n2i (be_encode 8 n).

Definition pad (len : nat) : list int :=
  let l := N.of_nat len in
  let k := N.to_nat ((119 - (l mod 64)) mod 64) in   (* zeros so that len+1+k+8 = 0 mod 64 *)
  128 :: repeat 0 k ++ be8_i (8 * l)%N.

Definition word_bytes (w : int) : list N :=
  [i2n ((w >> 24) land 255); i2n ((w >> 16) land 255); i2n ((w >> 8) land 255); i2n (w land 255)].

Definition sha256 (msg : bytes) : bytes :=
  let m := map n2i msg ++ pad (length msg) in
  let h := blocks (S (length m / 64)) H0 m in
  flat_map word_bytes h.

(* known answers (FIPS 180-4 / NIST examples) *)
Example sha256_empty :
  sha256 [] = hex "e3b0c44298fc1c149afbf4c8996fb92427ae41e4649b934ca495991b7852b855".
Proof. vm_compute. reflexivity. Qed.

Example sha256_abc :
  sha256 (hex "616263") = hex "ba7816bf8f01cfea414140de5dae2223b00361a396177a9cb410ff61f20015ad".
Proof. vm_compute. reflexivity. Qed.

Example sha256_two_blocks :
  sha256 (hex "6162636462636465636465666465666765666768666768696768696a68696a6b696a6b6c6a6b6c6d6b6c6d6e6c6d6e6f6d6e6f706e6f7071")
  = hex "248d6a61d20638b8e5c026930c3e6039a33ce45964ff2167f6ecedd419db06c1".
Proof. vm_compute. reflexivity. Qed.
