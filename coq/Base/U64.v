(* Base/U64.v — Rust fixed-width integer operations written out over N. *)
From FV Require Export Base.Bytes.
Open Scope N_scope.

Definition U64 : N := 18446744073709551616.   (* 2^64 *)
Definition U32 : N := 4294967296.
Definition U128 : N := 340282366920938463463374607431768211456.
Definition u64_max : N := 18446744073709551615.

Definition checked_add (w a b : N) : option N := if a + b <? w then Some (a + b) else None.
Definition checked_sub (a b : N) : option N := if b <=? a then Some (a - b) else None.
Definition checked_mul (w a b : N) : option N := if a * b <? w then Some (a * b) else None.
Definition saturating_add (w a b : N) : N := N.min (a + b) (w - 1).
Definition saturating_sub (a b : N) : N := a - b.             (* N subtraction truncates at 0 *)
Definition saturating_mul (w a b : N) : N := N.min (a * b) (w - 1).
Definition wrapping_add (w a b : N) : N := (a + b) mod w.
Definition wrapping_sub (w a b : N) : N := (a + w - b mod w) mod w.
Definition wrapping_mul (w a b : N) : N := (a * b) mod w.
(* u64::checked_shl(rhs: u32): None iff rhs >= 64; bits shifted out are dropped *)
Definition checked_shl64 (a s : N) : option N := if s <? 64 then Some ((a * 2 ^ s) mod U64) else None.

(* number of trailing one bits = (!x).trailing_zeros() for x < 2^64 (64 for x = 2^64-1 is
   not reproduced: callers guard p < 2^64 - 1) *)
Fixpoint trailing_ones_pos (p : positive) : N :=
  match p with xI q => 1 + trailing_ones_pos q | xH => 1 | xO _ => 0 end.
Definition trailing_ones (x : N) : N := match x with 0 => 0 | Npos p => trailing_ones_pos p end.

(* u64::next_power_of_two for 1 <= x <= 2^63 *)
Definition next_pow2 (x : N) : N := if x <=? 1 then 1 else 2 ^ (N.log2_up x).

(* u64::ilog2 for x >= 1 *)
Definition ilog2 (x : N) : N := N.log2 x.
Definition is_pow2 (x : N) : bool := (0 <? x) && (2 ^ (N.log2 x) =? x).

Definition opt_bind {A B} (o : option A) (f : A -> option B) : option B :=
  match o with Some a => f a | None => None end.
Notation "'do' x <- o ; k" := (opt_bind o (fun x => k)) (at level 200, x name, o at level 100, k at level 200).
