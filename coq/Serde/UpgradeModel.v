(* Serde/UpgradeModel.v — L1 model of UpgradeMetadata::compute (fuel-tx/src/transaction/types/
   upgrade.rs), Transaction::upgrade_consensus_parameters (transaction.rs) and the place where
   fuel-vm consumes the result (Interpreter::upgrade_inner / get_consensus_parameters).
   The hash and the postcard codec of ConsensusParameters are Section variables (third-party /
   external): [ser_cp] = postcard::to_allocvec, [de_cp] = postcard::from_bytes. *)
From FV Require Export Base.Bytes Base.U64.
Open Scope N_scope.

Section Upgrade.
  Variable CP : Type.                       (* ConsensusParameters *)
  Variable h : bytes -> bytes.              (* fuel_crypto::Hasher::hash *)
  Variable ser_cp : CP -> option bytes.     (* postcard::to_allocvec; None = serialization error *)
  Variable de_cp : bytes -> option CP.      (* postcard::from_bytes *)

  (* UpgradePurpose *)
  Inductive purpose : Type :=
  | PConsensusParameters (witness_index : N) (checksum : bytes)
  | PStateTransition (root : bytes).

  Inductive uerr : Type :=
  | UIndexBounds              (* ValidityError::InputWitnessIndexBounds *)
  | UChecksumMismatch         (* TransactionUpgradeConsensusParametersChecksumMismatch *)
  | UDeserialization          (* TransactionUpgradeConsensusParametersDeserialization *)
  | USerialization            (* TransactionUpgradeConsensusParametersSerialization *)
  | UWitnessesMax.            (* TransactionWitnessesMax *)

  (* UpgradeMetadata *)
  Inductive metadata : Type :=
  | MConsensusParameters (cp : CP) (calculated_checksum : bytes)
  | MStateTransition.

  Inductive ures (A : Type) : Type := UOk (a : A) | UErr (e : uerr).
  Arguments UOk {A} a.
  Arguments UErr {A} e.

  (* UpgradeMetadata::compute(tx): only tx.body.purpose and tx.witnesses are read *)
  Definition compute (p : purpose) (witnesses : list bytes) : ures metadata :=
    match p with
    | PConsensusParameters idx checksum =>
        match nth_error witnesses (N.to_nat idx) with
        | None => UErr UIndexBounds
        | Some w =>
            let actual := h w in
            if bytes_eqb actual checksum then
              match de_cp w with
              | Some cp => UOk (MConsensusParameters cp actual)
              | None => UErr UDeserialization
              end
            else UErr UChecksumMismatch
        end
    | PStateTransition _ => UOk MStateTransition
    end.

  (* Transaction::upgrade_consensus_parameters(cp, policies, inputs, outputs, witnesses):
     returns the purpose and the extended witness list (the rest of the tx is passed through) *)
  Definition upgrade_consensus_parameters (cp : CP) (witnesses : list bytes) : ures (purpose * list bytes) :=
    match ser_cp cp with
    | None => UErr USerialization
    | Some w =>
        if lenN witnesses <? 2 ^ 16 then
          UOk (PConsensusParameters (lenN witnesses) (h w), witnesses ++ [w])
        else UErr UWitnessesMax
    end.

  (* upgrade_inner: the parameters written to storage come from the cached metadata when present
     (Cacheable::precompute stores compute(tx)), else from a fresh compute(tx) *)
  Definition consumed_parameters (cached : option metadata) (p : purpose) (witnesses : list bytes) : option CP :=
    let m := match cached with Some m => UOk m | None => compute p witnesses end in
    match m with UOk (MConsensusParameters cp _) => Some cp | _ => None end.
End Upgrade.
Arguments UOk {A} a.
Arguments UErr {A} e.
Arguments MConsensusParameters {CP} cp calculated_checksum.
Arguments MStateTransition {CP}.
