(* Serde/DeriveProofs.v — generic round trip of derived serde impls through the data model,
   by mutual induction on the schema universe of Serde/DeriveModel.v (C06). *)
From FV Require Import Serde.DataModel Serde.PoliciesModel Serde.DeriveModel Serde.SerdeProofs.
From Coq Require Import Lia PeanoNat Arith.
Open Scope N_scope.

(* ---------------------------------------------------------------- unfolding lemmas *)
Lemma has_newtype hr n t v : has_sty hr (SNewtype n t) v = has_sty hr t v.
Proof. destruct v; reflexivity. Qed.
Lemma has_transparent hr t v : has_sty hr (STransparent t) v = has_sty hr t v.
Proof. destruct v; reflexivity. Qed.
Lemma ser_newtype hr n t v : ser hr (SNewtype n t) v = DNewtype n (ser hr t v).
Proof. destruct v; reflexivity. Qed.
Lemma ser_transparent hr t v : ser hr (STransparent t) v = ser hr t v.
Proof. destruct v; reflexivity. Qed.
Lemma erase_newtype n t v : erase (SNewtype n t) v = erase t v.
Proof. destruct v; reflexivity. Qed.
Lemma erase_transparent t v : erase (STransparent t) v = erase t v.
Proof. destruct v; reflexivity. Qed.

Lemma assoc_str_app_hit {A} n (pre : list (string * A)) d tail :
  assoc_str n pre = None -> assoc_str n (pre ++ (n, d) :: tail) = Some d.
Proof.
  induction pre as [|[k x] pre IH]; cbn [assoc_str app]; intros H.
  - rewrite String.eqb_refl. reflexivity.
  - destruct (String.eqb n k); [discriminate | apply IH; exact H].
Qed.
Lemma assoc_str_app_miss {A} n m (pre : list (string * A)) d :
  assoc_str n pre = None -> String.eqb n m = false -> assoc_str n (pre ++ [(m, d)]) = None.
Proof.
  induction pre as [|[k x] pre IH]; cbn [assoc_str app]; intros H Hn.
  - rewrite Hn. reflexivity.
  - destruct (String.eqb n k); [discriminate | apply IH; assumption].
Qed.
Lemma str_mem_false_in s l : str_mem s l = false -> forall n, In n l -> String.eqb n s = false.
Proof.
  induction l as [|x l IH]; cbn [str_mem In]; intros H n Hin; [contradiction|].
  apply Bool.orb_false_iff in H as [H1 H2]. destruct Hin as [<-|Hin]; [|apply IH; assumption].
  rewrite String.eqb_sym. exact H1.
Qed.

(* tags of serialized variants *)
Lemma ser_shape_tag hr ename vname sh l k : has_vshape hr sh l = true ->
  var_name (ser_shape hr ename vname sh l k) = Some vname /\ var_idx (ser_shape hr ename vname sh l k) = Some (N.of_nat k).
Proof.
  destruct sh; cbn [has_vshape ser_shape]; intros H; try (split; reflexivity).
  - destruct l as [|v [|]]; try discriminate. split; reflexivity.
Qed.
Lemma ser_variants_tag hr ename : forall vs i l k, has_svariants hr vs i l = true ->
  exists nm, var_name (ser_variants hr ename vs i l k) = Some nm /\ In nm (variant_names vs) /\
             var_idx (ser_variants hr ename vs i l k) = Some (N.of_nat (k + i)).
Proof.
  induction vs as [|n sh r IH]; intros i l k H; cbn [has_svariants] in H; [discriminate|].
  destruct i as [|j]; cbn [ser_variants variant_names].
  - destruct (ser_shape_tag hr ename n sh l k H) as [H1 H2]. exists n. rewrite Nat.add_0_r. repeat split; [exact H1 | left; reflexivity | exact H2].
  - destruct (IH j l (S k) H) as (nm & H1 & H2 & H3). exists nm. repeat split; [exact H1 | right; exact H2 |].
    rewrite H3. f_equal. f_equal. lia.
Qed.

Section RoundTrip.
  Variables sd hr : bool.

  Definition P_sty (t : sty) : Prop :=
    wf_sty t = true -> forall v, has_sty hr t v = true -> de sd hr t (ser hr t v) = DOk (erase t v).
  Definition P_stys (ts : stys) : Prop :=
    wf_stys ts = true -> forall l pos, has_stys hr ts l = true -> de_tys sd hr ts (ser_tys hr ts l) pos = DOk (erase_tys ts l).
  Definition P_sfields (fs : sfields) : Prop :=
    wf_sfields fs = true -> forall l, has_sfields hr fs l = true ->
      (forall pos, de_fields_seq sd hr fs (map snd (ser_fields hr fs l)) pos = DOk (erase_fields fs l)) /\
      (forall pre, (forall n, In n (field_names fs) -> assoc_str n pre = None) ->
                   de_fields_map sd hr fs (pre ++ ser_fields hr fs l) = DOk (erase_fields fs l)).
  Definition P_svariants (vs : svariants) : Prop :=
    wf_svariants vs = true -> forall i l k ename, has_svariants hr vs i l = true ->
      de_variants sd hr vs (ser_variants hr ename vs i l k) k = DOk (XVar (k + i) (erase_variants vs i l)).
  Definition P_vshape (sh : vshape) : Prop :=
    wf_vshape sh = true -> forall l ename vname k, has_vshape hr sh l = true ->
      de_shape sd hr sh (ser_shape hr ename vname sh l k) = DOk (erase_shape sh l).

  Lemma vec_roundtrip t : P_sty t -> wf_sty t = true -> forall l, forallb (has_sty hr t) l = true ->
    dmapM (de sd hr t) (map (ser hr t) l) = DOk (map (erase t) l).
  Proof.
    intros IH Hwf. induction l as [|x l IHl]; intros H; [reflexivity|].
    cbn [forallb] in H. apply Bool.andb_true_iff in H as [Hx Hl].
    cbn [map dmapM]. rewrite (IH Hwf x Hx). cbn [dbind]. rewrite IHl by exact Hl. reflexivity.
  Qed.

  Theorem derive_roundtrip_all :
    (forall t, P_sty t) /\ (forall ts, P_stys ts) /\ (forall fs, P_sfields fs) /\
    (forall vs, P_svariants vs) /\ (forall sh, P_vshape sh).
  Proof.
    apply sschema_mutind.
    - (* SUnit *) intros _ v H. destruct v; try discriminate. reflexivity.
    - (* SPhantom *) intros _ v H. destruct v; try discriminate. reflexivity.
    - (* SBool *) intros _ v H. destruct v; try discriminate. reflexivity.
    - (* SUInt *) intros w _ v H. destruct v; try discriminate. cbn [has_sty] in H.
      cbn [ser de de_uint erase]. rewrite H. reflexivity.
    - (* SString *) intros _ v H. destruct v; try discriminate. reflexivity.
    - (* SBytes *) intros _ v H. destruct v; try discriminate. reflexivity.
    - (* SArr *) intros n _ v H. destruct v; try discriminate. cbn [has_sty] in H.
      apply Bool.andb_true_iff in H as [Hl Hw]. apply Nat.eqb_eq in Hl.
      cbn [ser de erase]. rewrite arr_roundtrip by assumption. reflexivity.
    - (* SPolicies *) intros _ v H. destruct v; try discriminate. cbn [has_sty] in H.
      apply Bool.andb_true_iff in H as [H Hc]. apply Bool.andb_true_iff in H as [Hty Hrt].
      cbn [ser de erase].
      assert (E : de_policies sd hr (ser_policies hr p) = DOk p) by (apply policies_roundtrip_iff; assumption).
      rewrite E. reflexivity.
    - (* SOption *) intros t IH Hwf v H. cbn [wf_sty] in Hwf. destruct v; try discriminate; [reflexivity|].
      cbn [has_sty] in H. cbn [ser de erase]. rewrite (IH Hwf v H). reflexivity.
    - (* SVec *) intros t IH Hwf v H. cbn [wf_sty] in Hwf. destruct v; try discriminate.
      cbn [has_sty] in H. cbn [ser de erase de_elems]. cbn [negb orb dbind].
      rewrite (vec_roundtrip t IH Hwf l H). reflexivity.
    - (* STuple *) intros ts IH Hwf v H. cbn [wf_sty] in Hwf. destruct v; try discriminate.
      cbn [has_sty] in H. cbn [ser de erase de_elems]. cbn [orb dbind].
      rewrite (IH Hwf l 0 H). reflexivity.
    - (* SNewtype *) intros n t IH Hwf v H. cbn [wf_sty] in Hwf. rewrite has_newtype in H.
      rewrite ser_newtype, erase_newtype. cbn [de]. apply IH; assumption.
    - (* STransparent *) intros t IH Hwf v H. cbn [wf_sty] in Hwf. rewrite has_transparent in H.
      rewrite ser_transparent, erase_transparent. cbn [de]. apply IH; assumption.
    - (* SStruct *) intros n fs IH Hwf v H. cbn [wf_sty] in Hwf. destruct v; try discriminate.
      cbn [has_sty] in H. destruct (IH Hwf l H) as [Hseq Hmap]. cbn [ser de erase].
      destruct sd.
      + specialize (Hmap [] (fun _ _ => eq_refl)). cbn [app] in Hmap. rewrite Hmap. reflexivity.
      + rewrite Hseq. reflexivity.
    - (* SEnum *) intros n vs IH Hwf v H. cbn [wf_sty] in Hwf. destruct v; try discriminate.
      cbn [has_sty] in H. cbn [ser de erase]. rewrite (IH Hwf i l O n H). reflexivity.
    - (* TNil *) intros _ l pos H. destruct l; try discriminate. reflexivity.
    - (* TCons *) intros t IHt r IHr Hwf l pos H. cbn [wf_stys] in Hwf. apply Bool.andb_true_iff in Hwf as [W1 W2].
      destruct l as [|v l]; try discriminate. cbn [has_stys] in H. apply Bool.andb_true_iff in H as [H1 H2].
      cbn [ser_tys de_tys erase_tys]. rewrite (IHt W1 v H1). cbn [dbind]. rewrite (IHr W2 l _ H2). reflexivity.
    - (* FNil *) intros _ l H. destruct l; try discriminate. split; intros; reflexivity.
    - (* FCons *) intros n skip t IHt r IHr Hwf l H. cbn [wf_sfields] in Hwf.
      apply Bool.andb_true_iff in Hwf as [Hwf W3]. apply Bool.andb_true_iff in Hwf as [W1 W2].
      destruct l as [|v l]; try discriminate. cbn [has_sfields] in H. apply Bool.andb_true_iff in H as [H1 H2].
      destruct (IHr W3 l H2) as [Hseq Hmap].
      destruct skip; cbn [ser_fields de_fields_seq de_fields_map erase_fields field_names].
      + split.
        * intros pos. rewrite Hseq. reflexivity.
        * intros pre Hpre. rewrite Hmap by exact Hpre. reflexivity.
      + cbn [orb] in W1, W2. apply Bool.negb_true_iff in W1. split.
        * intros pos. cbn [map snd]. rewrite (IHt W2 v H1). cbn [dbind]. rewrite Hseq. reflexivity.
        * intros pre Hpre. rewrite assoc_str_app_hit by (apply Hpre; left; reflexivity).
          rewrite (IHt W2 v H1). cbn [dbind].
          change (pre ++ (n, ser hr t v) :: ser_fields hr r l) with (pre ++ [(n, ser hr t v)] ++ ser_fields hr r l).
          rewrite app_assoc. rewrite Hmap; [reflexivity|].
          intros m Hm. apply assoc_str_app_miss; [apply Hpre; right; exact Hm |].
          apply (str_mem_false_in n (field_names r) W1 m Hm).
    - (* VNil *) intros _ i l k ename H. discriminate.
    - (* VCons *) intros n sh IHsh r IHr Hwf i l k ename H. cbn [wf_svariants] in Hwf.
      apply Bool.andb_true_iff in Hwf as [Hwf W3]. apply Bool.andb_true_iff in Hwf as [W1 W2].
      apply Bool.negb_true_iff in W1. cbn [has_svariants] in H. destruct i as [|j].
      + cbn [ser_variants de_variants erase_variants].
        destruct (ser_shape_tag hr ename n sh l k H) as [T1 T2].
        assert (Sel : selects sd (ser_shape hr ename n sh l k) n k = true).
        { unfold selects. rewrite T1, T2. destruct sd; [apply String.eqb_refl | apply N.eqb_refl]. }
        rewrite Sel, (IHsh W2 l ename n k H). cbn [dbind]. rewrite Nat.add_0_r. reflexivity.
      + cbn [ser_variants de_variants erase_variants].
        destruct (ser_variants_tag hr ename r j l (S k) H) as (nm & T1 & T2 & T3).
        assert (Sel : selects sd (ser_variants hr ename r j l (S k)) n k = false).
        { unfold selects. rewrite T1, T3. destruct sd.
          - apply (str_mem_false_in n (variant_names r) W1 nm T2).
          - apply N.eqb_neq. lia. }
        rewrite Sel, (IHr W3 j l (S k) ename H). f_equal. f_equal. lia.
    - (* VUnit *) intros _ l ename vname k H. destruct l; try discriminate. reflexivity.
    - (* VNewtype *) intros t IH Hwf l ename vname k H. cbn [wf_vshape] in Hwf.
      destruct l as [|v [|]]; try discriminate. cbn [has_vshape] in H.
      cbn [ser_shape de_shape erase_shape]. rewrite (IH Hwf v H). reflexivity.
    - (* VTuple *) intros ts IH Hwf l ename vname k H. cbn [wf_vshape] in Hwf. cbn [has_vshape] in H.
      cbn [ser_shape de_shape erase_shape]. apply IH; assumption.
    - (* VStruct *) intros fs IH Hwf l ename vname k H. cbn [wf_vshape] in Hwf. cbn [has_vshape] in H.
      destruct (IH Hwf l H) as [Hseq Hmap]. cbn [ser_shape de_shape erase_shape]. destruct sd.
      + specialize (Hmap [] (fun _ _ => eq_refl)). exact Hmap.
      + apply Hseq.
  Qed.
End RoundTrip.

(* the headline: for every schema, transport and value of the schema's type, deserializing the
   serialized tree gives the value with its #[serde(skip)] fields replaced by Default *)
Theorem derive_roundtrip sd hr t v :
  wf_sty t = true -> has_sty hr t v = true -> de sd hr t (ser hr t v) = DOk (erase t v).
Proof. intros Hwf H. exact (proj1 (derive_roundtrip_all sd hr) t Hwf v H). Qed.


(* ================================================================ instances and non-vacuity *)
From FV Require Import Serde.RepoSchemas.

Lemma repo_schemas_wf :
  wf_sty S_Transaction = true /\ wf_sty S_Input = true /\ wf_sty S_Output = true /\
  wf_sty S_DependentCost = true /\ wf_sty S_FeeParameters = true /\ wf_sty S_UpgradePurpose = true.
Proof. repeat split; vm_compute; reflexivity. Qed.

Theorem transaction_roundtrip sd hr v :
  has_sty hr S_Transaction v = true -> de sd hr S_Transaction (ser hr S_Transaction v) = DOk (erase S_Transaction v).
Proof. apply derive_roundtrip. apply repo_schemas_wf. Qed.

(* hypotheses are satisfiable by non-trivial values *)
Definition ex_policies : policies := mkPol 52 [0; 0; 20; 0; 10; 3].      (* Maturity | Expiration | Owner *)
Example ex_policies_ok : ty_ok ex_policies = true /\ wfp ex_policies = true /\ p_bits ex_policies < 64.
Proof. repeat split; vm_compute; reflexivity. Qed.

Definition z32 : sval := XB (zeros 32).
Definition ex_mint : sval :=
  XVar 2 [XRec [XRec [XN 7; XN 1];
                XRec [XRec [z32; XN 3]; z32; z32; XRec [XN 0; XN 0]; z32];
                XRec [XN 0; z32; z32]; XN 8; z32; XN 1; XSome XUnit]].
Definition ex_script : sval :=
  XVar 0 [XRec [XRec [XN 1000; z32; XB [36; 0; 0; 0]; XB [1; 2; 3]];
                XPol ex_policies;
                XList [XVar 0 [XRec [XRec [z32; XN 1]; z32; XN 5; z32; XRec [XN 1; XN 2]; XN 0; XUnit; XUnit; XUnit]];
                       XVar 6 [XRec [z32; z32; XN 9; z32; XUnit; XN 77; XB [1]; XB [2; 3]; XB []]]];
                XList [XVar 2 [z32; XN 4; z32]; XVar 1 [XRec [XN 0; z32; z32]]];
                XList [XRec [XB [9; 9]]];
                XNone]].
Example ex_values_typed :
  has_sty false S_Transaction ex_mint = true /\ has_sty true S_Transaction ex_mint = true /\
  has_sty false S_Transaction ex_script = true /\ has_sty true S_Transaction ex_script = true /\
  erase S_Transaction ex_mint <> ex_mint.
Proof. repeat split; try (vm_compute; reflexivity). vm_compute. discriminate. Qed.
