(* Serde/DataModel.v — the serde data model: the tree of calls a `serde::Serializer` receives
   (serialize_u64, serialize_struct + serialize_field.., serialize_tuple, serialize_seq, ..),
   written as a Gallina value.  Definitions only.

   This is the level at which the hand-written `Serialize`/`Deserialize` impls of the repository
   (Policies, Bytes, the key!(X, n) arrays, GasCosts) and the derive output are modelled.  How a
   concrete format (serde_json, postcard, bincode) maps such a tree to bytes and back is
   third-party code: it is NOT modelled; the correspondence run exercises it (C06, partial).

     Serializer call                                   dval
     ---------------------------------------------------------------------------------
     serialize_unit                                    DUnit
     serialize_bool b                                  DBool b
     serialize_u8/u16/u32/u64/u128 n                   DU 8/16/32/64/128 n
     serialize_str s / collect_str                     DStr s
     serialize_bytes b                                 DBytes b
     serialize_none / serialize_some v                 DNone / DSome v
     serialize_seq .. end                              DSeq [..]
     serialize_tuple n .. end   (arrays [T; n] too)    DTuple [..]
     serialize_newtype_struct name v                   DNewtype name v
     serialize_unit_struct name                        DUnitStruct name
     serialize_tuple_struct name n .. end              DTupleStruct name [..]
     serialize_struct name n; serialize_field k v ..   DStruct name [(k, v); ..]
     serialize_map; serialize_entry k v ..             DMap [(k, v); ..]
     serialize_unit_variant ty idx vname               DVarUnit ty idx vname
     serialize_newtype_variant ty idx vname v          DVarNewtype ty idx vname v
     serialize_tuple_variant ty idx vname n ..         DVarTuple ty idx vname [..]
     serialize_struct_variant ty idx vname n ..        DVarStruct ty idx vname [(k, v); ..] *)
From FV Require Export Base.Bytes Base.U64.
Open Scope N_scope.

Inductive dval : Type :=
| DUnit
| DBool (b : bool)
| DU (bits : N) (n : N)
| DStr (s : string)
| DBytes (b : bytes)
| DNone
| DSome (v : dval)
| DSeq (l : list dval)
| DTuple (l : list dval)
| DNewtype (name : string) (v : dval)
| DUnitStruct (name : string)
| DTupleStruct (name : string) (l : list dval)
| DStruct (name : string) (fs : list (string * dval))
| DMap (kvs : list (dval * dval))
| DVarUnit (ty : string) (idx : N) (vname : string)
| DVarNewtype (ty : string) (idx : N) (vname : string) (v : dval)
| DVarTuple (ty : string) (idx : N) (vname : string) (l : list dval)
| DVarStruct (ty : string) (idx : N) (vname : string) (fs : list (string * dval)).

Fixpoint dval_eqb (a b : dval) : bool :=
  let fix leq (xs ys : list dval) : bool :=
    match xs, ys with
    | [], [] => true
    | x :: xs', y :: ys' => dval_eqb x y && leq xs' ys'
    | _, _ => false
    end in
  let fix feq (xs ys : list (string * dval)) : bool :=
    match xs, ys with
    | [], [] => true
    | (n, x) :: xs', (m, y) :: ys' => String.eqb n m && dval_eqb x y && feq xs' ys'
    | _, _ => false
    end in
  let fix meq (xs ys : list (dval * dval)) : bool :=
    match xs, ys with
    | [], [] => true
    | (k, x) :: xs', (j, y) :: ys' => dval_eqb k j && dval_eqb x y && meq xs' ys'
    | _, _ => false
    end in
  match a, b with
  | DUnit, DUnit => true
  | DBool x, DBool y => Bool.eqb x y
  | DU w x, DU v y => (w =? v) && (x =? y)
  | DStr x, DStr y => String.eqb x y
  | DBytes x, DBytes y => bytes_eqb x y
  | DNone, DNone => true
  | DSome x, DSome y => dval_eqb x y
  | DSeq x, DSeq y => leq x y
  | DTuple x, DTuple y => leq x y
  | DNewtype n x, DNewtype m y => String.eqb n m && dval_eqb x y
  | DUnitStruct n, DUnitStruct m => String.eqb n m
  | DTupleStruct n x, DTupleStruct m y => String.eqb n m && leq x y
  | DStruct n x, DStruct m y => String.eqb n m && feq x y
  | DMap x, DMap y => meq x y
  | DVarUnit t i n, DVarUnit t' i' n' => String.eqb t t' && (i =? i') && String.eqb n n'
  | DVarNewtype t i n x, DVarNewtype t' i' n' y => String.eqb t t' && (i =? i') && String.eqb n n' && dval_eqb x y
  | DVarTuple t i n x, DVarTuple t' i' n' y => String.eqb t t' && (i =? i') && String.eqb n n' && leq x y
  | DVarStruct t i n x, DVarStruct t' i' n' y => String.eqb t t' && (i =? i') && String.eqb n n' && feq x y
  | _, _ => false
  end.

(* ---------------------------------------------------------------- deserialization results *)
(* Error KINDS (messages are not compared).  [EHint] and [EStuck] are not Rust states: [EHint]
   stands for "a non-self-describing format would mis-read the bytes because the Deserialize impl
   asked for a different shape than the Serialize impl wrote"; the round-trip theorems exclude it. *)
Inductive derr : Type :=
| EInvalidLength (n : N)      (* de::Error::invalid_length(n, ..) *)
| EDuplicate (f : string)     (* duplicate_field *)
| EMissing (f : string)       (* missing_field *)
| EBitsAfterValues            (* custom("bits field should be set before values") *)
| ENotSync                    (* custom("The values array isn't synchronized with the bits") *)
| EType                       (* invalid_type / invalid_value raised by a visitor or the format *)
| EBitsText                   (* bitflags text parser error *)
| EHex                        (* hex string of a key!(..) array does not parse *)
| EUnknownVariant
| EHint
| EStuck.

Inductive dres (A : Type) : Type :=
| DOk (a : A)
| DErr (e : derr).
Arguments DOk {A} a.
Arguments DErr {A} e.

Definition dbind {A B} (r : dres A) (f : A -> dres B) : dres B :=
  match r with DOk a => f a | DErr e => DErr e end.
Notation "'let+' x := r 'in' k" := (dbind r (fun x => k))
  (at level 200, x pattern, r at level 100, k at level 200, right associativity).

Fixpoint dmapM {A B} (f : A -> dres B) (l : list A) : dres (list B) :=
  match l with
  | [] => DOk []
  | x :: r => let+ y := f x in let+ ys := dmapM f r in DOk (y :: ys)
  end.

Definition derr_eqb (a b : derr) : bool :=
  match a, b with
  | EInvalidLength x, EInvalidLength y => x =? y
  | EDuplicate x, EDuplicate y => String.eqb x y
  | EMissing x, EMissing y => String.eqb x y
  | EBitsAfterValues, EBitsAfterValues | ENotSync, ENotSync | EType, EType | EBitsText, EBitsText
  | EHex, EHex | EUnknownVariant, EUnknownVariant | EHint, EHint | EStuck, EStuck => true
  | _, _ => false
  end.

(* ---------------------------------------------------------------- primitive visitors *)
(* u64::deserialize: the primitive visitor accepts any unsigned integer call that fits *)
Definition de_uint (bits : N) (d : dval) : dres N :=
  match d with
  | DU _ n => if n <? 2 ^ bits then DOk n else DErr EType
  | _ => DErr EType
  end.

(* a fixed-size array [u64; n] (deserialize_tuple) / a Vec<u64> (deserialize_seq).
   [sd] = the format is self-describing (arrays and sequences are the same thing on the wire). *)
Definition de_elems (sd : bool) (want_tuple : bool) (d : dval) : dres (list dval) :=
  match d with
  | DTuple l => if want_tuple || sd then DOk l else DErr EHint
  | DSeq l => if negb want_tuple || sd then DOk l else DErr EHint
  | _ => DErr EType
  end.

Definition de_uint_array (sd : bool) (bits : N) (n : nat) (d : dval) : dres (list N) :=
  let+ l := de_elems sd true d in
  if Nat.eqb (length l) n then dmapM (de_uint bits) l
  else if Nat.ltb (length l) n then let+ _ := dmapM (de_uint bits) l in DErr (EInvalidLength (N.of_nat (length l)))
  else let+ _ := dmapM (de_uint bits) (firstn n l) in DErr (EInvalidLength (N.of_nat (length l))).

Definition de_uint_vec (sd : bool) (bits : N) (d : dval) : dres (list N) :=
  let+ l := de_elems sd false d in dmapM (de_uint bits) l.

(* ---------------------------------------------------------------- small string library *)
Fixpoint str_rev_acc (s acc : string) : string :=
  match s with EmptyString => acc | String c r => str_rev_acc r (String c acc) end.
Definition str_rev (s : string) : string := str_rev_acc s EmptyString.

Definition is_space (c : ascii) : bool :=
  let n := N_of_ascii c in (n =? 32) || ((9 <=? n) && (n <=? 13)).
Fixpoint trim_left (s : string) : string :=
  match s with String c r => if is_space c then trim_left r else s | EmptyString => s end.
Definition trim (s : string) : string := str_rev (trim_left (str_rev (trim_left s))).

(* split on a separator character; "a|b" -> ["a"; "b"], "" -> [""] *)
Fixpoint split_on (sep : ascii) (s : string) (cur : string) : list string :=
  match s with
  | EmptyString => [str_rev cur]
  | String c r => if Ascii.eqb c sep then str_rev cur :: split_on sep r EmptyString
                  else split_on sep r (String c cur)
  end.

Definition hexchar (n : N) : ascii :=
  ascii_of_N (if n <? 10 then 48 + n else 87 + n).          (* 0-9 a-f *)
Definition hexval (c : ascii) : option N :=
  let n := N_of_ascii c in
  if (48 <=? n) && (n <=? 57) then Some (n - 48)
  else if (97 <=? n) && (n <=? 102) then Some (n - 87)
  else if (65 <=? n) && (n <=? 70) then Some (n - 55)
  else None.

(* format!("{:x}", n) *)
Fixpoint hex_digits (fuel : nat) (n : N) (acc : string) : string :=
  match fuel with
  | O => acc
  | S k => if n =? 0 then acc else hex_digits k (n / 16) (String (hexchar (n mod 16)) acc)
  end.
Definition hex_of_N (n : N) : string := if n =? 0 then "0"%string else hex_digits 40 n EmptyString.

(* uN::from_str_radix(s, 16) (without the optional sign): None on empty input / bad digit *)
Fixpoint parse_hex_acc (s : string) (acc : N) : option N :=
  match s with
  | EmptyString => Some acc
  | String c r => match hexval c with Some d => parse_hex_acc r (16 * acc + d) | None => None end
  end.
Definition parse_hex (s : string) : option N :=
  match s with EmptyString => None | _ => parse_hex_acc s 0 end.

Definition strip_prefix (p s : string) : option string :=
  if String.prefix p s then Some (substring (String.length p) (String.length s - String.length p) s) else None.

(* hex of a byte string, two lower-case digits per byte: format!("{:x}", Bytes32) *)
Fixpoint hex_of_bytes (bs : bytes) : string :=
  match bs with
  | [] => EmptyString
  | b :: r => String (hexchar (b / 16)) (String (hexchar (b mod 16)) (hex_of_bytes r))
  end.
(* hex::decode: even length, all digits valid *)
Fixpoint bytes_of_hex (s : string) : option bytes :=
  match s with
  | EmptyString => Some []
  | String a (String b r) =>
      match hexval a, hexval b, bytes_of_hex r with
      | Some x, Some y, Some t => Some (16 * x + y :: t)
      | _, _, _ => None
      end
  | _ => None
  end.
