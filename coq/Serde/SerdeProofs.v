(* Serde/SerdeProofs.v — proofs about the serde models (C06). *)
From FV Require Import Serde.DataModel Serde.PoliciesModel Serde.DeriveModel Serde.UpgradeModel.
From Coq Require Import Lia PeanoNat Arith.
Open Scope N_scope.

(* ================================================================ bit facts *)
Lemma contains_pow2 b i : contains b (2 ^ i) = N.testbit b i.
Proof.
  unfold contains. apply Bool.eq_true_iff_eq. rewrite N.eqb_eq. split; intros H.
  - assert (E : N.testbit (N.land b (2 ^ i)) i = N.testbit (2 ^ i) i) by (rewrite H; reflexivity).
    rewrite N.land_spec, N.pow2_bits_true, Bool.andb_true_r in E. exact E.
  - apply N.bits_inj. intros n. rewrite N.land_spec, N.pow2_bits_eqb.
    destruct (N.eqb_spec i n) as [->|Hn]; [rewrite H; reflexivity | apply Bool.andb_false_r].
Qed.

Lemma legacy_spec b : legacy b = negb (N.testbit b 4) && negb (N.testbit b 5).
Proof.
  unfold legacy, ALL_BITS, FIRST_FOUR. apply Bool.eq_true_iff_eq.
  rewrite N.eqb_eq, Bool.andb_true_iff, !Bool.negb_true_iff. split.
  - intros H. split.
    + assert (E : N.testbit (N.land b 63) 4 = N.testbit (N.land b 15) 4) by (rewrite H; reflexivity).
      rewrite !N.land_spec in E. change (N.testbit 63 4) with true in E. change (N.testbit 15 4) with false in E.
      rewrite Bool.andb_true_r, Bool.andb_false_r in E. exact E.
    + assert (E : N.testbit (N.land b 63) 5 = N.testbit (N.land b 15) 5) by (rewrite H; reflexivity).
      rewrite !N.land_spec in E. change (N.testbit 63 5) with true in E. change (N.testbit 15 5) with false in E.
      rewrite Bool.andb_true_r, Bool.andb_false_r in E. exact E.
  - intros [H4 H5]. apply N.bits_inj. intros n. rewrite !N.land_spec.
    change 63 with (N.ones 6). change 15 with (N.ones 4).
    destruct (N.lt_ge_cases n 4) as [Hlt|Hge].
    + rewrite !N.ones_spec_low by lia. reflexivity.
    + rewrite (N.ones_spec_high 4 n) by lia. rewrite Bool.andb_false_r.
      destruct (N.lt_ge_cases n 6) as [Hlt6|Hge6].
      * assert (n = 4 \/ n = 5) as [-> | ->] by lia; [rewrite H4 | rewrite H5]; reflexivity.
      * rewrite N.ones_spec_high by lia. apply Bool.andb_false_r.
Qed.

Lemma contains_16 b : contains b 16 = N.testbit b 4.
Proof. change 16 with (2 ^ 4). apply contains_pow2. Qed.
Lemma contains_32 b : contains b 32 = N.testbit b 5.
Proof. change 32 with (2 ^ 5). apply contains_pow2. Qed.

(* ================================================================ primitive visitors *)
Lemma dmapM_de_uint w (vs : list N) :
  forallb (fun v => v <? 2 ^ w) vs = true -> dmapM (de_uint w) (map (DU w) vs) = DOk vs.
Proof.
  induction vs as [|v vs IH]; intros H; [reflexivity|].
  cbn [forallb] in H. apply Bool.andb_true_iff in H as [Hv Hr].
  cbn [map dmapM de_uint]. rewrite Hv. cbn [dbind]. rewrite IH by exact Hr. reflexivity.
Qed.

Lemma forallb_firstn {A} (f : A -> bool) n l : forallb f l = true -> forallb f (firstn n l) = true.
Proof.
  revert l; induction n as [|n IH]; intros [|x l] H; try reflexivity.
  cbn [forallb firstn] in *. apply Bool.andb_true_iff in H as [-> H]. rewrite IH by exact H. reflexivity.
Qed.

(* ================================================================ select / sync *)
Lemma select_bounded bits vs fl w :
  forallb (fun v => v <? 2 ^ w) vs = true -> forallb (fun v => v <? 2 ^ w) (select bits vs fl) = true.
Proof.
  revert fl; induction vs as [|v vs IH]; intros [|f fl] H; try reflexivity.
  cbn [forallb] in H. apply Bool.andb_true_iff in H as [Hv Hr].
  cbn [select]. destruct (contains bits f); [cbn [forallb]; rewrite Hv, IH by exact Hr; reflexivity | apply IH; exact Hr].
Qed.

Lemma sync_select bits : forall fl vs rest, length vs = length fl ->
  sync_loop bits fl (select bits vs fl ++ rest) = DOk (mask_values bits vs fl, rest).
Proof.
  induction fl as [|f fl IH]; intros [|v vs] rest Hlen; try discriminate; [reflexivity|].
  cbn [length] in Hlen. injection Hlen as Hlen.
  cbn [select sync_loop mask_values]. destruct (contains bits f).
  - cbn [app]. rewrite IH by exact Hlen. reflexivity.
  - rewrite IH by exact Hlen. reflexivity.
Qed.

Lemma mask_id_iff bits : forall fl vs, length vs = length fl ->
  (mask_values bits vs fl = vs <-> wfp_loop bits vs fl = true).
Proof.
  induction fl as [|f fl IH]; intros [|v vs] Hlen; try discriminate; [split; reflexivity|].
  cbn [length] in Hlen. injection Hlen as Hlen.
  cbn [mask_values wfp_loop]. specialize (IH vs Hlen). rewrite Bool.andb_true_iff, <- IH.
  destruct (contains bits f); cbn [orb].
  - split; [intros H; injection H as H; auto | intros [_ H]; rewrite H; reflexivity].
  - rewrite N.eqb_eq. split; [intros H; injection H as H0 H; auto | intros [-> H]; rewrite H; reflexivity].
Qed.

(* ================================================================ Policies round trip *)
Lemma ty_ok_inv p : ty_ok p = true ->
  p_bits p < 2 ^ 32 /\ length (p_values p) = 6%nat /\ forallb (fun v => v <? 2 ^ 64) (p_values p) = true.
Proof.
  unfold ty_ok, POLICIES_NUMBER. rewrite !Bool.andb_true_iff, N.ltb_lt, Nat.eqb_eq. tauto.
Qed.

(* PoliciesBits: ser then de is the identity (binary form: unconditionally; text form: under the
   bitflags text contract [bits_text_ok]) *)
Lemma de_ser_bits (hr : bool) (b : N) : b < 2 ^ 32 -> (if hr then bits_text_ok b else true) = true ->
  de_bits hr (ser_bits hr b) = DOk b.
Proof.
  intros Hb Hc. unfold de_bits, ser_bits. destruct hr.
  - unfold bits_text_ok in Hc. destruct (bits_parse (bits_text b)) as [b'|e]; [|discriminate].
    apply N.eqb_eq in Hc. subst. reflexivity.
  - unfold de_uint. apply N.ltb_lt in Hb. rewrite Hb. reflexivity.
Qed.

Lemma de_ser_values sd p : ty_ok p = true ->
  de_values sd (p_bits p) (ser_values p) =
    DOk (if legacy (p_bits p) then firstn 4 (p_values p) ++ [0; 0]
         else mask_values (p_bits p) (p_values p) all_flags).
Proof.
  intros Hty. destruct (ty_ok_inv p Hty) as (Hb & Hlen & Hv).
  unfold de_values, ser_values. destruct (legacy (p_bits p)).
  - unfold de_uint_array, de_elems. cbn [orb dbind].
    rewrite map_length, firstn_length, Hlen. cbn [Nat.min Nat.eqb].
    rewrite dmapM_de_uint by (apply forallb_firstn; exact Hv). reflexivity.
  - unfold de_uint_vec, de_elems. cbn [negb orb dbind].
    rewrite dmapM_de_uint by (apply select_bounded; exact Hv). cbn [dbind].
    unfold sync. rewrite <- (app_nil_r (select _ _ _)).
    rewrite sync_select by (rewrite Hlen; reflexivity). reflexivity.
Qed.

Lemma visit_seq_ser sd (hr : bool) p : ty_ok p = true -> (if hr then bits_text_ok (p_bits p) else true) = true ->
  visit_seq sd hr (map snd [("bits"%string, ser_bits hr (p_bits p)); ("values"%string, ser_values p)]) =
    DOk (mkPol (p_bits p) (if legacy (p_bits p) then firstn 4 (p_values p) ++ [0; 0]
                           else mask_values (p_bits p) (p_values p) all_flags)).
Proof.
  intros Hty Hc. destruct (ty_ok_inv p Hty) as (Hb & _ & _).
  cbn [map snd visit_seq]. rewrite de_ser_bits by assumption. cbn [dbind].
  rewrite de_ser_values by exact Hty. reflexivity.
Qed.

Lemma visit_map_ser sd (hr : bool) p : ty_ok p = true -> (if hr then bits_text_ok (p_bits p) else true) = true ->
  visit_map sd hr [("bits"%string, ser_bits hr (p_bits p)); ("values"%string, ser_values p)] =
    DOk (mkPol (p_bits p) (if legacy (p_bits p) then firstn 4 (p_values p) ++ [0; 0]
                           else mask_values (p_bits p) (p_values p) all_flags)).
Proof.
  intros Hty Hc. destruct (ty_ok_inv p Hty) as (Hb & _ & _).
  unfold visit_map. cbn [visit_map_loop]. cbn [String.eqb Ascii.eqb Bool.eqb].
  rewrite de_ser_bits by assumption. cbn [dbind].
  rewrite de_ser_values by exact Hty. reflexivity.
Qed.

(* what serialize-then-deserialize returns, for every policy value and both visitor paths *)
Theorem de_ser_policies_value sd (hr : bool) p :
  ty_ok p = true -> (if hr then bits_text_ok (p_bits p) else true) = true ->
  de_policies sd hr (ser_policies hr p) =
    DOk (mkPol (p_bits p) (if legacy (p_bits p) then firstn 4 (p_values p) ++ [0; 0]
                           else mask_values (p_bits p) (p_values p) all_flags)).
Proof.
  intros Hty Hc. unfold de_policies, ser_policies. destruct sd.
  - apply visit_map_ser; assumption.
  - apply visit_seq_ser; assumption.
Qed.

Lemma legacy_tail_iff (vs : list N) : length vs = 6%nat ->
  (firstn 4 vs ++ [0; 0] = vs <-> (nth 4 vs 0 =? 0) && (nth 5 vs 0 =? 0) = true).
Proof.
  intros Hlen. destruct vs as [|a [|b [|c [|d [|e [|f [|]]]]]]]; try discriminate.
  cbn [firstn app nth]. rewrite Bool.andb_true_iff, !N.eqb_eq. split.
  - intros H. injection H as -> ->. auto.
  - intros [-> ->]. reflexivity.
Qed.

(* the exact characterisation: a value survives ser-then-de iff rt_ok *)
Theorem policies_roundtrip_iff sd (hr : bool) p :
  ty_ok p = true -> (if hr then bits_text_ok (p_bits p) else true) = true ->
  (de_policies sd hr (ser_policies hr p) = DOk p <-> rt_ok p = true).
Proof.
  intros Hty Hc. rewrite de_ser_policies_value by assumption.
  destruct (ty_ok_inv p Hty) as (_ & Hlen & _). unfold rt_ok, wfp.
  destruct p as [bits vs]. cbn [p_bits p_values] in *. destruct (legacy bits).
  - rewrite <- legacy_tail_iff by exact Hlen. split; [intros H; injection H; auto | intros ->; reflexivity].
  - rewrite <- mask_id_iff by (rewrite Hlen; reflexivity). split; [intros H; injection H; auto | intros ->; reflexivity].
Qed.

(* the representation invariant implies it: with a legacy bit pattern the two newer entries are unset *)
Lemma wfp_rt_ok p : ty_ok p = true -> wfp p = true -> rt_ok p = true.
Proof.
  intros Hty Hw. destruct (ty_ok_inv p Hty) as (_ & Hlen & _). unfold rt_ok.
  destruct (legacy (p_bits p)) eqn:Hl; [|exact Hw].
  rewrite legacy_spec in Hl. apply Bool.andb_true_iff in Hl as [H4 H5].
  apply Bool.negb_true_iff in H4, H5.
  unfold wfp in Hw. destruct p as [bits vs]. cbn [p_bits p_values] in *.
  destruct vs as [|a [|b [|c [|d [|e [|f [|]]]]]]]; try discriminate.
  unfold all_flags in Hw. cbn [wfp_loop] in Hw. rewrite contains_16, contains_32, H4, H5 in Hw.
  cbn [orb] in Hw. rewrite !Bool.andb_true_iff in Hw. cbn [nth]. rewrite Bool.andb_true_iff. tauto.
Qed.

Theorem policies_roundtrip sd (hr : bool) p :
  ty_ok p = true -> wfp p = true -> (if hr then bits_text_ok (p_bits p) else true) = true ->
  de_policies sd hr (ser_policies hr p) = DOk p.
Proof.
  intros Hty Hw Hc. apply policies_roundtrip_iff; [assumption | assumption | apply wfp_rt_ok; assumption].
Qed.

(* the bitflags text contract holds for all 64 valid masks (finite sweep, bound in the statement) *)
Lemma bits_text_ok_valid_masks : forallb bits_text_ok (map N.of_nat (seq 0 64)) = true.
Proof. vm_compute. reflexivity. Qed.

Lemma bits_text_ok_lt64 (b : N) : b < 64 -> bits_text_ok b = true.
Proof.
  intros Hb. pose proof bits_text_ok_valid_masks as H. rewrite forallb_forall in H. apply H.
  apply in_map_iff. exists (N.to_nat b). split; [apply N2Nat.id|]. apply in_seq. lia.
Qed.

Theorem policies_roundtrip_valid_masks sd hr p :
  ty_ok p = true -> wfp p = true -> p_bits p < 64 ->
  de_policies sd hr (ser_policies hr p) = DOk p.
Proof.
  intros Hty Hw Hb. apply policies_roundtrip; try assumption.
  destruct hr; [apply bits_text_ok_lt64; exact Hb | reflexivity].
Qed.

(* ================================================================ the public API keeps wfp *)
Lemma pnew_wfp : wfp pnew = true /\ ty_ok pnew = true.
Proof. split; reflexivity. Qed.

Lemma contains_lor_flag_same b i : contains (N.lor b (flag i)) (flag i) = true.
Proof.
  unfold flag. rewrite contains_pow2, N.lor_spec, N.pow2_bits_true. apply Bool.orb_true_r.
Qed.
Lemma contains_lor_flag_other b i j : i <> j -> contains (N.lor b (flag i)) (flag j) = contains b (flag j).
Proof.
  intros H. unfold flag. rewrite !contains_pow2, N.lor_spec, N.pow2_bits_false by lia. apply Bool.orb_false_r.
Qed.
Lemma contains_ldiff_flag_other b i j : i <> j -> contains (N.ldiff b (flag i)) (flag j) = contains b (flag j).
Proof.
  intros H. unfold flag. rewrite !contains_pow2, N.ldiff_spec, N.pow2_bits_false by lia. apply Bool.andb_true_r.
Qed.

(* Policies::set(type_i, v) for the six policy types i = 0..5 *)
Theorem set_preserves_wfp p i v : (i < 6)%nat -> length (p_values p) = 6%nat -> wfp p = true -> wfp (pset p i v) = true.
Proof.
  intros Hi Hlen Hw. destruct p as [bits vs]. cbn [p_bits p_values] in *.
  destruct vs as [|a [|b [|c [|d [|e [|f [|]]]]]]]; try discriminate.
  unfold wfp, all_flags in *. cbn [p_bits p_values wfp_loop] in Hw.
  change 1 with (flag 0) in *. change 2 with (flag 1) in *. change 4 with (flag 2) in *.
  change 8 with (flag 3) in *. change 16 with (flag 4) in *. change 32 with (flag 5) in *.
  rewrite !Bool.andb_true_iff in Hw. destruct Hw as (H0 & H1 & H2 & H3 & H4 & H5 & _).
  assert (Hcase : (i = 0 \/ i = 1 \/ i = 2 \/ i = 3 \/ i = 4 \/ i = 5)%nat) by lia.
  destruct v as [x|]; unfold pset, upd; cbn [p_bits p_values];
    destruct Hcase as [->|[->|[->|[->|[->| ->]]]]]; cbn [firstn skipn app wfp_loop];
    rewrite ?contains_lor_flag_same;
    repeat match goal with
      | |- context [contains (N.lor ?b (flag ?i)) (flag ?j)] => rewrite (contains_lor_flag_other b i j) by lia
      | |- context [contains (N.ldiff ?b (flag ?i)) (flag ?j)] => rewrite (contains_ldiff_flag_other b i j) by lia
      end;
    rewrite ?N.eqb_refl, ?Bool.orb_true_r, ?H0, ?H1, ?H2, ?H3, ?H4, ?H5; reflexivity.
Qed.

Lemma set_preserves_len p i v : (i < 6)%nat -> length (p_values p) = 6%nat -> length (p_values (pset p i v)) = 6%nat.
Proof.
  intros Hi Hlen. destruct p as [bits vs]. cbn [p_values] in *.
  destruct vs as [|a [|b [|c [|d [|e [|f [|]]]]]]]; try discriminate.
  assert (Hcase : (i = 0 \/ i = 1 \/ i = 2 \/ i = 3 \/ i = 4 \/ i = 5)%nat) by lia.
  destruct v; destruct Hcase as [->|[->|[->|[->|[->| ->]]]]]; reflexivity.
Qed.

(* every policy set built with the public builders (new + any sequence of set) is wfp *)
Definition build (ops : list (nat * option N)) : policies :=
  fold_left (fun p o => pset p (fst o) (snd o)) ops pnew.
Theorem builders_wfp ops : Forall (fun o => (fst o < 6)%nat) ops -> wfp (build ops) = true.
Proof.
  unfold build. assert (G : forall p, length (p_values p) = 6%nat -> wfp p = true ->
    Forall (fun o => (fst o < 6)%nat) ops ->
    wfp (fold_left (fun p o => pset p (fst o) (snd o)) ops p) = true).
  { induction ops as [|o ops IH]; intros p Hl Hw HF; [exact Hw|].
    inversion HF; subst. cbn [fold_left]. apply IH; [apply set_preserves_len | apply set_preserves_wfp | ]; assumption. }
  intros HF. apply G; [reflexivity | reflexivity | exact HF].
Qed.

(* ================================================================ the invariant CAN be violated
   through the public API: the legacy-layout Deserialize copies the four values without looking
   at the bits; a later `set` of a newer entry switches to the compact layout, which drops them *)
Definition stale_tree : dval :=
  DStruct "Policies" [("bits"%string, DNewtype "PoliciesBits" (DU 32 0));
                      ("values"%string, DTuple [DU 64 7; DU 64 0; DU 64 0; DU 64 0])].
Definition stale_p0 : policies := mkPol 0 [7; 0; 0; 0; 0; 0].
Definition stale_witness : policies := pset stale_p0 4 (Some 5).      (* set(Expiration, Some(5)) *)

Lemma stale_reachable :
  de_policies false false stale_tree = DOk stale_p0 /\ de_policies true false stale_tree = DOk stale_p0 /\
  stale_witness = mkPol 16 [7; 0; 0; 0; 5; 0] /\ ty_ok stale_witness = true /\ wfp stale_witness = false.
Proof. repeat split; vm_compute; reflexivity. Qed.

Lemma stale_not_roundtrip : forall sd hr, de_policies sd hr (ser_policies hr stale_witness) <> DOk stale_witness.
Proof. intros [|] [|]; vm_compute; discriminate. Qed.

(* values produced by the Deserialize impl always re-round-trip (decode-encode-decode fixed point) *)
Lemma sync_loop_shape bits : forall fl dv vs rest, sync_loop bits fl dv = DOk (vs, rest) ->
  length vs = length fl /\ wfp_loop bits vs fl = true.
Proof.
  induction fl as [|f fl IH]; intros dv vs rest H; cbn [sync_loop] in H.
  - injection H as <- <-. split; reflexivity.
  - destruct (contains bits f) eqn:Hc.
    + destruct dv as [|x dv']; [discriminate|].
      destruct (sync_loop bits fl dv') as [[vs' r']|] eqn:E; [|discriminate]. cbn [dbind] in H.
      injection H as <- <-. destruct (IH _ _ _ E) as [Hl Hw]. cbn [length wfp_loop]. rewrite Hc, Hl, Hw. split; reflexivity.
    + destruct (sync_loop bits fl dv) as [[vs' r']|] eqn:E; [|discriminate]. cbn [dbind] in H.
      injection H as <- <-. destruct (IH _ _ _ E) as [Hl Hw]. cbn [length wfp_loop]. rewrite Hc, Hl, Hw. split; reflexivity.
Qed.

(* ---- values produced by Deserialize satisfy rt_ok, hence re-round-trip *)
Lemma dmapM_length {A B} (f : A -> dres B) : forall l r, dmapM f l = DOk r -> length r = length l.
Proof.
  induction l as [|x l IH]; intros r H; cbn [dmapM] in H.
  - injection H as <-. reflexivity.
  - destruct (f x); [|discriminate]. cbn [dbind] in H. destruct (dmapM f l) eqn:E; [|discriminate].
    cbn [dbind] in H. injection H as <-. cbn [length]. rewrite (IH _ eq_refl). reflexivity.
Qed.

Lemma de_uint_array_length sd w n d r : de_uint_array sd w n d = DOk r -> length r = n.
Proof.
  unfold de_uint_array. destruct (de_elems sd true d) as [l|]; [|discriminate]. cbn [dbind].
  destruct (Nat.eqb (length l) n) eqn:E.
  - intros H. apply dmapM_length in H. apply Nat.eqb_eq in E. congruence.
  - destruct (Nat.ltb (length l) n).
    + destruct (dmapM (de_uint w) l); discriminate.
    + destruct (dmapM (de_uint w) (firstn n l)); discriminate.
Qed.

Lemma de_values_rt_ok sd bits d vs : de_values sd bits d = DOk vs ->
  length vs = 6%nat /\ rt_ok (mkPol bits vs) = true.
Proof.
  unfold de_values, rt_ok. cbn [p_bits p_values]. destruct (legacy bits).
  - destruct (de_uint_array sd 64 4 d) as [four|] eqn:E; [|discriminate]. cbn [dbind].
    intros H. injection H as <-. apply de_uint_array_length in E.
    destruct four as [|a [|b [|c [|e [|]]]]]; try discriminate. split; reflexivity.
  - destruct (de_uint_vec sd 64 d) as [dv|]; [|discriminate]. cbn [dbind]. unfold sync.
    destruct (sync_loop bits all_flags dv) as [[vs' rest]|] eqn:E; [|discriminate]. cbn [dbind].
    destruct rest; [|discriminate]. intros H. injection H as <-.
    apply sync_loop_shape in E as [Hl Hw]. split; [exact Hl | exact Hw].
Qed.

Lemma visit_map_loop_rt_ok sd hr : forall kvs bits values p,
  (forall v, values = Some v -> exists b, bits = Some b /\ length v = 6%nat /\ rt_ok (mkPol b v) = true) ->
  visit_map_loop sd hr kvs bits values = DOk p ->
  length (p_values p) = 6%nat /\ rt_ok p = true.
Proof.
  induction kvs as [|[k d] kvs IH]; intros bits values p Hinv H; cbn [visit_map_loop] in H.
  - destruct bits as [b|]; [|discriminate]. destruct values as [v|]; [|discriminate].
    injection H as <-. destruct (Hinv v eq_refl) as (b' & E & Hl & Hr). injection E as <-. split; assumption.
  - destruct (String.eqb k "bits").
    + destruct bits; [discriminate|]. destruct (de_bits hr d) as [b|]; [|discriminate]. cbn [dbind] in H.
      revert H. apply IH. intros v E. destruct (Hinv v E) as (b' & E' & _). discriminate.
    + destruct (String.eqb k "values").
      * destruct values; [discriminate|]. destruct bits as [b|]; [|discriminate].
        destruct (de_values sd b d) as [vals|] eqn:E; [|discriminate]. cbn [dbind] in H.
        revert H. apply IH. intros v0 E2. injection E2 as <-. exists b. split; [reflexivity|].
        eapply de_values_rt_ok; exact E.
      * revert H. apply IH. exact Hinv.
Qed.

Lemma visit_seq_rt_ok sd hr l p : visit_seq sd hr l = DOk p -> length (p_values p) = 6%nat /\ rt_ok p = true.
Proof.
  unfold visit_seq. destruct l as [|b rest]; [discriminate|].
  destruct (de_bits hr b) as [bits|]; [|discriminate]. cbn [dbind].
  destruct rest as [|v ?]; [discriminate|].
  destruct (de_values sd bits v) as [vals|] eqn:E; [|discriminate]. cbn [dbind].
  intros H. injection H as <-. eapply de_values_rt_ok; exact E.
Qed.

(* every value the Deserialize impl produces satisfies rt_ok ... *)
Theorem de_policies_rt_ok sd hr d p : de_policies sd hr d = DOk p -> length (p_values p) = 6%nat /\ rt_ok p = true.
Proof.
  unfold de_policies. destruct d; try discriminate.
  - apply visit_seq_rt_ok.
  - apply visit_seq_rt_ok.
  - apply visit_seq_rt_ok.
  - destruct sd; [|apply visit_seq_rt_ok]. unfold visit_map. apply visit_map_loop_rt_ok. intros; discriminate.
  - destruct (map_keys kvs); [|discriminate]. unfold visit_map. apply visit_map_loop_rt_ok. intros; discriminate.
Qed.

(* ================================================================ Bytes and key!(..) arrays *)
Lemma wf_bytes_cons b r : wf_bytes (b :: r) = true -> b < 256 /\ wf_bytes r = true.
Proof. unfold wf_bytes, is_byte. cbn [forallb]. rewrite Bool.andb_true_iff, N.ltb_lt. tauto. Qed.

Theorem bytes_roundtrip b : de_bytes (ser_bytes b) = DOk b.
Proof. reflexivity. Qed.

(* a format without a bytes type (serde_json) turns serialize_bytes into a sequence of u8 *)
Theorem bytes_roundtrip_as_seq b : wf_bytes b = true -> de_bytes (DSeq (map (DU 8) b)) = DOk b.
Proof.
  intros H. cbn [de_bytes]. apply dmapM_de_uint. unfold wf_bytes, is_byte in H. exact H.
Qed.

Definition N16 : list N := map N.of_nat (seq 0 16).
Lemma in_N16 n : n < 16 -> In n N16.
Proof. intros H. apply in_map_iff. exists (N.to_nat n). split; [apply N2Nat.id | apply in_seq; lia]. Qed.
Lemma hexval_hexchar n : n < 16 -> hexval (hexchar n) = Some n.
Proof.
  intros H. assert (S : forallb (fun n => match hexval (hexchar n) with Some m => m =? n | None => false end) N16 = true)
    by (vm_compute; reflexivity).
  rewrite forallb_forall in S. specialize (S n (in_N16 n H)).
  destruct (hexval (hexchar n)); [apply N.eqb_eq in S; congruence | discriminate].
Qed.
Lemma hexchar_not_x n : n < 16 -> hexchar n <> "x"%char.
Proof.
  intros H. assert (S : forallb (fun n => negb (Ascii.eqb (hexchar n) "x"%char)) N16 = true) by (vm_compute; reflexivity).
  rewrite forallb_forall in S. specialize (S n (in_N16 n H)). apply Bool.negb_true_iff in S.
  intros E. rewrite E in S. rewrite Ascii.eqb_refl in S. discriminate.
Qed.

Lemma bytes_of_hex_of_bytes bs : wf_bytes bs = true -> bytes_of_hex (hex_of_bytes bs) = Some bs.
Proof.
  induction bs as [|b r IH]; intros H; [reflexivity|].
  apply wf_bytes_cons in H as [Hb Hr]. cbn [hex_of_bytes bytes_of_hex].
  rewrite !hexval_hexchar, IH by (try assumption; try (apply N.div_lt_upper_bound; lia); try (apply N.mod_lt; lia)).
  f_equal. f_equal. pose proof (N.div_mod b 16). lia.
Qed.

Lemma hex_no_0x_prefix bs : wf_bytes bs = true -> strip_prefix "0x" (hex_of_bytes bs) = None.
Proof.
  intros H. unfold strip_prefix. destruct (String.prefix "0x" (hex_of_bytes bs)) eqn:E; [|reflexivity]. exfalso.
  destruct bs as [|b r]; [discriminate|]. apply wf_bytes_cons in H as [Hb _].
  cbn [hex_of_bytes String.prefix] in E.
  destruct (ascii_dec "0"%char (hexchar (b / 16))); [|discriminate].
  destruct (ascii_dec "x"%char (hexchar (b mod 16))) as [Ex|]; [|discriminate].
  symmetry in Ex. revert Ex. apply hexchar_not_x. apply N.mod_lt. lia.
Qed.

Theorem arr_roundtrip hr n b : length b = n -> wf_bytes b = true -> de_arr hr n (ser_arr hr b) = DOk b.
Proof.
  intros Hl Hw. unfold de_arr, ser_arr. destruct hr.
  - rewrite hex_no_0x_prefix, bytes_of_hex_of_bytes by exact Hw. rewrite Hl, Nat.eqb_refl. reflexivity.
  - rewrite map_length, Hl, Nat.leb_refl. rewrite <- Hl, <- (map_length (DU 8) b), firstn_all.
    apply dmapM_de_uint. unfold wf_bytes, is_byte in Hw. exact Hw.
Qed.

(* ================================================================ packaged statements for Properties/C06.v *)
Lemma policies_roundtrip_refuted :
  exists (d : dval) (p0 p : policies),
    de_policies false false d = DOk p0 /\ de_policies true false d = DOk p0 /\
    p = pset p0 4 (Some 5) /\ ty_ok p = true /\ wfp p = false /\
    forall sd hr, de_policies sd hr (ser_policies hr p) <> DOk p.
Proof.
  exists stale_tree, stale_p0, stale_witness.
  destruct stale_reachable as (H1 & H2 & _ & H4 & H5).
  repeat split; try assumption. exact stale_not_roundtrip.
Qed.

Lemma deserialized_policies_stable :
  forall (sd hr sd' hr' : bool) (d : dval) (p : policies),
    de_policies sd hr d = DOk p -> ty_ok p = true ->
    (if hr' then bits_text_ok (p_bits p) else true) = true ->
    de_policies sd' hr' (ser_policies hr' p) = DOk p.
Proof.
  intros sd hr sd' hr' d p H Hty Hc. apply policies_roundtrip_iff; try assumption.
  exact (proj2 (de_policies_rt_ok sd hr d p H)).
Qed.

Lemma bytes_roundtrip_both :
  forall b : bytes, de_bytes (ser_bytes b) = DOk b /\ (wf_bytes b = true -> de_bytes (DSeq (map (DU 8) b)) = DOk b).
Proof. intros b. split; [apply bytes_roundtrip | apply bytes_roundtrip_as_seq]. Qed.
