(* Serde/RepoSchemas.v — hand-written serde schemas (universe of Serde/DeriveModel.v) of the
   fuel-tx types whose derive output the correspondence run records: the whole `Transaction`
   enum (all six kinds, all input/output variants, Policies leaf, skipped metadata,
   transparent ScriptCode/PredicateCode/BlockHeight, Empty<T>(PhantomData)), DependentCost and
   FeeParameters.  Tied to /repo by the recorded trees (Run/Serde.v, CDerive cases): a renamed,
   reordered, added, removed or newly skipped field makes the recorded tree differ from [ser]. *)
From FV Require Export Serde.DeriveModel.
Open Scope N_scope.
Local Open Scope string_scope.

Definition A32 : sty := SArr 32.
Definition U16 : sty := SUInt 16.
Definition U32 : sty := SUInt 32.
Definition U64 : sty := SUInt 64.
Definition S_Empty : sty := SNewtype "Empty" SPhantom.

Definition S_UtxoId : sty := sstruct "UtxoId" [fld "tx_id" A32; fld "output_index" U16].
(* BlockHeight is #[serde(transparent)] over u32 *)
Definition S_TxPointer : sty := sstruct "TxPointer" [fld "block_height" (STransparent U32); fld "tx_index" U16].

Definition S_Coin (wi pgu pred pdata : sty) : sty :=
  sstruct "Coin" [fld "utxo_id" S_UtxoId; fld "owner" A32; fld "amount" U64; fld "asset_id" A32;
                  fld "tx_pointer" S_TxPointer; fld "witness_index" wi; fld "predicate_gas_used" pgu;
                  fld "predicate" pred; fld "predicate_data" pdata].
Definition S_Code : sty := STransparent SBytes.     (* PredicateCode / ScriptCode *)
Definition S_CoinSigned := S_Coin U16 S_Empty S_Empty S_Empty.
Definition S_CoinPredicate := S_Coin S_Empty U64 S_Code SBytes.
Definition S_InContract : sty :=
  sstruct "Contract" [fld "utxo_id" S_UtxoId; fld "balance_root" A32; fld "state_root" A32;
                      fld "tx_pointer" S_TxPointer; fld "contract_id" A32].
Definition S_Message (wi pgu data pred pdata : sty) : sty :=
  sstruct "Message" [fld "sender" A32; fld "recipient" A32; fld "amount" U64; fld "nonce" A32;
                     fld "witness_index" wi; fld "predicate_gas_used" pgu; fld "data" data;
                     fld "predicate" pred; fld "predicate_data" pdata].
Definition S_Input : sty :=
  senum "Input" [("CoinSigned", VNewtype S_CoinSigned);
                 ("CoinPredicate", VNewtype S_CoinPredicate);
                 ("Contract", VNewtype S_InContract);
                 ("MessageCoinSigned", VNewtype (S_Message U16 S_Empty S_Empty S_Empty S_Empty));
                 ("MessageCoinPredicate", VNewtype (S_Message S_Empty U64 S_Empty S_Code SBytes));
                 ("MessageDataSigned", VNewtype (S_Message U16 S_Empty SBytes S_Empty S_Empty));
                 ("MessageDataPredicate", VNewtype (S_Message S_Empty U64 SBytes S_Code SBytes))].

Definition S_OutContract : sty :=
  sstruct "Contract" [fld "input_index" U16; fld "balance_root" A32; fld "state_root" A32].
Definition coin_like := vstruct [fld "to" A32; fld "amount" U64; fld "asset_id" A32].
Definition S_Output : sty :=
  senum "Output" [("Coin", coin_like); ("Contract", VNewtype S_OutContract); ("Change", coin_like);
                  ("Variable", coin_like);
                  ("ContractCreated", vstruct [fld "contract_id" A32; fld "state_root" A32])].

Definition S_Witness : sty := sstruct "Witness" [fld "data" SBytes].
Definition S_StorageSlot : sty := sstruct "StorageSlot" [fld "key" A32; fld "value" A32].
Definition S_UpgradePurpose : sty :=
  senum "UpgradePurpose" [("ConsensusParameters", vstruct [fld "witness_index" U16; fld "checksum" A32]);
                          ("StateTransition", vstruct [fld "root" A32])].

Definition S_ScriptBody : sty :=
  sstruct "ScriptBody" [fld "script_gas_limit" U64; fld "receipts_root" A32; fld "script" S_Code; fld "script_data" SBytes].
Definition S_CreateBody : sty :=
  sstruct "CreateBody" [fld "bytecode_witness_index" U16; fld "salt" A32; fld "storage_slots" (SVec S_StorageSlot)].
Definition S_UpgradeBody : sty := sstruct "UpgradeBody" [fld "purpose" S_UpgradePurpose].
Definition S_UploadBody : sty :=
  sstruct "UploadBody" [fld "root" A32; fld "witness_index" U16; fld "subsection_index" U16;
                        fld "subsections_number" U16; fld "proof_set" (SVec A32)].
Definition S_BlobBody : sty := sstruct "BlobBody" [fld "id" A32; fld "witness_index" U16].

(* the metadata cache: #[serde(skip)]; its value is never serialized, Default = None *)
Definition S_Metadata : sty := SOption SUnit.
Definition S_Chargeable (body : sty) : sty :=
  sstruct "ChargeableTransaction" [fld "body" body; fld "policies" SPolicies; fld "inputs" (SVec S_Input);
                                   fld "outputs" (SVec S_Output); fld "witnesses" (SVec S_Witness);
                                   fld_skip "metadata" S_Metadata].
Definition S_Mint : sty :=
  sstruct "Mint" [fld "tx_pointer" S_TxPointer; fld "input_contract" S_InContract;
                  fld "output_contract" S_OutContract; fld "mint_amount" U64; fld "mint_asset_id" A32;
                  fld "gas_price" U64; fld_skip "metadata" S_Metadata].
Definition S_Transaction : sty :=
  senum "Transaction" [("Script", VNewtype (S_Chargeable S_ScriptBody));
                       ("Create", VNewtype (S_Chargeable S_CreateBody));
                       ("Mint", VNewtype S_Mint);
                       ("Upgrade", VNewtype (S_Chargeable S_UpgradeBody));
                       ("Upload", VNewtype (S_Chargeable S_UploadBody));
                       ("Blob", VNewtype (S_Chargeable S_BlobBody))].

Definition S_DependentCost : sty :=
  senum "DependentCost" [("LightOperation", vstruct [fld "base" U64; fld "units_per_gas" U64]);
                         ("HeavyOperation", vstruct [fld "base" U64; fld "gas_per_unit" U64])].
Definition S_FeeParameters : sty :=
  senum "FeeParameters" [("V1", VNewtype (sstruct "FeeParametersV1" [fld "gas_price_factor" U64; fld "gas_per_byte" U64]))].

(* schemas addressable from the generated case files *)
Definition schema_of (id : N) : sty :=
  match id with
  | 0 => S_Transaction
  | 1 => S_DependentCost
  | 2 => S_FeeParameters
  | 3 => S_Input
  | 4 => S_Output
  | _ => S_UpgradePurpose
  end.
