(* Serde/UpgradeProofs.v — the upgrade checksum statements of C06 over Serde/UpgradeModel.v. *)
From FV Require Import Base.Bytes Base.U64 Serde.UpgradeModel.
From Coq Require Import Lia.
Open Scope N_scope.

Section UpgradeFacts.
  Variable CP : Type.
  Variable h : bytes -> bytes.
  Variable ser_cp : CP -> option bytes.
  Variable de_cp : bytes -> option CP.

  (* whatever compute accepts: the checksum it reports is the hash of the indexed witness, equals
     the committed checksum, and the parameters are decoded from those SAME bytes *)
  Theorem compute_sound p ws cp c :
    compute CP h de_cp p ws = UOk (MConsensusParameters cp c) ->
    exists idx checksum w,
      p = PConsensusParameters idx checksum /\ nth_error ws (N.to_nat idx) = Some w /\
      c = h w /\ h w = checksum /\ de_cp w = Some cp.
  Proof.
    destruct p as [idx checksum|root]; cbn [compute]; [|discriminate].
    destruct (nth_error ws (N.to_nat idx)) as [w|] eqn:E; [|discriminate].
    destruct (bytes_eqb (h w) checksum) eqn:Eh; [|discriminate].
    destruct (de_cp w) as [cp'|] eqn:Ed; [|discriminate].
    intros H. injection H as <- <-. apply bytes_eqb_eq in Eh.
    exists idx, checksum, w. repeat split; assumption.
  Qed.

  (* error classification is total and exclusive *)
  Theorem compute_errors idx checksum ws :
    match compute CP h de_cp (PConsensusParameters idx checksum) ws with
    | UErr UIndexBounds => nth_error ws (N.to_nat idx) = None
    | UErr UChecksumMismatch => exists w, nth_error ws (N.to_nat idx) = Some w /\ h w <> checksum
    | UErr UDeserialization => exists w, nth_error ws (N.to_nat idx) = Some w /\ h w = checksum /\ de_cp w = None
    | UErr _ => False
    | UOk MStateTransition => False
    | UOk (MConsensusParameters cp c) => exists w, nth_error ws (N.to_nat idx) = Some w /\ c = checksum /\ de_cp w = Some cp
    end.
  Proof.
    cbn [compute]. destruct (nth_error ws (N.to_nat idx)) as [w|] eqn:E; [|reflexivity].
    destruct (bytes_eqb (h w) checksum) eqn:Eh.
    - apply bytes_eqb_eq in Eh. destruct (de_cp w) eqn:Ed.
      + exists w. repeat split; assumption.
      + exists w. repeat split; assumption.
    - exists w. split; [reflexivity|]. intros Hc. apply bytes_eqb_eq in Hc. congruence.
  Qed.

  (* the codec contract of the third-party library (postcard): decoding what was encoded gives
     the value back.  This is the ORACLE premise; the correspondence run exercises real postcard. *)
  Definition codec_contract : Prop := forall cp w, ser_cp cp = Some w -> de_cp w = Some cp.

  (* the transaction built by Transaction::upgrade_consensus_parameters passes compute; the
     metadata holds the same parameters and the committed checksum; re-serializing the decoded
     parameters reproduces the witness bytes *)
  Theorem upgrade_commit cp ws p ws' :
    codec_contract ->
    upgrade_consensus_parameters CP h ser_cp cp ws = UOk (p, ws') ->
    exists w, ser_cp cp = Some w /\
      p = PConsensusParameters (lenN ws) (h w) /\ ws' = ws ++ [w] /\
      compute CP h de_cp p ws' = UOk (MConsensusParameters cp (h w)) /\
      (forall cp', de_cp w = Some cp' -> ser_cp cp' = Some w).
  Proof.
    intros Hc. unfold upgrade_consensus_parameters.
    destruct (ser_cp cp) as [w|] eqn:Es; [|discriminate].
    destruct (lenN ws <? 2 ^ 16); [|discriminate]. intros H. injection H as <- <-.
    exists w. repeat split.
    - cbn [compute]. unfold lenN. rewrite Nat2N.id, nth_error_app2 by lia.
      rewrite PeanoNat.Nat.sub_diag. cbn [nth_error].
      assert (E : bytes_eqb (h w) (h w) = true) by (apply bytes_eqb_eq; reflexivity).
      rewrite E, (Hc cp w Es). reflexivity.
    - intros cp' Hd. rewrite (Hc cp w Es) in Hd. injection Hd as <-. exact Es.
  Qed.

  (* fuel-vm: upgrade_inner writes the cached parameters; when the cache was filled by
     precompute (= compute on the same transaction) they are the freshly computed ones *)
  Theorem consumed_cached_is_fresh p ws m :
    compute CP h de_cp p ws = UOk m ->
    consumed_parameters CP h de_cp (Some m) p ws = consumed_parameters CP h de_cp None p ws.
  Proof. intros H. unfold consumed_parameters. rewrite H. reflexivity. Qed.
End UpgradeFacts.

(* Non-canonical payloads: the codec contract does NOT imply that an accepted witness is the
   encoding of the parameters it decodes to.  Counter-model (a prefix code that ignores trailing
   bytes, as postcard::from_bytes does): *)
Definition toy_ser (n : N) : option bytes := Some [n].
Definition toy_de (b : bytes) : option N := match b with x :: _ => Some x | [] => None end.
Lemma toy_contract : codec_contract N toy_ser toy_de.
Proof. intros cp w H. injection H as <-. reflexivity. Qed.
Lemma accepted_witness_need_not_be_canonical :
  exists p ws cp c w,
    compute N (fun b => b) toy_de p ws = UOk (MConsensusParameters cp c) /\
    nth_error ws 0 = Some w /\ toy_ser cp <> Some w.
Proof.
  exists (PConsensusParameters 0 [5; 9]), [[5; 9]], 5, [5; 9], [5; 9].
  split; [vm_compute; reflexivity|]. split; [reflexivity | discriminate].
Qed.
