(* Serde/PoliciesModel.v — L1 model of the hand-written serde impls in
   fuel-tx/src/transaction/policies.rs (Policies, PoliciesBits through bitflags' serde support),
   fuel-types/src/bytes.rs (Bytes) and fuel-types/src/array_types.rs (key!(X, n) arrays).
   Definitions only; mirrors the Rust control flow function by function. *)
From FV Require Export Serde.DataModel.
Open Scope N_scope.

(* struct Policies { bits: PoliciesBits(u32), values: [Word; POLICIES_NUMBER] } *)
Record policies : Type := mkPol { p_bits : N; p_values : list N }.

Definition POLICIES_NUMBER : nat := 6.
Definition ALL_BITS : N := 63.            (* PoliciesBits::all().bits() *)
Definition FIRST_FOUR : N := 15.          (* Maturity | MaxFee | Tip | WitnessLimit *)
(* PoliciesBits::all().iter(): the six defined flags in declaration order *)
Definition all_flags : list N := [1; 2; 4; 8; 16; 32].
Definition flag_names : list (string * N) :=
  [("Tip"%string, 1); ("WitnessLimit"%string, 2); ("Maturity"%string, 4); ("MaxFee"%string, 8);
   ("Expiration"%string, 16); ("Owner"%string, 32)].

Definition contains (bits f : N) : bool := N.land bits f =? f.
(* `bits.intersection(all) == bits.intersection(Maturity | MaxFee | Tip | WitnessLimit)` *)
Definition legacy (bits : N) : bool := N.land bits ALL_BITS =? N.land bits FIRST_FOUR.

(* Rust type invariant of the struct (u32, [u64; 6]) *)
Definition ty_ok (p : policies) : bool :=
  (p_bits p <? 2 ^ 32) && Nat.eqb (length (p_values p)) POLICIES_NUMBER && forallb (fun v => v <? 2 ^ 64) (p_values p).

(* representation invariant assumed by the code comments: values of unset bits are zero *)
Fixpoint wfp_loop (bits : N) (vs fl : list N) : bool :=
  match vs, fl with
  | v :: vs', f :: fl' => (contains bits f || (v =? 0)) && wfp_loop bits vs' fl'
  | _, _ => true
  end.
Definition wfp (p : policies) : bool := wfp_loop (p_bits p) (p_values p) all_flags.

(* ---------------------------------------------------------------- public API (new / set / get) *)
Definition pnew : policies := mkPol 0 [0; 0; 0; 0; 0; 0].
Definition upd (i : nat) (x : N) (l : list N) : list N := firstn i l ++ x :: skipn (S i) l.
Definition flag (i : nat) : N := 2 ^ N.of_nat i.
(* Policies::set(policy_type, value): index/bit of the type is i/2^i *)
Definition pset (p : policies) (i : nat) (v : option N) : policies :=
  match v with
  | Some x => mkPol (N.lor (p_bits p) (flag i)) (upd i x (p_values p))
  | None => mkPol (N.ldiff (p_bits p) (flag i)) (upd i 0 (p_values p))
  end.
Definition pget (p : policies) (i : nat) : option N :=
  if contains (p_bits p) (flag i) then Some (nth i (p_values p) 0) else None.
(* Policies::values_for_bitmask *)
Fixpoint mask_values (bits : N) (vs fl : list N) : list N :=
  match vs, fl with
  | v :: vs', f :: fl' => (if contains bits f then v else 0) :: mask_values bits vs' fl'
  | _, _ => []
  end.
(* Policies::is_valid, serde-relevant part: `self.values == values_for_bitmask(bits, values)` *)
Definition values_match_mask (p : policies) : bool :=
  bytes_eqb (p_values p) (mask_values (p_bits p) (p_values p) all_flags).

(* ---------------------------------------------------------------- PoliciesBits (bitflags 2.x serde) *)
(* bitflags::parser::to_writer: names of the contained flags joined by " | ", then the bits
   that belong to no flag as "0x<hex>" *)
Definition bits_text (b : N) : string :=
  let names := map fst (filter (fun nf => contains b (snd nf)) flag_names) in
  let rem := N.ldiff b ALL_BITS in
  String.concat " | " (names ++ (if rem =? 0 then [] else [("0x" ++ hex_of_N rem)%string])).

Fixpoint lookup_flag (n : string) (l : list (string * N)) : option N :=
  match l with [] => None | (m, f) :: r => if String.eqb n m then Some f else lookup_flag n r end.

(* bitflags::parser::from_str (flags are retained, not truncated) *)
Definition parse_flag (part : string) : dres N :=
  let s := trim part in
  if String.eqb s "" then DErr EBitsText
  else match strip_prefix "0x" s with
       | Some h => match parse_hex h with
                   | Some n => if n <? 2 ^ 32 then DOk n else DErr EBitsText
                   | None => DErr EBitsText
                   end
       | None => match lookup_flag s flag_names with Some f => DOk f | None => DErr EBitsText end
       end.
Definition bits_parse (s : string) : dres N :=
  if String.eqb (trim s) "" then DOk 0
  else let+ fs := dmapM parse_flag (split_on "|"%char s EmptyString) in DOk (fold_left N.lor fs 0).

(* #[derive(Serialize)] on the bitflags newtype: newtype struct around the internal flags, which
   serialize as text when the format is human readable and as the u32 otherwise *)
Definition ser_bits (hr : bool) (b : N) : dval :=
  DNewtype "PoliciesBits" (if hr then DStr (bits_text b) else DU 32 b).
Definition de_bits (hr : bool) (d : dval) : dres N :=
  let inner := match d with DNewtype _ v => v | _ => d end in
  if hr then match inner with DStr s => bits_parse s | _ => DErr EType end
  else de_uint 32 inner.                    (* from_bits_retain: unknown bits are kept *)

(* ---------------------------------------------------------------- impl Serialize for Policies *)
Fixpoint select (bits : N) (vs fl : list N) : list N :=
  match vs, fl with
  | v :: vs', f :: fl' => if contains bits f then v :: select bits vs' fl' else select bits vs' fl'
  | _, _ => []
  end.

Definition ser_values (p : policies) : dval :=
  if legacy (p_bits p) then DTuple (map (DU 64) (firstn 4 (p_values p)))       (* [Word; 4] *)
  else DSeq (map (DU 64) (select (p_bits p) (p_values p) all_flags)).         (* Vec<Word> *)

Definition ser_policies (hr : bool) (p : policies) : dval :=
  DStruct "Policies" [("bits"%string, ser_bits hr (p_bits p)); ("values"%string, ser_values p)].

(* ---------------------------------------------------------------- impl Deserialize for Policies *)
(* the `for (index, bit) in all().iter().enumerate()` loop: returns the values array and the
   part of decoded_values that was not consumed *)
Fixpoint sync_loop (bits : N) (fl : list N) (dv : list N) : dres (list N * list N) :=
  match fl with
  | [] => DOk ([], dv)
  | f :: fl' =>
      if contains bits f then
        match dv with
        | [] => DErr ENotSync                               (* decoded_values.get(i) == None *)
        | x :: dv' => let+ (vs, rest) := sync_loop bits fl' dv' in DOk (x :: vs, rest)
        end
      else let+ (vs, rest) := sync_loop bits fl' dv in DOk (0 :: vs, rest)
  end.
Definition sync (bits : N) (dv : list N) : dres (list N) :=
  let+ (vs, rest) := sync_loop bits all_flags dv in
  match rest with [] => DOk vs | _ => DErr ENotSync end.   (* decoded_index != decoded_values.len() *)

(* the part shared by visit_seq and visit_map once `bits` is known: decode the `values` element *)
Definition de_values (sd : bool) (bits : N) (d : dval) : dres (list N) :=
  if legacy bits then
    let+ four := de_uint_array sd 64 4 d in DOk (four ++ [0; 0])
  else
    let+ dv := de_uint_vec sd 64 d in sync bits dv.

(* StructVisitor::visit_seq over the elements the SeqAccess yields *)
Definition visit_seq (sd hr : bool) (elems : list dval) : dres policies :=
  match elems with
  | [] => DErr (EInvalidLength 0)
  | b :: rest =>
      let+ bits := de_bits hr b in
      match rest with
      | [] => DErr (EInvalidLength 1)
      | v :: _ => let+ vals := de_values sd bits v in DOk (mkPol bits vals)
      end
  end.

(* StructVisitor::visit_map over the (key, value) pairs the MapAccess yields, in order *)
Fixpoint visit_map_loop (sd hr : bool) (kvs : list (string * dval)) (bits : option N) (values : option (list N))
  : dres policies :=
  match kvs with
  | [] =>
      match bits with
      | None => DErr (EMissing "bits")
      | Some b => match values with None => DErr (EMissing "values") | Some v => DOk (mkPol b v) end
      end
  | (k, d) :: rest =>
      if String.eqb k "bits" then
        match bits with
        | Some _ => DErr (EDuplicate "bits")
        | None => let+ b := de_bits hr d in visit_map_loop sd hr rest (Some b) values
        end
      else if String.eqb k "values" then
        match values with
        | Some _ => DErr (EDuplicate "values")
        | None =>
            match bits with
            | None => DErr EBitsAfterValues
            | Some b => let+ vals := de_values sd b d in visit_map_loop sd hr rest bits (Some vals)
            end
        end
      else visit_map_loop sd hr rest bits values             (* Field::Ignore: IgnoredAny *)
  end.
Definition visit_map (sd hr : bool) (kvs : list (string * dval)) : dres policies :=
  visit_map_loop sd hr kvs None None.

(* keys of a map node as field identifiers (visit_str / visit_bytes) *)
Fixpoint map_keys (kvs : list (dval * dval)) : option (list (string * dval)) :=
  match kvs with
  | [] => Some []
  | (DStr k, v) :: r => match map_keys r with Some t => Some ((k, v) :: t) | None => None end
  | _ => None
  end.

(* Deserializer::deserialize_struct("Policies", ["bits","values"], visitor): a format that keeps
   field names (self-describing) drives visit_map, a positional format drives visit_seq *)
Definition de_policies (sd hr : bool) (d : dval) : dres policies :=
  match d with
  | DStruct _ fs => if sd then visit_map sd hr fs else visit_seq sd hr (map snd fs)
  | DMap kvs => match map_keys kvs with Some fs => visit_map sd hr fs | None => DErr EType end
  | DSeq l | DTuple l | DTupleStruct _ l => visit_seq sd hr l
  | _ => DErr EType
  end.

(* the exact condition under which a value survives serialize-then-deserialize *)
Definition rt_ok (p : policies) : bool :=
  if legacy (p_bits p) then (nth 4 (p_values p) 0 =? 0) && (nth 5 (p_values p) 0 =? 0)
  else wfp p.

Definition policies_eqb (a b : policies) : bool :=
  (p_bits a =? p_bits b) && bytes_eqb (p_values a) (p_values b).

(* ---------------------------------------------------------------- Bytes (fuel-types/src/bytes.rs) *)
Definition ser_bytes (b : bytes) : dval := DBytes b.
(* BytesVisitor: visit_borrowed_bytes / visit_byte_buf / visit_seq of u8 *)
Definition de_bytes (d : dval) : dres bytes :=
  match d with
  | DBytes b => DOk b
  | DSeq l | DTuple l => dmapM (de_uint 8) l
  | _ => DErr EType
  end.

(* ---------------------------------------------------------------- key!(X, n) arrays *)
Definition ser_arr (hr : bool) (b : bytes) : dval :=
  if hr then DStr (hex_of_bytes b) else DTuple (map (DU 8) b).
Definition de_arr (hr : bool) (n : nat) (d : dval) : dres bytes :=
  if hr then
    match d with
    | DStr s =>
        let s' := match strip_prefix "0x" s with Some t => t | None => s end in
        match bytes_of_hex s' with
        | Some b => if Nat.eqb (length b) n then DOk b else DErr EHex
        | None => DErr EHex
        end
    | _ => DErr EType
    end
  else
    match d with
    | DBytes b => if Nat.eqb (length b) n then DOk b else DErr EStuck   (* copy_from_slice panics *)
    | DTuple l | DSeq l =>
        if Nat.leb n (length l) then dmapM (de_uint 8) (firstn n l)
        else let+ _ := dmapM (de_uint 8) l in DErr (EInvalidLength (N.of_nat (length l)))
    | _ => DErr EType
    end.
