(* Serde/DeriveModel.v — what `#[derive(serde::Serialize, serde::Deserialize)]` does, as two
   schema-directed functions over the data model, for the attribute set used in /repo:
   `#[serde(skip)]` on a field (not serialized; Default on deserialization), `#[serde(transparent)]`,
   renamed fields (the schema carries the serialized name).  Leaves are the hand-written impls of
   Serde/PoliciesModel.v (Policies, Bytes, key!(..) arrays).  Definitions only.

   Values ("neutral form", printed by the harness):
     struct S { f1, .., fn }      XRec [v1; ..; vn]   (one value per field, INCLUDING skipped ones)
     tuple (a, b)                 XRec [a; b]
     enum, i-th variant           XVar i [payload values]   (newtype variant: one value)
     struct X(T) / transparent    the value of T
     Vec<T>                       XList [..]        Option<T>   XNone / XSome v
     Empty<T>(PhantomData<T>)     XUnit   (schema: SNewtype "Empty" SPhantom)

   Not modelled: error precedence of the derived visit_map on malformed maps (duplicate keys are
   not rejected by the model); `#[serde(default)]` on a container only matters for missing fields. *)
From FV Require Export Serde.PoliciesModel.
Open Scope N_scope.

Inductive sty : Type :=
| SUnit
| SPhantom
| SBool
| SUInt (bits : N)
| SString
| SBytes
| SArr (n : nat)
| SPolicies
| SOption (t : sty)
| SVec (t : sty)
| STuple (ts : stys)
| SNewtype (name : string) (t : sty)
| STransparent (t : sty)
| SStruct (name : string) (fs : sfields)
| SEnum (name : string) (vs : svariants)
with stys : Type := TNil | TCons (t : sty) (r : stys)
with sfields : Type := FNil | FCons (fname : string) (skip : bool) (t : sty) (r : sfields)
with svariants : Type := VNil | VCons (vname : string) (sh : vshape) (r : svariants)
with vshape : Type := VUnit | VNewtype (t : sty) | VTuple (ts : stys) | VStruct (fs : sfields).

Scheme sty_mind := Induction for sty Sort Prop
  with stys_mind := Induction for stys Sort Prop
  with sfields_mind := Induction for sfields Sort Prop
  with svariants_mind := Induction for svariants Sort Prop
  with vshape_mind := Induction for vshape Sort Prop.
Combined Scheme sschema_mutind from sty_mind, stys_mind, sfields_mind, svariants_mind, vshape_mind.

Fixpoint mk_stys (l : list sty) : stys := match l with [] => TNil | t :: r => TCons t (mk_stys r) end.
Fixpoint mk_sfields (l : list (string * bool * sty)) : sfields :=
  match l with [] => FNil | (n, s, t) :: r => FCons n s t (mk_sfields r) end.
Fixpoint mk_svariants (l : list (string * vshape)) : svariants :=
  match l with [] => VNil | (n, s) :: r => VCons n s (mk_svariants r) end.
Definition sstruct (name : string) (l : list (string * bool * sty)) : sty := SStruct name (mk_sfields l).
Definition senum (name : string) (l : list (string * vshape)) : sty := SEnum name (mk_svariants l).
Definition fld (n : string) (t : sty) : string * bool * sty := (n, false, t).
Definition fld_skip (n : string) (t : sty) : string * bool * sty := (n, true, t).
Definition vstruct (l : list (string * bool * sty)) : vshape := VStruct (mk_sfields l).

Inductive sval : Type :=
| XUnit
| XBool (b : bool)
| XN (n : N)
| XStr (s : string)
| XB (b : bytes)
| XPol (p : policies)
| XNone
| XSome (v : sval)
| XList (l : list sval)
| XRec (l : list sval)
| XVar (i : nat) (l : list sval).

Fixpoint sval_eqb (a b : sval) : bool :=
  let fix leq (xs ys : list sval) : bool :=
    match xs, ys with
    | [], [] => true
    | x :: xs', y :: ys' => sval_eqb x y && leq xs' ys'
    | _, _ => false
    end in
  match a, b with
  | XUnit, XUnit => true
  | XBool x, XBool y => Bool.eqb x y
  | XN x, XN y => x =? y
  | XStr x, XStr y => String.eqb x y
  | XB x, XB y => bytes_eqb x y
  | XPol x, XPol y => policies_eqb x y
  | XNone, XNone => true
  | XSome x, XSome y => sval_eqb x y
  | XList x, XList y => leq x y
  | XRec x, XRec y => leq x y
  | XVar i x, XVar j y => Nat.eqb i j && leq x y
  | _, _ => false
  end.

(* the bitflags text form of these bits parses back (third-party library contract; proved for
   the 64 valid masks in SerdeProofs.v) *)
Definition bits_text_ok (b : N) : bool :=
  match bits_parse (bits_text b) with DOk b' => b' =? b | DErr _ => false end.

(* ---------------------------------------------------------------- typing *)
Fixpoint has_sty (hr : bool) (t : sty) (v : sval) {struct t} : bool :=
  match t, v with
  | SUnit, XUnit | SPhantom, XUnit => true
  | SBool, XBool _ => true
  | SUInt w, XN n => n <? 2 ^ w
  | SString, XStr _ => true
  | SBytes, XB b => wf_bytes b
  | SArr n, XB b => Nat.eqb (length b) n && wf_bytes b
  | SPolicies, XPol p => ty_ok p && rt_ok p && (if hr then bits_text_ok (p_bits p) else true)
  | SOption _, XNone => true
  | SOption t', XSome x => has_sty hr t' x
  | SVec t', XList l => forallb (has_sty hr t') l
  | STuple ts, XRec l => has_stys hr ts l
  | SNewtype _ t', _ => has_sty hr t' v
  | STransparent t', _ => has_sty hr t' v
  | SStruct _ fs, XRec l => has_sfields hr fs l
  | SEnum _ vs, XVar i l => has_svariants hr vs i l
  | _, _ => false
  end
with has_stys (hr : bool) (ts : stys) (l : list sval) {struct ts} : bool :=
  match ts, l with
  | TNil, [] => true
  | TCons t r, v :: l' => has_sty hr t v && has_stys hr r l'
  | _, _ => false
  end
with has_sfields (hr : bool) (fs : sfields) (l : list sval) {struct fs} : bool :=
  match fs, l with
  | FNil, [] => true
  | FCons _ skip t r, v :: l' => (if skip then true else has_sty hr t v) && has_sfields hr r l'
  | _, _ => false
  end
with has_svariants (hr : bool) (vs : svariants) (i : nat) (l : list sval) {struct vs} : bool :=
  match vs with
  | VNil => false
  | VCons _ sh r => match i with O => has_vshape hr sh l | S j => has_svariants hr r j l end
  end
with has_vshape (hr : bool) (sh : vshape) (l : list sval) {struct sh} : bool :=
  match sh, l with
  | VUnit, [] => true
  | VNewtype t, [v] => has_sty hr t v
  | VTuple ts, _ => has_stys hr ts l
  | VStruct fs, _ => has_sfields hr fs l
  | _, _ => false
  end.

(* ---------------------------------------------------------------- Default / erasure of skipped fields *)
Fixpoint sdefault (t : sty) : sval :=
  match t with
  | SUnit | SPhantom => XUnit
  | SBool => XBool false
  | SUInt _ => XN 0
  | SString => XStr EmptyString
  | SBytes => XB []
  | SArr n => XB (zeros n)
  | SPolicies => XPol pnew
  | SOption _ => XNone
  | SVec _ => XList []
  | STuple ts => XRec (sdefaults ts)
  | SNewtype _ t' | STransparent t' => sdefault t'
  | SStruct _ fs => XRec (sdefault_fields fs)
  | SEnum _ _ => XVar 0 []
  end
with sdefaults (ts : stys) : list sval :=
  match ts with TNil => [] | TCons t r => sdefault t :: sdefaults r end
with sdefault_fields (fs : sfields) : list sval :=
  match fs with FNil => [] | FCons _ _ t r => sdefault t :: sdefault_fields r end.

Fixpoint erase (t : sty) (v : sval) {struct t} : sval :=
  match t, v with
  | SOption t', XSome x => XSome (erase t' x)
  | SVec t', XList l => XList (map (erase t') l)
  | STuple ts, XRec l => XRec (erase_tys ts l)
  | SNewtype _ t', _ => erase t' v
  | STransparent t', _ => erase t' v
  | SStruct _ fs, XRec l => XRec (erase_fields fs l)
  | SEnum _ vs, XVar i l => XVar i (erase_variants vs i l)
  | _, _ => v
  end
with erase_tys (ts : stys) (l : list sval) {struct ts} : list sval :=
  match ts, l with
  | TCons t r, v :: l' => erase t v :: erase_tys r l'
  | _, _ => []
  end
with erase_fields (fs : sfields) (l : list sval) {struct fs} : list sval :=
  match fs, l with
  | FCons _ skip t r, v :: l' => (if skip then sdefault t else erase t v) :: erase_fields r l'
  | _, _ => []
  end
with erase_variants (vs : svariants) (i : nat) (l : list sval) {struct vs} : list sval :=
  match vs with
  | VNil => l
  | VCons _ sh r => match i with O => erase_shape sh l | S j => erase_variants r j l end
  end
with erase_shape (sh : vshape) (l : list sval) {struct sh} : list sval :=
  match sh, l with
  | VUnit, _ => []
  | VNewtype t, [v] => [erase t v]
  | VNewtype _, _ => l
  | VTuple ts, _ => erase_tys ts l
  | VStruct fs, _ => erase_fields fs l
  end.

(* ---------------------------------------------------------------- derived Serialize *)
Fixpoint ser (hr : bool) (t : sty) (v : sval) {struct t} : dval :=
  match t, v with
  | SUnit, _ => DUnit
  | SPhantom, _ => DUnitStruct "PhantomData"
  | SBool, XBool b => DBool b
  | SUInt w, XN n => DU w n
  | SString, XStr s => DStr s
  | SBytes, XB b => ser_bytes b
  | SArr _, XB b => ser_arr hr b
  | SPolicies, XPol p => ser_policies hr p
  | SOption _, XNone => DNone
  | SOption t', XSome x => DSome (ser hr t' x)
  | SVec t', XList l => DSeq (map (ser hr t') l)
  | STuple ts, XRec l => DTuple (ser_tys hr ts l)
  | SNewtype name t', _ => DNewtype name (ser hr t' v)
  | STransparent t', _ => ser hr t' v
  | SStruct name fs, XRec l => DStruct name (ser_fields hr fs l)
  | SEnum name vs, XVar i l => ser_variants hr name vs i l O
  | _, _ => DUnit
  end
with ser_tys (hr : bool) (ts : stys) (l : list sval) {struct ts} : list dval :=
  match ts, l with
  | TCons t r, v :: l' => ser hr t v :: ser_tys hr r l'
  | _, _ => []
  end
with ser_fields (hr : bool) (fs : sfields) (l : list sval) {struct fs} : list (string * dval) :=
  match fs, l with
  | FCons n skip t r, v :: l' => if skip then ser_fields hr r l' else (n, ser hr t v) :: ser_fields hr r l'
  | _, _ => []
  end
with ser_variants (hr : bool) (ename : string) (vs : svariants) (i : nat) (l : list sval) (k : nat) {struct vs} : dval :=
  match vs with
  | VNil => DUnit
  | VCons n sh r => match i with O => ser_shape hr ename n sh l k | S j => ser_variants hr ename r j l (S k) end
  end
with ser_shape (hr : bool) (ename vname : string) (sh : vshape) (l : list sval) (k : nat) {struct sh} : dval :=
  match sh, l with
  | VUnit, _ => DVarUnit ename (N.of_nat k) vname
  | VNewtype t, [v] => DVarNewtype ename (N.of_nat k) vname (ser hr t v)
  | VNewtype _, _ => DUnit
  | VTuple ts, _ => DVarTuple ename (N.of_nat k) vname (ser_tys hr ts l)
  | VStruct fs, _ => DVarStruct ename (N.of_nat k) vname (ser_fields hr fs l)
  end.

(* ---------------------------------------------------------------- derived Deserialize *)
Fixpoint assoc_str {A} (k : string) (l : list (string * A)) : option A :=
  match l with [] => None | (k', v) :: r => if String.eqb k k' then Some v else assoc_str k r end.

Definition var_idx (d : dval) : option N :=
  match d with DVarUnit _ i _ | DVarNewtype _ i _ _ | DVarTuple _ i _ _ | DVarStruct _ i _ _ => Some i | _ => None end.
Definition var_name (d : dval) : option string :=
  match d with DVarUnit _ _ n | DVarNewtype _ _ n _ | DVarTuple _ _ n _ | DVarStruct _ _ n _ => Some n | _ => None end.
(* does the variant tag of node d select the variant (name n, position k)?  a self-describing
   format transports the name, a positional one the index *)
Definition selects (sd : bool) (d : dval) (n : string) (k : nat) : bool :=
  if sd then match var_name d with Some m => String.eqb m n | None => false end
  else match var_idx d with Some i => i =? N.of_nat k | None => false end.

Fixpoint de (sd hr : bool) (t : sty) (d : dval) {struct t} : dres sval :=
  match t with
  | SUnit => match d with DUnit => DOk XUnit | _ => DErr EType end
  | SPhantom => match d with DUnitStruct _ | DUnit => DOk XUnit | _ => DErr EType end
  | SBool => match d with DBool b => DOk (XBool b) | _ => DErr EType end
  | SUInt w => let+ n := de_uint w d in DOk (XN n)
  | SString => match d with DStr s => DOk (XStr s) | _ => DErr EType end
  | SBytes => let+ b := de_bytes d in DOk (XB b)
  | SArr n => let+ b := de_arr hr n d in DOk (XB b)
  | SPolicies => let+ p := de_policies sd hr d in DOk (XPol p)
  | SOption t' =>
      match d with
      | DNone => DOk XNone
      | DSome x => let+ v := de sd hr t' x in DOk (XSome v)
      | _ => DErr EType
      end
  | SVec t' => let+ l := de_elems sd false d in let+ vs := dmapM (de sd hr t') l in DOk (XList vs)
  | STuple ts => let+ l := de_elems sd true d in let+ vs := de_tys sd hr ts l 0 in DOk (XRec vs)
  | SNewtype _ t' => match d with DNewtype _ x => de sd hr t' x | _ => de sd hr t' d end
  | STransparent t' => de sd hr t' d
  | SStruct _ fs =>
      match d with
      | DStruct _ kvs =>
          let+ vs := (if sd then de_fields_map sd hr fs kvs else de_fields_seq sd hr fs (map snd kvs) 0) in DOk (XRec vs)
      | DSeq l | DTuple l | DTupleStruct _ l => let+ vs := de_fields_seq sd hr fs l 0 in DOk (XRec vs)
      | DMap m => match map_keys m with
                  | Some kvs => let+ vs := de_fields_map sd hr fs kvs in DOk (XRec vs)
                  | None => DErr EType
                  end
      | _ => DErr EType
      end
  | SEnum _ vs => de_variants sd hr vs d O
  end
with de_tys (sd hr : bool) (ts : stys) (l : list dval) (pos : N) {struct ts} : dres (list sval) :=
  match ts with
  | TNil => match l with [] => DOk [] | _ => DErr (EInvalidLength (pos + N.of_nat (length l))) end
  | TCons t r =>
      match l with
      | [] => DErr (EInvalidLength pos)
      | d :: l' => let+ v := de sd hr t d in let+ vs := de_tys sd hr r l' (pos + 1) in DOk (v :: vs)
      end
  end
with de_fields_seq (sd hr : bool) (fs : sfields) (l : list dval) (pos : N) {struct fs} : dres (list sval) :=
  match fs with
  | FNil => DOk []
  | FCons _ skip t r =>
      if skip then let+ vs := de_fields_seq sd hr r l pos in DOk (sdefault t :: vs)
      else match l with
           | [] => DErr (EInvalidLength pos)
           | d :: l' => let+ v := de sd hr t d in let+ vs := de_fields_seq sd hr r l' (pos + 1) in DOk (v :: vs)
           end
  end
with de_fields_map (sd hr : bool) (fs : sfields) (kvs : list (string * dval)) {struct fs} : dres (list sval) :=
  match fs with
  | FNil => DOk []
  | FCons n skip t r =>
      if skip then let+ vs := de_fields_map sd hr r kvs in DOk (sdefault t :: vs)
      else match assoc_str n kvs with
           | None => DErr (EMissing n)
           | Some d => let+ v := de sd hr t d in let+ vs := de_fields_map sd hr r kvs in DOk (v :: vs)
           end
  end
with de_variants (sd hr : bool) (vs : svariants) (d : dval) (k : nat) {struct vs} : dres sval :=
  match vs with
  | VNil => DErr EUnknownVariant
  | VCons n sh r =>
      if selects sd d n k then let+ l := de_shape sd hr sh d in DOk (XVar k l)
      else de_variants sd hr r d (S k)
  end
with de_shape (sd hr : bool) (sh : vshape) (d : dval) {struct sh} : dres (list sval) :=
  match sh with
  | VUnit => match d with DVarUnit _ _ _ => DOk [] | _ => DErr EType end
  | VNewtype t => match d with DVarNewtype _ _ _ x => let+ v := de sd hr t x in DOk [v] | _ => DErr EType end
  | VTuple ts => match d with DVarTuple _ _ _ l => de_tys sd hr ts l 0 | _ => DErr EType end
  | VStruct fs =>
      match d with
      | DVarStruct _ _ _ kvs => if sd then de_fields_map sd hr fs kvs else de_fields_seq sd hr fs (map snd kvs) 0
      | _ => DErr EType
      end
  end.

(* ---------------------------------------------------------------- schema well-formedness: distinct names *)
Fixpoint field_names (fs : sfields) : list string :=
  match fs with FNil => [] | FCons n skip _ r => if skip then field_names r else n :: field_names r end.
Fixpoint variant_names (vs : svariants) : list string :=
  match vs with VNil => [] | VCons n _ r => n :: variant_names r end.
Fixpoint str_mem (s : string) (l : list string) : bool :=
  match l with [] => false | x :: r => String.eqb s x || str_mem s r end.

Fixpoint wf_sty (t : sty) : bool :=
  match t with
  | SOption t' | SVec t' | SNewtype _ t' | STransparent t' => wf_sty t'
  | STuple ts => wf_stys ts
  | SStruct _ fs => wf_sfields fs
  | SEnum _ vs => wf_svariants vs
  | _ => true
  end
with wf_stys (ts : stys) : bool :=
  match ts with TNil => true | TCons t r => wf_sty t && wf_stys r end
with wf_sfields (fs : sfields) : bool :=
  match fs with
  | FNil => true
  | FCons n skip t r => (skip || negb (str_mem n (field_names r))) && (skip || wf_sty t) && wf_sfields r
  end
with wf_svariants (vs : svariants) : bool :=
  match vs with
  | VNil => true
  | VCons n sh r => negb (str_mem n (variant_names r)) && wf_vshape sh && wf_svariants r
  end
with wf_vshape (sh : vshape) : bool :=
  match sh with
  | VUnit => true
  | VNewtype t => wf_sty t
  | VTuple ts => wf_stys ts
  | VStruct fs => wf_sfields fs
  end.
