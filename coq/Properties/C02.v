(* Properties/C02.v — Decoding arbitrary bytes never panics and reaches a fixed point.
   Only statements, each closed by `exact` of a lemma proved in Codec/*.v, and its assumptions.

   The functional half is proved here for ALL byte strings; the "never panics" half is a
   property of the Rust runtime that the model cannot express (it has no panic state): it is
   exercised by the guarded mutation stream of harness/src/bin/codec.rs only (see MANIFEST).
   Notation as in Properties/C01.v; [wf_bytes b] = every element of b is a byte (< 256). *)
From FV Require Import Base.Bytes Base.U64 Codec.Schema Codec.CodecModel Codec.CodecFacts Codec.CodecExempt
  Codec.CodecInstances Codec.CodecInstances2 Gen.Schemas.
Open Scope N_scope.

(* decode b = Ok (v, rest): b = consumed ++ rest, the consumed prefix is exactly as long as the
   encoding of v (a multiple of 8), v re-encodes, and decoding that encoding returns v with
   nothing left.  Stated for every protocol type of C01 (so in particular for Transaction,
   Input, Output, Receipt). *)
Theorem C02_fixpoint : forall t b v rest,
  is_codec_type t -> wf_bytes b = true -> dec L t b = Ok (v, rest) ->
  (exists c, b = c ++ rest /\ lenN c = lenN (enc t v)) /\
  lenN (enc t v) mod 8 = 0 /\
  typed t v = true /\ wf L t v = true /\ erase t v = v /\
  encode L t v = Ok (enc t v) /\
  dec L t (enc t v) = Ok (v, []).
Proof. exact inst_dec_sound. Qed.
Print Assumptions C02_fixpoint.

Theorem C02_decode_types : forall t, is_decode_type t -> is_codec_type t.
Proof. exact decode_type_codec. Qed.
Print Assumptions C02_decode_types.

(* the hypothesis is satisfiable: a buffer that decodes with bytes left over *)
Theorem C02_nonvacuous :
  exists v rest, dec L S_Input (ex_dirty_input ++ [1; 2; 3]) = Ok (v, rest) /\ rest = [1; 2; 3].
Proof. exact ex_decodes. Qed.
Print Assumptions C02_nonvacuous.

(* the model decoder is total: on every byte string it returns a value or one of the Rust
   error kinds, never the model-only ModelStuck (the two partial spots of the model - an
   ill-shaped partially decoded object, the Vec<T> loop running out of fuel - are unreachable).
   This is the model's analogue of "never panics"; the Rust runtime half stays partial. *)
Theorem C02_total : forall t b, is_codec_type t -> wf_bytes b = true ->
  (exists v rest, dec L t b = Ok (v, rest)) \/ (exists e, dec L t b = Err e /\ e <> ModelStuck).
Proof. exact inst_dec_total. Qed.
Print Assumptions C02_total.
