(* Properties/C04.v — Reported field offsets locate the field's bytes in the encoding.
   Only statements, each closed by `exact` of a lemma proved in Offsets/OffsetProofs.v. *)
From FV Require Import Base.Bytes Base.U64 Codec.CodecModel Gen.Schemas Gen.TxConsts TxId.IdSpec
     Offsets.OffsetSpec Offsets.OffsetModel Offsets.OffsetProofs.
Local Open Scope list_scope.
Open Scope N_scope.

(* the specification's positions (prefix sums of encoder output lengths along a selector) hold
   exactly the field's canonical bytes, for every schema, value and selector *)
Theorem C04_spec_sound :
  forall (t : ty) (v : val) (s : sel) (o : N) (bs : bytes),
    locate_in t v s = Some (o, bs) -> slice (enc t v) o (lenN bs) = bs.
Proof. exact locate_sound. Qed.
Print Assumptions C04_spec_sound.

(* obligations on the tables regenerated from the Rust source (Gen/TxConsts.v): every static
   offset of every kind equals the schema's prefix sum and is reported exactly for the kinds
   that have the field; same for the InputRepr and OutputRepr decision tables, per variant.
   A failure lists the offending (kind, function) / (function, variant). *)
Theorem C04_static_table_ok : static_table_failures = @nil (String.string * tfn).
Proof. exact static_table_ok. Qed.
Print Assumptions C04_static_table_ok.
Theorem C04_input_repr_table_ok : input_repr_failures = @nil (infn * nat).
Proof. exact input_repr_table_ok. Qed.
Print Assumptions C04_input_repr_table_ok.
Theorem C04_output_repr_table_ok : output_repr_failures = @nil (outfn * nat).
Proof. exact output_repr_table_ok. Qed.
Print Assumptions C04_output_repr_table_ok.

(* static fields of a transaction (script gas limit, receipts root, salt, blob id, bytecode root,
   witness / subsection indices, upgrade purpose, the mint fields): the reported offset is where
   the specification locates the field, and the bytes of the encoding there are the field's
   canonical bytes *)
Theorem C04_locates_tx_static :
  forall (k : kind) (f : tfn) (v : val) (s : sel) (o : N),
    typed (kind_ty k) v = true -> tx_sel k f = Some s -> is_static k f = true ->
    tx_offset {| o_kind := k; o_val := v; o_meta := None |} f = Some o ->
    exists (ft : ty) (fv : val), typed ft fv = true /\
      locate_in (kind_ty k) v s = Some (o, enc_static ft fv) /\
      slice (enc (kind_ty k) v) o (lenN (enc_static ft fv)) = enc_static ft fv.
Proof. exact tx_static_locates. Qed.
Print Assumptions C04_locates_tx_static.

(* static fields of an input: UTXO id, owner, asset id, tx pointer, contract id and roots,
   sender, recipient, nonce (offsets relative to the input) *)
Theorem C04_locates_input_static :
  forall (f : infn) (j : nat) (x : val) (n : String.string) (o : N),
    (j < 7)%nat -> typed (input_comp j) x = true -> in_field_of f j = Some (n, PStatic) ->
    input_fn f (VE j [x]) = Some o ->
    exists (s : sel) (ft : ty) (fv : val), in_sel f j = Some s /\ typed ft fv = true /\
      locate_in S_Input (VE j [x]) s = Some (o, enc_static ft fv) /\
      slice (enc S_Input (VE j [x])) o (lenN (enc_static ft fv)) = enc_static ft fv.
Proof. exact input_static_locates. Qed.
Print Assumptions C04_locates_input_static.

(* fields of an output: to, asset id, contract roots, contract id, state root *)
Theorem C04_locates_output :
  forall (f : outfn) (j : nat) (vs : list val) (s : sel) (o : N),
    typed S_Output (VE j vs) = true -> out_sel f j = Some s -> output_fn f (VE j vs) = Some o ->
    exists (ft : ty) (fv : val), typed ft fv = true /\
      locate_in S_Output (VE j vs) s = Some (o, enc_static ft fv) /\
      slice (enc S_Output (VE j vs)) o (lenN (enc_static ft fv)) = enc_static ft fv.
Proof. exact output_static_locates. Qed.
Print Assumptions C04_locates_output.

(* None <-> field absent *)
Theorem C04_none_tx :
  forall (k : kind) (f : tfn) (v : val) (m : option (cmeta * option N)),
    tx_offset {| o_kind := k; o_val := v; o_meta := m |} f = None <-> tx_sel k f = None.
Proof. exact tx_offset_none_iff. Qed.
Print Assumptions C04_none_tx.
Theorem C04_none_input :
  forall (f : infn) (j : nat) (x : val), (j < 7)%nat -> is_len_fn f = false ->
    (input_fn f (VE j [x]) = None <-> in_sel f j = None).
Proof. exact input_fn_none_iff. Qed.
Print Assumptions C04_none_input.
Theorem C04_none_output :
  forall (f : outfn) (j : nat) (vs : list val), (j < 5)%nat ->
    (output_fn f (VE j vs) = None <-> out_sel f j = None).
Proof. exact output_fn_none_iff. Qed.
Print Assumptions C04_none_output.

(* OPEN (not proved; executed on every correspondence case by Run/Offsets.v statement_holds /
   check_off): the value-dependent offsets — script, script data, storage slots, proof set,
   policies, inputs / outputs / witnesses and their elements, predicates and predicate data —
   equal the specification's positions when nothing saturates, and the answers of a precomputed
   transaction equal those computed without metadata. *)
Definition C04_locates_dynamic_statement : Prop :=
  forall (k : kind) (v : val) (f : tfn) (s : sel) (o : N),
    typed (kind_ty k) v = true -> lenN (enc (kind_ty k) v) < U64 ->
    tx_sel k f = Some s -> tx_offset {| o_kind := k; o_val := v; o_meta := None |} f = Some o ->
    exists bs, locate_in (kind_ty k) v s = Some (o, bs).
Definition C04_locates_elements_statement : Prop :=
  forall (k : kind) (v : val) (f : atfn) (i : nat) (s : sel) (o : N),
    typed (kind_ty k) v = true -> lenN (enc (kind_ty k) v) < U64 ->
    at_sel k f i = Some s -> tx_offset_at {| o_kind := k; o_val := v; o_meta := None |} f (N.of_nat i) = Some o ->
    exists bs, locate_in (kind_ty k) v s = Some (o, bs).
Definition C04_predicate_padded_statement : Prop :=
  forall (k : kind) (v : val) (i : nat) (o len : N),
    typed (kind_ty k) v = true -> lenN (enc (kind_ty k) v) < U64 ->
    tx_predicate_offset_at {| o_kind := k; o_val := v; o_meta := None |} (N.of_nat i) = Some (o, len) ->
    exists j bs s, pred_sel i j = Some s /\ locate_in (kind_ty k) v s = Some (o, bs) /\ len = lenN bs.
Definition C04_cached_statement : Prop :=
  forall (k : kind) (v : val) (tx1 : otx),
    typed (kind_ty k) v = true ->
    precompute_offsets true {| o_kind := k; o_val := v; o_meta := None |} = Some tx1 ->
    (forall f, tx_offset tx1 f = tx_offset {| o_kind := k; o_val := v; o_meta := None |} f) /\
    (forall f idx, tx_offset_at tx1 f idx = tx_offset_at {| o_kind := k; o_val := v; o_meta := None |} f idx) /\
    (forall idx, tx_predicate_offset_at tx1 idx = tx_predicate_offset_at {| o_kind := k; o_val := v; o_meta := None |} idx).
