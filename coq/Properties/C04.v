(* Properties/C04.v — Reported field offsets locate the field's bytes in the encoding.
   Only statements, each closed by `exact` of a lemma proved in Offsets/OffsetProofs.v. *)
From FV Require Import Base.Bytes Base.U64 Codec.CodecModel Gen.Schemas Gen.TxConsts TxId.IdSpec
     Offsets.OffsetSpec Offsets.OffsetModel Offsets.OffsetProofs Offsets.OffsetDynamic Offsets.OffsetCached Offsets.OffsetInput Offsets.OffsetInputAfter.
Local Open Scope list_scope.
Open Scope N_scope.

(* the specification's positions (prefix sums of encoder output lengths along a selector) hold
   exactly the field's canonical bytes, for every schema, value and selector *)
Theorem C04_spec_sound :
  forall (t : ty) (v : val) (s : sel) (o : N) (bs : bytes),
    locate_in t v s = Some (o, bs) -> slice (enc t v) o (lenN bs) = bs.
Proof. exact locate_sound. Qed.
Print Assumptions C04_spec_sound.

(* obligations on the tables regenerated from the Rust source (Gen/TxConsts.v): every static
   offset of every kind equals the schema's prefix sum and is reported exactly for the kinds
   that have the field; same for the InputRepr and OutputRepr decision tables, per variant.
   A failure lists the offending (kind, function) / (function, variant). *)
Theorem C04_static_table_ok : static_table_failures = @nil (String.string * tfn).
Proof. exact static_table_ok. Qed.
Print Assumptions C04_static_table_ok.
Theorem C04_input_repr_table_ok : input_repr_failures = @nil (infn * nat).
Proof. exact input_repr_table_ok. Qed.
Print Assumptions C04_input_repr_table_ok.
Theorem C04_output_repr_table_ok : output_repr_failures = @nil (outfn * nat).
Proof. exact output_repr_table_ok. Qed.
Print Assumptions C04_output_repr_table_ok.

(* static fields of a transaction (script gas limit, receipts root, salt, blob id, bytecode root,
   witness / subsection indices, upgrade purpose, the mint fields): the reported offset is where
   the specification locates the field, and the bytes of the encoding there are the field's
   canonical bytes *)
Theorem C04_locates_tx_static :
  forall (k : kind) (f : tfn) (v : val) (s : sel) (o : N),
    typed (kind_ty k) v = true -> tx_sel k f = Some s -> is_static k f = true ->
    tx_offset {| o_kind := k; o_val := v; o_meta := None |} f = Some o ->
    exists (ft : ty) (fv : val), typed ft fv = true /\
      locate_in (kind_ty k) v s = Some (o, enc_static ft fv) /\
      slice (enc (kind_ty k) v) o (lenN (enc_static ft fv)) = enc_static ft fv.
Proof. exact tx_static_locates. Qed.
Print Assumptions C04_locates_tx_static.

(* static fields of an input: UTXO id, owner, asset id, tx pointer, contract id and roots,
   sender, recipient, nonce (offsets relative to the input) *)
Theorem C04_locates_input_static :
  forall (f : infn) (j : nat) (x : val) (n : String.string) (o : N),
    (j < 7)%nat -> typed (input_comp j) x = true -> in_field_of f j = Some (n, PStatic) ->
    input_fn f (VE j [x]) = Some o ->
    exists (s : sel) (ft : ty) (fv : val), in_sel f j = Some s /\ typed ft fv = true /\
      locate_in S_Input (VE j [x]) s = Some (o, enc_static ft fv) /\
      slice (enc S_Input (VE j [x])) o (lenN (enc_static ft fv)) = enc_static ft fv.
Proof. exact input_static_locates. Qed.
Print Assumptions C04_locates_input_static.

(* fields of an output: to, asset id, contract roots, contract id, state root *)
Theorem C04_locates_output :
  forall (f : outfn) (j : nat) (vs : list val) (s : sel) (o : N),
    typed S_Output (VE j vs) = true -> out_sel f j = Some s -> output_fn f (VE j vs) = Some o ->
    exists (ft : ty) (fv : val), typed ft fv = true /\
      locate_in S_Output (VE j vs) s = Some (o, enc_static ft fv) /\
      slice (enc S_Output (VE j vs)) o (lenN (enc_static ft fv)) = enc_static ft fv.
Proof. exact output_static_locates. Qed.
Print Assumptions C04_locates_output.

(* None <-> field absent *)
Theorem C04_none_tx :
  forall (k : kind) (f : tfn) (v : val) (m : option (cmeta * option N)),
    tx_offset {| o_kind := k; o_val := v; o_meta := m |} f = None <-> tx_sel k f = None.
Proof. exact tx_offset_none_iff. Qed.
Print Assumptions C04_none_tx.
Theorem C04_none_input :
  forall (f : infn) (j : nat) (x : val), (j < 7)%nat -> is_len_fn f = false ->
    (input_fn f (VE j [x]) = None <-> in_sel f j = None).
Proof. exact input_fn_none_iff. Qed.
Print Assumptions C04_none_input.
Theorem C04_none_output :
  forall (f : outfn) (j : nat) (vs : list val), (j < 5)%nat ->
    (output_fn f (VE j vs) = None <-> out_sel f j = None).
Proof. exact output_fn_none_iff. Qed.
Print Assumptions C04_none_output.

(* the value-dependent sections of the five chargeable kinds — policies (= body end), inputs,
   outputs, witnesses: when the encoding is shorter than 2^64 bytes the reported offset is the
   specification's position and the encoding there is the section's canonical bytes *)
Theorem C04_locates_sections :
  forall (k : kind) (v : val) (f : tfn) (s : sel) (o : N),
    k <> KMint -> typed (kind_ty k) v = true -> lenN (enc (kind_ty k) v) <= u64_max ->
    section_fn f = true -> tx_sel k f = Some s ->
    tx_offset {| o_kind := k; o_val := v; o_meta := None |} f = Some o ->
    exists bs, locate_in (kind_ty k) v s = Some (o, bs) /\ slice (enc (kind_ty k) v) o (lenN bs) = bs.
Proof. exact sections_locate. Qed.
Print Assumptions C04_locates_sections.

(* each input, output and witness: Some o exactly for the indices in range, and then o is where the
   element's full canonical encoding is *)
Theorem C04_locates_elements :
  forall (k : kind) (v : val) (f : atfn) (idx : N),
    k <> KMint -> typed (kind_ty k) v = true -> lenN (enc (kind_ty k) v) <= u64_max -> element_fn f = true ->
    match tx_offset_at {| o_kind := k; o_val := v; o_meta := None |} f idx with
    | Some o => exists i s bs, idx = N.of_nat i /\ at_sel k f i = Some s /\
                               locate_in (kind_ty k) v s = Some (o, bs) /\ slice (enc (kind_ty k) v) o (lenN bs) = bs
    | None => forall i s, idx = N.of_nat i -> at_sel k f i = Some s -> locate_in (kind_ty k) v s = None
    end.
Proof. exact elements_locate. Qed.
Print Assumptions C04_locates_elements.

(* script and script data *)
Theorem C04_locates_script :
  forall (v : val) (f : tfn) (s : sel) (o : N),
    typed S_Script v = true -> lenN (enc S_Script v) <= u64_max ->
    (f = ScriptOffset \/ f = ScriptDataOffset) -> tx_sel KScript f = Some s ->
    tx_offset {| o_kind := KScript; o_val := v; o_meta := None |} f = Some o ->
    exists bs, locate_in S_Script v s = Some (o, bs) /\ slice (enc S_Script v) o (lenN bs) = bs.
Proof. exact script_offsets_locate. Qed.
Print Assumptions C04_locates_script.

(* offsets read from cached metadata = offsets computed without it.  precompute drops whatever
   metadata [m] the transaction carries (e.g. stale after an edit) and stores the offsets of the
   CURRENT value: every offset function then answers as on the transaction without metadata.
   No typing hypothesis. *)
Theorem C04_cached :
  forall (k : kind) (v : val) (m : option (cmeta * option N)) (tx1 : otx),
    precompute_offsets true {| o_kind := k; o_val := v; o_meta := m |} = Some tx1 ->
    o_kind tx1 = k /\ o_val tx1 = v /\
    (forall f, tx_offset tx1 f = tx_offset {| o_kind := k; o_val := v; o_meta := None |} f) /\
    (forall f idx, tx_offset_at tx1 f idx = tx_offset_at {| o_kind := k; o_val := v; o_meta := None |} f idx) /\
    (forall idx, tx_predicate_offset_at tx1 idx = tx_predicate_offset_at {| o_kind := k; o_val := v; o_meta := None |} idx).
Proof. exact cached_equals_uncached. Qed.
Print Assumptions C04_cached.

(* storage slots of a Create, proof entries of an Upload: Some o exactly for the indices in range,
   and then o is where the element's canonical encoding is; and the starts of the two vectors *)
Theorem C04_locates_body_vectors :
  forall (k : kind) (v : val) (f : atfn) (idx : N) (name : String.string) (te : ty) (w : N) (st : String.string),
    body_vector k f = Some (name, te, w, st) ->
    typed (kind_ty k) v = true -> lenN (enc (kind_ty k) v) <= u64_max ->
    match tx_offset_at {| o_kind := k; o_val := v; o_meta := None |} f idx with
    | Some o => exists i s bs, idx = N.of_nat i /\ at_sel k f i = Some s /\
                               locate_in (kind_ty k) v s = Some (o, bs) /\ slice (enc (kind_ty k) v) o (lenN bs) = bs
    | None => forall i s, idx = N.of_nat i -> at_sel k f i = Some s -> locate_in (kind_ty k) v s = None
    end.
Proof. exact body_vectors_locate. Qed.
Print Assumptions C04_locates_body_vectors.
Theorem C04_locates_body_vector_starts :
  forall (k : kind) (v : val) (f : tfn) (s : sel) (o : N),
    (k = KCreate /\ f = StorageSlotsOffsetStatic \/ k = KUpload /\ f = ProofSetOffset) ->
    typed (kind_ty k) v = true -> tx_sel k f = Some s ->
    tx_offset {| o_kind := k; o_val := v; o_meta := None |} f = Some o ->
    exists bs, locate_in (kind_ty k) v s = Some (o, bs) /\ slice (enc (kind_ty k) v) o (lenN bs) = bs.
Proof. exact body_vector_starts_locate. Qed.
Print Assumptions C04_locates_body_vector_starts.

(* inside an input: the data of a message, the predicate of a coin, the predicate of a predicate
   coin / message-coin (offsets that do not depend on another byte vector) *)
Theorem C04_locates_input_dynamic_const :
  forall (f : infn) (j : nat) (x : val) (n : String.string) (o : N),
    (j < 7)%nat -> typed (input_comp j) x = true ->
    in_field_of f j = Some (n, PDynamic) ->
    (f = DataOffset \/ f = CoinPredicateOffset \/ (f = PredicateOffset /\ j <> 6%nat)) ->
    input_fn f (VE j [x]) = Some o ->
    exists s bs, in_sel f j = Some s /\ locate_in S_Input (VE j [x]) s = Some (o, bs) /\
                 slice (enc S_Input (VE j [x])) o (lenN bs) = bs.
Proof. exact input_dynamic_const. Qed.
Print Assumptions C04_locates_input_dynamic_const.

(* inside an input: the two offsets that come after another byte vector (the predicate of a
   message-data predicate input, after the message data; the predicate data of a predicate coin /
   message-coin / message-data input, after the predicate), when the input's encoding is shorter
   than 2^64 bytes *)
Definition C04_locates_input_dynamic_after_statement : Prop :=
  forall (f : infn) (j : nat) (x : val) (n : String.string) (o : N),
    (j < 7)%nat -> typed (input_comp j) x = true -> lenN (enc S_Input (VE j [x])) <= u64_max ->
    in_field_of f j = Some (n, PDynamic) ->
    (f = PredicateDataOffset \/ (f = PredicateOffset /\ j = 6%nat)) ->
    input_fn f (VE j [x]) = Some o ->
    exists s bs, in_sel f j = Some s /\ locate_in S_Input (VE j [x]) s = Some (o, bs).
Theorem C04_locates_input_dynamic_after : C04_locates_input_dynamic_after_statement.
Proof. exact input_dynamic_after. Qed.
Print Assumptions C04_locates_input_dynamic_after.
(* the same with the bytes: the input's encoding at the reported offset is the field's padded bytes *)
Theorem C04_locates_input_dynamic_after_slice :
  forall (f : infn) (j : nat) (x : val) (n : String.string) (o : N),
    (j < 7)%nat -> typed (input_comp j) x = true -> lenN (enc S_Input (VE j [x])) <= u64_max ->
    in_field_of f j = Some (n, PDynamic) ->
    (f = PredicateDataOffset \/ (f = PredicateOffset /\ j = 6%nat)) ->
    input_fn f (VE j [x]) = Some o ->
    exists s bs, in_sel f j = Some s /\ locate_in S_Input (VE j [x]) s = Some (o, bs) /\
                 slice (enc S_Input (VE j [x])) o (lenN bs) = bs.
Proof. exact input_dynamic_after_slice. Qed.
Print Assumptions C04_locates_input_dynamic_after_slice.

(* OPEN (not proved; executed on every correspondence case by Run/Offsets.v statement_holds, and
   checked on the real code by the oracle): inputs_predicate_offset_at with its padded length. *)
Definition C04_predicate_padded_statement : Prop :=
  forall (k : kind) (v : val) (i : nat) (o len : N),
    typed (kind_ty k) v = true -> lenN (enc (kind_ty k) v) <= u64_max ->
    tx_predicate_offset_at {| o_kind := k; o_val := v; o_meta := None |} (N.of_nat i) = Some (o, len) ->
    exists j bs s, pred_sel i j = Some s /\ locate_in (kind_ty k) v s = Some (o, bs) /\ len = lenN bs.
