(* Properties/C26.v — Gas is charged monotonically and never exceeds the limit.
   Only statements, each closed by `exact` of a lemma proved in Vm/GasProofs.v. *)
From FV Require Import Base.Bytes Base.U64 Vm.FlowSpec Vm.GasTypes Vm.GasSpec Gen.GasTable Vm.GasModel Vm.GasProofs.
Open Scope N_scope.

(* every operation of the gas code (charge / call forwarding / return crediting) does exactly
   what the specification allows, from every state satisfying the invariant *)
Theorem C26_model_is_spec :
  forall (s : gstate) (e : gevent),
    cgas s + sum (saved s) <= ggas s -> ggas s < U64 ->
    model_event s e = match spec_event s e with Some s' => GOk s' | None => GOutOfGas (oog_state s) end.
Proof. exact model_event_eq_spec. Qed.
Print Assumptions C26_model_is_spec.

(* along every history of operations: the invariant "context gas + gas kept by suspended
   callers <= global gas" is preserved, global gas never increases, out-of-gas leaves the
   context gas at zero, and the unchecked/"impossible" arithmetic of the code (ggas - gas,
   ContextGasUnderflow, ContextGasOverflow) is never reached *)
Theorem C26_invariant :
  forall (es : list gevent) (s : gstate),
    cgas s + sum (saved s) <= ggas s -> ggas s < U64 ->
    match run s es with
    | GOk s' => cgas s' + sum (saved s') <= ggas s' /\ ggas s' <= ggas s
    | GOutOfGas s' => cgas s' + sum (saved s') <= ggas s' /\ ggas s' <= ggas s /\ cgas s' = 0
    | GBug => False
    end.
Proof. exact run_inv. Qed.
Print Assumptions C26_invariant.

(* a charge succeeds, taking exactly g from both registers, iff g <= cgas; otherwise OutOfGas
   with cgas = 0 and ggas reduced by the old cgas *)
Theorem C26_charge_ok :
  forall (s : gstate) (x : N),
    cgas s + sum (saved s) <= ggas s -> x <= cgas s ->
    gas_charge s x = GOk {| cgas := cgas s - x; ggas := ggas s - x; saved := saved s |}.
Proof. exact charge_ok. Qed.
Print Assumptions C26_charge_ok.

Theorem C26_charge_out_of_gas :
  forall (s : gstate) (x : N),
    cgas s < x ->
    gas_charge s x = GOutOfGas {| cgas := 0; ggas := ggas s - cgas s; saved := saved s |}.
Proof. exact charge_oog. Qed.
Print Assumptions C26_charge_out_of_gas.

(* DependentCost::resolve = base + units / units_per_gas  resp.  base + units * gas_per_unit,
   capped at 2^64 - 1 *)
Theorem C26_resolve :
  forall (c : cost_val) (units : N),
    match c with CLight _ upg => upg <> 0 | _ => True end ->
    resolve c units = cost_spec c units.
Proof. exact resolve_eq_spec. Qed.
Print Assumptions C26_resolve.

(* forwarded gas is min(caller's context gas, requested), the caller keeps the rest *)
Theorem C26_forward_bound :
  forall (s : gstate) (a : N) (s' : gstate),
    call_forward s a = GOk s' ->
    cgas s' = N.min (cgas s) a /\ cgas s' <= cgas s /\ cgas s' <= a /\
    saved s' = (cgas s - cgas s') :: saved s /\ ggas s' = ggas s.
Proof. exact forward_bound. Qed.
Print Assumptions C26_forward_bound.

(* call, spend in the callee, return: the unspent forwarded gas is credited back exactly *)
Theorem C26_credit_back :
  forall (s : gstate) (a : N) (xs : list N) (s' : gstate),
    cgas s + sum (saved s) <= ggas s -> ggas s < U64 ->
    run s (Call a :: map Charge xs ++ [Return]) = GOk s' ->
    sum xs <= N.min (cgas s) a /\
    cgas s' = cgas s - sum xs /\ ggas s' = ggas s - sum xs /\ saved s' = saved s.
Proof. exact call_return_credit. Qed.
Print Assumptions C26_credit_back.

(* the gas reported in the script result is limit - remaining global gas (never underflows),
   and context gas never exceeds global gas at the end of any history *)
Theorem C26_script_result :
  forall (limit : N) (es : list gevent),
    limit < U64 ->
    match run (init_state limit) es with
    | GOk s | GOutOfGas s => gas_used limit s = Some (limit - ggas s) /\ ggas s <= limit /\ cgas s <= ggas s
    | GBug => False
    end.
Proof. exact gas_used_formula. Qed.
Print Assumptions C26_script_result.

(* generated table: every opcode that charges gas has a first charge of at least 1 under the
   default schedule (needed by C29) *)
Theorem C26_base_cost_ge_1 :
  forall (op : N) (name : string) (sel : cost_sel),
    In (op, (name, sel)) gas_table -> sel <> SelNone ->
    exists g, base_cost_default op = Some g /\ 1 <= g.
Proof. exact base_cost_default_ge_1. Qed.
Print Assumptions C26_base_cost_ge_1.

Theorem C26_tables_wellformed : defaults_wellformed = true /\ base_costs_ok = true.
Proof. exact (conj defaults_wellformed_true base_costs_ok_true). Qed.
Print Assumptions C26_tables_wellformed.

(* a sequence of charges c1, c2, ... (an instruction that charges several times): if every
   charge is affordable when it is made the result is that of one charge of the sum; otherwise
   execution stops with OutOfGas, context gas 0 and global gas reduced by the context gas the
   sequence started with *)
Theorem C26_charge_sequence :
  forall (l : list N) (s : gstate),
    cgas s + sum (saved s) <= ggas s -> ggas s < U64 ->
    run s (map Charge l) =
    if oog_justified (cgas s) l then GOutOfGas (oog_state s)
    else GOk {| cgas := cgas s - sum l; ggas := ggas s - sum l; saved := saved s |}.
Proof. exact run_charge_sequence. Qed.
Print Assumptions C26_charge_sequence.

(* ... and that happens exactly at the first charge that exceeds what is left *)
Theorem C26_out_of_gas_point :
  forall (l : list N) (cg : N),
    oog_justified cg l = true <->
    exists xs y zs, l = (xs ++ y :: zs)%list /\ sum xs <= cg /\ cg < sum xs + y.
Proof. exact oog_justified_iff. Qed.
Print Assumptions C26_out_of_gas_point.

(* the full charge sequences extracted from the handlers and their helpers on this run are
   the specified ones (which cost, on which quantity, under which condition) *)
Theorem C26_sequences_are_spec :
  (forall (op : N) (s : cseq), In (op, s) spec_gas_seq -> nlookup op gas_seq = Some s) /\
  gas_storage = spec_gas_storage /\ seq_cover_ok = true.
Proof. exact (conj gen_seq_is_spec (conj gen_storage_is_spec seq_cover_ok_true)). Qed.
Print Assumptions C26_sequences_are_spec.
