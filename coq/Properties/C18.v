(* Properties/C18.v — Fee and refund arithmetic is monotone and bounded by the fee limit.
   Only statements, each closed by `exact` of a lemma proved in Fee/FeeProofs.v, and its
   assumptions.  Model: Fee/FeeModel.v (`Ret` = the Rust function returns, `Panic` = host
   panic); specification: Fee/FeeSpec.v (unbounded integers). *)
From Coq Require Import ZArith.
From FV Require Import Base.Bytes Base.U64 Fee.FeeSpec Fee.FeeModel Fee.FeeProofs.
Open Scope N_scope.

(* the closed form used in the formulas below is the ceiling of the rational a / b *)
Theorem C18_ceil_is_ceiling :
  forall a b : Z, (0 < b)%Z ->
    is_ceil a b (ceil_div a b) /\ (forall q : Z, is_ceil a b q -> q = ceil_div a b).
Proof. exact ceil_is_ceiling. Qed.
Print Assumptions C18_ceil_is_ceiling.

(* minimum gas never exceeds maximum gas (no hypothesis; both are u64 values) *)
Theorem C18_gas_mono :
  forall (gc : gas_costs) (fp : fee_params) (tx : tx_q) (m : N),
    min_gas gc fp tx = Ret m ->
    exists M, max_gas gc fp tx = Ret M /\ m <= M /\ M < U64.
Proof. exact gas_mono. Qed.
Print Assumptions C18_gas_mono.

(* minimum fee never exceeds maximum fee (no hypothesis) *)
Theorem C18_fee_mono :
  forall (gc : gas_costs) (fp : fee_params) (tx : tx_q) (price a b : N),
    min_fee gc fp tx price = Ret a -> max_fee gc fp tx price = Ret b -> a <= b.
Proof. exact fee_mono. Qed.
Print Assumptions C18_fee_mono.

(* both fees = ceil(gas * price / factor) + tip, exactly, as u128 values (the u128
   multiplication never overflows and the u128 saturating add never saturates) *)
Theorem C18_fee_formula :
  forall (gc : gas_costs) (fp : fee_params) (tx : tx_q) (price m M : N),
    1 <= fp_factor fp -> price < U64 -> tq_tip tx < U64 ->
    min_gas gc fp tx = Ret m -> max_gas gc fp tx = Ret M ->
    exists fmin fmax,
      min_fee gc fp tx price = Ret fmin /\ max_fee gc fp tx price = Ret fmax /\
      Z.of_N fmin = fee_spec (Z.of_N m) (Z.of_N price) (Z.of_N (fp_factor fp)) (Z.of_N (tq_tip tx)) /\
      Z.of_N fmax = fee_spec (Z.of_N M) (Z.of_N price) (Z.of_N (fp_factor fp)) (Z.of_N (tq_tip tx)) /\
      fmin <= fmax.
Proof. exact fee_formula. Qed.
Print Assumptions C18_fee_formula.

(* TransactionFee::checked_from_tx: None exactly when the exact maximum fee does not fit a
   u64; otherwise the four exact values *)
Theorem C18_checked_from_tx :
  forall (gc : gas_costs) (fp : fee_params) (tx : tx_q) (price m M : N),
    1 <= fp_factor fp -> price < U64 -> tq_tip tx < U64 ->
    min_gas gc fp tx = Ret m -> max_gas gc fp tx = Ret M ->
    let Fm := fee_spec (Z.of_N m) (Z.of_N price) (Z.of_N (fp_factor fp)) (Z.of_N (tq_tip tx)) in
    let FM := fee_spec (Z.of_N M) (Z.of_N price) (Z.of_N (fp_factor fp)) (Z.of_N (tq_tip tx)) in
    checked_from_tx gc fp tx price =
      Ret (if (FM <? Z.of_N U64)%Z then Some (mk_tx_fee (Z.to_N Fm) (Z.to_N FM) m M) else None).
Proof. exact checked_from_tx_char. Qed.
Print Assumptions C18_checked_from_tx.

(* refund = fee limit - (ceil((min_gas + used) * price / factor) + tip) when that is >= 0,
   None when it is negative — for all u64 inputs (the sum is taken in u128; when the product
   overflows u128 the exact fee exceeds every u64 fee limit, so None is the right answer) *)
Theorem C18_refund_formula :
  forall (gc : gas_costs) (fp : fee_params) (tx : tx_q) (used price g : N),
    1 <= fp_factor fp -> fp_factor fp < U64 -> price < U64 -> used < U64 ->
    tq_tip tx < U64 -> tq_max_fee_limit tx < U64 ->
    min_gas gc fp tx = Ret g ->
    let R := refund_spec (Z.of_N (tq_max_fee_limit tx)) (Z.of_N g) (Z.of_N used) (Z.of_N price)
                         (Z.of_N (fp_factor fp)) (Z.of_N (tq_tip tx)) in
    refund_fee gc fp tx used price = Ret (if (0 <=? R)%Z then Some (Z.to_N R) else None).
Proof. exact refund_formula. Qed.
Print Assumptions C18_refund_formula.

(* the refund is non-increasing in used gas (None = nothing to refund is below every value);
   no hypothesis *)
Theorem C18_refund_mono :
  forall (gc : gas_costs) (fp : fee_params) (tx : tx_q) (price used1 used2 : N) (o1 o2 : option N),
    used1 <= used2 ->
    refund_fee gc fp tx used1 price = Ret o1 ->
    refund_fee gc fp tx used2 price = Ret o2 ->
    match o2 with
    | Some r2 => exists r1, o1 = Some r1 /\ r2 <= r1
    | None => True
    end.
Proof. exact refund_mono. Qed.
Print Assumptions C18_refund_mono.

(* the refund never exceeds the fee limit (no hypothesis) *)
Theorem C18_refund_bounded :
  forall (gc : gas_costs) (fp : fee_params) (tx : tx_q) (used price r : N),
    refund_fee gc fp tx used price = Ret (Some r) -> r <= tq_max_fee_limit tx.
Proof. exact refund_bounded. Qed.
Print Assumptions C18_refund_bounded.

(* none of the computations panics: price factor >= 1 and every LightOperation cost the fee
   code resolves has units_per_gas >= 1 (gas.rs: "This must be nonzero") *)
Theorem C18_total :
  forall (gc : gas_costs) (fp : fee_params) (tx : tx_q) (price used : N) (bh : option N),
    1 <= fp_factor fp -> wf_costs gc = true -> price < U64 ->
    returns (min_gas gc fp tx) /\ returns (max_gas gc fp tx) /\
    returns (min_fee gc fp tx price) /\ returns (max_fee gc fp tx price) /\
    returns (refund_fee gc fp tx used price) /\
    returns (checked_from_tx gc fp tx price) /\ returns (into_ready gc fp tx price bh).
Proof. exact total. Qed.
Print Assumptions C18_total.

(* both hypotheses of C18_total are necessary (refund_fee returns None before dividing when
   the u128 product overflows) *)
Theorem C18_factor_zero_panics :
  forall (gc : gas_costs) (fp : fee_params) (tx : tx_q) (price used g : N),
    fp_factor fp = 0 -> min_gas gc fp tx = Ret g ->
    min_fee gc fp tx price = Panic /\ max_fee gc fp tx price = Panic /\
    (saturating_add U128 g used * price < U128 -> refund_fee gc fp tx used price = Panic) /\
    (U128 <= saturating_add U128 g used * price -> refund_fee gc fp tx used price = Ret None) /\
    checked_from_tx gc fp tx price = Panic /\
    (forall bh, into_ready gc fp tx price bh = Panic).
Proof. exact factor_zero_panics. Qed.
Print Assumptions C18_factor_zero_panics.

Theorem C18_units_per_gas_zero_panics :
  forall (gc : gas_costs) (fp : fee_params) (tx : tx_q) (b : N),
    gc_vm_init gc = Light b 0 -> min_gas gc fp tx = Panic.
Proof. exact units_per_gas_zero_panics. Qed.
Print Assumptions C18_units_per_gas_zero_panics.

(* Checked::into_ready succeeds only if the maximum fee is covered by the fee limit (and the
   transaction is not expired at the given height) *)
Theorem C18_into_ready :
  forall (gc : gas_costs) (fp : fee_params) (tx : tx_q) (price : N) (bh : option N),
    into_ready gc fp tx price bh = Ret ReadyOk ->
    exists M, max_fee gc fp tx price = Ret M /\ M <= tq_max_fee_limit tx /\
              match bh with Some h => h <= tq_expiration tx | None => True end.
Proof. exact into_ready_ok. Qed.
Print Assumptions C18_into_ready.

(* a returned TransactionFee is ordered and carries exactly the four computed values *)
Theorem C18_transaction_fee_ordered :
  forall (gc : gas_costs) (fp : fee_params) (tx : tx_q) (price : N) (fee : tx_fee),
    checked_from_tx gc fp tx price = Ret (Some fee) ->
    tf_min_gas fee <= tf_max_gas fee /\ tf_min_fee fee <= tf_max_fee fee /\
    min_gas gc fp tx = Ret (tf_min_gas fee) /\ max_gas gc fp tx = Ret (tf_max_gas fee) /\
    min_fee gc fp tx price = Ret (tf_min_fee fee) /\ max_fee gc fp tx price = Ret (tf_max_fee fee) /\
    tf_max_fee fee < U64.
Proof. exact checked_from_tx_ordered. Qed.
Print Assumptions C18_transaction_fee_ordered.
