(* Properties/C30.v — Execution touches only the state of contracts listed as inputs.
   Only statements, each closed by `exact` of a lemma proved elsewhere, and its assumptions.
   Abstract machine: Vm/InputsModel.v (input set, call stack, predicate flag; per instruction
   class the accesses before the guard, the guard, the accesses behind it); proofs in
   Vm/InputsProofs.v; Vm.InputsTie pins the order of checks of the Rust functions. *)
From FV Require Import Base.Bytes Gen.KvTable Vm.InputsModel Vm.InputsProofs Vm.InputsTie.
Open Scope N_scope.

(* a passing guard means the contract named by the instruction is an input *)
Theorem C30_guarded :
  forall (guard_first : bool) (s : ist) (o : iop) (t : N),
    target_of o = Some t -> r_guard (step_gen guard_first s o) = VPass -> In t (i_inputs s).
Proof. exact guard_sound. Qed.
Print Assumptions C30_guarded.

(* every access an instruction makes once its guard has passed concerns an input contract *)
Theorem C30_guarded_accesses :
  forall (guard_first : bool) (s : ist) (o : iop),
    frames_ok s = true -> r_guard (step_gen guard_first s o) = VPass ->
    forall t, In t (r_post (step_gen guard_first s o)) -> touch_ok s t = true.
Proof. exact post_ok. Qed.
Print Assumptions C30_guarded_accesses.

(* the contract whose context is active is always an input: over all sequences of instructions
   (completed or not), calls and returns *)
Theorem C30_current :
  forall (guard_first : bool) (prog : list (iop * bool)) (s : ist),
    frames_ok s = true -> frames_ok (snd (run_gen guard_first s prog)) = true.
Proof. exact frames_invariant. Qed.
Print Assumptions C30_current.

(* NOT the code as it is: the full statement WOULD hold if prepare_call performed the input check
   before reading the callee's code size (step_gen true); kept to show that this one reordering is
   all that separates the code from the full statement.  The headline for the unchanged code is
   C30_touch_inputs_refuted + C30_touch_inputs_partial + C30_no_foreign_state below. *)
Theorem C30_touch_inputs_fixed :
  forall (s : ist) (prog : list (iop * bool)) (t : touch),
    frames_ok s = true -> In t (fst (run_gen true s prog)) -> touch_ok s t = true.
Proof. exact fixed_order_holds. Qed.
Print Assumptions C30_touch_inputs_fixed.

(* the order of checks of the code as it is: every access concerns an input contract, except
   the code-size read CALL makes for its callee before checking it *)
Theorem C30_touch_inputs_partial :
  forall (prog : list (iop * bool)) (s : ist) (t : touch),
    frames_ok s = true -> In t (fst (run s prog)) ->
    touch_ok s t = true \/ (exists target done, In (OpCall target, done) prog /\ t = mk TCode target ARead).
Proof. exact run_actual_touches. Qed.
Print Assumptions C30_touch_inputs_partial.

(* in particular no storage slot, no balance and no write of any kind outside the inputs *)
Theorem C30_no_foreign_state :
  forall (prog : list (iop * bool)) (s : ist) (t : touch),
    frames_ok s = true -> In t (fst (run s prog)) -> touch_ok s t = false ->
    t_table t = TCode /\ t_acc t = ARead.
Proof. exact run_actual_no_foreign_state. Qed.
Print Assumptions C30_no_foreign_state.

(* the full statement is FALSE for the order of the code (finding: prepare_call calls
   contract_size(call.to()) before check_contract_in_inputs) *)
Theorem C30_touch_inputs_refuted :
  ~ (forall (s : ist) (prog : list (iop * bool)) (t : touch),
       frames_ok s = true -> In t (fst (run_gen false s prog)) -> touch_ok s t = true).
Proof. exact actual_order_refuted. Qed.
Print Assumptions C30_touch_inputs_refuted.

(* predicate context: no contract-state access, whatever the instruction *)
Theorem C30_predicate :
  forall (guard_first : bool) (s : ist) (o : iop),
    i_pred s = true -> r_pre (step_gen guard_first s o) = [] /\ r_post (step_gen guard_first s o) = [].
Proof. exact predicate_no_effect. Qed.
Print Assumptions C30_predicate.

(* the predicate gate generated from Opcode::is_predicate_allowed admits none of the contract
   instructions (LDC is admitted; its contract mode is refused by load_contract_code) *)
Theorem C30_predicate_gate :
  forallb (fun c => negb (mem_n c predicate_allowed_ops))
    [OP_CALL; OP_CCP; OP_CSIZ; OP_CROO; OP_BAL; OP_TR; OP_TRO; OP_MINT; OP_BURN; OP_SMO;
     OP_SCWQ; OP_SRW; OP_SRWQ; OP_SWW; OP_SWWQ; OP_SCLR; OP_SRDD; OP_SRDI; OP_SWRD; OP_SWRI; OP_SUPD; OP_SUPI; OP_SPLD; OP_RETD] = true
  /\ mem_n OP_LDC predicate_allowed_ops = true.
Proof. exact predicate_gate_closed. Qed.
Print Assumptions C30_predicate_gate.
