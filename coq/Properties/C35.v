(* Properties/C35.v — Bytecode upload, blob, deployment and upgrade state evolve as specified.
   Only statements, each closed by `exact` of a lemma proved in Upgrade/UpgradeProofs.v.

   Vocabulary (definitions, not hypotheses):
     UpgradeSpec.{tx, event, spec_step, spec_run, spec_trace}   the L3 state machine of the property text
     UpgradeModel.{step, run, trace}   L1 model of the CURRENT /repo code (one event / a history), i.e.
                   with the `fix:` commit for finding F8 (upgrade_inner restores the replaced entry)
     hist_ok h  =  every Upload has index < total <= 65535 (what Checked<Upload> guarantees) and a blob
                   id determines its data (id = H(data); collision-freeness on the blobs of h)
     agree true m s  =  the abstraction relation between a MemoryStorage state and a spec state:
                   ALL tables (contracts, slots, blobs, upload progress, both version tables) and the
                   current-version registers agree
     sget N.compare table key  =  BTreeMap lookup;  tables_eq  =  all tables equal as maps.
   The last theorem is HISTORICAL: it is about UpgradeModel.step_gen false, the model of
   upgrade_inner as it was BEFORE the fix commit, and records why the fix was needed. *)
From FV Require Import Base.Bytes Upgrade.UpgradeSpec Upgrade.UpgradeModel Upgrade.UpgradeProofs.
Open Scope N_scope.

(* The code refines the specification over ALL histories: same verdict for every event, and all
   tables agree after every history. *)
Theorem C35_refines_spec :
  forall (cp st : N) (h : list event), hist_ok h ->
    trace (minit cp st) h = spec_trace (sinit cp st) h /\
    agree true (run (minit cp st) h) (spec_run (sinit cp st) h).
Proof. exact refines_spec. Qed.
Print Assumptions C35_refines_spec.

(* A contract id is created at most once, with exactly the submitted code and storage slots, and
   is never modified afterwards: at any point h1 of any history, a Deploy of [id] succeeds iff the
   id is absent; then, after any continuation h2, the id holds exactly (code, slots); if the id is
   present the Deploy is rejected and code and slots stay what they were. *)
Theorem C35_once_contract :
  forall (cp st : N) (h1 h2 : list event) (id : N) (code : bytes) (slots : list (N * bytes)),
    hist_ok (h1 ++ ETx (Deploy id code slots) :: h2) ->
    let m1 := run (minit cp st) h1 in
    let m1' := fst (step m1 (ETx (Deploy id code slots))) in
    let r := snd (step m1 (ETx (Deploy id code slots))) in
    let m2 := run m1' h2 in
    match sget N.compare (m_contracts m1) id with
    | None => r = Ok /\ sget N.compare (m_contracts m2) id = Some code /\
              forall k, sget key2_cmp (m_state m2) (id, k) = slots_map slots k
    | Some c => r = Err ContractIdAlreadyDeployed /\ sget N.compare (m_contracts m2) id = Some c /\
                forall k, sget key2_cmp (m_state m2) (id, k) = sget key2_cmp (m_state m1) (id, k)
    end.
Proof. exact once_contract. Qed.
Print Assumptions C35_once_contract.

(* The same for blob ids. *)
Theorem C35_once_blob :
  forall (cp st : N) (h1 h2 : list event) (id : N) (data : bytes),
    hist_ok (h1 ++ ETx (Blob id data) :: h2) ->
    let m1 := run (minit cp st) h1 in
    let m1' := fst (step m1 (ETx (Blob id data))) in
    let r := snd (step m1 (ETx (Blob id data))) in
    let m2 := run m1' h2 in
    match sget N.compare (m_blobs m1) id with
    | None => r = Ok /\ sget N.compare (m_blobs m2) id = Some data
    | Some d => r = Err BlobIdAlreadyUploaded /\ d = data /\ sget N.compare (m_blobs m2) id = Some d
    end.
Proof. exact once_blob. Qed.
Print Assumptions C35_once_blob.

(* Uploads: after any history, for every root, the accepted subsections of that root (in the
   order they were accepted) have indices 0,1,2,...; the stored bytecode is the concatenation of
   exactly these parts; the entry is absent iff none was accepted; it is Completed exactly when
   the most recently accepted subsection was the final one (index + 1 = total), and Uncompleted
   with the right counter otherwise. *)
Theorem C35_upload_order_complete :
  forall (cp st : N) (h : list event) (root : N), hist_ok h ->
    let m := run (minit cp st) h in
    let acc := accepted_uploads (trace (minit cp st) h) root in
    consecutive_from 0 (map a_idx acc) /\
    match sget N.compare (m_uploads m) root with
    | None => acc = []
    | Some (Uncompleted b n) =>
        b = concat (map a_part acc) /\ n = lenN acc /\
        match last_opt acc with Some a => is_final a = false | None => True end
    | Some (Completed b) =>
        b = concat (map a_part acc) /\ exists a, last_opt acc = Some a /\ a_idx a + 1 = a_total a
    end.
Proof. exact upload_history. Qed.
Print Assumptions C35_upload_order_complete.

(* ... and once a root is complete every further subsection is rejected, state untouched. *)
Theorem C35_upload_after_complete :
  forall (m : mstate) (root : N) (b : bytes) (idx total : N) (part : bytes),
    sget N.compare (m_uploads m) root = Some (Completed b) ->
    step m (ETx (Upload root idx total part)) = (m, Err BytecodeAlreadyUploaded).
Proof. exact upload_after_complete. Qed.
Print Assumptions C35_upload_after_complete.

(* Consensus-parameter upgrade, from ANY storage state: the target version is current+1 (below
   the u32 maximum); accepted iff that version is free, otherwise OverridingConsensusParameters;
   when accepted the value is installed there, when rejected the entry keeps its value; no other
   version and no other table changes. *)
Theorem C35_version_next_consensus :
  forall (m : mstate) (params : bytes),
    let v := sat_succ32 (m_cp_cur m) in
    let m' := fst (step m (ETx (UpgradeConsensus params))) in
    let r := snd (step m (ETx (UpgradeConsensus params))) in
    (m_cp_cur m < 2 ^ 32 - 1 -> v = m_cp_cur m + 1) /\
    (r = Ok <-> sget N.compare (m_cpv m) v = None) /\
    (r <> Ok -> r = Err OverridingConsensusParameters) /\
    (r = Ok -> sget N.compare (m_cpv m') v = Some params) /\
    (r <> Ok -> sget N.compare (m_cpv m') v = sget N.compare (m_cpv m) v) /\
    (forall v', v' <> v -> sget N.compare (m_cpv m') v' = sget N.compare (m_cpv m) v') /\
    m_contracts m' = m_contracts m /\ m_state m' = m_state m /\ m_blobs m' = m_blobs m /\
    m_uploads m' = m_uploads m /\ m_stv m' = m_stv m /\ m_cp_cur m' = m_cp_cur m /\ m_st_cur m' = m_st_cur m.
Proof. exact version_next_cp. Qed.
Print Assumptions C35_version_next_consensus.

(* State-transition upgrade: additionally requires the root to be completely uploaded. *)
Theorem C35_version_next_state_transition :
  forall (m : mstate) (root : N),
    let v := sat_succ32 (m_st_cur m) in
    let m' := fst (step m (ETx (UpgradeStateTransition root))) in
    let r := snd (step m (ETx (UpgradeStateTransition root))) in
    let complete := contains_state_transition_bytecode_root m root in
    (m_st_cur m < 2 ^ 32 - 1 -> v = m_st_cur m + 1) /\
    (r = Ok <-> complete = true /\ sget N.compare (m_stv m) v = None) /\
    (complete = false -> r = Err UnknownStateTransactionBytecodeRoot /\ m' = m) /\
    (complete = true -> r <> Ok -> r = Err OverridingStateTransactionBytecode) /\
    (r = Ok -> sget N.compare (m_stv m') v = Some root) /\
    (r <> Ok -> sget N.compare (m_stv m') v = sget N.compare (m_stv m) v) /\
    (forall v', v' <> v -> sget N.compare (m_stv m') v' = sget N.compare (m_stv m) v') /\
    m_contracts m' = m_contracts m /\ m_state m' = m_state m /\ m_blobs m' = m_blobs m /\
    m_uploads m' = m_uploads m /\ m_cpv m' = m_cpv m /\ m_cp_cur m' = m_cp_cur m /\ m_st_cur m' = m_st_cur m.
Proof. exact version_next_st. Qed.
Print Assumptions C35_version_next_state_transition.

(* Checked transactions never reach ArithmeticOverflow / Bug::* in these functions. *)
Theorem C35_no_bug :
  forall (cp st : N) (h : list event), hist_ok h ->
    forallb (fun er => spec_res_ok (snd er)) (trace (minit cp st) h) = true.
Proof. exact no_bug. Qed.
Print Assumptions C35_no_bug.

(* "Failed transactions leave these tables unchanged" — the FULL statement: after any history, any
   event (of any kind) that is rejected leaves every table and register unchanged. *)
Theorem C35_failed_unchanged :
  forall (cp st : N) (h : list event) (e : event), hist_ok (h ++ [e]) ->
    let m := run (minit cp st) h in
    is_err (snd (step m e)) = true ->
    tables_eq (fst (step m e)) m.
Proof. exact failed_unchanged. Qed.
Print Assumptions C35_failed_unchanged.

(* HISTORICAL — NOT about the current code.  [step_gen false] / [exec_gen false] is the model of
   upgrade_inner as it was BEFORE the fix commit (set_* overwrote and the Overriding error was
   returned without restoring): for that code the statement above was false (finding F8).  Kept
   so that the reason for the fix stays machine-checked. *)
Theorem C35_before_fix_failed_unchanged_refuted :
  ~ (forall (cp st : N) (h : list event) (e : event), hist_ok (h ++ [e]) ->
       let m := fst (exec_gen false (minit cp st) h) in
       is_err (snd (step_gen false m e true)) = true ->
       tables_eq (fst (step_gen false m e true)) m).
Proof. exact before_fix_failed_unchanged_refuted. Qed.
Print Assumptions C35_before_fix_failed_unchanged_refuted.

(* pins *)
Check C35_failed_unchanged : failed_unchanged_statement true.
Check C35_before_fix_failed_unchanged_refuted : ~ failed_unchanged_statement false.
