(* Properties/C28.v — Execution outcomes and receipts are well formed.
   Statements about the abstract machines Vm/OutcomeModel.v (receipt context, run loop, in-memory
   client) and Vm/AssetModel.v (finalisation of outputs), tied to the Rust code by the translator
   tools/gen_assettable.py and by trace validation (Run/Outcome.v). *)
From FV Require Import Base.Bytes Base.U64 Gen.AssetTable Merkle.RFC6962 Merkle.BinaryModel
     Vm.OutcomeModel Vm.OutcomeSpec Vm.OutcomeProofs Vm.AssetModel Vm.AssetSpec Vm.AssetProofs.
Open Scope N_scope.

(* every completed execution, for every executed instruction sequence: the receipts are
   body ++ [top-level Return | Revert | Panic] ++ [ScriptResult result gas] with an interior body,
   and there are at most 65,535 of them *)
Theorem C28_shape :
  forall (gas : N) (prog : list instr) (rs : list receipt) (result : N),
    OutcomeModel.run gas initial prog = Done rs result ->
    wellformed rs result /\ rlen rs <= MAX_RECEIPTS /\ N.of_nat (length rs) <= 65535.
Proof. exact completed_wellformed. Qed.
Print Assumptions C28_shape.

(* what well-formedness means, item by item: exactly one script result, last; a panic receipt
   exactly when the result is Panic (then right before the result); Success iff the top-level
   program returned, Revert iff it reverted; and the in-memory client's revert decision *)
Theorem C28_shape_facts :
  forall (rs : list receipt) (result : N),
    wellformed rs result ->
    count is_script_result rs = 1%nat /\ (exists gas, last rs RcRevert = RcScriptResult result gas) /\
    (count is_panic rs = if result =? SER_Panic then 1%nat else O) /\
    (result = SER_Panic -> exists pre reason gas, rs = pre ++ [RcPanic reason; RcScriptResult result gas]) /\
    (result = SER_Success <-> exists pre k gas, rs = pre ++ [RcReturn true k; RcScriptResult result gas]) /\
    (result = SER_Revert <-> exists pre gas, rs = pre ++ [RcRevert; RcScriptResult result gas]) /\
    (result = SER_Success \/ result = SER_Revert \/ result = SER_Panic) /\
    should_revert rs = negb (result =? SER_Success).
Proof. exact wellformed_facts. Qed.
Print Assumptions C28_shape_facts.

(* the two reserved slots do their job: neither append_panic_receipt's `expect` nor the final
   ScriptResult push can fail, whatever the program did before *)
Theorem C28_final_pushes_never_fail :
  forall (gas : N) (prog : list instr),
    OutcomeModel.run gas initial prog <> HostPanic /\ OutcomeModel.run gas initial prog <> Aborted.
Proof. exact run_never_aborts. Qed.
Print Assumptions C28_final_pushes_never_fail.

(* at most MAX_RECEIPTS = 65,535 receipts for ALL push sequences (any receipts, any order,
   failed pushes ignored) *)
Theorem C28_limit :
  forall (xs rs : list receipt), rlen rs <= MAX_RECEIPTS -> rlen (push_all rs xs) <= MAX_RECEIPTS.
Proof. exact push_all_bound. Qed.
Print Assumptions C28_limit.

(* the committed receipts root: the incremental root of the receipts context equals the RFC 6962
   Merkle tree hash (C09) of the encoded receipts, for every push sequence *)
Theorem C28_root :
  forall (D : Type) (leaf_sum : bytes -> D) (node_sum : D -> D -> D) (empty_sum : D) (enc : receipt -> bytes)
         (rs : list receipt),
    let c := rctx_push_all leaf_sum node_sum enc (@rctx_new D) rs in
    rctx_root node_sum empty_sum c = Some (MTH leaf_sum node_sum empty_sum (map enc (rc_receipts c))) /\
    rlen (rc_receipts c) <= MAX_RECEIPTS.
Proof. exact @receipts_root_is_MTH. Qed.
Print Assumptions C28_root.

(* failed execution (revert or panic): variable outputs zeroed, change outputs = initial free balance
   (+ refund for the base asset), contract balances as before (asset machine of C27) *)
Theorem C28_failed_outputs :
  forall (asset_of : N -> N -> N) (base : N) (inputs : list N) (ins : list input) (outs : list output)
         (max_fee : N) (cb0 : list ((N * N) * N)) (ops : list op) (e : ending) (refund : N) (f : final)
         (s0 : vm) (initial : list (N * N)),
    execute asset_of base inputs ins outs max_fee cb0 ops e refund = Some f ->
    init_vm base ins outs max_fee cb0 = Some (s0, initial) ->
    f_revert f = true ->
    failed_outputs_ok base refund initial (f_outs f) = true /\ f_cbal f = cb0 /\ f_free f = initial /\
    f_minted f = [] /\ f_burned f = [] /\ f_msgout f = 0.
Proof. exact failed_execution. Qed.
Print Assumptions C28_failed_outputs.

(* the in-memory client: a completed run that did not succeed leaves the storage exactly as it
   was (whatever the interpreter wrote); a successful one commits the writes *)
Theorem C28_storage_rollback :
  forall (T : Type) (gas : N) (prog : list instr) (rs : list receipt) (result : N) (s : @mstorage T) (writes : T -> T),
    OutcomeModel.run gas initial prog = Done rs result ->
    ms_memory s = ms_transacted s ->
    (result <> SER_Success -> ms_memory (client_transact s writes true rs) = ms_memory s) /\
    (result = SER_Success -> ms_memory (client_transact s writes true rs) = writes (ms_memory s)).
Proof. exact @completed_rollback. Qed.
Print Assumptions C28_storage_rollback.

(* ... and when the interpreter returned an error instead of a state the client reverts as well *)
Theorem C28_storage_rollback_on_error :
  forall (T : Type) (s : @mstorage T) (writes : T -> T) (ok : bool) (rs : list receipt),
    ms_memory s = ms_transacted s ->
    (ok = false \/ should_revert rs = true) ->
    ms_memory (client_transact s writes ok rs) = ms_memory s /\
    ms_transacted (client_transact s writes ok rs) = ms_transacted s.
Proof. exact @client_rollback. Qed.
Print Assumptions C28_storage_rollback_on_error.

(* FINDING (reported): the hypothesis `memory = transacted` cannot be dropped for the real client:
   MemoryClient::deploy does not commit, so a deployment that is followed by a reverted / panicked
   script disappears with it *)
Theorem C28_rollback_after_deploy_refuted :
  exists (s : @mstorage (list N)) (dep w : list N -> list N) (rs : list receipt),
    ms_memory s = ms_transacted s /\ should_revert rs = true /\
    ms_memory (client_transact (client_deploy s dep) w true rs) <> ms_memory (client_deploy s dep).
Proof. exact rollback_after_deploy_refuted. Qed.
Print Assumptions C28_rollback_after_deploy_refuted.

(* once a script has succeeded (commit), later failed scripts restore the state before them *)
Theorem C28_rollback_after_commit :
  forall (T : Type) (s : @mstorage T) (w1 w2 : T -> T) (rs1 rs2 : list receipt),
    should_revert rs1 = false -> should_revert rs2 = true ->
    let s1 := client_transact s w1 true rs1 in
    ms_memory (client_transact s1 w2 true rs2) = ms_memory s1.
Proof. exact @rollback_after_commit. Qed.
Print Assumptions C28_rollback_after_commit.

(* the hypothesis `run ... = Done` is satisfiable: a success with a nested call, a revert inside
   two nested calls, a panic *)
Theorem C28_nonvacuous :
  OutcomeModel.run 17 initial [IBody RK_Log; ICall RK_Call; IBody RK_Transfer; IRet RK_Return; ISilent; IRet RK_ReturnData]
    = Done [RcBody RK_Log; RcBody RK_Call; RcBody RK_Transfer; RcReturn false RK_Return; RcReturn true RK_ReturnData;
            RcScriptResult SER_Success 17] SER_Success /\
  OutcomeModel.run 5 initial [ICall RK_Call; ICall RK_Call; IRvrt; IBody RK_Log]
    = Done [RcBody RK_Call; RcBody RK_Call; RcRevert; RcScriptResult SER_Revert 5] SER_Revert /\
  OutcomeModel.run 9 initial [IBody RK_Log; IFail PR_OutOfGas]
    = Done [RcBody RK_Log; RcPanic PR_OutOfGas; RcScriptResult SER_Panic 9] SER_Panic.
Proof. exact (conj example_run_success (conj example_run_revert_in_call example_run_panic)). Qed.
Print Assumptions C28_nonvacuous.
