(* Properties/C20.v — Only authorised inputs survive signature and predicate checks.
   Only statements, each closed by `exact` of a lemma proved in Auth/AuthProofs.v, and its
   assumptions.  The theorems are about the GATING LOGIC (Auth/AuthModel.v); the oracles are
   universally quantified:
     recover_pk  : signature(64 bytes) -> message(32 bytes) -> option key   (Signature::recover)
     hash_pk     : key -> address                                           (Input::owner)
     pred_owner  : predicate code -> address                                (Input::predicate_owner, C15)
     run         : tx -> input index -> verifying? -> available gas -> (result of verify_predicate, remaining gas)
     max_gas     : tx -> Chargeable::max_gas                                (C18)
   inl = Err, inr = Ok; check_signatures returns None for Ok(()). *)
From FV Require Import Base.Bytes Base.U64 Auth.AuthModel Auth.AuthProofs.
From Coq Require Import Permutation.
Open Scope N_scope.

(* ---------------------------------------------------------------- signatures *)
(* accepted => every signed input's witness has 64 bytes and recovers, over the transaction
   id, to a key whose hash is the input's owner; every predicate input is owned by its
   predicate's address *)
Theorem C20_signatures_sound :
  forall (PK : Type) (recover_pk : bytes -> bytes -> option PK) (hash_pk : PK -> bytes) (pred_owner : bytes -> bytes)
         (txid : bytes) (ins : list input) (witnesses : list bytes),
    check_signatures PK recover_pk hash_pk pred_owner txid ins witnesses = None ->
    forall i, In i ins ->
      match i with
      | ISigned owner witness_index =>
          exists w pk, nth_error witnesses (N.to_nat witness_index) = Some w /\ length w = 64%nat /\
                       recover_pk w txid = Some pk /\ hash_pk pk = owner
      | IPredicate owner predicate _ => owner = pred_owner predicate
      | IContract => True
      end.
Proof. exact check_signatures_sound. Qed.
Print Assumptions C20_signatures_sound.

(* ... and exactly those transactions are accepted *)
Theorem C20_signatures_iff :
  forall (PK : Type) (recover_pk : bytes -> bytes -> option PK) (hash_pk : PK -> bytes) (pred_owner : bytes -> bytes)
         (txid : bytes) (ins : list input) (witnesses : list bytes),
    check_signatures PK recover_pk hash_pk pred_owner txid ins witnesses = None <->
    Forall (authorized PK recover_pk hash_pk pred_owner txid witnesses) ins.
Proof. exact check_signatures_ok_iff. Qed.
Print Assumptions C20_signatures_iff.

(* a rejection names the first input that is not authorised *)
Theorem C20_signatures_error :
  forall (PK : Type) (recover_pk : bytes -> bytes -> option PK) (hash_pk : PK -> bytes) (pred_owner : bytes -> bytes)
         (txid : bytes) (ins : list input) (witnesses : list bytes) (e : sig_err),
    check_signatures PK recover_pk hash_pk pred_owner txid ins witnesses = Some e ->
    exists pre i post, ins = pre ++ i :: post /\
      Forall (authorized PK recover_pk hash_pk pred_owner txid witnesses) pre /\
      ~ authorized PK recover_pk hash_pk pred_owner txid witnesses i /\ sig_err_index e = lenN pre.
Proof. exact check_signatures_error. Qed.
Print Assumptions C20_signatures_error.

(* the recovery cache keyed by witness index changes nothing (verdict and error) *)
Theorem C20_cache_sound :
  forall (PK : Type) (recover_pk : bytes -> bytes -> option PK) (hash_pk : PK -> bytes) (pred_owner : bytes -> bytes)
         (txid : bytes) (ins : list input) (witnesses : list bytes),
    check_signatures PK recover_pk hash_pk pred_owner txid ins witnesses =
    check_signatures_nocache PK recover_pk hash_pk pred_owner txid ins witnesses.
Proof. exact check_signatures_cache_equiv. Qed.
Print Assumptions C20_cache_sound.

(* tampering: if signed content changes, the id changes (property C03); if recovery is
   binding between the two ids (property C17) and the key hash is collision-free on the keys
   involved, every signed input of the accepted transaction is unauthorised under the new id,
   and checking fails as soon as there is one *)
Theorem C20_tamper :
  forall (PK : Type) (recover_pk : bytes -> bytes -> option PK) (hash_pk : PK -> bytes) (pred_owner : bytes -> bytes)
         (txid txid' : bytes) (ins : list input) (witnesses : list bytes),
    check_signatures PK recover_pk hash_pk pred_owner txid ins witnesses = None ->
    txid <> txid' ->
    (forall w pk, recover_pk w txid = Some pk -> recover_pk w txid' = Some pk -> txid = txid') ->
    (forall pk pk', hash_pk pk = hash_pk pk' -> pk = pk') ->
    Forall (fun i => is_signed i = true -> ~ authorized PK recover_pk hash_pk pred_owner txid' witnesses i) ins /\
    (existsb is_signed ins = true ->
     exists e, check_signatures PK recover_pk hash_pk pred_owner txid' ins witnesses = Some e).
Proof. exact tamper_all_fail. Qed.
Print Assumptions C20_tamper.

(* ---------------------------------------------------------------- predicates *)
(* accepted => nothing is modified, max_gas is within the allowance, and every predicate
   input is owned by its predicate's address and its run returned true leaving 0 of exactly
   its declared gas; the reported gas is the sum of the declared amounts (no u64 overflow) *)
Theorem C20_predicates_sound :
  forall (pred_owner : bytes -> bytes) (run : list input -> N -> bool -> N -> run_state * N)
         (max_gas : list input -> N) (max_gas_per_tx max_gas_per_predicate : N)
         (tx : list input) (g : N) (tx' : list input),
    check_predicates pred_owner run max_gas max_gas_per_tx max_gas_per_predicate tx = inr (g, tx') ->
    tx' = tx /\ max_gas tx <= max_gas_per_tx /\ g = declared_sum tx /\ g < 2 ^ 64 /\
    forall k o p d, nth_error tx k = Some (IPredicate o p d) ->
      o = pred_owner p /\ run tx (N.of_nat k) true d = (RReturnOne, 0).
Proof. exact check_predicates_sound. Qed.
Print Assumptions C20_predicates_sound.

(* ... and exactly those transactions are accepted *)
Theorem C20_predicates_iff :
  forall (pred_owner : bytes -> bytes) (run : list input -> N -> bool -> N -> run_state * N)
         (max_gas : list input -> N) (max_gas_per_tx max_gas_per_predicate : N)
         (tx : list input) (g : N) (tx' : list input),
    check_predicates pred_owner run max_gas max_gas_per_tx max_gas_per_predicate tx = inr (g, tx') <->
    tx' = tx /\ max_gas tx <= max_gas_per_tx /\ g = declared_sum tx /\ g < 2 ^ 64 /\
    (forall k i, nth_error tx k = Some i -> verified pred_owner run tx (N.of_nat k) i).
Proof. exact check_predicates_iff. Qed.
Print Assumptions C20_predicates_iff.

(* estimation then verification: if every estimation run returned true and re-running a
   predicate on the estimated transaction with exactly the gas it used succeeds with nothing
   left (deterministic_rerun: execution is deterministic and does not observe the available
   gas / the gas fields / the context), and the owners are right, then verification of the
   estimated transaction succeeds with the same total *)
Theorem C20_estimate_then_verify :
  forall (pred_owner : bytes -> bytes) (run : list input -> N -> bool -> N -> run_state * N)
         (max_gas : list input -> N) (max_gas_per_tx max_gas_per_predicate : N)
         (tx tx' : list input) (g : N),
    estimate_predicates pred_owner run max_gas max_gas_per_tx max_gas_per_predicate tx = inr (g, tx') ->
    (forall o p d, In (IPredicate o p d) tx -> o = pred_owner p) ->
    deterministic_rerun run tx tx'
      (estimation_runs pred_owner run max_gas_per_predicate tx 0 tx (max_gas_per_tx - max_gas tx)) ->
    check_predicates pred_owner run max_gas max_gas_per_tx max_gas_per_predicate tx' = inr (g, tx').
Proof. exact estimate_then_verify. Qed.
Print Assumptions C20_estimate_then_verify.

(* the claim as written in the property, without those premises, is false for the model of the
   unchanged code: estimation ignores the predicate's result (fuel-vm #917) *)
Theorem C20_estimate_unconditional_refuted :
  ~ (forall (pred_owner : bytes -> bytes) (run : list input -> N -> bool -> N -> run_state * N)
            (max_gas : list input -> N) (max_gas_per_tx max_gas_per_predicate : N)
            (tx : list input) (g : N) (tx' : list input),
       estimate_predicates pred_owner run max_gas max_gas_per_tx max_gas_per_predicate tx = inr (g, tx') ->
       (forall o p d, In (IPredicate o p d) tx -> o = pred_owner p) ->
       check_predicates pred_owner run max_gas max_gas_per_tx max_gas_per_predicate tx' = inr (g, tx')).
Proof. exact estimate_then_verify_unconditional_refuted. Qed.
Print Assumptions C20_estimate_unconditional_refuted.

(* ... and success of all estimation runs is not enough either: a predicate may observe the gas *)
Theorem C20_estimate_gas_observing_refuted :
  exists (pred_owner : bytes -> bytes) (run : list input -> N -> bool -> N -> run_state * N)
         (max_gas : list input -> N) (mpt mpp : N) (tx : list input) (g : N) (tx' : list input),
    estimate_predicates pred_owner run max_gas mpt mpp tx = inr (g, tx') /\
    (forall o p d, In (IPredicate o p d) tx -> o = pred_owner p) /\
    (forall j av, In (j, av) (estimation_runs pred_owner run mpp tx 0 tx (mpt - max_gas tx)) ->
                  fst (run tx j false av) = RReturnOne) /\
    check_predicates pred_owner run max_gas mpt mpp tx' = inl (PPanic 0 42).
Proof. exact estimate_gas_observing_predicate_refuted. Qed.
Print Assumptions C20_estimate_gas_observing_refuted.

(* ---------------------------------------------------------------- sequential vs parallel *)
(* the per-input tasks of the parallel checker are the sequential checker's *)
Theorem C20_seq_par_tasks :
  forall (pred_owner : bytes -> bytes) (run : list input -> N -> bool -> N -> run_state * N)
         (max_gas : list input -> N) (max_gas_per_tx max_gas_per_predicate : N) (tx : list input),
    sequential_checks pred_owner run max_gas max_gas_per_tx max_gas_per_predicate tx true =
    parallel_checks pred_owner run max_gas_per_tx max_gas_per_predicate tx true.
Proof. exact sequential_parallel_checks. Qed.
Print Assumptions C20_seq_par_tasks.

(* whatever order the executor delivers the results in, the parallel checker accepts exactly
   when the sequential one does, with the same total gas *)
Theorem C20_seq_par :
  forall (pred_owner : bytes -> bytes) (run : list input -> N -> bool -> N -> run_state * N)
         (max_gas : list input -> N) (max_gas_per_tx max_gas_per_predicate : N)
         (tx : list input) (delivered : list (N * res pv_err N)) (g : N) (tx' : list input),
    Permutation (parallel_checks pred_owner run max_gas_per_tx max_gas_per_predicate tx true) delivered ->
    (check_predicates_async max_gas max_gas_per_tx delivered tx = inr (g, tx') <->
     check_predicates pred_owner run max_gas max_gas_per_tx max_gas_per_predicate tx = inr (g, tx')).
Proof. exact check_predicates_async_agrees. Qed.
Print Assumptions C20_seq_par.

(* delivered in task order, the two are equal (including the error) *)
Theorem C20_seq_par_in_order :
  forall (pred_owner : bytes -> bytes) (run : list input -> N -> bool -> N -> run_state * N)
         (max_gas : list input -> N) (max_gas_per_tx max_gas_per_predicate : N) (tx : list input),
    check_predicates_async max_gas max_gas_per_tx
      (parallel_checks pred_owner run max_gas_per_tx max_gas_per_predicate tx true) tx =
    check_predicates pred_owner run max_gas max_gas_per_tx max_gas_per_predicate tx.
Proof. exact check_predicates_async_in_order. Qed.
Print Assumptions C20_seq_par_in_order.

(* rejection is order-independent too ... *)
Theorem C20_finalize_verdict :
  forall (max_gas : list input -> N) (max_gas_per_tx : N) (tx : list input) (l l' : list (N * res pv_err N)),
    Permutation l l' ->
    ((exists e, finalize max_gas max_gas_per_tx false tx l = inl e) <->
     (exists e, finalize max_gas max_gas_per_tx false tx l' = inl e)).
Proof. exact finalize_perm_verdict. Qed.
Print Assumptions C20_finalize_verdict.

(* ... but WHICH error is reported depends on the delivery order: it is the allowance error,
   or else the failure of the first delivered result that is a failure or that makes the
   running total leave the u64 range (reported as OutOfGas of that input) *)
Theorem C20_finalize_error :
  forall (max_gas : list input -> N) (max_gas_per_tx : N) (tx : list input) (l : list (N * res pv_err N)) (e : pv_err),
    finalize max_gas max_gas_per_tx false tx l = inl e ->
    (max_gas_per_tx < max_gas tx /\ e = TransactionExceedsTotalGasAllowance (max_gas tx)) \/
    (max_gas tx <= max_gas_per_tx /\
     exists pre idx r post, l = pre ++ (idx, r) :: post /\ all_ok pre /\ sum_ok pre < 2 ^ 64 /\
       (r = inl e \/ exists g, r = inr g /\ 2 ^ 64 <= sum_ok pre + g /\ e = OutOfGas idx)).
Proof. exact finalize_error. Qed.
Print Assumptions C20_finalize_error.

(* The estimation claim of the property text as a statement (refuted above for the unchanged
   code, proved as C20_estimate_then_verify under the two premises). *)
Definition C20_estimate_full_statement : Prop := estimate_then_verify_unconditional.
