(* Properties/C07.v — DA compression round-trip preserves transaction identity.
   Generic over the compression schema and over an ABSTRACT registry context (any state type,
   any allocate-or-reuse functions); the concrete rotating registry of the correspondence
   harness is one instance (C07_own_context).  The registry of fuel-core is not in /repo.
   Only statements, each closed by `exact` of a lemma proved elsewhere, and its assumptions. *)
From FV Require Import Base.Bytes Base.U64 DaComp.RegistryModel DaComp.RegistryProofs DaComp.CompressModel
  DaComp.TxSchema DaComp.DaCompProofs DaComp.ContextProofs Run.DaComp.
Open Scope N_scope.

(* RegistryKey::next on writable keys is k |-> (k+1) mod (2^24 - 1): never the reserved default
   key 0xFFFFFF, wraps MAX_WRITABLE -> 0, panics only on the default key *)
Theorem C07_key_next :
  forall k : N, writable k = true ->
    next k = Some ((k + 1) mod WRITABLE_COUNT) /\
    (forall k', next k = Some k' -> writable k' = true /\ k' <> DEFAULT_VALUE) /\
    next MAX_WRITABLE = Some ZERO /\ next DEFAULT_VALUE = None.
Proof.
  exact (fun k H => conj (next_spec k H) (conj (fun k' E => next_writable k k' H E) (conj next_wraps next_default))).
Qed.
Print Assumptions C07_key_next.

(* ... and a cyclic permutation of the 2^24 - 1 writable keys (arithmetic, no enumeration):
   injective, surjective, every key reached from every key, period exactly 2^24 - 1 *)
Theorem C07_key_next_cyclic :
  (forall a b c, writable a = true -> writable b = true -> next a = Some c -> next b = Some c -> a = b) /\
  (forall c, writable c = true -> exists a, writable a = true /\ next a = Some c) /\
  (forall k c, writable k = true -> writable c = true ->
     exists n, N.of_nat n < WRITABLE_COUNT /\ iter_next n k = Some c) /\
  (forall k n, writable k = true -> (iter_next n k = Some k <-> N.of_nat n mod WRITABLE_COUNT = 0)) /\
  (forall k i j, writable k = true -> N.of_nat i < WRITABLE_COUNT -> N.of_nat j < WRITABLE_COUNT ->
     iter_next i k = iter_next j k -> i = j).
Proof.
  exact (conj next_injective (conj next_surjective (conj next_reaches_every_key (conj next_cyclic next_no_collision)))).
Qed.
Print Assumptions C07_key_next_cyclic.

(* round trip: if the decompression context answers every registration the compression produced
   (ctx' ⊇ facts), decompressing gives what ctx' restores from the value with all
   #[compress(skip)] fields erased *)
Theorem C07_roundtrip :
  forall (St : Type) (reg_compress : St -> N -> bytes -> option (St * N))
         (utxo_compress : St -> val -> option (St * val))
         (D : Type) (reg_get : D -> N -> N -> option bytes) (utxo_get : D -> val -> option val)
         (coin_info : D -> val -> option (val * val * val))
         (msg_info : D -> val -> option (val * val * val * val)) (mint_ptr : D -> option val)
         (d : D) (t : cty) (s : St) (v : val) (s' : St) (c : val) (f : list fact),
    compress St reg_compress utxo_compress t s v = Some (s', c, f) ->
    holds D reg_get utxo_get d f ->
    decompress D reg_get utxo_get coin_info msg_info mint_ptr t d c =
      restore D coin_info msg_info mint_ptr t d (erase is_skipped t v).
Proof. exact roundtrip. Qed.
Print Assumptions C07_roundtrip.

(* if moreover the facts the context restores are the original ones, every field that is not
   skipped-and-unrestored comes back unchanged, the others as Default *)
Theorem C07_fields :
  forall (St : Type) (reg_compress : St -> N -> bytes -> option (St * N))
         (utxo_compress : St -> val -> option (St * val))
         (D : Type) (reg_get : D -> N -> N -> option bytes) (utxo_get : D -> val -> option val)
         (coin_info : D -> val -> option (val * val * val))
         (msg_info : D -> val -> option (val * val * val * val)) (mint_ptr : D -> option val)
         (d : D) (t : cty) (s : St) (v : val) (s' : St) (c : val) (f : list fact),
    compress St reg_compress utxo_compress t s v = Some (s', c, f) ->
    holds D reg_get utxo_get d f ->
    ctx_agrees D coin_info msg_info mint_ptr d t v ->
    decompress D reg_get utxo_get coin_info msg_info mint_ptr t d c = COk (erase only_default t v).
Proof. exact roundtrip_fields. Qed.
Print Assumptions C07_fields.

(* id: for any id that is a function of the stripped value (C03's id specification), the value
   and its round-tripped image have the same id, given the list inclusion
   "skipped and not restored => malleable" ... *)
Theorem C07_id :
  forall (A : Type) (idf : val -> A) (t : cty) (v : val),
    skip_incl t = true -> idf (strip t (erase only_default t v)) = idf (strip t v).
Proof. exact id_preserved. Qed.
Print Assumptions C07_id.

(* ... which holds for the transaction schema, whose skip flags are those of the Rust source *)
Theorem C07_tx_obligations :
  skip_incl T_Transaction = true /\ skip_offenders T_Transaction = [] /\
  source_mismatches = [] /\ length Gen.CompressSkips.compress_items = length schema_items.
Proof. exact (conj (proj1 tx_skip_incl) (conj (proj2 tx_skip_incl) schema_matches_source)). Qed.
Print Assumptions C07_tx_obligations.

(* the inclusion is needed *)
Theorem C07_id_needs_inclusion_refuted :
  exists (t : cty) (v : val), skip_incl t = false /\ strip t (erase only_default t v) <> strip t v.
Proof. exact (ex_intro _ bad_schema (ex_intro _ (VR [VN 7]) id_not_preserved_without_inclusion)). Qed.
Print Assumptions C07_id_needs_inclusion_refuted.

(* the harness-style context (rotating registry with per-transaction pinning, append-only UTXO
   table) can always decompress what it compressed: the premise of C07_roundtrip is satisfiable *)
Theorem C07_own_context :
  forall (t : cty) (c : mctx) (v : val) (c' : mctx) (comp : val) (f : list fact),
    m_compress t c v = Some (c', comp, f) ->
    holds mctx m_reg_get m_utxo_get c' f /\
    m_decompress t c' comp = restore mctx m_coin_info m_msg_info m_mint t c' (erase is_skipped t v).
Proof. exact (fun t c v c' comp f H => conj (m_own_context_holds t c v c' comp f H) (m_roundtrip t c v c' comp f H)). Qed.
Print Assumptions C07_own_context.
