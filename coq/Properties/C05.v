(* Properties/C05.v — In-VM transaction introspection returns the executed transaction's data.
   Only statements, each closed by `exact` of a lemma proved in Gtf/GtfProofs.v. *)
From FV Require Import Base.Bytes Base.U64 Codec.CodecModel Gen.Schemas Gen.GtfTable TxId.IdSpec
     Offsets.OffsetSpec Offsets.OffsetModel Gtf.GtfSpec Gtf.GtfModel Gtf.GtfProofs.
Local Open Scope list_scope.
Open Scope N_scope.

(* the initial VM memory: tx id at 0, base asset id at 32, the size word just below tx_offset and
   the canonical bytes of the (prepared) transaction at tx_offset; nothing after them *)
Theorem C05_memory_layout :
  forall (st : vmst) (id balances : bytes), layout_ok st id balances ->
    let mem := init_memory st id balances in
    let ofs := p_tx_offset (v_params st) in
    slice mem 0 32 = id /\
    slice mem VM_MEMORY_BASE_ASSET_ID_OFFSET 32 = p_base_asset (v_params st) /\
    slice mem (ofs - 8) 8 = be8 (v_tx_size st) /\
    slice mem ofs (lenN (enc (prepared_ty st) (prepared_val st))) = enc (prepared_ty st) (prepared_val st) /\
    lenN mem = ofs + lenN (enc (prepared_ty st) (prepared_val st)).
Proof. exact memory_layout. Qed.
Print Assumptions C05_memory_layout.

(* pointer selectors: any field the C04 specification locates at offset o of the transaction is
   held, byte for byte, by the VM memory at tx_offset + o *)
Theorem C05_pointer :
  forall (st : vmst) (id balances : bytes) (s : sel) (o : N) (bs : bytes),
    layout_ok st id balances ->
    locate_in (prepared_ty st) (prepared_val st) s = Some (o, bs) ->
    slice (init_memory st id balances) (p_tx_offset (v_params st) + o) (lenN bs) = bs.
Proof. exact pointer_holds_field. Qed.
Print Assumptions C05_pointer.

(* GM: chain id, base asset pointer, transaction start, owner pointer, gas price (not in
   predicates), verifying predicate; unknown selectors *)
Theorem C05_gm :
  forall (st : vmst),
    gm st (gm_code GM_GetChainId) = GOk (p_chain_id (v_params st)) /\
    gm st (gm_code GM_BaseAssetId) = GOk VM_MEMORY_BASE_ASSET_ID_OFFSET /\
    gm st (gm_code GM_TxStart) = GOk (p_tx_offset (v_params st)) /\
    gm st (gm_code GM_GetOwner) = match v_owner_ptr st with Some p => GOk p | None => GPanic P_OwnerIsUnknown end /\
    gm st (gm_code GM_GetGasPrice) =
      match v_ctx st with
      | CtxPredicateVerification _ | CtxPredicateEstimation _ => GPanic P_CanNotGetGasPriceInPredicate
      | _ => GOk (p_gas_price (v_params st))
      end /\
    gm st (gm_code GM_GetVerifyingPredicate) =
      match ctx_predicate (v_ctx st) with Some i => GOk i | None => GPanic P_TransactionValidity end /\
    (forall imm, gm_of_code imm = None -> gm st imm = GPanic P_InvalidMetadataIdentifier).
Proof. exact gm_table. Qed.
Print Assumptions C05_gm.

(* selectors that are not in GTFArgs *)
Theorem C05_unknown_selector :
  forall (st : vmst) (imm b : N), gtf_of_code imm = None -> gtf st imm b = GPanic P_InvalidMetadataIdentifier.
Proof. exact gtf_unknown_selector. Qed.
Print Assumptions C05_unknown_selector.

(* absent indices: an index at or beyond the number of inputs / outputs / witnesses gives the
   panic the decision table specifies, for each of the 35 selectors that read element $rB *)
Theorem C05_absent_index :
  forall (st : vmst) (a : gtf_arg) (b : N) (d : idom) (r : N),
    index_domain a = Some (d, r) -> dom_len st d <= b -> gtf_eval st b a = GPanic r.
Proof. exact gtf_absent_index. Qed.
Print Assumptions C05_absent_index.

(* $rB above u32::MAX: InvalidMetadataIdentifier for every selector (fuel-vm convert::to_usize) ... *)
Theorem C05_large_rb :
  forall (st : vmst) (imm b : N), 4294967296 <= b -> gtf st imm b = GPanic P_InvalidMetadataIdentifier.
Proof. exact gtf_large_rb. Qed.
Print Assumptions C05_large_rb.
(* ... so "a selector that does not use $rB returns its value whatever $rB is" does not hold *)
Theorem C05_type_ignores_rb_refuted :
  exists (st : vmst) (b : N), gtf st (gtf_code GTF_Type) 0 = GOk 0 /\ gtf st (gtf_code GTF_Type) b <> GOk 0.
Proof. exact gtf_type_ignores_rb_refuted. Qed.
Print Assumptions C05_type_ignores_rb_refuted.

(* end to end for the nine element selectors GTF {Script,Create,Tx}{Input,Output,Witness}AtIndex on a
   transaction without cached metadata: an index in range yields a pointer at which VM memory holds
   exactly the element's canonical encoding (the C04 position shifted by tx_offset); any other
   index yields the specified panic *)
Theorem C05_element_pointers :
  forall (st : vmst) (id balances : bytes) (a : gtf_arg) (f : atfn) (b : N),
    layout_ok st id balances -> element_selector a = Some f ->
    o_kind (v_tx st) <> KMint -> o_meta (v_tx st) = None ->
    typed (prepared_ty st) (prepared_val st) = true ->
    p_tx_offset (v_params st) + lenN (enc (prepared_ty st) (prepared_val st)) <= u64_max ->
    match gtf_eval st b a with
    | GOk p => exists i s bs, b = N.of_nat i /\ at_sel (o_kind (v_tx st)) f i = Some s /\
                              locate_in (prepared_ty st) (prepared_val st) s = Some (p - p_tx_offset (v_params st), bs) /\
                              slice (init_memory st id balances) p (lenN bs) = bs
    | GPanic r => r = element_absent f
    end.
Proof. exact element_pointers. Qed.
Print Assumptions C05_element_pointers.

(* OPEN (not proved; executed on every observation of every correspondence case by Run/Gtf.v
   spec_holds / gm_spec_holds, on the REAL VM memory): for $rB < 2^32 the model's answer is what
   the decision table gtf_spec denotes — the integer whose canonical bytes the C04 specification
   locates, tx_offset + the located position, or the specified panic. *)
Definition C05_gtf_spec_statement : Prop :=
  forall (st : vmst) (a : gtf_arg) (b : N) (s : sel) (o : N) (bs : bytes),
    typed (prepared_ty st) (prepared_val st) = true -> b < 4294967296 ->
    locate_in (prepared_ty st) (prepared_val st) s = Some (o, bs) ->
    (gtf_spec (o_kind (v_tx st)) (prepared_val st) b a = SpValue s -> gtf_eval st b a = GOk (be_decode bs)) /\
    (gtf_spec (o_kind (v_tx st)) (prepared_val st) b a = SpPointer s ->
       gtf_eval st b a = GOk (p_tx_offset (v_params st) + o)) /\
    (forall r, gtf_spec (o_kind (v_tx st)) (prepared_val st) b a = SpPanic r -> gtf_eval st b a = GPanic r).
