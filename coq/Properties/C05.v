(* Properties/C05.v — In-VM transaction introspection returns the executed transaction's data.
   Only statements, each closed by `exact` of a lemma proved in Gtf/GtfProofs.v. *)
From FV Require Import Base.Bytes Base.U64 Codec.CodecModel Gen.Schemas Gen.GtfTable TxId.IdSpec
     Offsets.OffsetSpec Offsets.OffsetModel Gtf.GtfSpec Gtf.GtfModel Gtf.GtfProofs Gtf.GtfAgree.
Local Open Scope list_scope.
Open Scope N_scope.

(* the initial VM memory: tx id at 0, base asset id at 32, the size word just below tx_offset and
   the canonical bytes of the (prepared) transaction at tx_offset; nothing after them *)
Theorem C05_memory_layout :
  forall (st : vmst) (id balances : bytes), layout_ok st id balances ->
    let mem := init_memory st id balances in
    let ofs := p_tx_offset (v_params st) in
    slice mem 0 32 = id /\
    slice mem VM_MEMORY_BASE_ASSET_ID_OFFSET 32 = p_base_asset (v_params st) /\
    slice mem (ofs - 8) 8 = be8 (v_tx_size st) /\
    slice mem ofs (lenN (enc (prepared_ty st) (prepared_val st))) = enc (prepared_ty st) (prepared_val st) /\
    lenN mem = ofs + lenN (enc (prepared_ty st) (prepared_val st)).
Proof. exact memory_layout. Qed.
Print Assumptions C05_memory_layout.

(* pointer selectors: any field the C04 specification locates at offset o of the transaction is
   held, byte for byte, by the VM memory at tx_offset + o *)
Theorem C05_pointer :
  forall (st : vmst) (id balances : bytes) (s : sel) (o : N) (bs : bytes),
    layout_ok st id balances ->
    locate_in (prepared_ty st) (prepared_val st) s = Some (o, bs) ->
    slice (init_memory st id balances) (p_tx_offset (v_params st) + o) (lenN bs) = bs.
Proof. exact pointer_holds_field. Qed.
Print Assumptions C05_pointer.

(* GM: chain id, base asset pointer, transaction start, owner pointer, gas price (not in
   predicates), verifying predicate; unknown selectors *)
Theorem C05_gm :
  forall (st : vmst),
    gm st (gm_code GM_GetChainId) = GOk (p_chain_id (v_params st)) /\
    gm st (gm_code GM_BaseAssetId) = GOk VM_MEMORY_BASE_ASSET_ID_OFFSET /\
    gm st (gm_code GM_TxStart) = GOk (p_tx_offset (v_params st)) /\
    gm st (gm_code GM_GetOwner) = match v_owner_ptr st with Some p => GOk p | None => GPanic P_OwnerIsUnknown end /\
    gm st (gm_code GM_GetGasPrice) =
      match v_ctx st with
      | CtxPredicateVerification _ | CtxPredicateEstimation _ => GPanic P_CanNotGetGasPriceInPredicate
      | _ => GOk (p_gas_price (v_params st))
      end /\
    gm st (gm_code GM_GetVerifyingPredicate) =
      match ctx_predicate (v_ctx st) with Some i => GOk i | None => GPanic P_TransactionValidity end /\
    (forall imm, gm_of_code imm = None -> gm st imm = GPanic P_InvalidMetadataIdentifier).
Proof. exact gm_table. Qed.
Print Assumptions C05_gm.

(* selectors that are not in GTFArgs *)
Theorem C05_unknown_selector :
  forall (st : vmst) (imm b : N), gtf_of_code imm = None -> gtf st imm b = GPanic P_InvalidMetadataIdentifier.
Proof. exact gtf_unknown_selector. Qed.
Print Assumptions C05_unknown_selector.

(* absent indices: an index at or beyond the number of inputs / outputs / witnesses gives the
   panic the decision table specifies, for each of the 35 selectors that read element $rB *)
Theorem C05_absent_index :
  forall (st : vmst) (a : gtf_arg) (b : N) (d : idom) (r : N),
    index_domain a = Some (d, r) -> dom_len st d <= b -> gtf_eval st b a = GPanic r.
Proof. exact gtf_absent_index. Qed.
Print Assumptions C05_absent_index.

(* $rB above u32::MAX: InvalidMetadataIdentifier for every selector (fuel-vm convert::to_usize) ... *)
Theorem C05_large_rb :
  forall (st : vmst) (imm b : N), 4294967296 <= b -> gtf st imm b = GPanic P_InvalidMetadataIdentifier.
Proof. exact gtf_large_rb. Qed.
Print Assumptions C05_large_rb.
(* ... so "a selector that does not use $rB returns its value whatever $rB is" does not hold *)
Theorem C05_type_ignores_rb_refuted :
  exists (st : vmst) (b : N), gtf st (gtf_code GTF_Type) 0 = GOk 0 /\ gtf st (gtf_code GTF_Type) b <> GOk 0.
Proof. exact gtf_type_ignores_rb_refuted. Qed.
Print Assumptions C05_type_ignores_rb_refuted.

(* end to end for the nine element selectors GTF {Script,Create,Tx}{Input,Output,Witness}AtIndex on a
   transaction without cached metadata: an index in range yields a pointer at which VM memory holds
   exactly the element's canonical encoding (the C04 position shifted by tx_offset); any other
   index yields the specified panic *)
Theorem C05_element_pointers :
  forall (st : vmst) (id balances : bytes) (a : gtf_arg) (f : atfn) (b : N),
    layout_ok st id balances -> element_selector a = Some f ->
    o_kind (v_tx st) <> KMint -> o_meta (v_tx st) = None ->
    typed (prepared_ty st) (prepared_val st) = true ->
    p_tx_offset (v_params st) + lenN (enc (prepared_ty st) (prepared_val st)) <= u64_max ->
    match gtf_eval st b a with
    | GOk p => exists i s bs, b = N.of_nat i /\ at_sel (o_kind (v_tx st)) f i = Some s /\
                              locate_in (prepared_ty st) (prepared_val st) s = Some (p - p_tx_offset (v_params st), bs) /\
                              slice (init_memory st id balances) p (lenN bs) = bs
    | GPanic r => r = element_absent f
    end.
Proof. exact element_pointers. Qed.
Print Assumptions C05_element_pointers.

(* ---- agreement of the 82-arm model with the decision table gtf_spec.  [denote st row] is what a row
   of the table denotes on the transaction in memory: the integer whose canonical bytes the C04
   specification locates (SpValue), tx_offset + the located position (SpPointer), a policy / the
   policy bits / a constant / the transaction length, or the specified panic.  [agrees st b a] :=
   denote st (gtf_spec kind tx b a) = Some (gtf_eval st b a). *)

(* Type and the seven policy selectors: unconditionally *)
Theorem C05_agree_config :
  forall (st : vmst) (b : N) (a : gtf_arg), In a config_selectors -> agrees st b a.
Proof. exact agree_config. Qed.
Print Assumptions C05_agree_config.

(* the 17 selectors of a particular kind, on a transaction of another kind: InvalidMetadataIdentifier
   in the table and in the model *)
Theorem C05_agree_other_kind :
  forall (st : vmst) (b : N) (a : gtf_arg) (want : kind),
    selector_kind a = Some want -> o_kind (v_tx st) <> want ->
    gtf_spec (o_kind (v_tx st)) (o_val (v_tx st)) b a = SpPanic P_InvalidMetadataIdentifier /\
    gtf_eval st b a = GPanic P_InvalidMetadataIdentifier /\ agrees st b a.
Proof. exact agree_other_kind. Qed.
Print Assumptions C05_agree_other_kind.

(* the nine inputs / outputs / witnesses count selectors *)
Theorem C05_agree_counts :
  forall (st : vmst) (b : N) (a : gtf_arg),
    In a count_selectors -> o_kind (v_tx st) <> KMint ->
    typed (kind_ty (o_kind (v_tx st))) (o_val (v_tx st)) = true ->
    lenN (tx_inputs (v_tx st)) < U64 -> lenN (tx_outputs (v_tx st)) < U64 -> lenN (tx_witnesses (v_tx st)) < U64 ->
    agrees st b a.
Proof. exact agree_counts. Qed.
Print Assumptions C05_agree_counts.

(* TxLength, given that the word below the transaction is the length of its encoding - which is what
   init_inner stores for a typed transaction shorter than 2^64 bytes *)
Theorem C05_agree_tx_length :
  forall (st : vmst) (b : N),
    v_tx_size st = lenN (enc (kind_ty (o_kind (v_tx st))) (o_val (v_tx st))) -> agrees st b GTF_TxLength.
Proof. exact agree_tx_length. Qed.
Print Assumptions C05_agree_tx_length.
Theorem C05_init_stores_length :
  forall (par : gparams) (ctx : gctx) (k : kind) (v : val) (meta : option (cmeta * option N)) (st : vmst),
    init_vm par ctx k v meta = Some st ->
    typed (kind_ty k) (prepare_tx k v) = true -> lenN (enc (kind_ty k) (prepare_tx k v)) <= u64_max ->
    v_tx_size st = lenN (enc (kind_ty (o_kind (v_tx st))) (o_val (v_tx st))).
Proof. exact init_vm_size. Qed.
Print Assumptions C05_init_stores_length.

(* the scalar fields of the body: script gas limit / script length / script data length; create
   bytecode witness index / storage slots count; upload witness index / subsection index /
   subsections count / proof set count; blob witness index *)
Theorem C05_agree_script_scalars :
  forall (st : vmst) (b : N) (a : gtf_arg),
    In a [GTF_ScriptGasLimit; GTF_ScriptLength; GTF_ScriptDataLength] -> o_kind (v_tx st) = KScript ->
    typed S_Script (o_val (v_tx st)) = true -> lengths_small (v_tx st) -> agrees st b a.
Proof. exact agree_script_scalars. Qed.
Print Assumptions C05_agree_script_scalars.
Theorem C05_agree_gas_limit_other :
  forall (st : vmst) (b : N), o_kind (v_tx st) <> KScript -> agrees st b GTF_ScriptGasLimit.
Proof. exact agree_gas_limit_other. Qed.
Print Assumptions C05_agree_gas_limit_other.
Theorem C05_agree_create_scalars :
  forall (st : vmst) (b : N) (a : gtf_arg),
    In a [GTF_CreateBytecodeWitnessIndex; GTF_CreateStorageSlotsCount] -> o_kind (v_tx st) = KCreate ->
    typed S_Create (o_val (v_tx st)) = true -> lengths_small (v_tx st) -> agrees st b a.
Proof. exact agree_create_scalars. Qed.
Print Assumptions C05_agree_create_scalars.
Theorem C05_agree_upload_scalars :
  forall (st : vmst) (b : N) (a : gtf_arg),
    In a [GTF_UploadWitnessIndex; GTF_UploadSubsectionIndex; GTF_UploadSubsectionsCount; GTF_UploadProofSetCount] ->
    o_kind (v_tx st) = KUpload -> typed S_Upload (o_val (v_tx st)) = true -> lengths_small (v_tx st) -> agrees st b a.
Proof. exact agree_upload_scalars. Qed.
Print Assumptions C05_agree_upload_scalars.
Theorem C05_agree_blob_scalars :
  forall (st : vmst) (b : N),
    o_kind (v_tx st) = KBlob -> typed S_Blob (o_val (v_tx st)) = true -> agrees st b GTF_BlobWitnessIndex.
Proof. exact agree_blob_scalars. Qed.
Print Assumptions C05_agree_blob_scalars.

(* pointers to static body fields: salt, upload root, blob id, upgrade purpose (with C05_pointer: the
   memory there holds the field's canonical bytes) *)
Theorem C05_agree_static_pointers :
  forall (st : vmst) (b : N) (a : gtf_arg),
    In a [GTF_CreateSalt; GTF_UploadRoot; GTF_BlobId; GTF_UpgradePurpose] -> selector_kind a = Some (o_kind (v_tx st)) ->
    typed (kind_ty (o_kind (v_tx st))) (o_val (v_tx st)) = true -> p_tx_offset (v_params st) <= 4294967296 ->
    agrees st b a.
Proof. exact agree_static_pointers. Qed.
Print Assumptions C05_agree_static_pointers.

(* OPEN (not proved; executed on every observation of every correspondence case by Run/Gtf.v
   spec_holds, on the REAL VM memory): agreement for the selectors in [open_selectors] when the
   index is in range - the in-range rows of the input / output / witness field selectors (values
   and pointers), the script / script data pointers, storage slot / proof entry pointers and
   InputContractOutputIndex.  (Their out-of-range rows are C05_absent_index; their other-kind rows
   C05_agree_other_kind; the nine element pointers are C05_element_pointers.) *)
Definition open_selectors : list gtf_arg :=
  [GTF_Script; GTF_ScriptData; GTF_CreateStorageSlotAtIndex; GTF_UploadProofSetAtIndex;
   GTF_InputType; GTF_InputCoinTxId; GTF_InputCoinOutputIndex; GTF_InputCoinOwner; GTF_InputCoinAmount;
   GTF_InputCoinAssetId; GTF_InputCoinTxPointer; GTF_InputCoinWitnessIndex; GTF_InputCoinPredicateLength;
   GTF_InputCoinPredicateDataLength; GTF_InputCoinPredicate; GTF_InputCoinPredicateData; GTF_InputCoinPredicateGasUsed;
   GTF_InputContractTxId; GTF_InputContractOutputIndex; GTF_InputContractId; GTF_InputMessageSender;
   GTF_InputMessageRecipient; GTF_InputMessageAmount; GTF_InputMessageNonce; GTF_InputMessageWitnessIndex;
   GTF_InputMessageDataLength; GTF_InputMessagePredicateLength; GTF_InputMessagePredicateDataLength;
   GTF_InputMessageData; GTF_InputMessagePredicate; GTF_InputMessagePredicateData; GTF_InputMessagePredicateGasUsed;
   GTF_OutputType; GTF_OutputCoinTo; GTF_OutputCoinAmount; GTF_OutputCoinAssetId; GTF_OutputContractInputIndex;
   GTF_OutputContractCreatedContractId; GTF_OutputContractCreatedStateRoot; GTF_WitnessDataLength; GTF_WitnessData].
Definition C05_gtf_spec_statement : Prop :=
  forall (st : vmst) (a : gtf_arg) (b : N),
    In a open_selectors ->
    typed (prepared_ty st) (prepared_val st) = true -> b < 4294967296 ->
    p_tx_offset (v_params st) + lenN (enc (prepared_ty st) (prepared_val st)) <= u64_max ->
    a <> GTF_InputContractOutputIndex -> agrees st b a.
