(* Properties/C13.v — Sparse Merkle state persists completely in its node storage.
   Only statements, each closed by `exact` of a lemma proved elsewhere, and its assumptions. *)
From FV Require Import Base.Bytes Merkle.SparseSpec Merkle.SparseFun Merkle.SparseModel
  Merkle.SparseProofs Merkle.SparseRefine Merkle.SparseInst.
Open Scope N_scope.

(* Loading at the empty root yields the empty tree (whatever the storage holds). *)
Theorem C13_load_empty :
  forall (Dg : Type) (dg_eqb : Dg -> Dg -> bool) (zero : Dg) (hleaf hnode : Dg -> Dg -> Dg),
    (forall a b : Dg, dg_eqb a b = true <-> a = b) ->
    forall st : @store Dg,
      tree_load dg_eqb zero hleaf hnode st zero = Ok (tree_new st) /\ tree_root zero (tree_new st) = zero.
Proof. exact @load_empty_root. Qed.
Print Assumptions C13_load_empty.

(* Loading at a non-empty root whose node is not in the storage fails with LoadError; it
   never produces a tree. *)
Theorem C13_load_missing :
  forall (Dg : Type) (dg_eqb : Dg -> Dg -> bool) (zero : Dg) (hleaf hnode : Dg -> Dg -> Dg),
    (forall a b : Dg, dg_eqb a b = true <-> a = b) ->
    forall (st : @store Dg) (root : Dg),
      root <> zero -> sget dg_eqb st root = None ->
      tree_load dg_eqb zero hleaf hnode st root = Err ELoadError.
Proof. exact @load_missing_root. Qed.
Print Assumptions C13_load_missing.

Example C13_premise_satisfiable : forall a b : lb, key_eqb a b = true <-> a = b.
Proof. exact lb_eqb_spec. Qed.
