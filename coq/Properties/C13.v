(* Properties/C13.v — Sparse Merkle state persists completely in its node storage.
   Only statements, each closed by `exact` of a lemma proved elsewhere, and its assumptions.
   [persisted IF T m] (Merkle/SparseHistory.v): the tree object T holds the map m — its root
   node is the node of the canonical compact tree of m and EVERY node of that tree is in T's
   store under its digest with its (height, prefix, lo, hi) primitive.
   Premises: the record [smt_iface] (Merkle/SparseTree.v, printed in Properties/C12.v),
   which includes collision-freeness of the hash functions. *)
From FV Require Import Base.Bytes Merkle.SparseSpec Merkle.SparseFun Merkle.SparseModel
  Merkle.SparseProofs Merkle.SparseRefine Merkle.SparseTree Merkle.SparseHistory Merkle.SparseInst.
Open Scope N_scope.

(* The storage invariant is preserved by every insert, delete and reload, from any persisted
   state (in particular the removal of stale nodes never removes a node still reachable), and
   no operation fails. *)
Theorem C13_inv_preserved :
  forall (Dg : Type) (IF : smt_iface Dg) (ops : list (@l1op Dg)) (T : @tree Dg) (m : @smap Dg),
    persisted IF T m -> Forall (l1op_wf IF) ops ->
    exists T', l1_run IF T ops = Some T' /\ persisted IF T' (fold_left m_step (mops IF ops) m).
Proof. exact @run_persisted. Qed.
Print Assumptions C13_inv_preserved.

(* Loading from the node storage at the current root returns the SAME tree object (root node
   and store), hence the same proofs and the same results of all further operations. *)
Theorem C13_reload_same :
  forall (Dg : Type) (IF : smt_iface Dg) (T : @tree Dg) (m : @smap Dg),
    persisted IF T m ->
    tree_load (i_eqb IF) (i_zero IF) (i_hleaf IF) (i_hnode IF) (t_store T) (tree_root (i_zero IF) T) = Ok T.
Proof. exact @reload_same. Qed.
Print Assumptions C13_reload_same.

(* A reload may be placed at every point of a history: the run with the reloads equals the
   run without them. *)
Theorem C13_reload_transparent :
  forall (Dg : Type) (IF : smt_iface Dg) (ops : list (@l1op Dg)) (T : @tree Dg) (m : @smap Dg),
    persisted IF T m -> Forall (l1op_wf IF) ops ->
    l1_run IF T ops = l1_run IF T (filter (fun o => negb (is_load o)) ops).
Proof. exact @reload_transparent. Qed.
Print Assumptions C13_reload_transparent.

(* Loading at the empty root yields the empty tree (whatever the storage holds). *)
Theorem C13_load_empty :
  forall (Dg : Type) (dg_eqb : Dg -> Dg -> bool) (zero : Dg) (hleaf hnode : Dg -> Dg -> Dg),
    (forall a b : Dg, dg_eqb a b = true <-> a = b) ->
    forall st : @store Dg,
      tree_load dg_eqb zero hleaf hnode st zero = Ok (tree_new st) /\ tree_root zero (tree_new st) = zero.
Proof. exact @load_empty_root. Qed.
Print Assumptions C13_load_empty.

(* Loading at a non-empty root whose node is not in the storage fails with LoadError; it
   never produces a tree. *)
Theorem C13_load_missing :
  forall (Dg : Type) (dg_eqb : Dg -> Dg -> bool) (zero : Dg) (hleaf hnode : Dg -> Dg -> Dg),
    (forall a b : Dg, dg_eqb a b = true <-> a = b) ->
    forall (st : @store Dg) (root : Dg),
      root <> zero -> sget dg_eqb st root = None ->
      tree_load dg_eqb zero hleaf hnode st root = Err ELoadError.
Proof. exact @load_missing_root. Qed.
Print Assumptions C13_load_missing.

(* premises are satisfiable: an interface instance, the empty persisted tree, a wf history *)
Example C13_premises_satisfiable :
  persisted lb_iface (tree_new []) [] /\ Forall (l1op_wf lb_iface) lb_history /\
  (forall a b : lb, key_eqb a b = true <-> a = b).
Proof. exact (conj (persisted_empty lb_iface) (conj lb_history_wf lb_eqb_spec)). Qed.

(* The node list returned by nodes_from_set, inserted into an empty storage and loaded at the
   returned root, is a persisted tree of the map the set denotes (later duplicates win):
   the nodes returned for a set are a complete persisted state. *)
From FV Require Import Merkle.SparseSorted Merkle.SparseFromSet Merkle.SparseFromSetGen.

Theorem C13_nodes_from_set :
  forall (Dg : Type) (IF : smt_iface Dg) (kcmp : Dg -> Dg -> comparison),
    (forall a b, kcmp a b = bits_compare (i_bits IF a) (i_bits IF b)) ->
    forall (set : list (Dg * bytes)) (r : Dg) (nodes : list (Dg * @primitive Dg)),
      Forall (fun e => length (i_bits IF (fst e)) = 256%nat) set ->
      nodes_from_set (i_zero IF) (i_hleaf IF) (i_hnode IF) (i_sum IF) (i_kbit IF) (i_kcpl IF) kcmp set = Ok (r, nodes) ->
      exists T, tree_load (i_eqb IF) (i_zero IF) (i_hleaf IF) (i_hnode IF)
                          (fold_left (fun st e => sset (i_eqb IF) st (fst e) (snd e)) nodes []) r = Ok T /\
                persisted IF T (map_of_list (map (fun e => (i_bits IF (fst e), i_sum IF (snd e))) set)).
Proof. exact @nodes_from_set_loadable. Qed.
Print Assumptions C13_nodes_from_set.
