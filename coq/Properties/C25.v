(* Properties/C25.v — Control flow lands exactly where the specification says.
   Only statements, each closed by `exact` of a lemma proved in Vm/FlowProofs.v. *)
From FV Require Import Base.Bytes Base.U64 Vm.FlowSpec Gen.FlowTable Vm.FlowModel Vm.FlowProofs.
From Coq Require Import ZArith.
Open Scope N_scope.

(* every jump handler (any builder chain: mode, condition, dynamic and fixed operand, link
   register), on every instruction word and every register file of u64 values, computes what
   the exact-integer ISA specification says: the new $pc, the stored return address, or the
   panic reason.  (pc + 4 < 2^64 holds for every fetched instruction, see C25_fetch.) *)
Theorem C25_jump_model_is_spec :
  forall (e : jentry) (w : N) (r : N -> N),
    (forall k, r k < U64) -> r REG_PC + 4 < U64 ->
    model_exec e w r = spec_exec e w r.
Proof. exact model_exec_eq_spec. Qed.
Print Assumptions C25_jump_model_is_spec.

(* the handler table extracted from opcodes_impl.rs on this run is the ISA table *)
Theorem C25_handlers_are_isa : jump_table = isa_jump /\ VM_MAX_RAM_gen = VM_MAX_RAM.
Proof. exact (conj gen_table_is_isa max_ram_gen). Qed.
Print Assumptions C25_handlers_are_isa.

(* a taken jump lands exactly on the integer target, which is a memory address *)
Theorem C25_lands :
  forall (m : jmode) (is pc dyn fixed t : N),
    is < U64 -> pc + 4 < U64 -> dyn < U64 -> fixed < U64 ->
    jump_model true m is pc dyn fixed = Some t ->
    Z.of_N t = target_Z m (Z.of_N is) (Z.of_N pc) (Z.of_N dyn) (Z.of_N fixed) /\ t < VM_MAX_RAM.
Proof. exact jump_lands. Qed.
Print Assumptions C25_lands.

(* it panics (MemoryOverflow) exactly when the integer target is negative or >= VM_MAX_RAM *)
Theorem C25_panic_exact :
  forall (m : jmode) (is pc dyn fixed : N),
    is < U64 -> pc + 4 < U64 -> dyn < U64 -> fixed < U64 ->
    (jump_model true m is pc dyn fixed = None <->
     (target_Z m (Z.of_N is) (Z.of_N pc) (Z.of_N dyn) (Z.of_N fixed) < 0 \/
      Z.of_N VM_MAX_RAM <= target_Z m (Z.of_N is) (Z.of_N pc) (Z.of_N dyn) (Z.of_N fixed))%Z).
Proof. exact jump_panics_iff. Qed.
Print Assumptions C25_panic_exact.

(* an untaken conditional jump advances by one instruction *)
Theorem C25_untaken :
  forall (m : jmode) (is pc dyn fixed : N),
    pc + 4 < U64 -> jump_model false m is pc dyn fixed = Some (pc + 4).
Proof. exact jump_untaken. Qed.
Print Assumptions C25_untaken.

(* jump-and-link stores pc + 4 in a writable register; a reserved link register panics *)
Theorem C25_jal_link :
  forall (e : jentry) (w : N) (r : N -> N) (pc' : N) (wr : option (N * N)) (f : rfield),
    (forall k, r k < U64) -> r REG_PC + 4 < U64 -> j_link e = Some f -> field f w <> 0 ->
    model_exec e w r = FOk pc' wr -> wr = Some (field f w, r REG_PC + 4) /\ REG_WRITABLE <= field f w.
Proof. exact jal_links. Qed.
Print Assumptions C25_jal_link.

Theorem C25_jal_reserved :
  forall (e : jentry) (w : N) (r : N -> N) (f : rfield),
    j_link e = Some f -> field f w <> 0 -> field f w < REG_WRITABLE ->
    model_exec e w r = FPanic RReservedRegister.
Proof. exact jal_reserved. Qed.
Print Assumptions C25_jal_reserved.

(* an instruction is fetched (hence executed) iff its 4 bytes are readable memory and its
   address lies in the executable region [$is, $ssp) *)
Theorem C25_fetch :
  forall (is ssp stack_len hp pc : N),
    pc < U64 ->
    (fetch_model is ssp stack_len hp pc = None <->
     (pc + 4 <= VM_MAX_RAM /\ (pc + 4 <= stack_len \/ hp <= pc)) /\ is <= pc /\ pc < ssp).
Proof. exact fetch_ok_iff. Qed.
Print Assumptions C25_fetch.

Theorem C25_fetch_reason :
  forall (is ssp stack_len hp pc reason : N),
    pc < U64 -> fetch_model is ssp stack_len hp pc = Some reason ->
    (reason = PANIC_MemoryOverflow /\ VM_MAX_RAM < pc + 4) \/
    (reason = PANIC_UninitalizedMemoryAccess /\ pc + 4 <= VM_MAX_RAM /\ stack_len < pc + 4 /\ pc < hp) \/
    (reason = PANIC_MemoryNotExecutable /\ pc + 4 <= VM_MAX_RAM /\ (pc < is \/ ssp <= pc)).
Proof. exact fetch_reason. Qed.
Print Assumptions C25_fetch_reason.

(* every opcode whose handler is classified "inc_pc" advances $pc by exactly 4 when it
   succeeds, and a panicking instruction leaves $pc; the classification covers every opcode
   once and the jump class is exactly the 12 entries of the jump table *)
Theorem C25_nonjump_pc4 :
  (forall (op : N) (pc sp : N) (c : option N),
     class_of op = Some KIncPc -> pc + 4 < U64 -> step_pc KIncPc 0 pc sp c = Some (pc + 4)) /\
  (forall (cls : fclass) (pc sp : N) (c : option N), step_pc cls 4 pc sp c = Some pc) /\
  table_ok = true.
Proof.
  exact (conj (fun op pc sp c _ H => step_pc_incpc pc sp c H) (conj step_pc_panic table_ok_true)).
Qed.
Print Assumptions C25_nonjump_pc4.

(* the hypothesis pc + 4 < 2^64 cannot be dropped: at pc = 2^64 - 1 the saturated backward
   offset makes checked_sub land on address 0 where the specification panics *)
Theorem C25_pc_max_refuted :
  exists is pc dyn fixed : N, is < U64 /\ pc < U64 /\ dyn < U64 /\ fixed < U64 /\
    jump_model true RelBwd is pc dyn fixed <> jump_spec true RelBwd is pc dyn fixed.
Proof. exact jump_model_refuted_at_pc_max. Qed.
Print Assumptions C25_pc_max_refuted.
