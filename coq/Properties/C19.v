(* Properties/C19.v — Transaction checking accepts exactly the specification-valid transactions.
   Only statements, each closed by `exact` of a lemma proved in Validity/ValidityProofs.v. *)
From FV Require Import Base.Bytes Base.U64 Validity.ValiditySpec Validity.ValidityModel Validity.ValidityProofs.
From Coq Require Import ZArith.
Open Scope N_scope.

(* the balances recorded by into_checked_basic are, asset by asset, the specification's
   sum of spendable inputs - coin outputs - [asset = base] fee limit (an asset without an entry
   counts as 0), and the retryable amount is the sum of the data-message inputs *)
Theorem C19_balances :
  forall (p : params) (height : N) (t : ctx) (balances : bmap) (retryable : N),
    into_checked_basic p height (TxCharge t) = COk balances retryable ->
    (forall asset, Z.of_N (recorded_balance balances asset) = free_balance_spec p t asset) /\
    Z.of_N retryable = retryable_total t.
Proof. exact balances_recorded_are_spec. Qed.
Print Assumptions C19_balances.

(* coin outputs (plus the fee limit, for the base asset) exceeding the spendable inputs of
   some asset => rejected, whatever else the transaction contains *)
Theorem C19_never_overspend :
  forall (p : params) (height : N) (t : ctx),
    (exists asset, (inputs_total p t asset <
                    coin_outputs_total t asset + (if N.eqb asset (base_asset p) then fee_limit t else 0))%Z) ->
    exists e, into_checked_basic p height (TxCharge t) = CErr e.
Proof. exact overspending_is_rejected. Qed.
Print Assumptions C19_never_overspend.

(* THE property: into_checked_basic accepts (with some recorded balances) exactly the
   transactions that satisfy the declarative, order-free rule set `Valid` of
   Validity/ValiditySpec.v — all six kinds, common rules, kind-specific rules and sufficient
   balance.  The only premise is the type bound of the block height (BlockHeight = u32). *)
Theorem C19_iff :
  forall (p : params) (height : N) (x : tx),
    height <= u32_max ->
    ((exists balances retryable, into_checked_basic p height x = COk balances retryable) <-> Valid p height x).
Proof. exact accepted_iff_valid. Qed.
Print Assumptions C19_iff.

(* the premise of C19_iff is needed by the model (not reachable in the implementation, whose
   heights are u32): beyond 2^32-1 a valid transaction without expiration policy is rejected *)
Theorem C19_iff_height_bound_refuted :
  exists (p : params) (height : N) (x : tx),
    Valid p height x /\ forall balances retryable, into_checked_basic p height x <> COk balances retryable.
Proof. exact height_bound_needed. Qed.
Print Assumptions C19_iff_height_bound_refuted.

(* the two compilations of next_duplicate (std: itertools `duplicates`; no-std: sort + adjacent
   pairs) report a duplicate in exactly the same situations *)
Theorem C19_duplicate_paths_agree :
  forall l : list N, next_duplicate l = None <-> next_duplicate_nostd l = None.
Proof. exact next_duplicate_paths_agree. Qed.
Print Assumptions C19_duplicate_paths_agree.
