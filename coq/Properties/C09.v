(* Properties/C09.v — Binary Merkle roots equal the RFC 6962 tree hash.
   Only statements, each closed by `exact` of a lemma proved elsewhere, and its assumptions. *)
From FV Require Import Base.Bytes Base.U64 Merkle.RFC6962 Merkle.BinaryModel Merkle.BinaryProofs.
Open Scope N_scope.

(* the streaming root calculator (MerkleRootCalculator::push* / root / root_from_iterator) *)
Theorem C09_calculator :
  forall (D : Type) (leaf_sum : bytes -> D) (node_sum : D -> D -> D) (empty_sum : D) (ls : list bytes),
    N.of_nat (length ls) < 2 ^ 63 ->
    root_from_iterator leaf_sum node_sum empty_sum ls = Some (MTH leaf_sum node_sum empty_sum ls).
Proof. exact @calculator_root_is_MTH. Qed.
Print Assumptions C09_calculator.

(* roots rebuilt from leaf hashes (new_from_existing_leaves): MTH over the given digests *)
Theorem C09_from_leaf_hashes :
  forall (D : Type) (node_sum : D -> D -> D) (empty_sum : D) (hs : list D),
    N.of_nat (length hs) < 2 ^ 63 ->
    exists st, from_leaf_hashes node_sum [] hs = Some st /\
               calc_root node_sum empty_sum st = Some (MTH (fun h : D => h) node_sum empty_sum hs).
Proof. exact @from_leaf_hashes_root_is_MTH. Qed.
Print Assumptions C09_from_leaf_hashes.

(* the storage-backed tree (binary::MerkleTree, which in_memory::MerkleTree wraps): pushing
   the leaves never fails, counts them, and root() is the MTH *)
Theorem C09_tree :
  forall (D : Type) (leaf_sum : bytes -> D) (node_sum : D -> D -> D) (empty_sum : D) (ls : list bytes),
    N.of_nat (length ls) < 2 ^ 63 ->
    exists t, tree_of leaf_sum node_sum ls = Some t /\ t_count t = N.of_nat (length ls) /\
              tree_root node_sum empty_sum t = Some (MTH leaf_sum node_sum empty_sum ls).
Proof. exact @tree_root_is_MTH. Qed.
Print Assumptions C09_tree.

(* no leaves: the empty sum (SHA-256 of the empty string in the executable instance) *)
Theorem C09_empty :
  forall (D : Type) (leaf_sum : bytes -> D) (node_sum : D -> D -> D) (empty_sum : D),
    root_from_iterator leaf_sum node_sum empty_sum [] = Some empty_sum /\
    tree_root node_sum empty_sum (@tree_new D) = Some empty_sum /\
    MTH leaf_sum node_sum empty_sum [] = empty_sum.
Proof. intros; repeat split. Qed.
Print Assumptions C09_empty.
