(* Properties/C34.v — Calls and returns preserve the caller's frame.
   Only statements, each closed by `exact` of a lemma proved in Vm/FrameProofs.v, and its
   assumptions.  Level: proof over the abstract machine of Vm/FrameModel.v; the tie to the
   interpreter is the per-step trace validation of Run/Frames.v. *)
From FV Require Import Base.Bytes Base.U64 Gen.VmConsts Vm.OwnModel Vm.OwnProofs Vm.FrameModel Vm.FrameProofs.
Open Scope N_scope.

(* CALL, then ANY callee execution that stays above the caller's depth (any registers, any owned
   writes, stack/heap growth, LDC, nested calls and returns), then the matching return:
   all registers restored except $cgas $ggas $ret $retl $hp, $pc = call pc + 4, frame stack
   (depth) as before, every byte of [vm_hi, caller's $sp) unchanged, $hp not above its old value *)
Theorem C34_roundtrip :
  forall (s0 : vstate) (to asset : bytes) (a b : N) (code : bytes) (amount gas_fwd cgas1 ggas1 : N)
         (s1 : vstate) (ops : list cop) (s2 : vstate),
    Inv s0 ->
    step s0 (CCall to asset a b code amount gas_fwd cgas1 ggas1) = Some s1 ->
    run_above (depth s0) s1 ops = Some s2 ->
    depth s2 = depth s0 ->
    (forall k, preserved_reg k -> v_regs s2 k = v_regs s0 k) /\
    v_regs s2 REG_PC = inc_pc (v_regs s0 REG_PC) /\
    v_frames s2 = v_frames s0 /\
    (forall x, v_vm_hi s0 <= x < v_regs s0 REG_SP -> m_data (v_mem s2) x = m_data (v_mem s0) x) /\
    v_regs s2 REG_HP <= v_regs s0 REG_HP /\
    Inv s2.
Proof. exact call_return_preserves_caller. Qed.
Print Assumptions C34_roundtrip.

(* the two other readings of C34_roundtrip asked for by the property text, stated on their own *)
Theorem C34_stack_unchanged :
  forall (s0 : vstate) (to asset : bytes) (a b : N) (code : bytes) (amount gas_fwd cgas1 ggas1 : N)
         (s1 : vstate) (ops : list cop) (s2 : vstate),
    Inv s0 ->
    step s0 (CCall to asset a b code amount gas_fwd cgas1 ggas1) = Some s1 ->
    run_above (depth s0) s1 ops = Some s2 ->
    depth s2 = depth s0 ->
    forall x, v_vm_hi s0 <= x < v_regs s0 REG_SP -> m_data (v_mem s2) x = m_data (v_mem s0) x.
Proof. exact call_return_stack_unchanged. Qed.
Print Assumptions C34_stack_unchanged.

Theorem C34_depth :
  forall (s0 : vstate) (to asset : bytes) (a b : N) (code : bytes) (amount gas_fwd cgas1 ggas1 : N)
         (s1 : vstate) (ops : list cop) (s2 : vstate),
    Inv s0 ->
    step s0 (CCall to asset a b code amount gas_fwd cgas1 ggas1) = Some s1 ->
    run_above (depth s0) s1 ops = Some s2 ->
    depth s1 = S (depth s0) /\
    (depth s2 = depth s0 -> v_frames s2 = v_frames s0) /\
    (depth s0 <= depth s2)%nat.
Proof. exact call_return_depth. Qed.
Print Assumptions C34_depth.

(* return_from_context: which registers come from the frame and which stay *)
Theorem C34_ret_restores :
  forall (r : regs) (f : frame) (a b : N) (r' : regs),
    ret_regs r (Some f) a b = Some r' ->
    (forall k, preserved_reg k -> r' k = f_regs f k) /\
    r' REG_PC = inc_pc (f_regs f REG_PC) /\
    r' REG_HP = r REG_HP /\ r' REG_GGAS = r REG_GGAS /\ r' REG_RET = a /\ r' REG_RETL = b /\
    r' REG_CGAS = r REG_CGAS + f_regs f REG_CGAS.
Proof. exact ret_regs_restores. Qed.
Print Assumptions C34_ret_restores.

(* callee's initial registers, depth + 1 *)
Theorem C34_callee_init :
  forall (s : vstate) (to asset : bytes) (a b : N) (code : bytes) (amount gas_fwd cgas1 ggas1 : N) (s1 : vstate),
    Inv s -> step s (CCall to asset a b code amount gas_fwd cgas1 ggas1) = Some s1 ->
    let r := v_regs s in
    let r1 := v_regs s1 in
    let code_start := r REG_SP + CF_SIZE in
    r1 REG_FP = r REG_SP /\
    r1 REG_SSP = code_start + padded_len (lenN code) /\ r1 REG_SP = r1 REG_SSP /\
    r1 REG_PC = code_start /\ r1 REG_IS = code_start /\
    r1 REG_BAL = amount /\ r1 REG_FLAG = 0 /\
    r1 REG_CGAS = N.min cgas1 gas_fwd /\ r1 REG_GGAS = ggas1 /\
    (forall k, k <> REG_FP -> k <> REG_SSP -> k <> REG_SP -> k <> REG_PC -> k <> REG_IS -> k <> REG_BAL ->
               k <> REG_FLAG -> k <> REG_CGAS -> k <> REG_GGAS -> r1 k = r k) /\
    depth s1 = S (depth s).
Proof. exact callee_init. Qed.
Print Assumptions C34_callee_init.

(* frame and code are written at the caller's $sp, the frame being the serialized CallFrame *)
Theorem C34_frame_written :
  forall (s : vstate) (to asset : bytes) (a b : N) (code : bytes) (amount gas_fwd cgas1 ggas1 : N) (s1 : vstate),
    Inv s -> step s (CCall to asset a b code amount gas_fwd cgas1 ggas1) = Some s1 ->
    let total := CF_SIZE + padded_len (lenN code) in
    let saved := fst (call_regs (v_regs s) total amount gas_fwd cgas1 ggas1) in
    let f := {| f_to := to; f_asset := asset; f_regs := saved; f_code_size_padded := padded_len (lenN code); f_a := a; f_b := b |} in
    v_regs s1 = snd (call_regs (v_regs s) total amount gas_fwd cgas1 ggas1) /\
    v_frames s1 = f :: v_frames s /\
    v_regs s1 REG_SP = v_regs s REG_SP + total /\
    m_hp (v_mem s1) = m_hp (v_mem s) /\
    (forall x, m_data (v_mem s1) x <> m_data (v_mem s) x -> v_regs s REG_SP <= x < v_regs s REG_SP + total) /\
    (forall x, v_regs s REG_SP <= x < v_regs s REG_SP + total ->
               m_data (v_mem s1) x = nth (N.to_nat (x - v_regs s REG_SP))
                                         (frame_bytes f ++ code ++ zeros (N.to_nat (padded_len (lenN code) - lenN code))) 0).
Proof. exact call_step_facts. Qed.
Print Assumptions C34_frame_written.

Theorem C34_frame_size :
  forall (f : frame) (code : bytes),
    length (f_to f) = 32%nat -> length (f_asset f) = 32%nat ->
    lenN (frame_bytes f ++ code ++ zeros (N.to_nat (padded_len (lenN code) - lenN code))) = CF_SIZE + padded_len (lenN code).
Proof. exact call_payload_length. Qed.
Print Assumptions C34_frame_size.

(* whatever the callee, or anything it calls, owns (C24's regions) lies after the frame and the
   copied code — so it is disjoint from [0, caller's $sp) *)
Theorem C34_callee_owned_after_code :
  forall (s : vstate) (fs : list frame) (f0 : frame) (frames0 : list frame) (x : N),
    Inv s -> v_frames s = fs ++ f0 :: frames0 -> in_owned (cur_owner s) x ->
    f_regs f0 REG_SP + CF_SIZE + f_code_size_padded f0 <= x.
Proof. exact callee_owned_after_code. Qed.
Print Assumptions C34_callee_owned_after_code.

(* heap allocated by the callee: readable by the caller after the return ($hp is not restored) *)
Theorem C34_heap_readable :
  forall (s : vstate) (a n : N),
    Inv s -> v_regs s REG_HP <= a -> a + n <= MEM_SIZE -> verify (v_mem s) a n = Ok (a, a + n).
Proof. exact heap_readable_after_return. Qed.
Print Assumptions C34_heap_readable.

(* ... and the part [new $hp, old $hp) the callee allocated is owned (writable) by the caller *)
Theorem C34_callee_heap_owned_by_caller :
  forall (s0 s2 : vstate) (a n : N),
    Inv s0 -> Inv s2 -> v_frames s2 = v_frames s0 -> v_regs s2 REG_HP <= v_regs s0 REG_HP ->
    0 < n -> v_regs s2 REG_HP <= a -> a + n <= v_regs s0 REG_HP ->
    has_ownership_range (cur_owner s2) a (a + n) = true.
Proof. exact callee_heap_owned_by_caller. Qed.
Print Assumptions C34_callee_heap_owned_by_caller.
