(* Properties/C10.v — Binary Merkle proofs are complete and sound.
   L3: `PATH` (RFC 6962 audit path) and `root_from_path` (the RFC recomputation of the root from a
   leaf hash, an audit path, the leaf index and the tree size; None when the path length does not
   fit (index, size) or the index is out of range). *)
From FV Require Import Base.Bytes Base.U64 Base.Map Merkle.RFC6962 Merkle.RFCFacts Merkle.BinaryModel Merkle.BinaryHistory
     Merkle.VerifyProofs Merkle.ProveProofs Merkle.PositionPathProofs.
Open Scope N_scope.

(* PROVED (L1 prove, in full: every tree of fewer than 2^63 leaves, every index): the proof
   produced by the storage-backed tree built by pushing the leaves is the RFC tree hash and the RFC
   audit path.  No computation bound: the side positions of position_path are characterised in
   general in Merkle/PositionPathProofs.v (C10_sides_all below). *)
Theorem C10_prove_is_PATH :
  forall (D : Type) (leaf_sum : bytes -> D) (node_sum : D -> D -> D) (empty_sum : D) (ls : list bytes) (i : N),
    lenN ls < 2 ^ 63 -> i < lenN ls ->
    exists t, fold_left (fun ot d => match ot with
                                     | Some t => match tree_push leaf_sum node_sum t d with PushOk t' => Some t' | _ => None end
                                     | None => None end) ls (Some tree_new) = Some t /\
              tree_prove node_sum t i =
                ProveOk (MTH leaf_sum node_sum empty_sum ls) (PATH leaf_sum node_sum empty_sum (N.to_nat i) ls).
Proof. intros D lf nd e ls i Hb Hi. exact (prove_is_PATH_pushed_all lf nd e ls i Hb Hi). Qed.
Print Assumptions C10_prove_is_PATH.

(* the same in every state of the tree satisfying the invariant of BinaryHistory.v (any history of
   pushes / resets / reloads) *)
Theorem C10_prove_is_PATH_any_state :
  forall (D : Type) (leaf_sum : bytes -> D) (node_sum : D -> D -> D) (empty_sum : D)
         (t : tree) (ls : list bytes) (i : N),
    tinv leaf_sum node_sum empty_sum t ls -> lenN ls < 2 ^ 63 -> i < lenN ls ->
    tree_prove node_sum t i =
      ProveOk (MTH leaf_sum node_sum empty_sum ls) (PATH leaf_sum node_sum empty_sum (N.to_nat i) ls).
Proof. exact @prove_is_PATH. Qed.
Print Assumptions C10_prove_is_PATH_any_state.

(* the side positions yielded by position_path for (i, count) are the in-order positions of the
   RFC sibling ranges, for every count below 2^63 (general proof, no computation) *)
Theorem C10_sides_all : forall c i, c < 2 ^ 63 -> i < c -> sides_ok i c = true.
Proof. exact sides_ok_all. Qed.
Print Assumptions C10_sides_all.

(* PROVED (L3 level, all sizes): the RFC audit path of leaf i recomputes the tree hash, i.e. the
   completeness half at the level of the specification. *)
Theorem C10_path_recomputes_root :
  forall (D : Type) (leaf_sum : bytes -> D) (node_sum : D -> D -> D) (empty_sum : D)
         (ls : list bytes) (i : nat) (d : bytes),
    (i < length ls)%nat -> nth_error ls i = Some d ->
    root_from_path node_sum (leaf_sum d) (PATH leaf_sum node_sum empty_sum i ls) i (length ls)
      = Some (MTH leaf_sum node_sum empty_sum ls).
Proof. intros D lf nd e ls i d Hi Hd. apply (path_recomputes_root lf nd e (length ls)); auto. Qed.
Print Assumptions C10_path_recomputes_root.

(* PROVED (L1 verify, ALL tuples with num_leaves < 2^64, i.e. every u64 count): the verifier of
   binary/verify.rs (path_length_from_key + the three-phase loop) returns true exactly when the RFC
   recomputation from the same (leaf data, proof set, index, count) is defined and equals the root.
   `D_eqb` is any boolean equality that reflects equality on digests.
   NOTE: an earlier version of verify.rs evaluated `1u64 << height` with height = 64 for
   num_leaves >= 2^63 (panic with overflow checks, wrap to 1 and rejection of valid proofs without);
   this was found while proving this theorem and repaired by fix commit 8940979 (`checked_shl`, break
   when the 2^64-sized subtree is reached).  The model computes `2 ^ height` in N: at height 64 the
   block [0, 2^64) has end 2^64 - 1 >= num_leaves, so the model breaks exactly where the repaired code
   does, and model and code agree on the whole u64 range. *)
Theorem C10_verify_iff :
  forall (D : Type) (leaf_sum : bytes -> D) (node_sum : D -> D -> D) (D_eqb : D -> D -> bool),
    (forall x y, D_eqb x y = true <-> x = y) ->
    forall (root : D) (data : bytes) (proof : list D) (i n : N), n < 2 ^ 64 ->
      verify leaf_sum node_sum D_eqb root data proof i n = true <->
      root_from_path node_sum (leaf_sum data) proof (N.to_nat i) (N.to_nat n) = Some root.
Proof. intros D lf nd eqb He root data proof i n Hn. exact (verify_iff lf nd eqb He root data proof i n Hn). Qed.
Print Assumptions C10_verify_iff.

(* completeness of the L1 verifier: it accepts the RFC audit path of every leaf of every tree *)
Theorem C10_complete :
  forall (D : Type) (leaf_sum : bytes -> D) (node_sum : D -> D -> D) (empty_sum : D) (D_eqb : D -> D -> bool),
    (forall x y, D_eqb x y = true <-> x = y) ->
    forall (ls : list bytes) (i : N) (d : bytes),
      lenN ls < 2 ^ 64 -> nth_error ls (N.to_nat i) = Some d ->
      verify leaf_sum node_sum D_eqb (MTH leaf_sum node_sum empty_sum ls) d
             (PATH leaf_sum node_sum empty_sum (N.to_nat i) ls) i (lenN ls) = true.
Proof. intros D lf nd e eqb He ls i d Hb Hd. exact (verify_complete lf nd e eqb He ls i d Hb Hd). Qed.
Print Assumptions C10_complete.

(* soundness of the L1 verifier, collision-freeness of the node hash as an explicit premise
   (injectivity): a tuple accepted against the tree hash of `ls` with num_leaves = |ls| proves that
   a leaf with the same leaf hash sits at that index, and the proof set is the RFC audit path. *)
Theorem C10_sound :
  forall (D : Type) (leaf_sum : bytes -> D) (node_sum : D -> D -> D) (empty_sum : D) (D_eqb : D -> D -> bool),
    (forall x y, D_eqb x y = true <-> x = y) ->
    (forall a b c d, node_sum a b = node_sum c d -> a = c /\ b = d) ->
    forall (ls : list bytes) (data : bytes) (proof : list D) (i : N),
      lenN ls < 2 ^ 64 ->
      verify leaf_sum node_sum D_eqb (MTH leaf_sum node_sum empty_sum ls) data proof i (lenN ls) = true ->
      exists d, nth_error ls (N.to_nat i) = Some d /\ leaf_sum data = leaf_sum d /\
                proof = PATH leaf_sum node_sum empty_sum (N.to_nat i) ls.
Proof. intros D lf nd e eqb He Hinj ls data proof i Hb H. exact (verify_sound lf nd e eqb He ls data proof i Hinj Hb H). Qed.
Print Assumptions C10_sound.

(* PROVED (L1 prove, every state of the storage-backed tree satisfying the invariant `tinv` of
   BinaryHistory.v — established by any history of pushes/resets/reloads — and fewer than 2^63
   leaves): if the side positions computed by position_path for (i, count) are the in-order
   positions of the RFC sibling ranges (`sides_ok`, a boolean computed from i and count only),
   then MerkleTree::prove returns the RFC tree hash and the RFC audit path.  Proved in general:
   root_node's scratch table holds exactly the joins of the imperfect suffix blocks, scratch lookups
   never shadow a complete block, the node table holds every complete block (SI). *)
Theorem C10_prove_is_PATH_given_sides :
  forall (D : Type) (leaf_sum : bytes -> D) (node_sum : D -> D -> D) (empty_sum : D)
         (t : tree) (ls : list bytes) (i : N),
    tinv leaf_sum node_sum empty_sum t ls -> lenN ls < 2 ^ 63 -> i < lenN ls ->
    sides_ok i (lenN ls) = true ->
    tree_prove node_sum t i =
      ProveOk (MTH leaf_sum node_sum empty_sum ls) (PATH leaf_sum node_sum empty_sum (N.to_nat i) ls).
Proof. exact @prove_is_PATH_given_sides. Qed.
Print Assumptions C10_prove_is_PATH_given_sides.

(* the premise holds for every leaf of every tree of up to 128 leaves (exhaustive computation,
   bound in the statement; superseded by C10_sides_all, kept as an independent check) *)
Theorem C10_sides_checked : forall c i, c <= 128 -> i < c -> sides_ok i c = true.
Proof. exact sides_ok_128. Qed.
Print Assumptions C10_sides_checked.

(* earlier PARTIAL version of C10_prove_is_PATH (trees of up to 128 leaves, sides checked by computation), kept *)
Theorem C10_prove_is_PATH_partial :
  forall (D : Type) (leaf_sum : bytes -> D) (node_sum : D -> D -> D) (empty_sum : D) (ls : list bytes) (i : N),
    lenN ls <= 128 -> i < lenN ls ->
    exists t, fold_left (fun ot d => match ot with
                                     | Some t => match tree_push leaf_sum node_sum t d with PushOk t' => Some t' | _ => None end
                                     | None => None end) ls (Some tree_new) = Some t /\
              tree_prove node_sum t i =
                ProveOk (MTH leaf_sum node_sum empty_sum ls) (PATH leaf_sum node_sum empty_sum (N.to_nat i) ls).
Proof.
  intros D lf nd e ls i Hn Hi.
  apply (prove_is_PATH_pushed lf nd e ls i); [|exact Hi|apply sides_ok_128; assumption].
  apply N.le_lt_trans with 128; [exact Hn | reflexivity].
Qed.
Print Assumptions C10_prove_is_PATH_partial.

(* non-vacuity of the premises: a digest type with a reflecting boolean equality and an injective
   node hash exists (free hash terms), and the verifier accepts/rejects concrete tuples over it *)
Inductive hterm := HLeaf (b : bytes) | HNode (l r : hterm) | HEmpty.
Fixpoint hterm_eqb (x y : hterm) : bool :=
  match x, y with
  | HLeaf a, HLeaf b => bytes_eqb a b
  | HNode a b, HNode c d => hterm_eqb a c && hterm_eqb b d
  | HEmpty, HEmpty => true
  | _, _ => false
  end.
Example C10_premises_inhabited :
  (forall x y, hterm_eqb x y = true <-> x = y) /\
  (forall a b c d, HNode a b = HNode c d -> a = c /\ b = d) /\
  verify HLeaf HNode hterm_eqb (MTH HLeaf HNode HEmpty [[1]; [2]; [3]; [4]; [5]]) [4]
         (PATH HLeaf HNode HEmpty 3 [[1]; [2]; [3]; [4]; [5]]) 3 5 = true /\
  verify HLeaf HNode hterm_eqb (MTH HLeaf HNode HEmpty [[1]; [2]; [3]; [4]; [5]]) [3]
         (PATH HLeaf HNode HEmpty 3 [[1]; [2]; [3]; [4]; [5]]) 3 5 = false.
Proof.
  split; [|split; [|split; vm_compute; reflexivity]].
  - induction x as [a|a IHa b IHb|]; destruct y as [c|c d|]; cbn [hterm_eqb]; try (split; discriminate).
    + rewrite bytes_eqb_eq. split; congruence.
    + rewrite andb_true_iff, IHa, IHb. split; [intros [-> ->]; reflexivity | intros E; injection E; auto].
    + split; reflexivity.
  - intros a b c d E. injection E; auto.
Qed.
