(* Properties/C10.v — Binary Merkle proofs are complete and sound.
   L3: `PATH` (RFC 6962 audit path) and `root_from_path` (the RFC recomputation of the root from a
   leaf hash, an audit path, the leaf index and the tree size; None when the path length does not
   fit (index, size) or the index is out of range). *)
From FV Require Import Base.Bytes Base.U64 Merkle.RFC6962 Merkle.RFCFacts Merkle.BinaryModel.
Open Scope N_scope.

(* FULL statements still open for the L1 model (kept as definitions, never as theorems):
   (a) the verifier accepts exactly when the RFC recomputation reaches the root, for ALL tuples;
   (b) the proof produced by the tree is the RFC audit path. *)
Definition C10_verify_iff_statement : Prop :=
  forall (D : Type) (leaf_sum : bytes -> D) (node_sum : D -> D -> D) (D_eqb : D -> D -> bool),
    (forall x y, D_eqb x y = true <-> x = y) ->
    forall (root : D) (data : bytes) (proof : list D) (i n : N), n <= 2 ^ 63 ->
      verify leaf_sum node_sum D_eqb root data proof i n = true <->
      root_from_path node_sum (leaf_sum data) proof (N.to_nat i) (N.to_nat n) = Some root.
Definition C10_prove_is_PATH_statement : Prop :=
  forall (D : Type) (leaf_sum : bytes -> D) (node_sum : D -> D -> D) (empty_sum : D) (ls : list bytes) (i : N),
    lenN ls < 2 ^ 63 -> i < lenN ls ->
    exists t, fold_left (fun ot d => match ot with
                                     | Some t => match tree_push leaf_sum node_sum t d with PushOk t' => Some t' | _ => None end
                                     | None => None end) ls (Some tree_new) = Some t /\
              tree_prove node_sum t i =
                ProveOk (MTH leaf_sum node_sum empty_sum ls) (PATH leaf_sum node_sum empty_sum (N.to_nat i) ls).

(* PROVED (L3 level, all sizes): the RFC audit path of leaf i recomputes the tree hash, i.e. the
   completeness half at the level of the specification both (a) and (b) refer to. *)
Theorem C10_path_recomputes_root :
  forall (D : Type) (leaf_sum : bytes -> D) (node_sum : D -> D -> D) (empty_sum : D)
         (ls : list bytes) (i : nat) (d : bytes),
    (i < length ls)%nat -> nth_error ls i = Some d ->
    root_from_path node_sum (leaf_sum d) (PATH leaf_sum node_sum empty_sum i ls) i (length ls)
      = Some (MTH leaf_sum node_sum empty_sum ls).
Proof. intros D lf nd e ls i d Hi Hd. apply (path_recomputes_root lf nd e (length ls)); auto. Qed.
Print Assumptions C10_path_recomputes_root.
