(* Properties/C16.v — The two secp256k1 backends agree on every signature.
   Only statements, each closed by a lemma proved in Crypto/EcdsaProofs.v / EcdsaWitness.v.
   The group is abstract: [group_laws] (Crypto/EcdsaSpec.v) is an explicit premise. *)
From Coq Require Import ZArith List Bool.
From FV Require Import Base.Bytes Crypto.EcdsaModel Crypto.EcdsaSpec Crypto.EcdsaProofs
                       Crypto.Secp256k1 Crypto.EcdsaWitness.
Open Scope Z_scope.

(* recover under rule set A = recover under rule set B on every input
   iff the effective tests on s coincide on [1,n) *)
Theorem C16_recover_same_rules :
  forall (point : Type) (pt_eqb : point -> point -> bool) (add : point -> point -> point)
         (neg : point -> point) (zero : point) (smul : Z -> point -> point) (G : point) (n : Z)
         (x_of : point -> Z) (y_odd : point -> bool) (lift_x : Z -> bool -> option point),
    group_laws point pt_eqb add neg zero smul G n x_of y_odd lift_x ->
    forall A B : rules,
      (forall r s v z, recover_rsv point pt_eqb add zero smul G n x_of lift_x A r s v z =
                       recover_rsv point pt_eqb add zero smul G n x_of lift_x B r s v z) <->
      (forall s, 1 <= s < n -> rec_s_eff A s = rec_s_eff B s).
Proof. exact recover_same_rules_iff. Qed.
Print Assumptions C16_recover_same_rules.

Theorem C16_verify_same_rules :
  forall (point : Type) (pt_eqb : point -> point -> bool) (add : point -> point -> point)
         (neg : point -> point) (zero : point) (smul : Z -> point -> point) (G : point) (n : Z)
         (x_of : point -> Z) (y_odd : point -> bool) (lift_x : Z -> bool -> option point),
    group_laws point pt_eqb add neg zero smul G n x_of y_odd lift_x ->
    forall A B : rules,
      (forall Q r s z, verify_rsv point pt_eqb add zero smul G n x_of A Q r s z =
                       verify_rsv point pt_eqb add zero smul G n x_of B Q r s z) <->
      (forall s, 1 <= s < n -> ver_s_ok A s = ver_s_ok B s).
Proof. exact verify_same_rules_iff. Qed.
Print Assumptions C16_verify_same_rules.

(* the rule sets read off the two real back-ends: k256's re-verification inside recover is exactly a
   high-s filter on top of what libsecp256k1 computes *)
Theorem C16_k256_recover_is_high_s_filter :
  forall (point : Type) (pt_eqb : point -> point -> bool) (add : point -> point -> point)
         (neg : point -> point) (zero : point) (smul : Z -> point -> point) (G : point) (n : Z)
         (x_of : point -> Z) (y_odd : point -> bool) (lift_x : Z -> bool -> option point),
    group_laws point pt_eqb add neg zero smul G n x_of y_odd lift_x ->
    forall r s v z,
      recover_rsv point pt_eqb add zero smul G n x_of lift_x (rules_k256 n) r s v z =
      (if low_s n s then recover_rsv point pt_eqb add zero smul G n x_of lift_x (rules_libsecp n) r s v z else None).
Proof.
  intros. rewrite (k256_recover_is_high_s_filter _ _ _ _ _ _ _ _ _ _ _ H), (libsecp_recover_is_core _ _ _ _ _ _ _ _ _ _ _ H).
  reflexivity.
Qed.
Print Assumptions C16_k256_recover_is_high_s_filter.

(* verification: the two back-ends agree on every 64-byte signature, key and 32-byte message *)
Theorem C16_backends_verify_agree :
  forall (point : Type) (pt_eqb : point -> point -> bool) (add : point -> point -> point)
         (zero : point) (smul : Z -> point -> point) (G : point) (n : Z) (x_of : point -> Z)
         (sig : bytes) (Q : point) (msg : bytes),
    verify point pt_eqb add zero smul G n x_of (rules_k256 n) sig Q msg =
    verify point pt_eqb add zero smul G n x_of (rules_libsecp n) sig Q msg.
Proof. reflexivity. Qed.
Print Assumptions C16_backends_verify_agree.

(* recovery: they agree on every signature whose s is in the lower half ... *)
Theorem C16_backends_recover_agree_low_s :
  forall (point : Type) (pt_eqb : point -> point -> bool) (add : point -> point -> point)
         (neg : point -> point) (zero : point) (smul : Z -> point -> point) (G : point) (n : Z)
         (x_of : point -> Z) (y_odd : point -> bool) (lift_x : Z -> bool -> option point),
    group_laws point pt_eqb add neg zero smul G n x_of y_odd lift_x ->
    forall sig msg : bytes,
      is_high n (sig_s (fst (decode_signature sig))) = false ->
      recover point pt_eqb add zero smul G n x_of lift_x (rules_k256 n) sig msg =
      recover point pt_eqb add zero smul G n x_of lift_x (rules_libsecp n) sig msg.
Proof. exact recover_backends_agree_low_s. Qed.
Print Assumptions C16_backends_recover_agree_low_s.

(* ... and for EVERY s in the upper half there is a signature on which they differ *)
Theorem C16_backends_recover_differ_high_s :
  forall (point : Type) (pt_eqb : point -> point -> bool) (add : point -> point -> point)
         (neg : point -> point) (zero : point) (smul : Z -> point -> point) (G : point) (n : Z)
         (x_of : point -> Z) (y_odd : point -> bool) (lift_x : Z -> bool -> option point),
    group_laws point pt_eqb add neg zero smul G n x_of y_odd lift_x ->
    forall s, 1 <= s < n -> is_high n s = true ->
      exists r v z Q,
        recover_rsv point pt_eqb add zero smul G n x_of lift_x (rules_libsecp n) r s v z = Some Q /\
        recover_rsv point pt_eqb add zero smul G n x_of lift_x (rules_k256 n) r s v z = None.
Proof. exact backends_recover_differ_high_s. Qed.
Print Assumptions C16_backends_recover_differ_high_s.

(* the full statement for recovery, on the executable secp256k1 instance, and its refutation (F5) *)
Definition C16_full_statement : Prop :=
  forall sig msg : bytes,
    m_recover secp256k1_pure (rules_k256 n_k1) sig msg =
    m_recover secp256k1_pure (rules_libsecp n_k1) sig msg.

Theorem C16_refuted : ~ C16_full_statement.
Proof.
  intros H. destruct f5_backends_disagree as [H1 H2].
  rewrite H in H2. rewrite H1 in H2. discriminate H2.
Qed.
Print Assumptions C16_refuted.

(* the suggested fix (k256 back-end: if s is high, replace s by n - s and flip the parity before
   recovering) makes the two back-ends agree on every input *)
Theorem C16_fix_restores_agreement :
  forall (point : Type) (pt_eqb : point -> point -> bool) (add : point -> point -> point)
         (neg : point -> point) (zero : point) (smul : Z -> point -> point) (G : point) (n : Z)
         (x_of : point -> Z) (y_odd : point -> bool) (lift_x : Z -> bool -> option point),
    group_laws point pt_eqb add neg zero smul G n x_of y_odd lift_x ->
    forall r s v z,
      recover_rsv_normalising point pt_eqb add zero smul G n x_of lift_x (rules_k256 n) r s v z =
      recover_rsv point pt_eqb add zero smul G n x_of lift_x (rules_libsecp n) r s v z.
Proof. exact k256_normalising_agrees. Qed.
Print Assumptions C16_fix_restores_agreement.
