(* Properties/C16.v — The two secp256k1 backends agree on every signature.
   Only statements, each closed by a lemma proved in Crypto/EcdsaProofs.v / EcdsaWitness.v.
   The group is abstract: [group_laws] (Crypto/EcdsaSpec.v) is an explicit premise. *)
From Coq Require Import ZArith List Bool.
From FV Require Import Base.Bytes Crypto.EcdsaModel Crypto.EcdsaSpec Crypto.EcdsaProofs
                       Crypto.Secp256k1 Crypto.EcdsaWitness Crypto.EcdsaToy.
Open Scope Z_scope.

(* recover under rule set A = recover under rule set B on every input
   iff the effective tests on s coincide on [1,n) *)
Theorem C16_recover_same_rules :
  forall (point : Type) (pt_eqb : point -> point -> bool) (add : point -> point -> point)
         (neg : point -> point) (zero : point) (smul : Z -> point -> point) (G : point) (n : Z)
         (x_of : point -> Z) (y_odd : point -> bool) (lift_x : Z -> bool -> option point),
    group_laws point pt_eqb add neg zero smul G n x_of y_odd lift_x ->
    forall A B : rules,
      (forall r s v z, recover_rsv point pt_eqb add zero smul G n x_of lift_x A r s v z =
                       recover_rsv point pt_eqb add zero smul G n x_of lift_x B r s v z) <->
      (forall s, 1 <= s < n -> rec_s_eff A s = rec_s_eff B s).
Proof. exact recover_same_rules_iff. Qed.
Print Assumptions C16_recover_same_rules.

Theorem C16_verify_same_rules :
  forall (point : Type) (pt_eqb : point -> point -> bool) (add : point -> point -> point)
         (neg : point -> point) (zero : point) (smul : Z -> point -> point) (G : point) (n : Z)
         (x_of : point -> Z) (y_odd : point -> bool) (lift_x : Z -> bool -> option point),
    group_laws point pt_eqb add neg zero smul G n x_of y_odd lift_x ->
    forall A B : rules,
      (forall Q r s z, verify_rsv point pt_eqb add zero smul G n x_of A Q r s z =
                       verify_rsv point pt_eqb add zero smul G n x_of B Q r s z) <->
      (forall s, 1 <= s < n -> ver_s_ok A s = ver_s_ok B s).
Proof. exact verify_same_rules_iff. Qed.
Print Assumptions C16_verify_same_rules.

(* HEADLINE (recover): on every 64-byte signature and 32-byte message the k256 back-end
   (k256.rs recover: decode, normalise s and flip the parity, recover_from_prehash = rules_k256) and the
   libsecp256k1 back-end (secp256k1.rs recover = rules_libsecp) return the same key or both fail *)
Theorem C16_backends_recover_agree :
  forall (point : Type) (pt_eqb : point -> point -> bool) (add : point -> point -> point)
         (neg : point -> point) (zero : point) (smul : Z -> point -> point) (G : point) (n : Z)
         (x_of : point -> Z) (y_odd : point -> bool) (lift_x : Z -> bool -> option point),
    group_laws point pt_eqb add neg zero smul G n x_of y_odd lift_x ->
    forall sig msg : bytes,
      recover_norm point pt_eqb add zero smul G n x_of lift_x (rules_k256 n) sig msg =
      recover point pt_eqb add zero smul G n x_of lift_x (rules_libsecp n) sig msg.
Proof. exact backends_recover_agree. Qed.
Print Assumptions C16_backends_recover_agree.

(* the same on decoded (r, s, parity, z), for all integers *)
Theorem C16_backends_recover_agree_rsv :
  forall (point : Type) (pt_eqb : point -> point -> bool) (add : point -> point -> point)
         (neg : point -> point) (zero : point) (smul : Z -> point -> point) (G : point) (n : Z)
         (x_of : point -> Z) (y_odd : point -> bool) (lift_x : Z -> bool -> option point),
    group_laws point pt_eqb add neg zero smul G n x_of y_odd lift_x ->
    forall r s v z,
      recover_rsv_normalising point pt_eqb add zero smul G n x_of lift_x (rules_k256 n) r s v z =
      recover_rsv point pt_eqb add zero smul G n x_of lift_x (rules_libsecp n) r s v z.
Proof. exact k256_normalising_agrees. Qed.
Print Assumptions C16_backends_recover_agree_rsv.

(* why the normalisation step is needed: the ecdsa crate's recover_from_prehash (recover_rsv under
   rules_k256: it re-verifies with the recovered key) is exactly a high-s filter on top of what
   libsecp256k1 computes *)
Theorem C16_k256_recover_is_high_s_filter :
  forall (point : Type) (pt_eqb : point -> point -> bool) (add : point -> point -> point)
         (neg : point -> point) (zero : point) (smul : Z -> point -> point) (G : point) (n : Z)
         (x_of : point -> Z) (y_odd : point -> bool) (lift_x : Z -> bool -> option point),
    group_laws point pt_eqb add neg zero smul G n x_of y_odd lift_x ->
    forall r s v z,
      recover_rsv point pt_eqb add zero smul G n x_of lift_x (rules_k256 n) r s v z =
      (if low_s n s then recover_rsv point pt_eqb add zero smul G n x_of lift_x (rules_libsecp n) r s v z else None).
Proof.
  intros. rewrite (k256_recover_is_high_s_filter _ _ _ _ _ _ _ _ _ _ _ H), (libsecp_recover_is_core _ _ _ _ _ _ _ _ _ _ _ H).
  reflexivity.
Qed.
Print Assumptions C16_k256_recover_is_high_s_filter.

(* HEADLINE (verify): the two back-ends agree on every 64-byte signature, key and 32-byte message *)
Theorem C16_backends_verify_agree :
  forall (point : Type) (pt_eqb : point -> point -> bool) (add : point -> point -> point)
         (zero : point) (smul : Z -> point -> point) (G : point) (n : Z) (x_of : point -> Z)
         (sig : bytes) (Q : point) (msg : bytes),
    verify point pt_eqb add zero smul G n x_of (rules_k256 n) sig Q msg =
    verify point pt_eqb add zero smul G n x_of (rules_libsecp n) sig Q msg.
Proof. reflexivity. Qed.
Print Assumptions C16_backends_verify_agree.

(* corpus case F5 (r = Gx, s = n/2 + 1, digest 1; the input on which the back-ends differed before fix
   378a736), evaluated on the executable secp256k1 instance: both models return the same key, which is
   the key both real back-ends return *)
Theorem C16_F5_corpus_case_agrees :
  m_recover_k256 secp256k1_pure f5_sig f5_msg = Some f5_key /\
  m_recover secp256k1_pure (rules_libsecp n_k1) f5_sig f5_msg = Some f5_key.
Proof. exact f5_backends_agree. Qed.
Print Assumptions C16_F5_corpus_case_agrees.

(* signing: with the nonce derivation as an oracle of (key, digest octets) — k256 reduces the digest
   modulo n first, libsecp256k1 does not — the two back-ends produce the same signature for every
   message whose integer value is below n (no premise on the group) *)
Theorem C16_sign_agree_below_n :
  forall (point : Type) (pt_eqb : point -> point -> bool) (zero : point) (smul : Z -> point -> point)
         (G : point) (n : Z) (x_of : point -> Z) (y_odd : point -> bool)
         (nonce : Z -> Z -> Z) (d : Z) (msg : bytes),
    bytes_z msg < n ->
    sign_det point pt_eqb zero smul G n x_of y_odd nonce true d msg =
    sign_det point pt_eqb zero smul G n x_of y_odd nonce false d msg.
Proof. exact sign_det_agree_below_n. Qed.
Print Assumptions C16_sign_agree_below_n.

(* ... and the unrestricted statement is refuted (known finding backend-sign-mismatch-message-ge-n):
   for a message >= n a nonce oracle can separate m from m mod n, and the real libraries do:
   d = 1, m = ff..ff gives two different signatures, both valid for the key G *)
Definition C16_sign_full_statement : Prop :=
  forall (point : Type) (pt_eqb : point -> point -> bool) (zero : point) (smul : Z -> point -> point)
         (G : point) (n : Z) (x_of : point -> Z) (y_odd : point -> bool)
         (nonce : Z -> Z -> Z) (d : Z) (msg : bytes),
    sign_det point pt_eqb zero smul G n x_of y_odd nonce true d msg =
    sign_det point pt_eqb zero smul G n x_of y_odd nonce false d msg.

Theorem C16_sign_ge_n_refuted : ~ C16_sign_full_statement.
Proof.
  intros H. destruct toy_sign_det_differs_ge_n as [_ Hne]. apply Hne. apply H.
Qed.
Print Assumptions C16_sign_ge_n_refuted.

Theorem C16_sign_ge_n_library_witness :
  bytes_z sgn_msg >= n_k1 /\ sgn_k256 <> sgn_libsecp /\
  m_recover secp256k1_pure (rules_libsecp n_k1) sgn_k256 sgn_msg = pk_bytes (a_G secp256k1_pure) /\
  m_recover secp256k1_pure (rules_libsecp n_k1) sgn_libsecp sgn_msg = pk_bytes (a_G secp256k1_pure).
Proof. exact sign_ge_n_witness. Qed.
Print Assumptions C16_sign_ge_n_library_witness.
