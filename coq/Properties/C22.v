(* Properties/C22.v — Wide-integer instructions follow the specification.
   Only statements, each closed by `exact` of a lemma proved in Alu/AluProofs.v.
   Model: Alu/AluModel.v (+ generated Gen/AluTable.v); specification: Alu/AluSpec.v. *)
From Coq Require Import ZArith List.
From FV Require Import Alu.AluSyntax Gen.AluTable Alu.AluModel Alu.AluSpec Alu.AluProofs Alu.AluMemTable.
From FV Require Vm.OwnModel.
Open Scope N_scope.

(* every wide instruction, once its immediate decodes and its operands are readable: compares write
   the specified value to the destination register; the others realise the specified outcome
   (panic reason, or value written big-endian at MEM[$rA], $of, $err, pc + 4, nothing else) *)
Theorem C22_op :
  forall (cost guess : N) (i : instr) (s : state),
    cost <= regs s REG_CGAS -> (forall r, regs s r < U64) -> (forall a, m_byte (memo s) a < 256) ->
    match alu_table (i_op i) with
    | K_wcmp w => forall mode ind l r,
        compare_from_imm (i_imm i) = Some (mode, ind) -> 16 <= i_ra i ->
        read_wide w (memo (charged cost s)) (regs (charged cost s) (i_rb i)) = ROk l ->
        read_arg w ind (memo (charged cost s)) (regs (charged cost s) (i_rc i)) = ROk r ->
        exists s', exec_alu cost guess i s = Done s' /\
          Z.of_N (regs s' (i_ra i)) =
            wide_cmp_spec (Z.of_N (wbits w)) (Z.of_N (compare_mode_code mode)) (Z.of_N l) (Z.of_N r) /\
          regs s' REG_OF = 0 /\ regs s' REG_ERR = 0 /\
          regs s' REG_PC = saturating_add U64 (regs (charged cost s) REG_PC) INSTRUCTION_SIZE /\
          (forall x, x <> i_ra i -> x <> REG_OF -> x <> REG_ERR -> x <> REG_PC -> regs s' x = regs (charged cost s) x) /\
          memo s' = memo (charged cost s)
    | K_wop w => forall op ind l r,
        math_from_imm (i_imm i) = Some (op, ind) ->
        read_wide w (memo (charged cost s)) (regs (charged cost s) (i_rb i)) = ROk l ->
        read_arg w ind (memo (charged cost s)) (regs (charged cost s) (i_rc i)) = ROk r ->
        wide_meets_spec w (charged cost s) (regs (charged cost s) (i_ra i))
          (wide_op_spec (is_wrapping s) (Z.of_N (wbits w)) (Z.of_N (wide_mathop_code op)) (Z.of_N l) (Z.of_N r))
          (exec_alu cost guess i s)
    | K_wmul w => forall il ir l r,
        mul_from_imm (i_imm i) = Some (il, ir) ->
        read_arg w il (memo (charged cost s)) (regs (charged cost s) (i_rb i)) = ROk l ->
        read_arg w ir (memo (charged cost s)) (regs (charged cost s) (i_rc i)) = ROk r ->
        wide_meets_spec w (charged cost s) (regs (charged cost s) (i_ra i))
          (wide_mul_spec (is_wrapping s) (Z.of_N (wbits w)) (Z.of_N l) (Z.of_N r)) (exec_alu cost guess i s)
    | K_wdiv w => forall ir l r,
        div_from_imm (i_imm i) = Some ir ->
        read_wide w (memo (charged cost s)) (regs (charged cost s) (i_rb i)) = ROk l ->
        read_arg w ir (memo (charged cost s)) (regs (charged cost s) (i_rc i)) = ROk r ->
        wide_meets_spec w (charged cost s) (regs (charged cost s) (i_ra i))
          (wide_div_spec (is_unsafe_math s) (Z.of_N l) (Z.of_N r)) (exec_alu cost guess i s)
    | K_wmuldiv w => forall l r t,
        read_wide w (memo (charged cost s)) (regs (charged cost s) (i_rb i)) = ROk l ->
        read_wide w (memo (charged cost s)) (regs (charged cost s) (i_rc i)) = ROk r ->
        read_wide w (memo (charged cost s)) (regs (charged cost s) (i_rd i)) = ROk t ->
        wide_meets_spec w (charged cost s) (regs (charged cost s) (i_ra i))
          (wide_muldiv_spec (is_wrapping s) (Z.of_N (wbits w)) (Z.of_N l) (Z.of_N r) (Z.of_N t)) (exec_alu cost guess i s)
    | K_waddmod w => forall l r t,
        read_wide w (memo (charged cost s)) (regs (charged cost s) (i_rb i)) = ROk l ->
        read_wide w (memo (charged cost s)) (regs (charged cost s) (i_rc i)) = ROk r ->
        read_wide w (memo (charged cost s)) (regs (charged cost s) (i_rd i)) = ROk t ->
        wide_meets_spec w (charged cost s) (regs (charged cost s) (i_ra i))
          (wide_addmod_spec (is_unsafe_math s) (Z.of_N l) (Z.of_N r) (Z.of_N t)) (exec_alu cost guess i s)
    | K_wmulmod w => forall l r t,
        read_wide w (memo (charged cost s)) (regs (charged cost s) (i_rb i)) = ROk l ->
        read_wide w (memo (charged cost s)) (regs (charged cost s) (i_rc i)) = ROk r ->
        read_wide w (memo (charged cost s)) (regs (charged cost s) (i_rd i)) = ROk t ->
        wide_meets_spec w (charged cost s) (regs (charged cost s) (i_ra i))
          (wide_mulmod_spec (is_unsafe_math s) (Z.of_N l) (Z.of_N r) (Z.of_N t)) (exec_alu cost guess i s)
    | _ => True
    end.
Proof. exact c22_exec_correct. Qed.
Print Assumptions C22_op.

(* the predicate used above, spelled out: what it means for an outcome to realise a specified
   wide result at destination address `dest` from state s1 *)
Theorem C22_meets_spec_unfold :
  forall (w : width) (s1 : state) (dest : N) (ws : wide_outcome) (out : outcome),
    wide_meets_spec w s1 dest ws out =
    match ws with
    | W_panic r => out = Panic r s1
    | W_reg _ => False
    | W_mem v o e =>
      exists vN, Z.of_N vN = v /\ vN < wmod w /\
      match mem_write (ownership_registers s1) (memo s1) dest (be_encode (wbytes w) vN) with
      | RErr r => exists s'', out = Panic r s'' /\ memo s'' = memo s1 /\
                    (forall x, x <> REG_OF -> x <> REG_ERR -> regs s'' x = regs s1 x)
      | ROk m' => exists s', out = Done s' /\ memo s' = m' /\ Z.of_N (regs s' REG_OF) = o /\ Z.of_N (regs s' REG_ERR) = e /\
                    regs s' REG_PC = saturating_add U64 (regs s1 REG_PC) INSTRUCTION_SIZE /\
                    (forall x, x <> REG_OF -> x <> REG_ERR -> x <> REG_PC -> regs s' x = regs s1 x) /\
                    prev_hp s' = prev_hp s1
      end
    end.
Proof. exact (fun w s1 dest ws out => eq_refl). Qed.
Print Assumptions C22_meets_spec_unfold.

(* operands are read as big-endian integers from an accessible range *)
Theorem C22_reads_be :
  forall (w : width) (m : mem) (a v : N), read_wide w m a = ROk v ->
    Z.of_N v = be_value (map Z.of_N (bytes_at (m_byte m) a (wbytes w))) /\
    a + N.of_nat (wbytes w) <= MEM_SIZE /\
    (a + N.of_nat (wbytes w) <= m_stack_len m \/ m_hp m <= a).
Proof. exact read_wide_be. Qed.
Print Assumptions C22_reads_be.

(* the destination write: owned, accessible, exactly the bytes, nothing else; and it reads back *)
Theorem C22_writes_dest :
  forall (o : owner) (m : mem) (d : N) (data : bytes) (m' : mem), mem_write o m d data = ROk m' ->
    d + lenN data <= MEM_SIZE /\ (d + lenN data <= m_stack_len m \/ m_hp m <= d) /\
    has_ownership_range o d (d + lenN data) = true /\
    bytes_at (m_byte m') d (length data) = data /\
    (forall a, a < d \/ d + lenN data <= a -> m_byte m' a = m_byte m a) /\
    m_stack_len m' = m_stack_len m /\ m_hp m' = m_hp m.
Proof. exact mem_write_spec. Qed.
Print Assumptions C22_writes_dest.

Theorem C22_write_then_read :
  forall (w : width) (o : owner) (m : mem) (d v : N) (m' : mem), v < wmod w ->
    mem_write o m d (be_encode (wbytes w) v) = ROk m' -> read_wide w m' d = ROk v.
Proof. exact write_then_read. Qed.
Print Assumptions C22_write_then_read.

(* panic table: undecodable immediate; unreadable first operand *)
Theorem C22_invalid_imm :
  forall (cost guess : N) (i : instr) (s : state), imm_decodes i = false -> cost <= regs s REG_CGAS ->
    exec_alu cost guess i s = Panic InvalidImmediateValue (charged cost s).
Proof. exact wide_invalid_imm. Qed.
Print Assumptions C22_invalid_imm.

Theorem C22_imm_decoders : forall imm : N, imm < 64 -> imm_check imm = true.
Proof. exact wide_imm_ok. Qed.
Print Assumptions C22_imm_decoders.

Theorem C22_read_panics :
  forall (w : width) (s : state) (d b c dd : N) (e : reason),
    read_wide w (memo s) b = RErr e ->
    (forall op ind, alu_wideint_op w d b c (op, ind) s = Panic e s) /\
    (forall ir, alu_wideint_div w d b c ir s = Panic e s) /\
    (forall ir, alu_wideint_mul w d b c (true, ir) s = Panic e s) /\
    alu_wideint_muldiv w d b c dd s = Panic e s /\ alu_wideint_addmod w d b c dd s = Panic e s /\
    alu_wideint_mulmod w d b c dd s = Panic e s /\
    (forall ra mode ind, 16 <= ra -> alu_wideint_cmp w ra b c (mode, ind) s = Panic e s).
Proof. exact wide_read_panics. Qed.
Print Assumptions C22_read_panics.

(* ---------------------------------------------------------------- panic table, memory half
   (derived from the refusal theorems of C24, Vm/OwnProofs.v, through bridging lemmas) *)

(* the flat memory view of the ALU model IS the model of C24 (and hence the flat array of C23) *)
Theorem C22_memory_bridge :
  forall (o : owner) (m : mem) (a n : N) (data : bytes),
    code_res (fun x => x) (mem_verify m a n) = OwnModel.verify (to_amem m) a n /\
    has_ownership_range o a (a + n) = OwnModel.has_ownership_range (to_ownregs o) a (a + n) /\
    code_res to_amem (mem_write o m a data) = OwnModel.mem_write (to_amem m) (to_ownregs o) a data.
Proof. exact memory_bridge. Qed.
Print Assumptions C22_memory_bridge.

(* operand reads: MemoryOverflow beyond MEM_SIZE; UninitalizedMemoryAccess in the gap or spanning
   both regions; success otherwise — and nothing else can happen *)
Theorem C22_read_table :
  forall (w : width) (m : mem) (a : N),
    (MEM_SIZE < a + N.of_nat (wbytes w) -> read_wide w m a = RErr MemoryOverflow) /\
    (a + N.of_nat (wbytes w) <= MEM_SIZE -> m_stack_len m < a + N.of_nat (wbytes w) -> a < m_hp m ->
       read_wide w m a = RErr UninitalizedMemoryAccess) /\
    (a + N.of_nat (wbytes w) <= MEM_SIZE -> (a + N.of_nat (wbytes w) <= m_stack_len m \/ m_hp m <= a) ->
       exists v, read_wide w m a = ROk v).
Proof. exact read_wide_table. Qed.
Print Assumptions C22_read_table.

Theorem C22_read_total :
  forall (w : width) (m : mem) (a : N),
    (exists v, read_wide w m a = ROk v) \/ read_wide w m a = RErr MemoryOverflow \/
    read_wide w m a = RErr UninitalizedMemoryAccess.
Proof. exact read_wide_total. Qed.
Print Assumptions C22_read_total.

(* destination write: the same two reasons, MemoryOwnership for an accessible range the ownership
   registers do not cover, success otherwise *)
Theorem C22_write_table :
  forall (o : owner) (m : mem) (d : N) (data : bytes),
    (MEM_SIZE < d + lenN data -> mem_write o m d data = RErr MemoryOverflow) /\
    (d + lenN data <= MEM_SIZE -> m_stack_len m < d + lenN data -> d < m_hp m ->
       mem_write o m d data = RErr UninitalizedMemoryAccess) /\
    (d + lenN data <= MEM_SIZE -> (d + lenN data <= m_stack_len m \/ m_hp m <= d) ->
       has_ownership_range o d (d + lenN data) = false -> mem_write o m d data = RErr MemoryOwnership) /\
    (d + lenN data <= MEM_SIZE -> (d + lenN data <= m_stack_len m \/ m_hp m <= d) ->
       has_ownership_range o d (d + lenN data) = true -> exists m', mem_write o m d data = ROk m').
Proof. exact mem_write_table. Qed.
Print Assumptions C22_write_table.

Theorem C22_write_only_owned :
  forall (o : owner) (m : mem) (d : N) (data : bytes) (m' : mem), mem_write o m d data = ROk m' ->
    forall x, m_byte m' x <> m_byte m x -> OwnModel.in_owned (to_ownregs o) x.
Proof. exact mem_write_only_owned. Qed.
Print Assumptions C22_write_only_owned.

(* order: the first failing access determines the reason *)
Theorem C22_second_read_panics :
  forall (w : width) (s : state) (d b c dd : N) (e : reason) (l : N),
    read_wide w (memo s) b = ROk l ->
    (forall ind, read_arg w ind (memo s) c = RErr e ->
       (forall op, alu_wideint_op w d b c (op, ind) s = Panic e s) /\
       alu_wideint_div w d b c ind s = Panic e s /\
       alu_wideint_mul w d b c (true, ind) s = Panic e s /\
       (forall ra mode, 16 <= ra -> alu_wideint_cmp w ra b c (mode, ind) s = Panic e s)) /\
    (read_wide w (memo s) c = RErr e ->
       alu_wideint_muldiv w d b c dd s = Panic e s /\ alu_wideint_addmod w d b c dd s = Panic e s /\
       alu_wideint_mulmod w d b c dd s = Panic e s).
Proof. exact second_read_panics. Qed.
Print Assumptions C22_second_read_panics.

Theorem C22_mul_direct_lhs :
  forall (w : width) (s : state) (d b c : N) (e : reason) (ir : bool),
    read_arg w ir (memo s) c = RErr e -> alu_wideint_mul w d b c (false, ir) s = Panic e s.
Proof. exact mul_direct_lhs_second_read_panics. Qed.
Print Assumptions C22_mul_direct_lhs.

Theorem C22_third_read_panics :
  forall (w : width) (s : state) (d b c dd : N) (e : reason) (l r : N),
    read_wide w (memo s) b = ROk l -> read_wide w (memo s) c = ROk r -> read_wide w (memo s) dd = RErr e ->
    alu_wideint_muldiv w d b c dd s = Panic e s /\ alu_wideint_addmod w d b c dd s = Panic e s /\
    alu_wideint_mulmod w d b c dd s = Panic e s.
Proof. exact third_read_panics. Qed.
Print Assumptions C22_third_read_panics.

(* the destination is checked last: on a refused write $of/$err already hold the specified values *)
Theorem C22_dest_failure_after_flags :
  forall (w : width) (s : state) (d v o e : N) (r : reason),
    mem_write (ownership_registers s) (memo s) d (be_encode (wbytes w) v) = RErr r ->
    (exists s'', finish_oe w s d (WMem v o e) = Panic r s'' /\ regs s'' REG_OF = o /\ regs s'' REG_ERR = e /\
                 memo s'' = memo s /\ (forall x, x <> REG_OF -> x <> REG_ERR -> regs s'' x = regs s x)) /\
    (exists s'', finish_eo w s d (WMem v o e) = Panic r s'' /\ regs s'' REG_OF = o /\ regs s'' REG_ERR = e /\
                 memo s'' = memo s /\ (forall x, x <> REG_OF -> x <> REG_ERR -> regs s'' x = regs s x)).
Proof. exact dest_failure_after_flags. Qed.
Print Assumptions C22_dest_failure_after_flags.

(* the instruction is its helper applied to the state left by the gas charge *)
Theorem C22_exec_is_helper :
  forall (cost guess : N) (i : instr) (s : state), cost <= regs s REG_CGAS ->
    match alu_table (i_op i) with
    | K_wcmp w => forall args, compare_from_imm (i_imm i) = Some args ->
        exec_alu cost guess i s =
        alu_wideint_cmp w (i_ra i) (regs (charged cost s) (i_rb i)) (regs (charged cost s) (i_rc i)) args (charged cost s)
    | K_wop w => forall args, math_from_imm (i_imm i) = Some args ->
        exec_alu cost guess i s =
        alu_wideint_op w (regs (charged cost s) (i_ra i)) (regs (charged cost s) (i_rb i)) (regs (charged cost s) (i_rc i)) args (charged cost s)
    | K_wmul w => forall args, mul_from_imm (i_imm i) = Some args ->
        exec_alu cost guess i s =
        alu_wideint_mul w (regs (charged cost s) (i_ra i)) (regs (charged cost s) (i_rb i)) (regs (charged cost s) (i_rc i)) args (charged cost s)
    | K_wdiv w => forall args, div_from_imm (i_imm i) = Some args ->
        exec_alu cost guess i s =
        alu_wideint_div w (regs (charged cost s) (i_ra i)) (regs (charged cost s) (i_rb i)) (regs (charged cost s) (i_rc i)) args (charged cost s)
    | K_wmuldiv w => exec_alu cost guess i s =
        alu_wideint_muldiv w (regs (charged cost s) (i_ra i)) (regs (charged cost s) (i_rb i)) (regs (charged cost s) (i_rc i))
                           (regs (charged cost s) (i_rd i)) (charged cost s)
    | K_waddmod w => exec_alu cost guess i s =
        alu_wideint_addmod w (regs (charged cost s) (i_ra i)) (regs (charged cost s) (i_rb i)) (regs (charged cost s) (i_rc i))
                           (regs (charged cost s) (i_rd i)) (charged cost s)
    | K_wmulmod w => exec_alu cost guess i s =
        alu_wideint_mulmod w (regs (charged cost s) (i_ra i)) (regs (charged cost s) (i_rb i)) (regs (charged cost s) (i_rc i))
                           (regs (charged cost s) (i_rd i)) (charged cost s)
    | _ => True
    end.
Proof. exact exec_wide_unfold. Qed.
Print Assumptions C22_exec_is_helper.
