(* Properties/C11.v — Binary Merkle trees behave like fresh trees across reset and reload.
   Abstract state (L3) = the list of leaves pushed since the last reset / recorded up to the
   reload point; `spec_run` gives what a fresh tree holding exactly those leaves reports. *)
From FV Require Import Base.Bytes Base.U64 Base.Map Merkle.RFC6962 Merkle.BinaryModel Merkle.BinaryHistory Merkle.ProveProofs Merkle.PositionPathProofs.
Open Scope N_scope.

(* FULL statement (PROVED below as C11_refine_full): every history of pushes (< 2^63 leaves), resets,
   reloads at a recorded count, root / count queries and proof requests for ANY index behaves like
   the fresh tree.  The peak positions used by reloads and the side positions used by proofs are
   characterised in general in Merkle/PositionPathProofs.v (no computation bound). *)
Section Full.
  Context {D : Type} (leaf_sum : bytes -> D) (node_sum : D -> D -> D) (empty_sum : D).
  Fixpoint full_scope (ls : list bytes) (ops : list hop) : Prop :=
    match ops with
    | [] => True
    | o :: r =>
        match o with
        | HPush _ => lenN ls + 1 < 2 ^ 63
        | HLoad k => k <= lenN ls
        | _ => True
        end /\ full_scope (fst (spec_step leaf_sum node_sum empty_sum ls o)) r
    end.
End Full.
Theorem C11_refine_full :
  forall (D : Type) (leaf_sum : bytes -> D) (node_sum : D -> D -> D) (empty_sum : D) (ops : list hop),
    full_scope leaf_sum node_sum empty_sum [] ops ->
    m_run leaf_sum node_sum empty_sum tree_new ops = Some (spec_run leaf_sum node_sum empty_sum [] ops).
Proof.
  intros D lf nd e ops H.
  apply (history_refines_full lf nd e ops tree_new []); [apply tinv_new | reflexivity | exact H].
Qed.
Print Assumptions C11_refine_full.

(* the same from any state satisfying the invariant *)
Theorem C11_refine_full_from_any_state :
  forall (D : Type) (leaf_sum : bytes -> D) (node_sum : D -> D -> D) (empty_sum : D)
         (ops : list hop) (t : tree) (ls : list bytes),
    tinv leaf_sum node_sum empty_sum t ls -> lenN ls < 2 ^ 63 -> full_scope leaf_sum node_sum empty_sum ls ops ->
    m_run leaf_sum node_sum empty_sum t ops = Some (spec_run leaf_sum node_sum empty_sum ls ops).
Proof. exact @history_refines_full. Qed.
Print Assumptions C11_refine_full_from_any_state.

(* the peak positions the code computes from k equal the binary decomposition of k, and the side
   positions it computes for (i, count) are those of the RFC sibling ranges: all sizes below 2^63 *)
Theorem C11_peaks_all : forall k, k < 2 ^ 63 -> peaks_ok k = true.
Proof. exact peaks_ok_all. Qed.
Print Assumptions C11_peaks_all.
Theorem C11_sides_all : forall c i, c < 2 ^ 63 -> i < c -> sides_ok i c = true.
Proof. exact sides_ok_all. Qed.
Print Assumptions C11_sides_all.

(* non-vacuity of the full scope *)
Example C11_full_scope_inhabited :
  full_scope (fun _ => tt) (fun _ _ => tt) tt []
    [HPush [1]; HPush [2]; HPush [3]; HProve 1; HPush [4]; HPush [5]; HProve 4; HLoad 3; HProve 2; HRoot;
     HPush [6]; HProve 0; HReset; HPush [7]; HProve 0; HProve 9].
Proof. vm_compute. repeat split; auto; try discriminate; try (intros H; discriminate H). Qed.

(* EARLIER partial results, kept (their scopes are included in the full scope above). *)
(* PROVED: every history of pushes, resets, reloads at a recorded count (whose peak positions
   were checked: all counts up to 4096 are, by C11_peaks_checked), root / leaf-count queries and
   proof requests at or beyond the current count behaves like the fresh tree. *)
Theorem C11_refine_partial :
  forall (D : Type) (leaf_sum : bytes -> D) (node_sum : D -> D -> D) (empty_sum : D) (ops : list hop),
    hist_ok leaf_sum node_sum empty_sum [] ops ->
    m_run leaf_sum node_sum empty_sum tree_new ops = Some (spec_run leaf_sum node_sum empty_sum [] ops).
Proof.
  intros D lf nd e ops H. apply (history_refines lf nd e ops tree_new []); [apply tinv_new | reflexivity | exact H].
Qed.
Print Assumptions C11_refine_partial.

(* the invariant behind it, for any state reached from any state satisfying it *)
Theorem C11_refine_from_any_state :
  forall (D : Type) (leaf_sum : bytes -> D) (node_sum : D -> D -> D) (empty_sum : D)
         (ops : list hop) (t : tree) (ls : list bytes),
    tinv leaf_sum node_sum empty_sum t ls -> lenN ls < 2 ^ 63 -> hist_ok leaf_sum node_sum empty_sum ls ops ->
    m_run leaf_sum node_sum empty_sum t ops = Some (spec_run leaf_sum node_sum empty_sum ls ops).
Proof. exact @history_refines. Qed.
Print Assumptions C11_refine_from_any_state.

(* proofs are refused for indices at or beyond the current leaf count *)
Theorem C11_refuses :
  forall (D : Type) (leaf_sum : bytes -> D) (node_sum : D -> D -> D) (empty_sum : D)
         (t : tree) (ls : list bytes) (i : N),
    tinv leaf_sum node_sum empty_sum t ls -> lenN ls <= i -> tree_prove node_sum t i = ProveInvalidIndex.
Proof. exact @prove_refused. Qed.
Print Assumptions C11_refuses.

(* reloading at any recorded count k <= 4096 is in scope: the peak positions the code computes
   from k equal the binary decomposition of k (exhaustive computation, bound in the statement) *)
Theorem C11_peaks_checked : forall k, k <= 4096 -> peaks_ok k = true.
Proof. exact peaks_ok_4096. Qed.
Print Assumptions C11_peaks_checked.

(* histories that ALSO contain in-range proof requests: `hist_okp` = `hist_ok` plus HProve i below
   the current count whenever the side positions for (i, count) were checked (`sides_ok`; all
   counts up to 128 are, by C11_sides_checked).  The proof returned is the RFC audit path of the
   fresh tree holding the leaves since the last reset. *)
Theorem C11_refine_with_proofs_partial :
  forall (D : Type) (leaf_sum : bytes -> D) (node_sum : D -> D -> D) (empty_sum : D) (ops : list hop),
    hist_okp leaf_sum node_sum empty_sum [] ops ->
    m_run leaf_sum node_sum empty_sum tree_new ops = Some (spec_run leaf_sum node_sum empty_sum [] ops).
Proof.
  intros D lf nd e ops H. apply (history_refines_proofs lf nd e ops tree_new []); [apply tinv_new | reflexivity | exact H].
Qed.
Print Assumptions C11_refine_with_proofs_partial.

Theorem C11_refine_with_proofs_from_any_state :
  forall (D : Type) (leaf_sum : bytes -> D) (node_sum : D -> D -> D) (empty_sum : D)
         (ops : list hop) (t : tree) (ls : list bytes),
    tinv leaf_sum node_sum empty_sum t ls -> lenN ls < 2 ^ 63 -> hist_okp leaf_sum node_sum empty_sum ls ops ->
    m_run leaf_sum node_sum empty_sum t ops = Some (spec_run leaf_sum node_sum empty_sum ls ops).
Proof. exact @history_refines_proofs. Qed.
Print Assumptions C11_refine_with_proofs_from_any_state.

Theorem C11_sides_checked : forall c i, c <= 128 -> i < c -> sides_ok i c = true.
Proof. exact sides_ok_128. Qed.
Print Assumptions C11_sides_checked.

(* non-vacuity: a concrete history with pushes, a reload, a reset and a refused proof is in scope *)
Example C11_scope_inhabited :
  hist_ok (fun _ => tt) (fun _ _ => tt) tt []
    [HPush [1]; HPush [2]; HPush [3]; HPush [4]; HPush [5]; HLoad 3; HRoot; HPush [6]; HReset;
     HPush [7]; HRoot; HProve 1; HProve 9].
Proof. vm_compute. repeat split; discriminate || reflexivity || (intros H; discriminate H). Qed.

(* non-vacuity of the extended scope: pushes, an in-range proof, a reload, more proofs, a reset *)
Example C11_scope_with_proofs_inhabited :
  hist_okp (fun _ => tt) (fun _ _ => tt) tt []
    [HPush [1]; HPush [2]; HPush [3]; HProve 1; HPush [4]; HPush [5]; HProve 4; HLoad 3; HProve 2; HRoot;
     HPush [6]; HProve 0; HReset; HPush [7]; HProve 0; HProve 9].
Proof. vm_compute. repeat split; auto; try discriminate; try (intros H; discriminate H). Qed.
