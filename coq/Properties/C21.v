(* Properties/C21.v — Register arithmetic and logic instructions follow the specification.
   Only statements, each closed by `exact` of a lemma proved in Alu/AluProofs.v.
   Model: Alu/AluModel.v (+ generated Gen/AluTable.v); specification: Alu/AluSpec.v. *)
From Coq Require Import ZArith.
From FV Require Import Alu.AluSyntax Gen.AluTable Alu.AluModel Alu.AluSpec Alu.AluProofs.
Open Scope N_scope.

(* every register ALU instruction with a writable destination: the outcome (result, $of, $err,
   or the panic reason) is the one of the specification, for all operands and both flags;
   on success pc advances by one instruction, no other register and no memory changes *)
Theorem C21_op :
  forall (cost guess : N) (i : instr) (s : state),
    is_c21_op (i_op i) = true -> i_op i <> O_NOOP ->
    (forall r, regs s r < U64) -> i_imm i < U64 ->
    cost <= regs s REG_CGAS -> 16 <= i_ra i ->
    (i_op i = O_MROO ->
     forall r, r ^ regs (charged cost s) (i_rc i) <= regs (charged cost s) (i_rb i) < (r + 1) ^ regs (charged cost s) (i_rc i) ->
               r <= guess + 1 /\ guess <= r + 1) ->
    exists o : spec_outcome,
      alu_spec (is_unsafe_math s) (is_wrapping s) (i_op i)
               (Z.of_N (regs (charged cost s) (i_rb i))) (Z.of_N (regs (charged cost s) (i_rc i)))
               (Z.of_N (regs (charged cost s) (i_rd i))) (Z.of_N (i_imm i)) o /\
      match o with
      | S_panic r => exec_alu cost guess i s = Panic r (charged cost s)
      | S_ok res of_ err =>
        exists s', exec_alu cost guess i s = Done s' /\
          Z.of_N (regs s' (i_ra i)) = res /\ Z.of_N (regs s' REG_OF) = of_ /\ Z.of_N (regs s' REG_ERR) = err /\
          regs s' REG_PC = saturating_add U64 (regs (charged cost s) REG_PC) INSTRUCTION_SIZE /\
          (forall r, r <> REG_PC -> r <> i_ra i -> r <> REG_OF -> r <> REG_ERR -> regs s' r = regs (charged cost s) r) /\
          memo s' = memo (charged cost s) /\ prev_hp s' = prev_hp (charged cost s)
      end.
Proof. exact c21_op_correct. Qed.
Print Assumptions C21_op.

(* NOOP *)
Theorem C21_noop :
  forall (cost guess : N) (i : instr) (s : state), i_op i = O_NOOP -> cost <= regs s REG_CGAS ->
    exists s', exec_alu cost guess i s = Done s' /\ regs s' REG_OF = 0 /\ regs s' REG_ERR = 0 /\
      regs s' REG_PC = saturating_add U64 (regs s REG_PC) INSTRUCTION_SIZE /\
      (forall r, r <> REG_PC -> r <> REG_OF -> r <> REG_ERR -> r <> REG_CGAS -> r <> REG_GGAS -> regs s' r = regs s r) /\
      memo s' = memo s.
Proof. exact noop_correct. Qed.
Print Assumptions C21_noop.

(* success => pc' = pc + 4 (every ALU opcode, C22 ones included); a successful instruction changes
   only its destination, $of, $err, $pc and the gas registers; register instructions leave memory alone *)
Theorem C21_pc_and_frame :
  forall (cost guess : N) (i : instr) (s s' : state),
    exec_alu cost guess i s = Done s' ->
    regs s' REG_PC = saturating_add U64 (regs s REG_PC) INSTRUCTION_SIZE /\
    (forall r, r <> REG_PC -> r <> REG_OF -> r <> REG_ERR -> r <> REG_CGAS -> r <> REG_GGAS ->
               (writes_register (i_op i) = true -> r <> i_ra i) -> regs s' r = regs s r) /\
    (writes_register (i_op i) = true -> 16 <= i_ra i) /\
    (is_c21_op (i_op i) = true -> memo s' = memo s) /\
    prev_hp s' = prev_hp s.
Proof. exact alu_success_frame. Qed.
Print Assumptions C21_pc_and_frame.

Theorem C21_pc_plus_4 : forall pc : N, pc + 4 < U64 -> saturating_add U64 pc INSTRUCTION_SIZE = pc + 4.
Proof. exact next_pc_plus4. Qed.
Print Assumptions C21_pc_plus_4.

(* writing a reserved register (dst < 16) panics with ReservedRegisterNotWritable and leaves every
   non-gas register (and memory) unchanged *)
Theorem C21_reserved :
  forall (cost guess : N) (i : instr) (s : state),
    writes_register (i_op i) = true -> imm_decodes i = true ->
    cost <= regs s REG_CGAS -> i_ra i < 16 ->
    exec_alu cost guess i s = Panic ReservedRegisterNotWritable (charged cost s) /\
    (forall r, r <> REG_CGAS -> r <> REG_GGAS -> regs (charged cost s) r = regs s r) /\
    memo (charged cost s) = memo s.
Proof. exact reserved_register_panics. Qed.
Print Assumptions C21_reserved.

(* not enough gas: OutOfGas before anything else, only the gas registers change *)
Theorem C21_out_of_gas :
  forall (cost guess : N) (i : instr) (s : state), regs s REG_CGAS < cost ->
    exists s', exec_alu cost guess i s = Panic OutOfGas s' /\
      (forall r, r <> REG_CGAS -> r <> REG_GGAS -> regs s' r = regs s r) /\ memo s' = memo s.
Proof. exact out_of_gas. Qed.
Print Assumptions C21_out_of_gas.

(* MROO: a floating-point starting point within one of the true root is corrected to the true root *)
Theorem C21_mroo :
  forall guess b c r : N, b < U64 -> 1 <= c ->
    r ^ c <= b < (r + 1) ^ c -> (r <= guess + 1 /\ guess <= r + 1) ->
    checked_nth_root guess b c = Some r.
Proof. exact checked_nth_root_spec. Qed.
Print Assumptions C21_mroo.

(* MLOG: the loop of u64::checked_ilog returns the floor logarithm *)
Theorem C21_mlog :
  forall b c : N, 1 <= b -> b < U64 -> 2 <= c ->
    exists r, checked_ilog b c = Some r /\ c ^ r <= b < c ^ (r + 1).
Proof. exact checked_ilog_spec. Qed.
Print Assumptions C21_mlog.

(* the generic helper facts: overflowing_pow / checked_pow (square-and-multiply) are exact *)
Theorem C21_pow :
  forall b e : N, b < U64 ->
    overflowing_pow b e = ((b ^ e) mod U64, U64 <=? b ^ e) /\
    checked_pow b e = (if b ^ e <? U64 then Some (b ^ e) else None).
Proof. exact pow_specs. Qed.
Print Assumptions C21_pow.

(* the specification is deterministic: the `exists o` of C21_op denotes one outcome *)
Theorem C21_spec_deterministic :
  forall (u w : bool) (op : alu_op) (b c d imm : Z) (o1 o2 : spec_outcome), (0 <= c)%Z ->
    alu_spec u w op b c d imm o1 -> alu_spec u w op b c d imm o2 -> o1 = o2.
Proof. exact alu_spec_deterministic. Qed.
Print Assumptions C21_spec_deterministic.
