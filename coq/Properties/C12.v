(* Properties/C12.v — Sparse Merkle root depends only on the final key-value map.
   Only statements, each closed by `exact` of a lemma proved elsewhere, and its assumptions.
   L3 = Merkle/SparseSpec.v (smt_root), L2 = Merkle/SparseFun.v (functional compact tree),
   L1 = Merkle/SparseModel.v (model of the Rust code; tied by the correspondence run). *)
From FV Require Import Base.Bytes Merkle.SparseSpec Merkle.SparseFun Merkle.SparseModel
  Merkle.SparseProofs Merkle.SparseInst.
Open Scope N_scope.

(* After ANY history of inserts, overwrites and deletes (keys of D bits) the functional
   compact tree's root is the compact sparse Merkle root of the map the history leaves
   behind, and that map is well formed.  No assumption on the hash functions. *)
Theorem C12_fun :
  forall (V Dg : Type) (zero : Dg) (hleaf : key -> V -> Dg) (hnode : Dg -> Dg -> Dg)
         (D : nat) (ops : list (@mop V)),
    Forall (fun o => length (mop_key o) = D) ops ->
    c_root zero hleaf hnode [] (fold_left c_step ops CE) = smt_root zero hleaf hnode D (map_after ops)
    /\ wf_map D (map_after ops).
Proof. exact @fun_root_is_spec_root. Qed.
Print Assumptions C12_fun.

(* The spec root is a function of the lookup behaviour of the map only (not of the order
   or the way it was built). *)
Theorem C12_extensional :
  forall (V Dg : Type) (zero : Dg) (hleaf : key -> V -> Dg) (hnode : Dg -> Dg -> Dg)
         (D : nat) (m m' : @smap V),
    wf_map D m -> wf_map D m' -> (forall k, m_get m k = m_get m' k) ->
    smt_root zero hleaf hnode D m = smt_root zero hleaf hnode D m'.
Proof. exact @smt_root_extensional. Qed.
Print Assumptions C12_extensional.

(* Two histories that leave the same map behind give the same root. *)
Theorem C12_order_independent :
  forall (V Dg : Type) (zero : Dg) (hleaf : key -> V -> Dg) (hnode : Dg -> Dg -> Dg)
         (D : nat) (ops1 ops2 : list (@mop V)),
    Forall (fun o => length (mop_key o) = D) ops1 ->
    Forall (fun o => length (mop_key o) = D) ops2 ->
    (forall k, m_get (map_after ops1) k = m_get (map_after ops2) k) ->
    c_root zero hleaf hnode [] (fold_left c_step ops1 CE) = c_root zero hleaf hnode [] (fold_left c_step ops2 CE).
Proof. exact @history_order_independent. Qed.
Print Assumptions C12_order_independent.

(* the functional tree answers lookups like the map *)
Theorem C12_fun_lookup :
  forall (V : Type) (D : nat) (ops : list (@mop V)) (k : key),
    Forall (fun o => length (mop_key o) = D) ops -> length k = D ->
    c_get k (fold_left c_step ops CE) = m_get (map_after ops) k.
Proof. exact @fun_get_is_map_get. Qed.
Print Assumptions C12_fun_lookup.

(* hypotheses are satisfiable by non-trivial values *)
Example C12_ops_example : Forall (fun o => length (@mop_key lb o) = 256%nat)
  [MSet lb_k0 [true]; MSet lb_k1 []; MDel lb_k0; MSet lb_k2 [true]].
Proof. exact lb_ops_wf. Qed.
Example C12_map_example : wf_map 256 lb_map.
Proof. exact lb_map_wf. Qed.

(* ------------------------------------------------------------------------------------------
   L1: the model of the Rust code (MerkleTree::insert / delete over a hash-addressed node
   store, PathIter, update_with_path_set, delete_with_path_set) refines the functional tree.
   The premises are bundled in the record [smt_iface] (Merkle/SparseTree.v), printed below:
   decidable digest equality; kbit/kcpl read the bits / common prefix of a key; of_bits and
   bits are mutually inverse on 256-bit keys; and collision-freeness [hash_ok] of the hash
   functions (needed: the code picks the side of a child by comparing digests and removes
   stale nodes by digest). *)
From FV Require Import Merkle.SparseRefine Merkle.SparseTree Merkle.SparseHistory.
Print smt_iface.

(* After ANY history of inserts, deletes and reloads the model returns no error, its root is
   the compact sparse Merkle root of the map the history leaves behind, and that map is
   completely persisted in the node store. *)
Theorem C12_refine :
  forall (Dg : Type) (IF : smt_iface Dg) (ops : list (@l1op Dg)),
    Forall (l1op_wf IF) ops ->
    exists T, l1_run IF (tree_new []) ops = Some T /\
              tree_root (i_zero IF) T
              = smt_root (i_zero IF) (shleaf (i_hleaf IF) (i_of_bits IF)) (i_hnode IF) 256 (map_after (mops IF ops)) /\
              persisted IF T (map_after (mops IF ops)).
Proof. exact @run_root. Qed.
Print Assumptions C12_refine.

Example C12_refine_premises : Forall (l1op_wf lb_iface) lb_history.
Proof. exact lb_history_wf. Qed.

(* from_set / root_from_set / nodes_from_set (BTreeMap collect = sort with last duplicate wins,
   three-node-window merge with proximities, merge_branches with placeholder padding): all three
   return the compact sparse Merkle root of the map the set denotes; from_set leaves that map
   persisted in its node store; the node list of nodes_from_set, inserted into an empty store
   and loaded at the returned root, is a persisted tree of that map.
   [kcmp] is the key order used by the BTreeMap: lexicographic on the key bits. *)
From FV Require Import Merkle.SparseSorted Merkle.SparseFromSet Merkle.SparseFromSetGen.

Theorem C12_from_set :
  forall (Dg : Type) (IF : smt_iface Dg) (kcmp : Dg -> Dg -> comparison),
    (forall a b, kcmp a b = bits_compare (i_bits IF a) (i_bits IF b)) ->
    forall set : list (Dg * bytes),
      Forall (fun e => length (i_bits IF (fst e)) = 256%nat) set ->
      let m := map_of_list (map (fun e => (i_bits IF (fst e), i_sum IF (snd e))) set) in
      let spec := smt_root (i_zero IF) (shleaf (i_hleaf IF) (i_of_bits IF)) (i_hnode IF) 256 m in
      (exists T, from_set (i_eqb IF) (i_zero IF) (i_hleaf IF) (i_hnode IF) (i_sum IF) (i_kbit IF) (i_kcpl IF) kcmp [] set = Ok T /\
                 tree_root (i_zero IF) T = spec /\ persisted IF T m) /\
      root_from_set (i_zero IF) (i_hleaf IF) (i_hnode IF) (i_sum IF) (i_kbit IF) (i_kcpl IF) kcmp set = Ok spec /\
      (exists nodes, nodes_from_set (i_zero IF) (i_hleaf IF) (i_hnode IF) (i_sum IF) (i_kbit IF) (i_kcpl IF) kcmp set = Ok (spec, nodes) /\
                     exists T, tree_load (i_eqb IF) (i_zero IF) (i_hleaf IF) (i_hnode IF)
                                         (fold_left (fun st e => sset (i_eqb IF) st (fst e) (snd e)) nodes []) spec = Ok T /\
                               persisted IF T m).
Proof. exact @from_set_family_correct. Qed.
Print Assumptions C12_from_set.

Example C12_from_set_premises :
  (forall a b : lb, bits_compare a b = bits_compare (i_bits lb_iface a) (i_bits lb_iface b)) /\
  Forall (fun e : lb * bytes => length (i_bits lb_iface (fst e)) = 256%nat) [(lb_k0, [1]); (lb_k1, []); (lb_k2, [2]); (lb_k0, [3])].
Proof. split; [reflexivity | repeat constructor]. Qed.

(* ------------------------------------------------------------------------------------------
   The byte-level key functions of common/msb.rs (as modelled) are the bit-list functions the
   interface speaks about, on well-formed byte strings (every element < 256): reading a bit
   MSB-first, the common prefix length, and the bytes <-> bits conversions. *)
From FV Require Import Merkle.SparseMsb.

Theorem C12_msb_get_bit :
  forall (k : bytes) (i : N), wf_bytes k = true ->
    get_bit_at_index_from_msb k i = nth_error (bits_of_bytes k) (N.to_nat i).
Proof. exact msb_get_bit. Qed.
Print Assumptions C12_msb_get_bit.

Theorem C12_msb_common_prefix :
  forall a b : bytes, wf_bytes a = true -> wf_bytes b = true -> length a = length b ->
    common_prefix_count a b = N.of_nat (cpl (bits_of_bytes a) (bits_of_bytes b)).
Proof. exact msb_common_prefix. Qed.
Print Assumptions C12_msb_common_prefix.

Theorem C12_msb_roundtrip :
  (forall k : bytes, wf_bytes k = true -> bytes_of_bits (bits_of_bytes k) = k) /\
  (forall (n : nat) (ks : list bool), length ks = (8 * n)%nat ->
     bits_of_bytes (bytes_of_bits ks) = ks /\ wf_bytes (bytes_of_bits ks) = true /\ length (bytes_of_bits ks) = n).
Proof. exact (conj bytes_of_bits_of_bytes bits_of_bytes_of_bits). Qed.
Print Assumptions C12_msb_roundtrip.

Example C12_msb_premise : wf_bytes (zeros 31 ++ [255]) = true /\ length (bits_of_bytes (zeros 31 ++ [255])) = 256%nat.
Proof. split; reflexivity. Qed.
