(* Properties/C12.v — Sparse Merkle root depends only on the final key-value map.
   Only statements, each closed by `exact` of a lemma proved elsewhere, and its assumptions.
   L3 = Merkle/SparseSpec.v (smt_root), L2 = Merkle/SparseFun.v (functional compact tree),
   L1 = Merkle/SparseModel.v (model of the Rust code; tied by the correspondence run). *)
From FV Require Import Base.Bytes Merkle.SparseSpec Merkle.SparseFun Merkle.SparseModel
  Merkle.SparseProofs Merkle.SparseInst.
Open Scope N_scope.

(* After ANY history of inserts, overwrites and deletes (keys of D bits) the functional
   compact tree's root is the compact sparse Merkle root of the map the history leaves
   behind, and that map is well formed.  No assumption on the hash functions. *)
Theorem C12_fun :
  forall (V Dg : Type) (zero : Dg) (hleaf : key -> V -> Dg) (hnode : Dg -> Dg -> Dg)
         (D : nat) (ops : list (@mop V)),
    Forall (fun o => length (mop_key o) = D) ops ->
    c_root zero hleaf hnode [] (fold_left c_step ops CE) = smt_root zero hleaf hnode D (map_after ops)
    /\ wf_map D (map_after ops).
Proof. exact @fun_root_is_spec_root. Qed.
Print Assumptions C12_fun.

(* The spec root is a function of the lookup behaviour of the map only (not of the order
   or the way it was built). *)
Theorem C12_extensional :
  forall (V Dg : Type) (zero : Dg) (hleaf : key -> V -> Dg) (hnode : Dg -> Dg -> Dg)
         (D : nat) (m m' : @smap V),
    wf_map D m -> wf_map D m' -> (forall k, m_get m k = m_get m' k) ->
    smt_root zero hleaf hnode D m = smt_root zero hleaf hnode D m'.
Proof. exact @smt_root_extensional. Qed.
Print Assumptions C12_extensional.

(* Two histories that leave the same map behind give the same root. *)
Theorem C12_order_independent :
  forall (V Dg : Type) (zero : Dg) (hleaf : key -> V -> Dg) (hnode : Dg -> Dg -> Dg)
         (D : nat) (ops1 ops2 : list (@mop V)),
    Forall (fun o => length (mop_key o) = D) ops1 ->
    Forall (fun o => length (mop_key o) = D) ops2 ->
    (forall k, m_get (map_after ops1) k = m_get (map_after ops2) k) ->
    c_root zero hleaf hnode [] (fold_left c_step ops1 CE) = c_root zero hleaf hnode [] (fold_left c_step ops2 CE).
Proof. exact @history_order_independent. Qed.
Print Assumptions C12_order_independent.

(* the functional tree answers lookups like the map *)
Theorem C12_fun_lookup :
  forall (V Dg : Type) (zero : Dg) (hleaf : key -> V -> Dg) (hnode : Dg -> Dg -> Dg)
         (D : nat) (ops : list (@mop V)) (k : key),
    Forall (fun o => length (mop_key o) = D) ops -> length k = D ->
    c_get k (fold_left c_step ops CE) = m_get (map_after ops) k.
Proof. exact @fun_get_is_map_get. Qed.
Print Assumptions C12_fun_lookup.

(* hypotheses are satisfiable by non-trivial values *)
Example C12_ops_example : Forall (fun o => length (@mop_key lb o) = 256%nat)
  [MSet lb_k0 [true]; MSet lb_k1 []; MDel lb_k0; MSet lb_k2 [true]].
Proof. exact lb_ops_wf. Qed.
Example C12_map_example : wf_map 256 lb_map.
Proof. exact lb_map_wf. Qed.
