(* Properties/C23.v — VM memory behaves like a zero-initialised array with two regions.
   Only statements, each closed by `exact` of a lemma proved in Mem/MemProofs.v. *)
From FV Require Import Base.Bytes Base.U64 Mem.SVec Mem.MemSpec Mem.MemModel Mem.MemProofs.
Open Scope N_scope.

(* one operation: the two-buffer model and the flat array produce the same observable result and
   stay related.  No side condition: the only precondition of rollback, the documented assertion
   "the heap may only shrink" (snapshot hp >= current hp), is part of the specification itself
   (step_spec returns HostPanic for SRollback when hp snapshot < hp current) and of the model, see
   C23_rollback_heap_precondition below. *)
Theorem C23_refine_step :
  forall (st : state) (sst : sstate) (op : sop),
    Rst st sst ->
    Rst (fst (step st op)) (fst (step_spec sst op)) /\
    snd (step_spec sst op) = denote_out (snd (step st op)).
Proof. exact step_refines. Qed.
Print Assumptions C23_refine_step.

(* every history from MemoryInstance::new(): same outputs, related final states *)
Theorem C23_refine_history :
  forall ops : list sop,
    Rst (fst (run state_init ops)) (fst (run_spec sstate_init ops)) /\
    snd (run_spec sstate_init ops) = map denote_out (snd (run state_init ops)).
Proof. exact run_refines_init. Qed.
Print Assumptions C23_refine_history.

(* the representation invariant (stack.len <= hp <= MEM_SIZE, MEM_SIZE - hp <= heap.len <=
   MEM_SIZE) holds after EVERY history, with no side condition *)
Theorem C23_invariant :
  forall ops : list sop, InvSt (fst (run state_init ops)).
Proof. exact reachable_inv_init. Qed.
Print Assumptions C23_invariant.

(* no unchecked subtraction, slice index or unreachable!() can fire outside rollback *)
Theorem C23_no_host_panic :
  forall (st : state) (op : sop),
    InvSt st -> op <> SRollback -> snd (step st op) <> OErr HostPanic.
Proof. exact no_host_panic. Qed.
Print Assumptions C23_no_host_panic.

(* freshly allocated heap bytes read zero whatever the buffers contain (reset keeps the buffers
   dirty): covers both the in-place and the reallocating branch of grow_heap_by *)
Theorem C23_fresh_zero :
  forall (m : mem) (sp_reg amount : N) (m' : mem),
    Inv m -> grow_heap_by m sp_reg amount = inl m' ->
    mhp m' = mhp m - amount /\ amount <= mhp m /\
    forall x, mhp m' <= x -> x < mhp m -> mem_get m' x = 0.
Proof. exact fresh_heap_zero. Qed.
Print Assumptions C23_fresh_zero.

(* a copy between two ranges that share a byte never succeeds ... *)
Theorem C23_copy_overlap_refused :
  forall (m : mem) (dst src n : N) (o : owner),
    Inv m -> share_byte dst src n = true -> exists e, memcopy m dst src n o = inr e.
Proof. exact copy_overlap_refused. Qed.
Print Assumptions C23_copy_overlap_refused.

(* ... and when both ranges are accessible the error is MemoryWriteOverlap *)
Theorem C23_copy_overlap_kind :
  forall (m : mem) (dst src n : N) (o : owner),
    Inv m -> check_range (abs m) dst n = None -> check_range (abs m) src n = None ->
    share_byte dst src n = true -> memcopy m dst src n o = inr MemoryWriteOverlap.
Proof. exact copy_overlap_refused_kind. Qed.
Print Assumptions C23_copy_overlap_kind.

(* rollback(collect_rollback_data(m, m0)) has exactly m0's bounds and accessible contents, whatever
   the current stack extent (shorter, equal or longer than the snapshot's) *)
Theorem C23_rollback :
  forall (m m0 : mem) (d : rollback_data) (m' : mem),
    Inv m -> Inv m0 ->
    collect_rollback_data m m0 = inl (Some d) -> rollback m d = inl m' ->
    flat_obs_eq (abs m') (abs m0).
Proof. exact rollback_restores. Qed.
Print Assumptions C23_rollback.

(* the one remaining precondition, explicitly: snapshot hp < current hp => the assertion fires;
   otherwise collect + rollback never panic *)
Theorem C23_rollback_heap_precondition :
  forall m m0 : mem, mhp m0 < mhp m -> collect_rollback_data m m0 = inr HostPanic.
Proof. exact rollback_heap_precondition. Qed.
Print Assumptions C23_rollback_heap_precondition.

Theorem C23_rollback_total_otherwise :
  forall m m0 : mem,
    Inv m -> Inv m0 -> mhp m <= mhp m0 ->
    match collect_rollback_data m m0 with
    | inr _ => False
    | inl None => True
    | inl (Some d) => exists m', rollback m d = inl m'
    end.
Proof. exact rollback_never_panics_otherwise. Qed.
Print Assumptions C23_rollback_total_otherwise.

(* HISTORICAL (before fix 75e7afe the refinement was false on this history: collect_rollback_data
   panicked when the snapshot's stack extent exceeded the current one).  On the repaired code the
   witness history restores the snapshot, in the model and in the specification. *)
Theorem C23_rollback_regression_witness :
  map denote_out (snd (run state_init witness_history)) =
  [SUnit; SUnit; SUnit; SUnit; SUnit; SBytes [0; 0; 1; 2; 3; 0]] /\
  snd (run_spec sstate_init witness_history) = map denote_out (snd (run state_init witness_history)).
Proof. exact witness_history_restores. Qed.
Print Assumptions C23_rollback_regression_witness.
