(* Properties/C23.v — VM memory behaves like a zero-initialised array with two regions.
   Only statements, each closed by `exact` of a lemma proved in Mem/MemProofs.v. *)
From FV Require Import Base.Bytes Base.U64 Mem.SVec Mem.MemSpec Mem.MemModel Mem.MemProofs.
Open Scope N_scope.

(* one operation: the two-buffer model and the flat array produce the same observable result and
   stay related.  `rollback_defined` is `True` for every operation except rollback, where it asks
   that the snapshot's heap pointer is below the current one (documented assertion, both sides
   panic) or that the snapshot's stack extent does not exceed the current stack extent. *)
Theorem C23_refine_step :
  forall (st : state) (sst : sstate) (op : sop),
    Rst st sst -> rollback_defined sst op ->
    Rst (fst (step st op)) (fst (step_spec sst op)) /\
    snd (step_spec sst op) = denote_out (snd (step st op)).
Proof. exact step_refines. Qed.
Print Assumptions C23_refine_step.

(* every history from MemoryInstance::new(): same outputs, related final states *)
Theorem C23_refine_history :
  forall ops : list sop,
    hist_defined sstate_init ops ->
    Rst (fst (run state_init ops)) (fst (run_spec sstate_init ops)) /\
    snd (run_spec sstate_init ops) = map denote_out (snd (run state_init ops)).
Proof. exact run_refines_init. Qed.
Print Assumptions C23_refine_history.

(* the representation invariant (stack.len <= hp <= MEM_SIZE, MEM_SIZE - hp <= heap.len <=
   MEM_SIZE) holds after EVERY history, with no side condition *)
Theorem C23_invariant :
  forall ops : list sop, InvSt (fst (run state_init ops)).
Proof. exact reachable_inv_init. Qed.
Print Assumptions C23_invariant.

(* no unchecked subtraction, slice index or unreachable!() can fire outside rollback *)
Theorem C23_no_host_panic :
  forall (st : state) (op : sop),
    InvSt st -> op <> SRollback -> snd (step st op) <> OErr HostPanic.
Proof. exact no_host_panic. Qed.
Print Assumptions C23_no_host_panic.

(* freshly allocated heap bytes read zero whatever the buffers contain (reset keeps the buffers
   dirty): covers both the in-place and the reallocating branch of grow_heap_by *)
Theorem C23_fresh_zero :
  forall (m : mem) (sp_reg amount : N) (m' : mem),
    Inv m -> grow_heap_by m sp_reg amount = inl m' ->
    mhp m' = mhp m - amount /\ amount <= mhp m /\
    forall x, mhp m' <= x -> x < mhp m -> mem_get m' x = 0.
Proof. exact fresh_heap_zero. Qed.
Print Assumptions C23_fresh_zero.

(* a copy between two ranges that share a byte never succeeds ... *)
Theorem C23_copy_overlap_refused :
  forall (m : mem) (dst src n : N) (o : owner),
    Inv m -> share_byte dst src n = true -> exists e, memcopy m dst src n o = inr e.
Proof. exact copy_overlap_refused. Qed.
Print Assumptions C23_copy_overlap_refused.

(* ... and when both ranges are accessible the error is MemoryWriteOverlap *)
Theorem C23_copy_overlap_kind :
  forall (m : mem) (dst src n : N) (o : owner),
    Inv m -> check_range (abs m) dst n = None -> check_range (abs m) src n = None ->
    share_byte dst src n = true -> memcopy m dst src n o = inr MemoryWriteOverlap.
Proof. exact copy_overlap_refused_kind. Qed.
Print Assumptions C23_copy_overlap_kind.

(* rollback(collect_rollback_data(m, m0)) has exactly m0's bounds and accessible contents *)
Theorem C23_rollback :
  forall (m m0 : mem) (d : rollback_data) (m' : mem),
    Inv m -> Inv m0 -> sv_len (stack m0) <= sv_len (stack m) ->
    collect_rollback_data m m0 = inl (Some d) -> rollback m d = inl m' ->
    flat_obs_eq (abs m') (abs m0).
Proof. exact rollback_restores. Qed.
Print Assumptions C23_rollback.

(* FINDING: without the side condition the refinement is false: after the heap has overtaken the
   snapshot's stack extent, rollback panics (model and implementation) where the property asks
   for the snapshot to be restored *)
Theorem C23_refine_history_unconditional_refuted : ~ refines_all_histories.
Proof. exact refines_all_histories_refuted. Qed.
Print Assumptions C23_refine_history_unconditional_refuted.
