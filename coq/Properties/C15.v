(* Properties/C15.v — Contract and predicate identifiers follow the specification.
   Only statements, each closed by `exact` of a lemma proved in Ids/IdsProofs.v, and its
   assumptions.  [h] is the hash (SHA-256 in the executable instance); nothing is assumed
   about it.  [rfs] is the sparse-Merkle `root_from_set` of fuel-merkle, an oracle whose
   contract [root_from_set_contract] is property C12. *)
From FV Require Import Base.Bytes Merkle.RFC6962 Merkle.SparseSpec Merkle.SparseModel Gen.IdsConsts
  Ids.IdsSpec Ids.IdsModel Ids.IdsProofs.
Open Scope N_scope.

(* Contract::root_from_code = RFC 6962 tree hash of the 16 KiB chunks, last one zero-padded to 8 *)
Theorem C15_code_root :
  forall (h : bytes -> bytes) (code : bytes),
    lenN code < 2 ^ 63 ->
    root_from_code h code =
      Some (MTH (fun d => h (0 :: d)) (fun l r => h (1 :: l ++ r)) (h []) (code_leaves code)).
Proof. exact root_from_code_is_MTH. Qed.
Print Assumptions C15_code_root.

(* what the leaves are: all chunks but the last are exactly 16 KiB and unpadded, the last has
   1..16 KiB bytes and is zero-extended to the next multiple of 8 (by fewer than 8 bytes);
   the chunks concatenate to the code; empty code has no leaves *)
Theorem C15_chunking :
  forall (code : bytes),
    (code = [] -> code_leaves code = []) /\
    (code <> [] -> exists full last,
        chunks_of 16384 code = full ++ [last] /\
        code_leaves code = full ++ [pad_to_multiple 8 last] /\
        Forall (fun c => lenN c = 16384) full /\ 0 < lenN last <= 16384 /\
        concat (full ++ [last]) = code /\
        lenN (pad_to_multiple 8 last) mod 8 = 0 /\ lenN (pad_to_multiple 8 last) < lenN last + 8).
Proof. exact code_leaves_facts. Qed.
Print Assumptions C15_chunking.

(* the loop of slice::chunks as modelled produces the index-defined chunks *)
Theorem C15_chunks_loop :
  forall (code : bytes), slice_chunks (N.to_nat LEAF_SIZE) code = Some (chunks_of 16384 code).
Proof. intros code. exact (slice_chunks_eq 16384 eq_refl code). Qed.
Print Assumptions C15_chunks_loop.

Theorem C15_empty_code :
  forall (h : bytes -> bytes), root_from_code h [] = Some (h []) /\ spec_code_root h [] = h [].
Proof. exact root_from_code_empty. Qed.
Print Assumptions C15_empty_code.

(* Contract::initial_state_root = compact sparse Merkle root of { h(key) |-> value }
   (spec_state_root: smt_root of Merkle/SparseSpec.v at depth 256 over the map collected from
   the slots, last duplicate wins), given that root_from_set is what property C12 says it is
   (root_from_set_contract: it returns that smt_root for the pairs it is given) *)
Theorem C15_state_root_partial :
  forall (h : bytes -> bytes) (rfs : list (bytes * bytes) -> bytes) (slots : list (bytes * bytes)),
    root_from_set_contract h rfs ->
    initial_state_root h rfs slots = spec_state_root h slots.
Proof. exact initial_state_root_is_spec. Qed.
Print Assumptions C15_state_root_partial.

(* Contract::id = h("FUEL" || salt || code root || state root) *)
Theorem C15_contract_id :
  forall (h : bytes -> bytes) (salt root state_root : bytes),
    contract_id h salt root state_root = h ([0x46; 0x55; 0x45; 0x4C] ++ salt ++ root ++ state_root).
Proof. exact contract_id_is_spec. Qed.
Print Assumptions C15_contract_id.

(* Input::predicate_owner = h("FUEL" || code root of the predicate); the validity check is equality with it *)
Theorem C15_predicate_owner :
  forall (h : bytes -> bytes) (p : bytes),
    lenN p < 2 ^ 63 ->
    predicate_owner h p = Some (h ([0x46; 0x55; 0x45; 0x4C] ++ spec_code_root h p)).
Proof. exact predicate_owner_is_spec. Qed.
Print Assumptions C15_predicate_owner.

Theorem C15_predicate_owner_check :
  forall (h : bytes -> bytes) (owner p : bytes),
    lenN p < 2 ^ 63 ->
    exists b, is_predicate_owner_valid h owner p = Some b /\ (b = true <-> owner = spec_predicate_owner h p).
Proof. exact is_predicate_owner_valid_iff. Qed.
Print Assumptions C15_predicate_owner_check.

(* CreateMetadata::compute yields the specification's id, code root and state root *)
Theorem C15_metadata :
  forall (h : bytes -> bytes) (rfs : list (bytes * bytes) -> bytes) (tx : create_tx),
    root_from_set_contract h rfs -> lenN (c_bytecode tx) < 2 ^ 63 ->
    metadata_compute h rfs tx =
      Some (mkMeta (spec_contract_id h (c_salt tx) (c_bytecode tx) (c_slots tx))
                   (spec_code_root h (c_bytecode tx)) (spec_state_root h (c_slots tx))).
Proof. exact metadata_compute_is_spec. Qed.
Print Assumptions C15_metadata.

(* the VM uses the same values: deployment stores the contract under the specification's id … *)
Theorem C15_vm_deploy :
  forall (h : bytes -> bytes) (rfs : list (bytes * bytes) -> bytes) (tx : create_tx)
         (md : option create_metadata) (s : storage),
    root_from_set_contract h rfs -> lenN (c_bytecode tx) < 2 ^ 63 ->
    (md = None \/ md = metadata_compute h rfs tx) ->
    let id := spec_contract_id h (c_salt tx) (c_bytecode tx) (c_slots tx) in
    match st_get s id with
    | Some _ => deploy_inner h rfs tx md s = DeployAlreadyDeployed
    | None => exists s', deploy_inner h rfs tx md s = DeployOk s' /\
                         st_get s' id = Some (c_bytecode tx, c_slots tx) /\
                         (forall id', id' <> id -> st_get s' id' = st_get s id')
    end.
Proof. exact deploy_uses_spec_id. Qed.
Print Assumptions C15_vm_deploy.

(* … the ContractCreated output accepted by the Create rules names that id and state root … *)
Theorem C15_vm_output :
  forall (h : bytes -> bytes) (rfs : list (bytes * bytes) -> bytes) (tx : create_tx) (md : option create_metadata),
    root_from_set_contract h rfs -> lenN (c_bytecode tx) < 2 ^ 63 ->
    (md = None \/ md = metadata_compute h rfs tx) ->
    check_contract_created h rfs tx md = Some true ->
    c_created tx = [(spec_contract_id h (c_salt tx) (c_bytecode tx) (c_slots tx), spec_state_root h (c_slots tx))].
Proof. exact contract_created_is_spec. Qed.
Print Assumptions C15_vm_output.

(* … and CROO on a stored contract writes the specification's code root of its bytecode *)
Theorem C15_vm_croo :
  forall (h : bytes -> bytes) (s : storage) (id code : bytes) (slots : list (bytes * bytes)),
    st_get s id = Some (code, slots) -> lenN code < 2 ^ 63 ->
    code_root h s id = CrooOk (spec_code_root h code).
Proof. exact croo_is_spec. Qed.
Print Assumptions C15_vm_croo.

Theorem C15_vm_deploy_then_croo :
  forall (h : bytes -> bytes) (rfs : list (bytes * bytes) -> bytes) (tx : create_tx) (s s' : storage),
    root_from_set_contract h rfs -> lenN (c_bytecode tx) < 2 ^ 63 ->
    deploy_inner h rfs tx (metadata_compute h rfs tx) s = DeployOk s' ->
    code_root h s' (spec_contract_id h (c_salt tx) (c_bytecode tx) (c_slots tx))
      = CrooOk (spec_code_root h (c_bytecode tx)).
Proof. exact deploy_then_croo. Qed.
Print Assumptions C15_vm_deploy_then_croo.

(* Full state-root statement: with the L1 model of fuel-merkle's root_from_set
   (Merkle/SparseModel.v) in place of the oracle.  It is the composition of
   C15_state_root_partial with property C12 (`root_from_set` = compact sparse Merkle root),
   which belongs to the sparse-tree family; kept as a statement here, tied by the
   correspondence run (Run/Ids.v executes exactly this instantiation). *)
Definition C15_state_root_full_statement : Prop :=
  forall (h : bytes -> bytes) (slots : list (bytes * bytes)),
    (forall x, length (h x) = 32%nat) ->
    SparseModel.root_from_set (zeros 32) (fun k v => h (0 :: k ++ v)) (fun l r => h (1 :: l ++ r)) h
        SparseModel.get_bit_at_index_from_msb SparseModel.common_prefix_count SparseModel.bytes_compare
        (map (fun s => (h (fst s), snd s)) slots)
    = SparseModel.Ok (spec_state_root h slots).
