(* Properties/C14.v — Sparse Merkle proofs prove membership and non-membership exactly.
   Only statements, each closed by `exact` of a lemma proved elsewhere, and its assumptions. *)
From FV Require Import Base.Bytes Merkle.SparseSpec Merkle.SparseFun Merkle.SparseModel
  Merkle.SparseProofs Merkle.SparseRefine Merkle.SparseTree Merkle.SparseHistory Merkle.SparseInst.
Open Scope N_scope.

(* The model of InclusionProof::verify accepts EXACTLY when the compact-tree recomputation
   from (key, value, side nodes) reaches the root — for every proof set (any length, any
   content), every key of 256 bits, every root.  The premises only say that [kbit] reads the
   bits of a key and that digest equality is decidable; nothing about the hashes. *)
Theorem C14_incl_verify_iff :
  forall (Dg : Type) (dg_eqb : Dg -> Dg -> bool) (hleaf hnode : Dg -> Dg -> Dg) (sum : bytes -> Dg)
         (kbit : Dg -> N -> option bool) (bits : Dg -> key) (of_bits : key -> Dg),
    (forall a b : Dg, dg_eqb a b = true <-> a = b) ->
    (forall (k : Dg) (i : N), kbit k i = nth_error (bits k) (N.to_nat i)) ->
    (forall k : Dg, of_bits (bits k) = k) ->
    forall (ps : list Dg) (root key : Dg) (value : bytes),
      length (bits key) = 256%nat ->
      exists b : bool,
        inclusion_verify dg_eqb hleaf hnode sum kbit ps root key value = Some b /\
        (b = true <-> spec_verify_incl (shleaf hleaf of_bits) hnode root (bits key) (sum value) ps).
Proof. exact @inclusion_verify_spec. Qed.
Print Assumptions C14_incl_verify_iff.

(* Same for ExclusionProof::verify, for every claimed leaf: a placeholder, another leaf, or a
   leaf claiming the queried key (always rejected). *)
Theorem C14_excl_verify_iff :
  forall (Dg : Type) (dg_eqb : Dg -> Dg -> bool) (zero : Dg) (hleaf hnode : Dg -> Dg -> Dg)
         (kbit : Dg -> N -> option bool) (bits : Dg -> key) (of_bits : key -> Dg),
    (forall a b : Dg, dg_eqb a b = true <-> a = b) ->
    (forall (k : Dg) (i : N), kbit k i = nth_error (bits k) (N.to_nat i)) ->
    (forall k : Dg, of_bits (bits k) = k) ->
    forall (ps : list Dg) (leaf : exclusion_leaf) (root key : Dg),
      length (bits key) = 256%nat ->
      exists b : bool,
        exclusion_verify dg_eqb zero hleaf hnode kbit ps leaf root key = Some b /\
        (b = true <-> spec_verify_excl zero (shleaf hleaf of_bits) hnode root (bits key) ps (xl bits leaf)).
Proof. exact @exclusion_verify_spec. Qed.
Print Assumptions C14_excl_verify_iff.

(* Soundness: if the hash functions are collision-free (explicit premise [hash_ok]) then an
   accepted inclusion proof — ARBITRARY proof set — proves that the key is bound to the
   hash of that value in ANY map whose compact root is the given root. *)
Theorem C14_incl_sound :
  forall (Dg : Type) (dg_eqb : Dg -> Dg -> bool) (zero : Dg) (hleaf hnode : Dg -> Dg -> Dg)
         (sum : bytes -> Dg) (kbit : Dg -> N -> option bool) (bits : Dg -> key) (of_bits : key -> Dg),
    (forall a b : Dg, dg_eqb a b = true <-> a = b) ->
    (forall (k : Dg) (i : N), kbit k i = nth_error (bits k) (N.to_nat i)) ->
    (forall k : Dg, of_bits (bits k) = k) ->
    forall (m : @smap Dg) (ps : list Dg) (key : Dg) (value : bytes),
      hash_ok zero (shleaf hleaf of_bits) hnode ->
      wf_map 256 m ->
      length (bits key) = 256%nat ->
      inclusion_verify dg_eqb hleaf hnode sum kbit ps (smt_root zero (shleaf hleaf of_bits) hnode 256 m) key value = Some true ->
      m_get m (bits key) = Some (sum value).
Proof. exact @inclusion_verify_sound. Qed.
Print Assumptions C14_incl_sound.

(* ... and an accepted exclusion proof (any proof set, any claimed leaf) proves absence. *)
Theorem C14_excl_sound :
  forall (Dg : Type) (dg_eqb : Dg -> Dg -> bool) (zero : Dg) (hleaf hnode : Dg -> Dg -> Dg)
         (kbit : Dg -> N -> option bool) (bits : Dg -> key) (of_bits : key -> Dg),
    (forall a b : Dg, dg_eqb a b = true <-> a = b) ->
    (forall (k : Dg) (i : N), kbit k i = nth_error (bits k) (N.to_nat i)) ->
    (forall k : Dg, of_bits (bits k) = k) ->
    forall (m : @smap Dg) (ps : list Dg) (leaf : exclusion_leaf) (key : Dg),
      hash_ok zero (shleaf hleaf of_bits) hnode ->
      wf_map 256 m ->
      length (bits key) = 256%nat ->
      exclusion_verify dg_eqb zero hleaf hnode kbit ps leaf (smt_root zero (shleaf hleaf of_bits) hnode 256 m) key = Some true ->
      m_get m (bits key) = None.
Proof. exact @exclusion_verify_sound. Qed.
Print Assumptions C14_excl_sound.

(* Completeness at the level of the specification: the siblings along the key in the
   compact tree of a map form a proof that verifies — inclusion with the stored value when
   the key is present, exclusion (with the closest leaf or a placeholder) when absent. *)
Theorem C14_spec_incl_complete :
  forall (V Dg : Type) (zero : Dg) (hleaf : key -> V -> Dg) (hnode : Dg -> Dg -> Dg)
         (D : nat) (m : @smap V) (k : key) (v : V),
    wf_map D m -> length k = D -> m_get m k = Some v ->
    spec_verify_incl hleaf hnode (smt_root zero hleaf hnode D m) k v (rev (spec_sides zero hleaf hnode D [] k m)).
Proof. exact @spec_incl_complete. Qed.
Print Assumptions C14_spec_incl_complete.

Theorem C14_spec_excl_complete :
  forall (V Dg : Type) (zero : Dg) (hleaf : key -> V -> Dg) (hnode : Dg -> Dg -> Dg)
         (D : nat) (m : @smap V) (k : key),
    wf_map D m -> length k = D -> m_get m k = None ->
    spec_verify_excl zero hleaf hnode (smt_root zero hleaf hnode D m) k
                     (rev (spec_sides zero hleaf hnode D [] k m)) (spec_terminal D [] k m).
Proof. exact @spec_excl_complete. Qed.
Print Assumptions C14_spec_excl_complete.

(* The model of MerkleTree::generate_proof on any tree that persists a map m (in particular
   every tree reached by a history, Properties/C12.v C12_refine): the proof is an inclusion
   proof EXACTLY when the key is present; its proof set is the list of siblings of the compact
   tree of m; it verifies against the tree's root — the inclusion proof with every value whose
   hash is the stored one, the exclusion proof (closest leaf or placeholder) as it is.
   Premises: the record [smt_iface] (printed in Properties/C12.v), incl. collision-freeness. *)
Theorem C14_generate_proof :
  forall (Dg : Type) (IF : smt_iface Dg) (T : @tree Dg) (m : @smap Dg) (key : Dg),
    persisted IF T m -> length (i_bits IF key) = 256%nat ->
    match m_get m (i_bits IF key) with
    | Some v =>
        generate_proof (i_eqb IF) (i_zero IF) (i_hleaf IF) (i_hnode IF) (i_kbit IF) T key
        = Ok (Inclusion (rev (spec_sides (i_zero IF) (shleaf (i_hleaf IF) (i_of_bits IF)) (i_hnode IF) 256 [] (i_bits IF key) m))) /\
        (forall value, i_sum IF value = v ->
           inclusion_verify (i_eqb IF) (i_hleaf IF) (i_hnode IF) (i_sum IF) (i_kbit IF)
             (rev (spec_sides (i_zero IF) (shleaf (i_hleaf IF) (i_of_bits IF)) (i_hnode IF) 256 [] (i_bits IF key) m))
             (tree_root (i_zero IF) T) key value = Some true)
    | None =>
        generate_proof (i_eqb IF) (i_zero IF) (i_hleaf IF) (i_hnode IF) (i_kbit IF) T key
        = Ok (Exclusion (rev (spec_sides (i_zero IF) (shleaf (i_hleaf IF) (i_of_bits IF)) (i_hnode IF) 256 [] (i_bits IF key) m))
                        (exl IF (spec_terminal 256 [] (i_bits IF key) m))) /\
        exclusion_verify (i_eqb IF) (i_zero IF) (i_hleaf IF) (i_hnode IF) (i_kbit IF)
          (rev (spec_sides (i_zero IF) (shleaf (i_hleaf IF) (i_of_bits IF)) (i_hnode IF) 256 [] (i_bits IF key) m))
          (exl IF (spec_terminal 256 [] (i_bits IF key) m)) (tree_root (i_zero IF) T) key = Some true
    end.
Proof. exact @generate_proof_correct. Qed.
Print Assumptions C14_generate_proof.

Example C14_generate_proof_premises : persisted lb_iface (tree_new []) [] /\ length (i_bits lb_iface (repeat true 256)) = 256%nat.
Proof. exact (conj (persisted_empty lb_iface) lb_key_256). Qed.

(* the premises are satisfiable: a digest type with collision-free hashes and a key interface *)
Example C14_premises_satisfiable :
  (forall a b : lb, key_eqb a b = true <-> a = b) /\
  (forall (k : lb) (i : N), lb_kbit k i = nth_error (lb_bits k) (N.to_nat i)) /\
  (forall k : lb, lb_of_bits (lb_bits k) = k) /\
  hash_ok lb_zero (shleaf lb_hleaf lb_of_bits) lb_hnode /\
  wf_map 256 lb_map /\ length (lb_bits (repeat true 256)) = 256%nat.
Proof.
  exact (conj lb_eqb_spec (conj lb_kbit_spec (conj lb_of_bits_bits (conj lb_hash_ok (conj lb_map_wf lb_key_256))))).
Qed.
