(* Properties/C27.v — Assets are conserved by every script execution.
   Statements about the abstract asset machine Vm/AssetModel.v (tied to the Rust code by the
   translator tools/gen_assettable.py and by trace validation, Run/Assets.v), each closed by
   `exact` of a lemma of Vm/AssetProofs.v. *)
From FV Require Import Base.Bytes Base.U64 Gen.AssetTable Vm.AssetModel Vm.AssetSpec Vm.AssetProofs.
Open Scope N_scope.

(* every successful TR / TRO / CALL / MINT / BURN / SMO preserves, for every asset,
   free balance + sum of all contract balances + variable outputs + burned (+ messages out for
   the base asset) - minted *)
Theorem C27_step :
  forall (asset_of : N -> N -> N) (base : N) (inputs : list N) (s : vm) (o : op) (s' : vm) (r : areceipt),
    step asset_of base inputs s o = Ok (s', r) ->
    forall a, total base a s' + getd (v_minted s) a = total base a s + getd (v_minted s') a.
Proof. exact step_conserves. Qed.
Print Assumptions C27_step.

(* every transfer / transfer-out / call / mint / burn / message receipt matches a balance movement
   of exactly its amount: that amount of that asset left the announced source and reached the
   announced destination, and no other holding, total or counter changed *)
Theorem C27_receipt_matches :
  forall (asset_of : N -> N -> N) (base : N) (inputs : list N) (s : vm) (o : op) (s' : vm) (r : areceipt),
    step asset_of base inputs s o = Ok (s', r) ->
    exists src dst a amt, announced asset_of base o r = Some (src, dst, a, amt) /\ moved src dst a amt s s'.
Proof. exact step_moved. Qed.
Print Assumptions C27_receipt_matches.

(* the receipts of an execution are exactly those of its successful operations, in order *)
Theorem C27_run_receipts :
  forall (asset_of : N -> N -> N) (base : N) (inputs : list N) (ops : list op) (s sf : vm)
         (rcs : list areceipt) (p : option N) (i : nat) (o : op) (r : areceipt),
    run asset_of base inputs s ops = (sf, rcs, p) ->
    nth_error ops i = Some o -> nth_error rcs i = Some r ->
    exists si si', run asset_of base inputs s (firstn i ops) = (si, firstn i rcs, None) /\
                   step asset_of base inputs si o = Ok (si', r).
Proof. exact run_steps. Qed.
Print Assumptions C27_run_receipts.

(* THE LEDGER EQUATION at finalisation, for every transaction, every operation sequence (with
   a panic at any point) and every ending (return / revert / panic elsewhere):
     spendable inputs (message-data inputs only on success) + contracts' prior balances + minted
       = coin + change + variable outputs + contracts' final balances + burned
         + balance left without a change output
         + (base asset) fee actually charged (max_fee - refund) + amounts sent in messages *)
Theorem C27_ledger :
  forall (asset_of : N -> N -> N) (base : N) (inputs : list N) (ins : list input) (outs : list output)
         (max_fee : N) (cb0 : list ((N * N) * N)) (ops : list op) (e : ending) (refund : N) (f : final),
    execute asset_of base inputs ins outs max_fee cb0 ops e refund = Some f ->
    refund <= max_fee ->
    change_unique outs ->
    forall a, ledger_equation base a ins cb0 max_fee refund f.
Proof. exact ledger_holds. Qed.
Print Assumptions C27_ledger.

(* the hypotheses are satisfiable by a non-trivial execution (8 operations of all six kinds, two
   contracts, four assets, message-data input, fee) and by one that panics at the end *)
Theorem C27_ledger_nonvacuous :
  (exists f, execute ex_asset_of ex_base [100; 200] ex_inputs ex_outs 100 ex_cb0 ex_ops EndReturn 30 = Some f /\
             f_revert f = false /\ change_unique_b ex_outs = true /\
             forallb (fun a => ledger_equation_b ex_base a ex_inputs ex_cb0 100 30 f) [7; 9; ex_asset_of 100 1; 5] = true) /\
  (exists f, execute ex_asset_of ex_base [100; 200] ex_inputs ex_outs 100 ex_cb0 (ex_ops ++ [OpBurn (Internal 200) 3 1]) EndReturn 30 = Some f /\
             f_revert f = true /\
             forallb (fun a => ledger_equation_b ex_base a ex_inputs ex_cb0 100 30 f) [7; 9; ex_asset_of 100 1; 5] = true) /\
  (forall outs, change_unique_b outs = true -> change_unique outs).
Proof. exact (conj example_success (conj example_panic change_unique_b_sound)). Qed.
Print Assumptions C27_ledger_nonvacuous.

(* change_unique (guaranteed by the validity rule TransactionOutputChangeAssetIdDuplicated) cannot
   be dropped: with two change outputs of one asset update_outputs pays the balance twice *)
Theorem C27_change_unique_needed_refuted :
  exists f, execute ex_asset_of ex_base [] [ICoin 7 100] [OChange 1 0 7; OChange 2 0 7] 0 [] [] EndReturn 0 = Some f /\
            ~ ledger_equation ex_base 7 [ICoin 7 100] [] 0 0 f.
Proof. exact change_unique_needed. Qed.
Print Assumptions C27_change_unique_needed_refuted.

(* the balance table a program reads in memory (entry i at BALANCES_OFFSET + i * ENTRY_SIZE)
   equals the VM's internal free balances after every operation sequence *)
Theorem C27_mem_table :
  forall (asset_of : N -> N -> N) (base : N) (inputs : list N) (ins : list input) (outs : list output)
         (max_fee : N) (cb0 : list ((N * N) * N)) (ops : list op) (s0 : vm) (initial : list (N * N))
         (s : vm) (rcs : list areceipt) (p : option N),
    init_vm base ins outs max_fee cb0 = Some (s0, initial) ->
    run asset_of base inputs s0 ops = (s, rcs, p) ->
    table_in_memory (v_mem s) 0 (length (v_bal s)) = values_of (v_bal s).
Proof. exact table_holds. Qed.
Print Assumptions C27_mem_table.

(* ... and at the level of the only primitive that changes either side (so also in the middle of
   an operation that panics later): checked_balance_sub keeps layout and cells *)
Theorem C27_mem_table_sub :
  forall (st : list (N * balance_t)) (mem : list (N * N)) (a v : N) (st' : list (N * balance_t)) (mem' : list (N * N)),
    checked_balance_sub st mem a v = Some (st', mem') ->
    layout_ok 0 st /\ cells_ok mem st ->
    (layout_ok 0 st' /\ cells_ok mem' st') /\ table_in_memory mem' 0 (length st') = values_of st'.
Proof. exact sub_table. Qed.
Print Assumptions C27_mem_table_sub.

(* failed execution: variable outputs zeroed, change = initial free balance (+ refund for the base
   asset), contract balances as before, nothing minted / burned / sent *)
Theorem C27_failed :
  forall (asset_of : N -> N -> N) (base : N) (inputs : list N) (ins : list input) (outs : list output)
         (max_fee : N) (cb0 : list ((N * N) * N)) (ops : list op) (e : ending) (refund : N) (f : final)
         (s0 : vm) (initial : list (N * N)),
    execute asset_of base inputs ins outs max_fee cb0 ops e refund = Some f ->
    init_vm base ins outs max_fee cb0 = Some (s0, initial) ->
    f_revert f = true ->
    failed_outputs_ok base refund initial (f_outs f) = true /\ f_cbal f = cb0 /\ f_free f = initial /\
    f_minted f = [] /\ f_burned f = [] /\ f_msgout f = 0.
Proof. exact failed_execution. Qed.
Print Assumptions C27_failed.
