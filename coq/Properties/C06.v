(* Properties/C06.v — Serde formats round-trip protocol types and consensus parameters.
   Statements at the serde DATA-MODEL level (the tree a Serializer receives / a Deserializer is
   driven with).  The byte formats of serde_json / postcard / bincode are third-party: that half
   is exercised by the correspondence run only (partial).  Only statements here, each closed by
   `exact` of a lemma proved elsewhere, and its assumptions. *)
From FV Require Import Base.Bytes Base.U64 Serde.DataModel Serde.PoliciesModel Serde.DeriveModel Serde.RepoSchemas
  Serde.UpgradeModel Serde.SerdeProofs Serde.DeriveProofs Serde.UpgradeProofs.
Open Scope N_scope.

(* Policies, positional formats (postcard, bincode: visit_seq), all 64 masks, arbitrary values,
   human-readable or binary form of the bits *)
Theorem C06_policies_seq :
  forall (hr : bool) (p : policies),
    ty_ok p = true -> wfp p = true -> p_bits p < 64 ->
    de_policies false hr (ser_policies hr p) = DOk p.
Proof. exact (policies_roundtrip_valid_masks false). Qed.
Print Assumptions C06_policies_seq.

(* Policies, named formats (serde_json: visit_map) *)
Theorem C06_policies_map :
  forall (hr : bool) (p : policies),
    ty_ok p = true -> wfp p = true -> p_bits p < 64 ->
    de_policies true hr (ser_policies hr p) = DOk p.
Proof. exact (policies_roundtrip_valid_masks true). Qed.
Print Assumptions C06_policies_map.

(* sharper: for EVERY u32 bit pattern (unknown bits are retained by bitflags) and both paths, a
   value survives iff rt_ok: legacy bit pattern -> entries 4,5 are zero; otherwise wfp.  In the
   human-readable form this is under the bitflags text contract for these bits. *)
Theorem C06_policies_exact :
  forall (sd hr : bool) (p : policies),
    ty_ok p = true -> (if hr then bits_text_ok (p_bits p) else true) = true ->
    (de_policies sd hr (ser_policies hr p) = DOk p <-> rt_ok p = true).
Proof. exact policies_roundtrip_iff. Qed.
Print Assumptions C06_policies_exact.

(* the representation invariant is kept by the public builders (new, set, with_tip .. with_owner) *)
Theorem C06_set_preserves_wfp :
  forall (p : policies) (i : nat) (v : option N),
    (i < 6)%nat -> length (p_values p) = 6%nat -> wfp p = true -> wfp (pset p i v) = true.
Proof. exact set_preserves_wfp. Qed.
Print Assumptions C06_set_preserves_wfp.

Theorem C06_builders_wfp :
  forall ops : list (nat * option N), Forall (fun o => (fst o < 6)%nat) ops -> wfp (build ops) = true.
Proof. exact builders_wfp. Qed.
Print Assumptions C06_builders_wfp.

(* ... but NOT by Deserialize followed by set: a legacy-layout tree with a non-zero value under an
   unset bit is accepted, and after set(Expiration, ..) the value no longer round-trips (finding) *)
Theorem C06_policies_roundtrip_refuted :
  exists (d : dval) (p0 p : policies),
    de_policies false false d = DOk p0 /\ de_policies true false d = DOk p0 /\
    p = pset p0 4 (Some 5) /\ ty_ok p = true /\ wfp p = false /\
    forall sd hr, de_policies sd hr (ser_policies hr p) <> DOk p.
Proof. exact policies_roundtrip_refuted. Qed.
Print Assumptions C06_policies_roundtrip_refuted.

(* whatever the Deserialize impl produces (from ANY tree, either path) satisfies rt_ok, i.e. it
   re-round-trips: decode-encode-decode is a fixed point *)
Theorem C06_deserialized_policies_stable :
  forall (sd hr sd' hr' : bool) (d : dval) (p : policies),
    de_policies sd hr d = DOk p -> ty_ok p = true ->
    (if hr' then bits_text_ok (p_bits p) else true) = true ->
    de_policies sd' hr' (ser_policies hr' p) = DOk p.
Proof. exact deserialized_policies_stable. Qed.
Print Assumptions C06_deserialized_policies_stable.

(* Bytes and the key!(X, n) arrays (hex text when human readable) *)
Theorem C06_bytes :
  forall b : bytes, de_bytes (ser_bytes b) = DOk b /\ (wf_bytes b = true -> de_bytes (DSeq (map (DU 8) b)) = DOk b).
Proof. exact bytes_roundtrip_both. Qed.
Print Assumptions C06_bytes.

Theorem C06_arrays :
  forall (hr : bool) (n : nat) (b : bytes), length b = n -> wf_bytes b = true -> de_arr hr n (ser_arr hr b) = DOk b.
Proof. exact arr_roundtrip. Qed.
Print Assumptions C06_arrays.

(* derived impls, generic over the schema universe (structs, enums of all four variant shapes,
   Vec/Option/tuples, newtypes, #[serde(transparent)], #[serde(skip)]), both transports *)
Theorem C06_derive_roundtrip :
  forall (sd hr : bool) (t : sty) (v : sval),
    wf_sty t = true -> has_sty hr t v = true -> de sd hr t (ser hr t v) = DOk (erase t v).
Proof. exact derive_roundtrip. Qed.
Print Assumptions C06_derive_roundtrip.

(* instance: the whole Transaction enum as recorded from the real derive output *)
Theorem C06_transaction_roundtrip :
  forall (sd hr : bool) (v : sval),
    has_sty hr S_Transaction v = true ->
    de sd hr S_Transaction (ser hr S_Transaction v) = DOk (erase S_Transaction v).
Proof. exact transaction_roundtrip. Qed.
Print Assumptions C06_transaction_roundtrip.

(* upgrade checksum: what compute accepts is hashed over the SAME witness bytes it decodes *)
Theorem C06_checksum_sound :
  forall (CP : Type) (h : bytes -> bytes) (de_cp : bytes -> option CP)
         (p : purpose) (ws : list bytes) (cp : CP) (c : bytes),
    compute CP h de_cp p ws = UOk (MConsensusParameters cp c) ->
    exists idx checksum w,
      p = PConsensusParameters idx checksum /\ nth_error ws (N.to_nat idx) = Some w /\
      c = h w /\ h w = checksum /\ de_cp w = Some cp.
Proof. exact compute_sound. Qed.
Print Assumptions C06_checksum_sound.

(* parameters serialized by upgrade_consensus_parameters hash to the committed checksum, compute
   returns them, and the payload is reproducible — under the postcard codec contract (oracle) *)
Theorem C06_checksum_commit :
  forall (CP : Type) (h : bytes -> bytes) (ser_cp : CP -> option bytes) (de_cp : bytes -> option CP)
         (cp : CP) (ws : list bytes) (p : purpose) (ws' : list bytes),
    codec_contract CP ser_cp de_cp ->
    upgrade_consensus_parameters CP h ser_cp cp ws = UOk (p, ws') ->
    exists w, ser_cp cp = Some w /\
      p = PConsensusParameters (lenN ws) (h w) /\ ws' = ws ++ [w] /\
      compute CP h de_cp p ws' = UOk (MConsensusParameters cp (h w)) /\
      (forall cp', de_cp w = Some cp' -> ser_cp cp' = Some w).
Proof. exact upgrade_commit. Qed.
Print Assumptions C06_checksum_commit.

(* the contract does not make ARBITRARY accepted witnesses reproducible (trailing bytes) *)
Theorem C06_checksum_noncanonical :
  codec_contract N toy_ser toy_de /\
  exists p ws cp c w,
    compute N (fun b => b) toy_de p ws = UOk (MConsensusParameters cp c) /\
    nth_error ws 0 = Some w /\ toy_ser cp <> Some w.
Proof. exact (conj toy_contract accepted_witness_need_not_be_canonical). Qed.
Print Assumptions C06_checksum_noncanonical.
