(* Properties/C24.v — Programs can only write memory they own.
   Only statements, each closed by `exact` of a lemma proved in Vm/OwnProofs.v / Vm/FrameProofs.v,
   and its assumptions.  Level: proof over the abstract machine of Vm/OwnModel.v + Vm/FrameModel.v;
   the tie to the interpreter is the per-step trace validation of Run/Own.v. *)
From FV Require Import Base.Bytes Base.U64 Gen.VmConsts Vm.OwnModel Vm.OwnProofs Vm.FrameModel Vm.FrameProofs.
Open Scope N_scope.

(* a store through MemoryInstance::write(owner, ..) changes only bytes of the stack region
   [ssp, sp) or of the heap region [hp, prev_hp) — for every memory, registers, address, data *)
Theorem C24_owned :
  forall (m : amem) (o : ownregs) (a : N) (bs : bytes) (m' : amem),
    mem_write m o a bs = Ok m' ->
    forall x, m_data m' x <> m_data m x ->
              (o_ssp o <= x < o_sp o) \/ (o_hp o <= x < o_prev_hp o).
Proof. exact mem_write_owned. Qed.
Print Assumptions C24_owned.

(* same for MemoryInstance::memcopy (MCP / MCPI / LDC from memory) *)
Theorem C24_owned_memcopy :
  forall (m : amem) (o : ownregs) (dst src len : N) (m' : amem),
    mem_memcopy m o dst src len = Ok m' ->
    forall x, m_data m' x <> m_data m x ->
              (o_ssp o <= x < o_sp o) \/ (o_hp o <= x < o_prev_hp o).
Proof. exact mem_memcopy_owned. Qed.
Print Assumptions C24_owned_memcopy.

(* has_ownership_range on non-empty ranges is exactly "inside one of the two regions" *)
Theorem C24_ownership_nonempty :
  forall (o : ownregs) (s e : N),
    s < e ->
    (has_ownership_range o s e = true <->
     (o_ssp o <= s /\ e <= o_sp o /\ e <= VM_MAX_RAM) \/ (o_hp o <= s /\ e <= o_prev_hp o)).
Proof. exact ownership_nonempty. Qed.
Print Assumptions C24_ownership_nonempty.

(* empty ranges: accepted iff the start is ssp, hp, or inside a region (the quirk: an empty
   range at $sp, or at $hp = prev_hp's far side, is refused although nothing would be written) *)
Theorem C24_ownership_empty :
  forall (o : ownregs) (s e : N),
    e <= s ->
    (has_ownership_range o s e = true <->
     s = o_ssp o \/ (o_ssp o <= s < o_sp o /\ o_ssp o <= e /\ e <= VM_MAX_RAM) \/
     s = o_hp o \/ (o_hp o <= s /\ o_hp o <> o_prev_hp o /\ e <= o_prev_hp o)).
Proof. exact ownership_empty. Qed.
Print Assumptions C24_ownership_empty.

Theorem C24_empty_write_changes_nothing :
  forall (m : amem) (o : ownregs) (a : N) (m' : amem),
    mem_write m o a [] = Ok m' -> forall x, m_data m' x = m_data m x.
Proof. exact mem_write_empty. Qed.
Print Assumptions C24_empty_write_changes_nothing.

(* hp = prev_hp (nothing allocated in this context): no heap byte can be written *)
Theorem C24_heap_unallocated :
  forall (o : ownregs) (s e : N), o_hp o = o_prev_hp o -> s < e -> has_ownership_heap o s e = false.
Proof. exact heap_unallocated_not_owned. Qed.
Print Assumptions C24_heap_unallocated.

(* ---- refusals and their reasons *)
Theorem C24_write_beyond_memory :
  forall (m : amem) (o : ownregs) (a : N) (bs : bytes),
    MEM_SIZE < a + lenN bs -> mem_write m o a bs = Err PANIC_MemoryOverflow.
Proof. exact mem_write_overflow. Qed.
Print Assumptions C24_write_beyond_memory.

Theorem C24_write_unallocated_or_spanning :
  forall (m : amem) (o : ownregs) (a : N) (bs : bytes),
    a + lenN bs <= MEM_SIZE -> m_stack_len m < a + lenN bs -> a < m_hp m ->
    mem_write m o a bs = Err PANIC_UninitalizedMemoryAccess.
Proof. exact mem_write_uninitialized. Qed.
Print Assumptions C24_write_unallocated_or_spanning.

Theorem C24_write_not_owned :
  forall (m : amem) (o : ownregs) (a : N) (bs : bytes),
    a + lenN bs <= MEM_SIZE -> (a + lenN bs <= m_stack_len m \/ m_hp m <= a) ->
    has_ownership_range o a (a + lenN bs) = false ->
    mem_write m o a bs = Err PANIC_MemoryOwnership.
Proof. exact mem_write_not_owned. Qed.
Print Assumptions C24_write_not_owned.

Theorem C24_foreign_byte_refused :
  forall (m : amem) (o : ownregs) (a : N) (bs : bytes) (x : N),
    a <= x < a + lenN bs -> ~ in_owned o x -> exists r, mem_write m o a bs = Err r.
Proof. exact mem_write_foreign_byte_refused. Qed.
Print Assumptions C24_foreign_byte_refused.

(* reads and writes share MemoryInstance::verify: any range touching never-allocated memory,
   and any range spanning the stack and the heap region, is refused with one of the two reasons *)
Theorem C24_access_gap_refused :
  forall (m : amem) (a n x : N),
    m_stack_len m <= x < m_hp m -> a <= x < a + n ->
    exists r, verify m a n = Err r /\ (r = PANIC_MemoryOverflow \/ r = PANIC_UninitalizedMemoryAccess).
Proof. exact verify_gap_refused. Qed.
Print Assumptions C24_access_gap_refused.

Theorem C24_access_spanning_refused :
  forall (m : amem) (a n : N),
    m_stack_len m <= m_hp m -> a < m_stack_len m -> m_hp m < a + n -> m_stack_len m < m_hp m \/ 0 < n ->
    exists r, verify m a n = Err r /\ (r = PANIC_MemoryOverflow \/ r = PANIC_UninitalizedMemoryAccess).
Proof. exact verify_spanning_refused. Qed.
Print Assumptions C24_access_spanning_refused.

Theorem C24_access_exact :
  forall (m : amem) (a n s e : N),
    verify m a n = Ok (s, e) <->
    s = a /\ e = a + n /\ a + n <= MEM_SIZE /\ (a + n <= m_stack_len m \/ m_hp m <= a).
Proof. exact verify_ok_iff. Qed.
Print Assumptions C24_access_exact.

(* ---- LDC *)
Theorem C24_ldc_stack_only :
  forall (s : vstate) (code : bytes) (s' : vstate),
    Inv s -> step s (CLdc code) = Some s' ->
    v_regs s REG_SSP = v_regs s REG_SP /\
    (forall x, m_data (v_mem s') x <> m_data (v_mem s) x ->
       (v_regs s REG_SSP <= x < v_regs s REG_SSP + lenN code) \/
       (is_internal s = true /\ v_regs s REG_FP + CF_CODE_SIZE_OFFSET <= x < v_regs s REG_FP + CF_CODE_SIZE_OFFSET + 8)).
Proof. exact ldc_changes. Qed.
Print Assumptions C24_ldc_stack_only.

Theorem C24_ldc_owner_refuses_heap :
  forall (sp ssp hp s e : N), s < e -> has_ownership_heap (only_allow_stack_write sp ssp hp) s e = false.
Proof. exact stack_only_owner_refuses_heap. Qed.
Print Assumptions C24_ldc_owner_refuses_heap.

(* ---- the machine: every operation changes only owned bytes or the region of the VM's own
   write of that operation; the invariant is preserved; hence for every run *)
Theorem C24_step :
  forall (s : vstate) (op : cop) (s' : vstate),
    Inv s -> step s op = Some s' ->
    forall x, m_data (v_mem s') x <> m_data (v_mem s) x -> in_owned (cur_owner s) x \/ vm_region s op x.
Proof. exact step_changes. Qed.
Print Assumptions C24_step.

Theorem C24_machine_invariant :
  forall (s : vstate) (op : cop) (s' : vstate),
    Inv s -> step s op = Some s' -> Inv s' /\ v_vm_hi s' = v_vm_hi s.
Proof. exact step_inv. Qed.
Print Assumptions C24_machine_invariant.

Theorem C24_machine_runs :
  forall (ops1 : list cop) (op : cop) (s s1 s2 : vstate),
    Inv s -> run s ops1 = Some s1 -> step s1 op = Some s2 ->
    forall x, m_data (v_mem s2) x <> m_data (v_mem s1) x -> in_owned (cur_owner s1) x \/ vm_region s1 op x.
Proof. exact run_steps_constrained. Qed.
Print Assumptions C24_machine_runs.

(* ---- tie tables regenerated from /repo on every check *)
Theorem C24_class_table_matches_handlers : forallb route_ok handler_routes = true.
Proof. exact class_table_matches_handlers. Qed.
Print Assumptions C24_class_table_matches_handlers.

Theorem C24_unchecked_sites_accounted : unchecked_write_sites = accounted_sites.
Proof. exact unchecked_sites_accounted. Qed.
Print Assumptions C24_unchecked_sites_accounted.
