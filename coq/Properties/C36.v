(* Properties/C36.v — Storage reads honour the read contract for every offset and length.
   Only statements, each closed by `exact` of a lemma proved in Mem/ReadProofs.v. *)
From FV Require Import Base.Bytes Base.U64 Mem.SVec Mem.MemSpec Mem.MemModel Mem.ReadSpec Mem.ReadModel Mem.ReadProofs.
Open Scope N_scope.

(* read_exact of MemoryStorage = the contract (a Rust Vec is shorter than 2^64 - 1 bytes) *)
Theorem C36_exact :
  forall (v : option bytes) (off : N) (buf : bytes),
    (forall d, v = Some d -> lenN d < U64 - 1) ->
    m_read_exact v off buf = spec_read_exact v off buf.
Proof. exact read_exact_refines. Qed.
Print Assumptions C36_exact.

(* read_zerofill of MemoryStorage = the contract, for every value, offset and buffer *)
Theorem C36_zerofill :
  forall (v : option bytes) (off : N) (buf : bytes),
    m_read_zerofill v off buf = spec_read_zerofill v off buf.
Proof. exact read_zerofill_refines. Qed.
Print Assumptions C36_zerofill.

(* missing keys: KeyNotFound, buffer untouched, no size, no allocation *)
Theorem C36_missing :
  forall (off : N) (buf : bytes),
    m_read_exact None off buf = (buf, inr KeyNotFound) /\
    m_read_zerofill None off buf = (buf, inr KeyNotFound) /\
    m_size_of_value None = None /\ m_read_alloc None = None.
Proof. exact read_missing. Qed.
Print Assumptions C36_missing.

Theorem C36_size_alloc :
  forall v : option bytes, m_size_of_value v = spec_size v /\ m_read_alloc v = spec_read_alloc v.
Proof. exact size_alloc_refine. Qed.
Print Assumptions C36_size_alloc.

(* what the contract says, byte by byte: offset + length within the value (offset == length
   allowed with an empty buffer) <=> success, and then buffer[i] = value[offset + i] *)
Theorem C36_contract_exact_ok :
  forall (d : bytes) (off : N) (buf : bytes),
    off + lenN buf <= lenN d ->
    exists b, spec_read_exact (Some d) off buf = (b, inl (lenN d)) /\ length b = length buf /\
              forall i, (i < length buf)%nat -> nth i b 0 = nth (N.to_nat off + i) d 0.
Proof. exact spec_exact_ok. Qed.
Print Assumptions C36_contract_exact_ok.

Theorem C36_contract_exact_err :
  forall (d : bytes) (off : N) (buf : bytes),
    lenN d < off + lenN buf -> spec_read_exact (Some d) off buf = (buf, inr OutOfBounds).
Proof. exact spec_exact_err. Qed.
Print Assumptions C36_contract_exact_err.

(* zero-filling read: succeeds iff offset <= length; buffer[i] = value[offset+i] where that exists,
   0 elsewhere (nth ... 0 is 0 beyond the end of the value) *)
Theorem C36_contract_zerofill_ok :
  forall (d : bytes) (off : N) (buf : bytes),
    off <= lenN d ->
    exists b, spec_read_zerofill (Some d) off buf = (b, inl (lenN d)) /\ length b = length buf /\
              forall i, (i < length buf)%nat -> nth i b 0 = nth (N.to_nat off + i) d 0.
Proof. exact spec_zerofill_ok. Qed.
Print Assumptions C36_contract_zerofill_ok.

Theorem C36_contract_zerofill_err :
  forall (d : bytes) (off : N) (buf : bytes),
    lenN d < off -> spec_read_zerofill (Some d) off buf = (buf, inr OutOfBounds).
Proof. exact spec_zerofill_err. Qed.
Print Assumptions C36_contract_zerofill_err.
