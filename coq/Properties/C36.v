(* Properties/C36.v — Storage reads honour the read contract for every offset and length.
   Only statements, each closed by `exact` of a lemma proved in Mem/ReadProofs.v. *)
From FV Require Import Base.Bytes Base.U64 Mem.SVec Mem.MemSpec Mem.MemModel Mem.ReadSpec Mem.ReadModel Mem.ReadProofs.
Open Scope N_scope.

(* read_exact of MemoryStorage = the contract (a Rust Vec is shorter than 2^64 - 1 bytes) *)
Theorem C36_exact :
  forall (v : option bytes) (off : N) (buf : bytes),
    (forall d, v = Some d -> lenN d < U64 - 1) ->
    m_read_exact v off buf = spec_read_exact v off buf.
Proof. exact read_exact_refines. Qed.
Print Assumptions C36_exact.

(* read_zerofill of MemoryStorage = the contract, for every value, offset and buffer *)
Theorem C36_zerofill :
  forall (v : option bytes) (off : N) (buf : bytes),
    m_read_zerofill v off buf = spec_read_zerofill v off buf.
Proof. exact read_zerofill_refines. Qed.
Print Assumptions C36_zerofill.

(* missing keys: KeyNotFound, buffer untouched, no size, no allocation *)
Theorem C36_missing :
  forall (off : N) (buf : bytes),
    m_read_exact None off buf = (buf, inr KeyNotFound) /\
    m_read_zerofill None off buf = (buf, inr KeyNotFound) /\
    m_size_of_value None = None /\ m_read_alloc None = None.
Proof. exact read_missing. Qed.
Print Assumptions C36_missing.

Theorem C36_size_alloc :
  forall v : option bytes, m_size_of_value v = spec_size v /\ m_read_alloc v = spec_read_alloc v.
Proof. exact size_alloc_refine. Qed.
Print Assumptions C36_size_alloc.

(* what the contract says, byte by byte: offset + length within the value (offset == length
   allowed with an empty buffer) <=> success, and then buffer[i] = value[offset + i] *)
Theorem C36_contract_exact_ok :
  forall (d : bytes) (off : N) (buf : bytes),
    off + lenN buf <= lenN d ->
    exists b, spec_read_exact (Some d) off buf = (b, inl (lenN d)) /\ length b = length buf /\
              forall i, (i < length buf)%nat -> nth i b 0 = nth (N.to_nat off + i) d 0.
Proof. exact spec_exact_ok. Qed.
Print Assumptions C36_contract_exact_ok.

Theorem C36_contract_exact_err :
  forall (d : bytes) (off : N) (buf : bytes),
    lenN d < off + lenN buf -> spec_read_exact (Some d) off buf = (buf, inr OutOfBounds).
Proof. exact spec_exact_err. Qed.
Print Assumptions C36_contract_exact_err.

(* zero-filling read: succeeds iff offset <= length; buffer[i] = value[offset+i] where that exists,
   0 elsewhere (nth ... 0 is 0 beyond the end of the value) *)
Theorem C36_contract_zerofill_ok :
  forall (d : bytes) (off : N) (buf : bytes),
    off <= lenN d ->
    exists b, spec_read_zerofill (Some d) off buf = (b, inl (lenN d)) /\ length b = length buf /\
              forall i, (i < length buf)%nat -> nth i b 0 = nth (N.to_nat off + i) d 0.
Proof. exact spec_zerofill_ok. Qed.
Print Assumptions C36_contract_zerofill_ok.

Theorem C36_contract_zerofill_err :
  forall (d : bytes) (off : N) (buf : bytes),
    lenN d < off -> spec_read_zerofill (Some d) off buf = (buf, inr OutOfBounds).
Proof. exact spec_zerofill_err. Qed.
Print Assumptions C36_contract_zerofill_err.

(* ---------------- instructions built on the reads ---------------- *)
(* copy_from_storage_zero_fill: on success the destination was accessible and owned and memory is
   the old memory with value[off..off+len] ++ zeros at [dst, dst+len); nothing else changes *)
Theorem C36_copy_zero_fill :
  forall (m : mem) (o : owner) (d : bytes) (dst len off : N) (nf : vmerr) (m' : mem),
    Inv m -> copy_from_storage_zero_fill m o (Some d) dst len off (lenN d) nf = inl m' ->
    check_range (abs m) dst len = None /\ owns o dst (dst + len) = true /\
    R m' {| stk_hi := sv_len (stack m); hp := mhp m;
            data := upd_range (mem_get m) dst (loaded_bytes d off len) |}.
Proof. exact copy_zero_fill_ok. Qed.
Print Assumptions C36_copy_zero_fill.

Theorem C36_copy_zero_fill_succeeds :
  forall (m : mem) (o : owner) (d : bytes) (dst len off : N) (nf : vmerr),
    Inv m -> check_range (abs m) dst len = None -> owns o dst (dst + len) = true ->
    (off < lenN d -> off < U32) ->
    exists m', copy_from_storage_zero_fill m o (Some d) dst len off (lenN d) nf = inl m'.
Proof. exact copy_zero_fill_succeeds. Qed.
Print Assumptions C36_copy_zero_fill_succeeds.

(* loaded_bytes byte by byte: value[off+i] where it exists, 0 elsewhere; exactly len bytes *)
Theorem C36_loaded_bytes :
  forall (d : bytes) (off n : N),
    length (loaded_bytes d off n) = N.to_nat n /\
    forall i, (i < N.to_nat n)%nat -> nth i (loaded_bytes d off n) 0 = nth (N.to_nat off + i) d 0.
Proof. exact loaded_bytes_spec. Qed.
Print Assumptions C36_loaded_bytes.

Theorem C36_ccp :
  forall (s : vm) (contracts : storage) (dst id_addr off len : N) (s' : vm),
    Inv (v_mem s) -> ccp s contracts dst id_addr off len = inl s' ->
    exists id code,
      read_id (v_mem s) id_addr = inl id /\ lookup contracts id = Some code /\
      v_ssp s' = v_ssp s /\ v_sp s' = v_sp s /\ v_hp s' = v_hp s /\
      owns (owner_regs s) dst (dst + len) = true /\
      R (v_mem s') {| stk_hi := sv_len (stack (v_mem s)); hp := mhp (v_mem s);
                      data := upd_range (mem_get (v_mem s)) dst (loaded_bytes code off len) |}.
Proof. exact ccp_ok. Qed.
Print Assumptions C36_ccp.

Theorem C36_bldd :
  forall (s : vm) (blobs : storage) (dst id_addr off len : N) (s' : vm),
    Inv (v_mem s) -> bldd s blobs dst id_addr off len = inl s' ->
    exists id blob,
      read_id (v_mem s) id_addr = inl id /\ lookup blobs id = Some blob /\
      v_ssp s' = v_ssp s /\ v_sp s' = v_sp s /\ v_hp s' = v_hp s /\
      owns (owner_regs s) dst (dst + len) = true /\
      R (v_mem s') {| stk_hi := sv_len (stack (v_mem s)); hp := mhp (v_mem s);
                      data := upd_range (mem_get (v_mem s)) dst (loaded_bytes blob off len) |}.
Proof. exact bldd_ok. Qed.
Print Assumptions C36_bldd.

Theorem C36_csiz_bsiz :
  forall (s : vm) (tbl : storage) (id_addr n : N),
    (csiz s tbl id_addr = inl n ->
       exists id code, read_id (v_mem s) id_addr = inl id /\ lookup tbl id = Some code /\ n = lenN code) /\
    (bsiz s tbl id_addr = inl n ->
       exists id blob, read_id (v_mem s) id_addr = inl id /\ lookup tbl id = Some blob /\ n = lenN blob).
Proof. exact csiz_bsiz_ok. Qed.
Print Assumptions C36_csiz_bsiz.

(* LDC modes 0 and 1: $ssp = $sp afterwards = old $ssp + padded length; the stack is extended
   with zeros as needed; [old $ssp, new $ssp) holds value[off .. off+padded] ++ zeros; then the
   frame's code size is updated (update_code_size) *)
Theorem C36_ldc_contract :
  forall (s : vm) (contracts : storage) (id_addr off c : N) (s' : vm),
    Inv (v_mem s) -> ldc_contract s contracts id_addr off c = inl s' ->
    exists id code,
      v_ssp s = v_sp s /\ read_id (v_mem s) id_addr = inl id /\ lookup contracts id = Some code /\
      padded_len c <= v_max_size s /\
      ldc_storage_tail s (Some code) (lenN code) off (padded_len c) ContractNotFound true = inl s'.
Proof. exact ldc_contract_ok. Qed.
Print Assumptions C36_ldc_contract.

Theorem C36_ldc_blob :
  forall (s : vm) (blobs : storage) (id_addr off c : N) (s' : vm),
    Inv (v_mem s) -> ldc_blob s blobs id_addr off c = inl s' ->
    exists id blob,
      v_ssp s = v_sp s /\ read_id (v_mem s) id_addr = inl id /\ lookup blobs id = Some blob /\
      ldc_storage_tail s (Some blob) (lenN blob) off (padded_len c) BlobNotFound false = inl s'.
Proof. exact ldc_blob_ok. Qed.
Print Assumptions C36_ldc_blob.

Theorem C36_ldc_loaded_region :
  forall (s : vm) (code : bytes) (off length : N) (nf : vmerr) (strict : bool) (s' : vm),
    Inv (v_mem s) -> ldc_storage_tail s (Some code) (lenN code) off length nf strict = inl s' ->
    v_ssp s + length <= MEM_SIZE /\ v_ssp s' = v_ssp s + length /\ v_sp s' = v_ssp s + length /\
    v_hp s' = v_hp s /\
    owns (only_stack (v_ssp s + length) (v_ssp s) (v_hp s)) (v_ssp s) (v_ssp s + length) = true /\
    exists m2,
      R m2 {| stk_hi := N.max (sv_len (stack (v_mem s))) (v_ssp s + length); hp := mhp (v_mem s);
              data := upd_range (zero_range (mem_get (v_mem s)) (sv_len (stack (v_mem s))) (v_ssp s + length))
                                (v_ssp s) (loaded_bytes code off length) |} /\
      update_code_size s m2 length strict = inl (v_mem s').
Proof. exact ldc_storage_tail_ok. Qed.
Print Assumptions C36_ldc_loaded_region.

(* LDC mode 2: [old $ssp, +$rC) is a copy of memory[$rA + $rB, +$rC) (refused if the two ranges share
   a byte), followed by zero padding up to the word-padded length *)
Theorem C36_ldc_memory :
  forall (s : vm) (src_addr off c : N) (s' : vm),
    Inv (v_mem s) -> c <> 0 -> ldc_memory s src_addr off c = inl s' ->
    v_ssp s = v_sp s /\ v_ssp s + padded_len c <= MEM_SIZE /\
    v_ssp s' = v_ssp s + padded_len c /\ v_sp s' = v_ssp s + padded_len c /\ v_hp s' = v_hp s /\
    share_byte (v_ssp s) (saturating_add U64 src_addr off) c = false /\
    exists m3,
      R m3 {| stk_hi := N.max (sv_len (stack (v_mem s))) (v_ssp s + padded_len c); hp := mhp (v_mem s);
              data := upd_range (copy_range (zero_range (mem_get (v_mem s)) (sv_len (stack (v_mem s))) (v_ssp s + padded_len c))
                                            (v_ssp s) (saturating_add U64 src_addr off) c)
                                (v_ssp s + c) (zeros (N.to_nat (padded_len c - c))) |} /\
      update_code_size s m3 (padded_len c) false = inl (v_mem s').
Proof. exact ldc_memory_ok. Qed.
Print Assumptions C36_ldc_memory.

(* the padding is zero when the loaded region reaches the end of the value ... *)
Theorem C36_padding_zero_when_value_ends :
  forall (d : bytes) (off c l : N),
    lenN d <= off + c -> c <= l ->
    loaded_bytes d off l = loaded_bytes d off c ++ zeros (N.to_nat (l - c)).
Proof. exact loaded_bytes_strict. Qed.
Print Assumptions C36_padding_zero_when_value_ends.

(* ... FINDING: but not in general: with $rC not a multiple of 8 and a value that continues, LDC
   modes 0/1 leave the value's next bytes in the padding, not zeros *)
Theorem C36_ldc_strict_padding_refuted : ~ ldc_contract_padding_is_zero.
Proof. exact ldc_strict_padding_refuted. Qed.
Print Assumptions C36_ldc_strict_padding_refuted.
