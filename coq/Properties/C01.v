(* Properties/C01.v — Canonical encoding round-trips and reports its own size.
   Only statements, each closed by `exact` of a lemma proved in Codec/*.v, and its assumptions.

   Reading guide: [ty]/[val] = schema / neutral value (Codec/Schema.v); [S_*] = the schemas
   generated from the Rust sources (Gen/Schemas.v); [codec_types] = Transaction, the six
   transaction kinds, Input, Output, Witness, Policies, StorageSlot, UtxoId, TxPointer, Receipt,
   UpgradePurpose; [enc]/[dec]/[size*] = the model of canonical.rs + fuel-derive + the
   hand-written impls (Codec/CodecModel.v); [L] = VEC_DECODE_LIMIT; [typed] = the value is a
   value of the Rust type; [wf] = the boolean conjunction of the hypotheses the proof forced
   (every vector at most L long; predicate inputs have a non-empty predicate; message-data
   inputs non-empty data; values of unset policy bits are 0; maturity/expiration fit in u32);
   [erase] replaces every #[canonical(skip)] field by its Default; [skips] lists those fields. *)
From FV Require Import Base.Bytes Base.U64 Codec.Schema Codec.CodecModel Codec.CodecFacts Codec.CodecExempt
  Codec.CodecInstances Gen.Schemas.
Open Scope N_scope.

(* the translator's output satisfies the side conditions of the generic lemmas *)
Theorem C01_schemas_ok : forallb (fun p => schema_ok (snd p)) all_schemas = true.
Proof. exact all_schemas_ok. Qed.
Print Assumptions C01_schemas_ok.

(* size()/size_static()/size_dynamic() = number of bytes encode produces (saturating at
   usize::MAX exactly as the Rust arithmetic does) *)
Theorem C01_size : forall t v, is_codec_type t -> typed t v = true ->
  size t v = N.min (lenN (enc t v)) u64_max /\
  size_static t v = N.min (lenN (enc_static t v)) u64_max /\
  size_dynamic t v = N.min (lenN (enc_dynamic t v)) u64_max.
Proof. exact inst_size. Qed.
Print Assumptions C01_size.

Theorem C01_size_exact : forall t v, is_codec_type t -> typed t v = true -> lenN (enc t v) <= u64_max ->
  size t v = lenN (enc t v).
Proof. exact inst_size_exact. Qed.
Print Assumptions C01_size_exact.

(* word alignment of the whole encoding and of both parts *)
Theorem C01_aligned : forall t v, is_codec_type t -> typed t v = true ->
  lenN (enc t v) mod 8 = 0 /\ lenN (enc_static t v) mod 8 = 0 /\ lenN (enc_dynamic t v) mod 8 = 0.
Proof. exact inst_aligned. Qed.
Print Assumptions C01_aligned.

(* encode succeeds; decoding the encoding (followed by anything) consumes exactly the encoding
   and returns the value with the skipped fields defaulted *)
Theorem C01_roundtrip : forall t v rest, is_codec_type t -> typed t v = true -> wf L t v = true ->
  encode L t v = Ok (enc t v) /\ dec L t (enc t v ++ rest) = Ok (erase t v, rest).
Proof. exact inst_roundtrip. Qed.
Print Assumptions C01_roundtrip.

(* exactly which fields are erased: receipt payload data, the panic reason, the panic
   contract id, cached metadata ... *)
Theorem C01_exempt : map (fun p => (fst p, skips (snd p))) codec_types = exempt_paths.
Proof. exact inst_exempt. Qed.
Print Assumptions C01_exempt.
(* ... and nothing else: a type with no such field round-trips to exactly the original *)
Theorem C01_exempt_nothing_else : forall t v rest, is_codec_type t -> skips t = [] ->
  typed t v = true -> wf L t v = true -> dec L t (enc t v ++ rest) = Ok (v, rest).
Proof. exact inst_exact. Qed.
Print Assumptions C01_exempt_nothing_else.
Theorem C01_erase_id : forall t v, skips t = [] -> erase t v = v.
Proof. exact erase_id. Qed.
Print Assumptions C01_erase_id.

(* the hypothesis wf is satisfiable by non-trivial values (a script transaction with a predicate
   coin, a message-data input, three policies, an output, a witness and cached metadata) *)
Theorem C01_nonvacuous :
  let tx := ex_script_tx [ex_coin_predicate [1; 2; 3] [9]; ex_message_data_signed [5]] (ex_policies 21 [3; 0; 9; 0; 11; 0]) in
  is_codec_type S_Transaction /\ typed S_Transaction tx = true /\ wf L S_Transaction tx = true /\
  erase S_Transaction tx <> tx.
Proof. exact ex_tx_wf. Qed.
Print Assumptions C01_nonvacuous.

(* each conjunct of wf is necessary: the faithful model violates the unconditional statement *)
Theorem C01_refuted_empty_predicate :
  exists v, typed S_Input v = true /\ ~ roundtrips S_Input v /\
            dec L S_Input (enc S_Input v) =
            Ok (VE 0 [VS [ex_utxo; VB zero32; VN 7; VB zero32; ex_txptr; VN 0; VUnit; VUnit; VUnit]],
                [9; 0; 0; 0; 0; 0; 0; 0]).
Proof. exact refuted_empty_predicate. Qed.
Print Assumptions C01_refuted_empty_predicate.
Theorem C01_refuted_empty_data :
  exists v, typed S_Input v = true /\ ~ roundtrips S_Input v /\
            exists w, dec L S_Input (enc S_Input v) = Ok (VE 3 [w], []).
Proof. exact refuted_empty_data. Qed.
Print Assumptions C01_refuted_empty_data.
Theorem C01_refuted_maturity :
  exists v, typed S_Policies v = true /\ dec L S_Policies (enc S_Policies v) = Err MaturityTooLarge.
Proof. exact refuted_maturity. Qed.
Print Assumptions C01_refuted_maturity.
Theorem C01_refuted_expiration :
  exists v, typed S_Policies v = true /\ dec L S_Policies (enc S_Policies v) = Err ExpirationTooLarge.
Proof. exact refuted_expiration. Qed.
Print Assumptions C01_refuted_expiration.
Theorem C01_refuted_unset_nonzero :
  exists v, typed S_Policies v = true /\ ~ roundtrips S_Policies v /\
            dec L S_Policies (enc S_Policies v) = Ok (ex_policies 0 [0; 0; 0; 0; 0; 0], []).
Proof. exact refuted_unset_nonzero. Qed.
Print Assumptions C01_refuted_unset_nonzero.
Theorem C01_refuted_above_limit :
  exists v, typed S_Witness v = true /\ encode L S_Witness v = Err AllocationLimit.
Proof. exact refuted_above_limit. Qed.
Print Assumptions C01_refuted_above_limit.
Theorem C01_refuted_tx :
  exists v, typed S_Transaction v = true /\ ~ roundtrips S_Transaction v.
Proof. exact refuted_tx_with_empty_predicate. Qed.
Print Assumptions C01_refuted_tx.
Theorem C01_refuted_unknown_policy_bits :
  exists v, typed S_Policies v = false /\ size S_Policies v = 16 /\ lenN (enc S_Policies v) = 8.
Proof. exact refuted_unknown_policy_bits. Qed.
Print Assumptions C01_refuted_unknown_policy_bits.
