(* Properties/C29.v — No input makes the VM crash, report an internal bug or run forever.
   Only statements, each closed by `exact` of a lemma proved in Vm/NoCrashProofs.v, Vm/GasProofs.v
   (C26's gas invariant) or Vm/OutcomeProofs.v (C28's receipt-slot invariant).

   Vocabulary (definitions, not hypotheses):
     NoCrashModel.step / run / steps   the run loop over an abstract machine in which an executed instruction is:
                        fetch (may fail: the run ends) ; base_cost op = None (undefined opcode, or ECAL which charges
                        nothing: the run ends) ; pre (decoding/checks: continue or end) ; gas_charge (base + extra)
                        (Vm/GasModel.v; OutOfGas ends the run) ; post (the rest of the handler: continue or end)
     base_cost_default  base of the first charge of an opcode under the default schedule, from Gen/GasTable.v
                        (regenerated from opcodes_impl.rs + default_gas_costs.rs on every check)
     gstate, gevent, GasModel.run, gas_used       the gas registers and the gas operations of an execution (C26)
     OutcomeModel.run gas initial prog            run_program's receipt handling over any instruction list (C28)
   The host-panic half of the property is a runtime property: it is exercised by the correspondence
   run under catch_unwind, not proved. *)
From Coq Require Import List NArith Bool.
From FV Require Import Base.Bytes Base.U64 Vm.FlowSpec Vm.GasTypes Vm.GasSpec Gen.GasTable Vm.GasModel Vm.GasProofs
                       Vm.NoCrashModel Vm.NoCrashProofs Vm.OutcomeSpec Vm.OutcomeModel Vm.OutcomeProofs.
Import ListNotations.
Open Scope N_scope.

(* The obligation on the generated table: under the default schedule every opcode that charges at
   all charges at least 1 before doing anything else. *)
Theorem C29_default_base_cost_ge_1 :
  forall (op b : N), base_cost_default op = Some b -> 1 <= b.
Proof. exact base_cost_default_pos. Qed.
Print Assumptions C29_default_base_cost_ge_1.

(* Progress: for any machine in which base costs are >= 1 and nothing but gas_charge moves $ggas
   (pre/post never increase it), an instruction after which the loop continues has consumed at
   least one unit of global gas. *)
Theorem C29_progress :
  forall (St Res : Type) (gas_of : St -> gstate) (set_gas : St -> gstate -> St) (fetch : St -> option N)
         (fault : St -> Res) (base_cost : N -> option N) (no_charge : N -> St -> Res) (pre : N -> St -> St + Res)
         (extra : N -> St -> N) (post : N -> St -> St + Res) (out_of_gas bug : St -> Res),
    (forall op b, base_cost op = Some b -> 1 <= b) ->
    (forall s g, gas_of (set_gas s g) = g) ->
    (forall op s s1, pre op s = inl s1 -> ggas (gas_of s1) <= ggas (gas_of s)) ->
    (forall op s s', post op s = inl s' -> ggas (gas_of s') <= ggas (gas_of s)) ->
    forall s s', NoCrashModel.step St Res gas_of set_gas fetch fault base_cost no_charge pre extra post out_of_gas bug s = inl s' ->
      ggas (gas_of s') + 1 <= ggas (gas_of s).
Proof. exact step_progress. Qed.
Print Assumptions C29_progress.

(* Termination: such a run ends, and executes at most ($ggas at the start) + 1 instructions. *)
Theorem C29_terminates :
  forall (St Res : Type) (gas_of : St -> gstate) (set_gas : St -> gstate -> St) (fetch : St -> option N)
         (fault : St -> Res) (base_cost : N -> option N) (no_charge : N -> St -> Res) (pre : N -> St -> St + Res)
         (extra : N -> St -> N) (post : N -> St -> St + Res) (out_of_gas bug : St -> Res),
    (forall op b, base_cost op = Some b -> 1 <= b) ->
    (forall s g, gas_of (set_gas s g) = g) ->
    (forall op s s1, pre op s = inl s1 -> ggas (gas_of s1) <= ggas (gas_of s)) ->
    (forall op s s', post op s = inl s' -> ggas (gas_of s') <= ggas (gas_of s)) ->
    forall s, exists m,
      NoCrashModel.steps St Res gas_of set_gas fetch fault base_cost no_charge pre extra post out_of_gas bug
                         (S (N.to_nat (ggas (gas_of s)))) s = Some m /\
      (m <= N.to_nat (ggas (gas_of s)) + 1)%nat.
Proof. exact steps_bound. Qed.
Print Assumptions C29_terminates.

Theorem C29_terminates_result :
  forall (St Res : Type) (gas_of : St -> gstate) (set_gas : St -> gstate -> St) (fetch : St -> option N)
         (fault : St -> Res) (base_cost : N -> option N) (no_charge : N -> St -> Res) (pre : N -> St -> St + Res)
         (extra : N -> St -> N) (post : N -> St -> St + Res) (out_of_gas bug : St -> Res),
    (forall op b, base_cost op = Some b -> 1 <= b) ->
    (forall s g, gas_of (set_gas s g) = g) ->
    (forall op s s1, pre op s = inl s1 -> ggas (gas_of s1) <= ggas (gas_of s)) ->
    (forall op s s', post op s = inl s' -> ggas (gas_of s') <= ggas (gas_of s)) ->
    forall s, exists r,
      NoCrashModel.run St Res gas_of set_gas fetch fault base_cost no_charge pre extra post out_of_gas bug
                       (S (N.to_nat (ggas (gas_of s)))) s = Some r.
Proof. exact run_terminates. Qed.
Print Assumptions C29_terminates_result.

(* No internal bug from the gas counters (BugVariant::ContextGasOverflow, ContextGasUnderflow,
   GlobalGasUnderflow, and the unchecked `ggas - gas` of gas_charge): along every history of
   charges, call forwardings and returns from a transaction's initial gas, none is reached, and the
   final `gas_limit.checked_sub(remaining_gas)` succeeds. *)
Theorem C29_no_gas_bug :
  forall (limit : N) (es : list gevent),
    limit < U64 ->
    match GasModel.run (init_state limit) es with
    | GOk s | GOutOfGas s => gas_used limit s = Some (limit - ggas s) /\ ggas s <= limit /\ cgas s <= ggas s
    | GBug => False
    end.
Proof. exact gas_used_formula. Qed.
Print Assumptions C29_no_gas_bug.

(* No BugVariant::ReceiptsCtxFull and no failing `expect("Appending a panic receipt cannot fail")`:
   for every instruction list, run_program's receipt pushes (body receipts, optional panic receipt,
   script result) never hit the full context. *)
Theorem C29_no_receipts_bug :
  forall (gas : N) (prog : list instr),
    OutcomeModel.run gas initial prog <> HostPanic /\ OutcomeModel.run gas initial prog <> Aborted.
Proof. exact run_never_aborts. Qed.
Print Assumptions C29_no_receipts_bug.
