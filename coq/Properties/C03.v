(* Properties/C03.v — Transaction id commits to exactly the non-malleable content.
   Only statements, each closed by `exact` of a lemma proved in TxId/IdProofs.v, and its assumptions. *)
From FV Require Import Base.Bytes Base.U64 Codec.CodecModel Codec.CodecInstances Gen.Schemas Gen.PrepareSign
     TxId.IdSyntax TxId.IdSpec TxId.IdModel TxId.IdProofs TxId.IdPreserve.
Open Scope N_scope.

(* obligations on the translator output (Gen/PrepareSign.v): every callee resolves, the variant
   order of `enum Input` is the one the specification uses, compute_transaction_id hashes the
   chain id then the transaction bytes, all six kinds precompute by storing `tx.id(chain_id)` *)
Theorem C03_table_closed : table_closed_b = true.
Proof. exact table_closed. Qed.
Print Assumptions C03_table_closed.

(* per kind: the field paths the generated prepare_sign/id code zeroes (clears) are exactly the
   malleable (removed) paths of the specification; a failure prints the offending path *)
Theorem C03_zeroed_is_malleable :
  map (fun k => (kind_name k, pdiff (zeroed k) (malleable k), pdiff (malleable k) (zeroed k),
                 pdiff (cleared k) (removed k), pdiff (removed k) (cleared k))) all_kinds =
  map (fun k => (kind_name k, @nil path, @nil path, @nil path, @nil path)) all_kinds.
Proof. exact zeroed_is_malleable. Qed.
Print Assumptions C03_zeroed_is_malleable.

(* the code's preparation of the clone = the specification's strip, on every typed transaction *)
Theorem C03_strip_model :
  forall (k : kind) (v : val), typed (kind_ty k) v = true -> strip_model k v = strip k v.
Proof. exact strip_model_spec. Qed.
Print Assumptions C03_strip_model.

(* id = H(be8 chain ++ enc (strip tx)), for any hash function *)
Theorem C03_formula :
  forall (D : Type) (h : bytes -> D) (c : N) (k : kind) (v : val), typed (kind_ty k) v = true ->
    id_model h c {| m_kind := k; m_val := v; m_cache := None |} = h (be8 c ++ enc (kind_ty k) (strip k v)).
Proof. exact @id_model_formula. Qed.
Print Assumptions C03_formula.

(* equal non-malleable content => equal id (no assumption on the hash) *)
Theorem C03_malleable :
  forall (D : Type) (h : bytes -> D) (c : N) (k : kind) (v v' : val),
    strip k v = strip k v' -> id_spec h c k v = id_spec h c k v'.
Proof. exact @id_spec_malleable. Qed.
Print Assumptions C03_malleable.

(* changing the witnesses or any malleable field, in any input / output (element selection
   [sel]), to any value [x] whatsoever leaves the id unchanged *)
Theorem C03_malleable_field :
  forall (D : Type) (h : bytes -> D) (c : N) (k : kind) (p : path) (sel : list nat) (x v : val),
    In p (malleable k ++ removed k) ->
    id_spec h c k (poke (kind_ty k) p sel x v) = id_spec h c k v.
Proof. intros D h c k p sel x v H. apply id_spec_malleable, strip_poke, H. Qed.
Print Assumptions C03_malleable_field.

Theorem C03_malleable_field_model :
  forall (D : Type) (h : bytes -> D) (c : N) (k : kind) (p : path) (sel : list nat) (x v : val),
    In p (malleable k ++ removed k) ->
    typed (kind_ty k) v = true -> typed (kind_ty k) (poke (kind_ty k) p sel x v) = true ->
    id_model h c {| m_kind := k; m_val := poke (kind_ty k) p sel x v; m_cache := None |} =
    id_model h c {| m_kind := k; m_val := v; m_cache := None |}.
Proof. exact @id_model_malleable_field. Qed.
Print Assumptions C03_malleable_field_model.

(* binding: different chain id or different non-malleable content => different hash preimages
   (encoder injectivity on well-formed values, from the codec family's round-trip theorem) *)
Theorem C03_binding_preimage :
  forall (c c' : N) (k : kind) (v v' : val),
    c < U64 -> c' < U64 -> wfv k (strip k v) = true -> wfv k (strip k v') = true ->
    c <> c' \/ content k v <> content k v' ->
    be8 c ++ enc (kind_ty k) (strip k v) <> be8 c' ++ enc (kind_ty k) (strip k v').
Proof. exact preimage_binding. Qed.
Print Assumptions C03_binding_preimage.

(* ... hence different ids, under collision-freeness of the hash on these two preimages *)
Theorem C03_binding :
  forall (D : Type) (h : bytes -> D) (c c' : N) (k : kind) (v v' : val),
    c < U64 -> c' < U64 -> wfv k (strip k v) = true -> wfv k (strip k v') = true ->
    c <> c' \/ content k v <> content k v' ->
    (h (id_preimage c k v) = h (id_preimage c' k v') -> id_preimage c k v = id_preimage c' k v') ->
    id_spec h c k v <> id_spec h c' k v'.
Proof. exact @id_binding. Qed.
Print Assumptions C03_binding.

(* the id cached by precomputation is the freshly computed one; a failed precompute caches nothing *)
Theorem C03_cache :
  forall (D : Type) (h : bytes -> D) (c : N) (m : @mtx D),
    cached_id (precompute h c true m) = Some (fresh_id h c (m_kind m) (m_val m)) /\
    id_model h c (precompute h c true m) = fresh_id h c (m_kind m) (m_val m) /\
    cached_id (precompute h c false m) = None /\
    id_model h c (precompute h c false m) = fresh_id h c (m_kind m) (m_val m) /\
    precompute h c true (precompute h c true m) = precompute h c true m.
Proof. exact @cache_correct. Qed.
Print Assumptions C03_cache.

(* the hypotheses are satisfiable by a non-trivial transaction (script with a predicate coin, a
   data message and a contract input); a malleable change really changes the transaction; the
   collision-freeness premise holds for an injective hash *)
Theorem C03_nonvacuous :
  (wfv KScript ex_tx1 = true /\ wfv KScript (strip KScript ex_tx1) = true /\
   wfv KScript (strip KScript ex_tx2) = true /\ strip KScript ex_tx1 <> ex_tx1) /\
  content KScript ex_tx1 <> content KScript ex_tx2 /\
  (let v' := poke S_Script ["inputs"; "Contract"; "balance_root"]%string [2%nat] (VB (map (fun _ => 99) (zeros 32))) ex_tx1 in
   v' <> ex_tx1 /\ strip KScript v' = strip KScript ex_tx1) /\
  id_spec (fun b : bytes => b) 0 KScript ex_tx1 <> id_spec (fun b : bytes => b) 0 KScript ex_tx2.
Proof. exact (conj ex_wf (conj ex_content_differs (conj ex_malleable_change ex_collision_free))). Qed.
Print Assumptions C03_nonvacuous.

(* strip keeps a transaction typed and well-formed (generic over the schema universe: the
   malleable paths only hit flat fields, the removed ones vectors, none reaches the predicate /
   data fields the Input well-formedness condition inspects) *)
Theorem C03_strip_preserves_wf :
  forall (k : kind) (v : val), wfv k v = true -> wfv k (strip k v) = true.
Proof. exact strip_preserves_wfv. Qed.
Print Assumptions C03_strip_preserves_wf.

(* ... so the binding theorem holds with the well-formedness premise on the transactions themselves *)
Theorem C03_binding_full :
  forall (D : Type) (h : bytes -> D) (c c' : N) (k : kind) (v v' : val),
    c < U64 -> c' < U64 -> wfv k v = true -> wfv k v' = true ->
    c <> c' \/ content k v <> content k v' ->
    (h (id_preimage c k v) = h (id_preimage c' k v') -> id_preimage c k v = id_preimage c' k v') ->
    id_spec h c k v <> id_spec h c' k v'.
Proof. exact @id_binding_full. Qed.
Print Assumptions C03_binding_full.
