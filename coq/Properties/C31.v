(* Properties/C31.v — Execution is deterministic and independent of VM instance reuse.
   Only statements, each closed by `exact` of a lemma proved in Vm/ReuseProofs.v.

   Vocabulary (Vm/ReuseModel.v; definitions, not hypotheses):
     vm                 the Interpreter struct, field by field (registers, mem = {m_stack; m_heap; m_hp}, frames,
                        receipts, tx, initial_balances, input_contracts, input_contracts_index_to_output_index,
                        storage, debugger, ctx, balances, interpreter_params, pctx, ecal_state, verifier,
                        owner_ptr, storage_slot_cache); the heap BUFFER m_heap has an arbitrary type H (whatever
                        a previous use left in it) and is read through heap_read
     env                everything computed from (transaction, consensus parameters, storage): arbitrary functions
     init_script E v t ib / init_predicate E v c t g   initialization.rs on the instance v (any contents)
     vm_fresh / predicate_vm                           Interpreter::with_storage_and_ecal around a given memory
     same_config E a b  agreement on what initialisation does not reset: storage, interpreter_params, pctx (panic
                        context), ecal_state, verifier equal, and the debuggers equal UP TO their last state
                        (clear_last_state E (debugger a) = clear_last_state E (debugger b)): init_inner calls
                        Debugger::clear_last_state (repair 22c6df9 of finding F9)
     untouched E v v'   v' has v's storage, parameters, panic context, ecal state, verifier, and v's debugger with its
                        last state forgotten
     obs_eq a b         every field equal, except that of the memory only the accessible part is compared: the stack
                        buffer, hp, and the heap bytes at addresses >= hp
     res_obs_eq         both Ok with obs_eq states, or both the same error, or both a failed `expect`
     transact E step n v t ib   init_script followed by at most n iterations of an ARBITRARY step function *)
From Coq Require Import List NArith Bool.
From FV Require Import Base.Bytes Vm.ReuseModel Vm.ReuseProofs.
Import ListNotations.
Open Scope N_scope.

(* Initialisation forgets the past: from ANY two instances — arbitrary registers, memory buffers of
   any size and content, frames, receipts, old transaction, balances, context, owner pointer, slot
   cache — that agree on the fields initialisation does not touch, a transaction initialises to
   indistinguishable states, field by field (or fails with the same error). *)
Theorem C31_init :
  forall (H Tx Params Storage Debugger Frame Receipt IB RB C Ecal Verifier Slot : Type)
         (E : env Tx Params Storage Debugger IB RB C Verifier) (heap_read : H -> N -> N)
         (v1 v2 : vm H Tx Params Storage Debugger Frame Receipt IB RB C Ecal Verifier Slot) (t : Tx) (ib : IB),
    same_config E v1 v2 -> res_obs_eq heap_read (init_script E v1 t ib) (init_script E v2 t ib).
Proof. exact init_script_reuse. Qed.
Print Assumptions C31_init.

(* ... in particular a used instance whose debugger is configured as a new one's (whatever last
   state an abandoned session left in it), whose panic context has been consumed and whose verifier
   is stateless initialises like a brand-new instance over the same storage, whatever memory m0 the
   new instance is given. *)
Theorem C31_init_vs_fresh :
  forall (H Tx Params Storage Debugger Frame Receipt IB RB C Ecal Verifier Slot : Type)
         (E : env Tx Params Storage Debugger IB RB C Verifier) (heap_read : H -> N -> N)
         (v : vm H Tx Params Storage Debugger Frame Receipt IB RB C Ecal Verifier Slot) (m0 : memory H) (t : Tx) (ib : IB),
    clear_last_state E (debugger v) = clear_last_state E (debugger_default E) -> pctx v = PCNone -> verifier v = verifier_default E ->
    res_obs_eq heap_read (init_script E v t ib)
      (init_script E (vm_fresh Frame Receipt Slot E m0 (storage v) (interpreter_params v) (ecal_state v)) t ib).
Proof. exact init_script_vs_fresh. Qed.
Print Assumptions C31_init_vs_fresh.

(* What initialisation does NOT reset (so `same_config` is a real side condition): storage,
   parameters, panic context, ecal state, verifier, and the debugger's configuration — but its last
   state IS forgotten (debugger v' = clear_last_state (debugger v)). *)
Theorem C31_untouched :
  forall (H Tx Params Storage Debugger Frame Receipt IB RB C Ecal Verifier Slot : Type)
         (E : env Tx Params Storage Debugger IB RB C Verifier)
         (v v' : vm H Tx Params Storage Debugger Frame Receipt IB RB C Ecal Verifier Slot) (t : Tx) (ib : IB),
    init_script E v t ib = IOk v' -> untouched E v v'.
Proof. exact init_script_untouched. Qed.
Print Assumptions C31_untouched.

(* Predicates: check_predicate builds a new interpreter around the caller's memory; fresh memory,
   reused memory or memory from a pool (m1, m2 arbitrary) initialise indistinguishably. *)
Theorem C31_predicate_memory :
  forall (H Tx Params Storage Debugger Frame Receipt IB RB C Ecal Verifier Slot : Type)
         (E : env Tx Params Storage Debugger IB RB C Verifier) (heap_read : H -> N -> N)
         (m1 m2 : memory H) (s : Storage) (p : Params) (e : Ecal) (c : context) (t : Tx) (g : N),
    res_obs_eq heap_read
      (init_predicate E (predicate_vm Frame Receipt Slot E m1 s p e) c t g)
      (init_predicate E (predicate_vm Frame Receipt Slot E m2 s p e) c t g).
Proof. exact predicate_memory_irrelevant. Qed.
Print Assumptions C31_predicate_memory.

(* Hence equal results for all programs: for ANY step function that respects observations (gives
   indistinguishable successors / equal final results on indistinguishable states), a transaction
   yields the same result on any two instances that agree on the untouched fields. *)
Theorem C31_transact :
  forall (H Tx Params Storage Debugger Frame Receipt IB RB C Ecal Verifier Slot : Type)
         (E : env Tx Params Storage Debugger IB RB C Verifier) (heap_read : H -> N -> N) (Res : Type)
         (step : vm H Tx Params Storage Debugger Frame Receipt IB RB C Ecal Verifier Slot ->
                 vm H Tx Params Storage Debugger Frame Receipt IB RB C Ecal Verifier Slot + Res),
    step_respects_obs heap_read step ->
    forall (n : nat) (v1 v2 : vm H Tx Params Storage Debugger Frame Receipt IB RB C Ecal Verifier Slot) (t : Tx) (ib : IB),
      same_config E v1 v2 -> transact E step n v1 t ib = transact E step n v2 t ib.
Proof. exact transact_reuse. Qed.
Print Assumptions C31_transact.

(* The panic context is consumed: if instructions set it only together with a recoverable panic
   (Verifier::check_contract_in_inputs), every finished run leaves it None, so it satisfies the
   side condition of C31_init_vs_fresh for the next transaction. *)
Theorem C31_panic_context_consumed :
  forall (H Tx Params Storage Debugger Frame Receipt IB RB C Ecal Verifier Slot : Type)
         (panic_receipt : vm H Tx Params Storage Debugger Frame Receipt IB RB C Ecal Verifier Slot -> N -> panic_context C -> Receipt)
         (exec : vm H Tx Params Storage Debugger Frame Receipt IB RB C Ecal Verifier Slot ->
                 vm H Tx Params Storage Debugger Frame Receipt IB RB C Ecal Verifier Slot * instr_outcome),
    sets_pctx_only_with_panic exec ->
    forall (n : nat) (v v' : vm H Tx Params Storage Debugger Frame Receipt IB RB C Ecal Verifier Slot),
      pctx v = PCNone -> run_program_pc panic_receipt exec n v = Some v' -> pctx v' = PCNone.
Proof. exact pctx_consumed. Qed.
Print Assumptions C31_panic_context_consumed.
