(* Properties/C08.v — Instruction encoding is a bijection on valid 32-bit words.
   Only statements, each closed by `exact` of a lemma proved in Asm/EncodeProofs.v, and its
   assumptions.  Vocabulary:
     optable            rows (byte, NAME, ctor, argument kinds) GENERATED from impl_instructions!
     decode / encode    L1 model of Instruction::try_from(u32) (+ unpack) / op::X::new(..) -> u32
     interp_decode      L1 model of the interpreter's path: Opcode::try_from(raw[0]), the
                        `match opcode` dispatch, op::X::from_raw_args, unpack
     width, total_width, spec_layout, spec_args, spec_payload, spec_word, args_in_range
                        L3 specification (Asm/EncodeSpec.v): arguments MSB first, 6/6/12/18/24
                        bits wide, unused low bits zero *)
From FV Require Import Base.Bytes Gen.OpTable Gen.PackTable Asm.EncodeSpec Asm.EncodeModel Asm.EncodeProofs.
Open Scope N_scope.

(* decoding succeeds exactly when the top byte is the byte of a defined opcode and every
   payload bit below that opcode's arguments is zero *)
Theorem C08_decode_iff :
  forall w : N, w < 2 ^ 32 ->
    (decode w <> None <->
     exists e : opentry, In e optable /\ op_byte e = w / 2 ^ 24 /\
                         (w mod 2 ^ 24) mod 2 ^ (24 - total_width (op_shape e)) = 0).
Proof. exact decode_iff. Qed.
Print Assumptions C08_decode_iff.

(* what a successful decode returns: the row of the top byte and, for every argument, the bits
   at its specified position; they are in range *)
Theorem C08_decode_args :
  forall (w : N) (i : instr), w < 2 ^ 32 -> decode w = Some i ->
    In (i_op i) optable /\ op_byte (i_op i) = w / 2 ^ 24 /\
    (w mod 2 ^ 24) mod 2 ^ (24 - total_width (op_shape (i_op i))) = 0 /\
    i_args i = map (fun ow : N * N => ((w mod 2 ^ 24) / 2 ^ fst ow) mod 2 ^ snd ow) (spec_layout (op_shape (i_op i))) /\
    args_in_range (op_shape (i_op i)) (i_args i) = true.
Proof. exact decode_sound. Qed.
Print Assumptions C08_decode_args.

(* re-encoding a decoded instruction gives back the same word *)
Theorem C08_encode_decode :
  forall (w : N) (i : instr), w < 2 ^ 32 -> decode w = Some i -> encode i = w.
Proof. exact encode_decode. Qed.
Print Assumptions C08_encode_decode.

(* the struct-level round trip (u32::from(Instruction::try_from(w)?) = w) *)
Theorem C08_to_u32_try_from :
  forall (w : N) (r : rinstr), w < 2 ^ 32 -> try_from_u32 w = Some r -> to_u32 r = w.
Proof. exact to_u32_try_from. Qed.
Print Assumptions C08_to_u32_try_from.

(* for every opcode and every in-range argument tuple the constructed instruction decodes to
   that opcode and those arguments *)
Theorem C08_decode_encode :
  forall (e : opentry) (args : list N), In e optable -> args_in_range (op_shape e) args = true ->
    decode (encode {| i_op := e; i_args := args |}) = Some {| i_op := e; i_args := args |}.
Proof. exact decode_encode. Qed.
Print Assumptions C08_decode_encode.

(* the constructed word is the specified one: byte * 2^24 + arguments at their positions *)
Theorem C08_encode_is_spec_word :
  forall (e : opentry) (args : list N), In e optable -> args_in_range (op_shape e) args = true ->
    encode {| i_op := e; i_args := args |} = op_byte e * 2 ^ 24 + put_all (spec_layout (op_shape e)) args /\
    op_byte e * 2 ^ 24 + put_all (spec_layout (op_shape e)) args < 2 ^ 32 /\
    (op_byte e * 2 ^ 24 + put_all (spec_layout (op_shape e)) args) / 2 ^ 24 = op_byte e /\
    (op_byte e * 2 ^ 24 + put_all (spec_layout (op_shape e)) args) mod 2 ^ 24 = put_all (spec_layout (op_shape e)) args /\
    put_all (spec_layout (op_shape e)) args mod 2 ^ (24 - total_width (op_shape e)) = 0.
Proof. exact encode_spec. Qed.
Print Assumptions C08_encode_is_spec_word.

(* the shorthand constructors op::x(..) panic exactly on an out-of-range argument *)
Theorem C08_shorthand_ctor :
  forall (e : opentry) (args : list N),
    op_shorthand e args = if args_in_range (op_shape e) args then Some (op_new e args) else None.
Proof. exact op_shorthand_spec. Qed.
Print Assumptions C08_shorthand_ctor.

(* the interpreter's per-opcode argument parser agrees with the general decoder, on every word *)
Theorem C08_interp_agrees :
  forall w : N, interp_decode w = decode w.
Proof. exact interp_agrees. Qed.
Print Assumptions C08_interp_agrees.

(* opcodes in the table are pairwise distinct *)
Theorem C08_opcodes_distinct : NoDup (map op_byte optable) /\ NoDup (map op_name optable).
Proof. exact (conj optable_bytes_nodup optable_names_nodup). Qed.
Print Assumptions C08_opcodes_distinct.

(* bijection: decode is injective on 32-bit words, encode is injective on in-range instructions *)
Theorem C08_decode_injective :
  forall (w1 w2 : N) (i : instr), w1 < 2 ^ 32 -> w2 < 2 ^ 32 ->
    decode w1 = Some i -> decode w2 = Some i -> w1 = w2.
Proof. exact decode_injective. Qed.
Print Assumptions C08_decode_injective.

Theorem C08_encode_injective :
  forall (e1 : opentry) (a1 : list N) (e2 : opentry) (a2 : list N),
    In e1 optable -> args_in_range (op_shape e1) a1 = true ->
    In e2 optable -> args_in_range (op_shape e2) a2 = true ->
    encode {| i_op := e1; i_args := a1 |} = encode {| i_op := e2; i_args := a2 |} -> e1 = e2 /\ a1 = a2.
Proof. exact encode_injective. Qed.
Print Assumptions C08_encode_injective.
