(* Properties/C32.v — Breakpoints and single-stepping do not change execution results.
   Only statements, each closed by `exact` of a lemma proved in Vm/DebugProofs.v.

   Vocabulary (Vm/DebugModel.v; definitions, not hypotheses):
     C, St, Res          contract ids, whole VM states, final results of run_program (arbitrary types)
     fetch/exec/fault    the interpreter: fetch succeeded? / execute one instruction (next state or final
                         result, finalisation included) / final result of a failed fetch — ARBITRARY functions
     cur_contract/pc_off what eval_debugger_state reads: frames.last().to and $pc - $is
     debugger            {is_active; single_stepping; breakpoints; last_state} with eval_state as in debugger.rs
     plain_run n s       run_program without a debugger, at most n loop iterations (None = fuel exhausted)
     arrivals n s        the states in which the plain run fetches and then executes an instruction
     drive k n d s       transact (init_inner forgets the debugger's last state — Debugger::clear_last_state, repair
                         22c6df9 — then run_program with debugger d), then `resume` after every debug event, at most k
                         resumes of at most n iterations: (reported events with the suspended state, final result)
     loc s               the (contract, pc offset) pair the debugger sees in state s
     wants d s           d is active and (single-stepping or has a breakpoint at loc s)
     expected d l        the members of l that are reported by a run_program started with debugger d: those that
                         `wants`, minus a first one equal to the last_state of d (None after transact's clear_last_state)
     sublist a b         a embeds into b order-preservingly, each element of b used at most once
   The only hypothesis is reflexivity of the id comparison (ContractId: Eq). *)
From Coq Require Import List NArith Bool.
From FV Require Import Vm.DebugModel Vm.DebugProofs.
Import ListNotations.
Open Scope N_scope.

(* Same result: for every interpreter, every transaction state s, every debugger configuration d
   (any breakpoints, single-stepping or not, any left-over last state): if the plain run finishes
   with r, then running with the debugger and resuming after every event finishes with r too. *)
Theorem C32_same :
  forall (C : Type) (C_eqb : C -> C -> bool) (C_default : C) (St Res : Type)
         (fetch : St -> bool) (exec : St -> St + Res) (fault : St -> Res)
         (cur_contract : St -> option C) (pc_off : St -> N)
         (script_empty : bool) (empty_result : St -> Res),
    (forall c, C_eqb c c = true) ->
    forall (n : nat) (s : St) (r : Res) (d : debugger C Res),
      plain_run St Res fetch exec fault script_empty empty_result n s = Some r ->
      snd (drive C C_eqb C_default St Res fetch exec fault cur_contract pc_off script_empty empty_result
                 (S n) (S n) d s) = Some r.
Proof. exact drive_same_result. Qed.
Print Assumptions C32_same.

(* Before, and at most once: the suspended states handed out with the events form a sublist of the
   arrivals of the PLAIN run (so an event neither changes the state nor skips or repeats an
   instruction, and every arrival at a location yields at most one event: between two events at the
   same location the instruction there has executed); every event names the location of its
   suspended state, whose instruction has been fetched but not executed. *)
Theorem C32_before_once :
  forall (C : Type) (C_eqb : C -> C -> bool) (C_default : C) (St Res : Type)
         (fetch : St -> bool) (exec : St -> St + Res) (fault : St -> Res)
         (cur_contract : St -> option C) (pc_off : St -> N)
         (script_empty : bool) (empty_result : St -> Res),
    (forall c, C_eqb c c = true) ->
    forall (n : nat) (s : St) (r : Res) (d : debugger C Res),
      plain_run St Res fetch exec fault script_empty empty_result n s = Some r ->
      let evs := fst (drive C C_eqb C_default St Res fetch exec fault cur_contract pc_off script_empty empty_result
                            (S n) (S n) d s) in
      sublist (map snd evs) (arrivals St Res fetch exec n s) /\
      Forall (fun e : event C St => fst e = loc C C_default St cur_contract pc_off (snd e) /\ fetch (snd e) = true) evs.
Proof. exact drive_events_embed. Qed.
Print Assumptions C32_before_once.

(* The mechanism behind "at most once": the debugger as `resume` finds it after an event at s lets
   the instruction at s execute before it is consulted again. *)
Theorem C32_resume_executes_first :
  forall (C : Type) (C_eqb : C -> C -> bool) (C_default : C) (St Res : Type)
         (fetch : St -> bool) (exec : St -> St + Res) (fault : St -> Res)
         (cur_contract : St -> option C) (pc_off : St -> N),
    (forall c, C_eqb c c = true) ->
    forall (n : nat) (d : debugger C Res) (s : St),
      fetch s = true -> is_active C Res d = true ->
      run_loop C C_eqb C_default St Res fetch exec fault cur_contract pc_off (S n)
               (stopped_at C C_default St Res cur_contract pc_off d s) s =
      match exec s with
      | inl s' => run_loop C C_eqb C_default St Res fetch exec fault cur_contract pc_off n (after C Res d) s'
      | inr r => (after C Res d, OFinal r)
      end.
Proof. exact resume_executes_first. Qed.
Print Assumptions C32_resume_executes_first.

(* Exactly which events: the reported events are the `expected` arrivals, in order ... *)
Theorem C32_events_exact :
  forall (C : Type) (C_eqb : C -> C -> bool) (C_default : C) (St Res : Type)
         (fetch : St -> bool) (exec : St -> St + Res) (fault : St -> Res)
         (cur_contract : St -> option C) (pc_off : St -> N)
         (script_empty : bool) (empty_result : St -> Res),
    (forall c, C_eqb c c = true) ->
    forall (n : nat) (s : St) (r : Res) (d : debugger C Res),
      plain_run St Res fetch exec fault script_empty empty_result n s = Some r ->
      drive C C_eqb C_default St Res fetch exec fault cur_contract pc_off script_empty empty_result (S n) (S n) d s
      = (map (ev_of C C_default St cur_contract pc_off)
             (if script_empty then [] else expected C C_eqb C_default St Res cur_contract pc_off (clear_last_state C Res d)
                                                    (arrivals St Res fetch exec n s)),
         Some r).
Proof. exact drive_exact. Qed.
Print Assumptions C32_events_exact.

(* ... which — whatever an earlier, possibly abandoned, session left in the debugger — are precisely
   the arrivals at which the configuration asks for a stop (every one of them, once). *)
Theorem C32_events_fresh :
  forall (C : Type) (C_eqb : C -> C -> bool) (C_default : C) (St Res : Type)
         (fetch : St -> bool) (exec : St -> St + Res) (fault : St -> Res)
         (cur_contract : St -> option C) (pc_off : St -> N)
         (script_empty : bool) (empty_result : St -> Res),
    (forall c, C_eqb c c = true) ->
    forall (n : nat) (s : St) (r : Res) (d : debugger C Res),
      plain_run St Res fetch exec fault script_empty empty_result n s = Some r ->
      script_empty = false ->
      fst (drive C C_eqb C_default St Res fetch exec fault cur_contract pc_off script_empty empty_result (S n) (S n) d s)
      = map (ev_of C C_default St cur_contract pc_off)
            (filter (wants C C_eqb C_default St Res cur_contract pc_off d) (arrivals St Res fetch exec n s)).
Proof. exact drive_events_fresh. Qed.
Print Assumptions C32_events_fresh.

(* HISTORICAL — about the code BEFORE repair 22c6df9 (finding F9), kept as the regression witness:
   when a new transaction inherited the debugger's last state (drive_before_22c6df9 = the same client
   without clear_last_state), a last_state left by an abandoned session swallowed the first event of
   a run starting at the same location; with the repaired transact (go) it makes no difference. *)
Theorem C32_historical_stale_last_state_witness_before_22c6df9 :
  exists (d : debugger N N),
    last_state N N d <> None /\
    fst (SelfLoop.go_before_22c6df9 d) <> fst (SelfLoop.go_before_22c6df9 (take_last_state N N d)) /\
    snd (SelfLoop.go_before_22c6df9 d) = snd (SelfLoop.go_before_22c6df9 (take_last_state N N d)) /\
    SelfLoop.go d = SelfLoop.go (take_last_state N N d).
Proof. exact SelfLoop.historical_stale_last_state_witness_before_22c6df9. Qed.
Print Assumptions C32_historical_stale_last_state_witness_before_22c6df9.
