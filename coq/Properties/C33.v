(* Properties/C33.v — Contract storage instructions behave like a key-value map.
   Only statements, each closed by `exact` of a lemma proved elsewhere, and its assumptions.
   L3 = Vm/KvSpec.v (plain map, instruction specifications), L1 = Vm/KvModel.v (store + slot
   cache + the handlers), proofs in Vm/KvProofs.v and Vm/KvInstr.v; Vm.KvTie pins the order of
   checks of the Rust handlers the model was written against. *)
From FV Require Import Base.Bytes Vm.KvSpec Vm.KvModel Vm.KvProofs Vm.KvInstr Vm.KvQuads Vm.KvTie.
Open Scope N_scope.

(* cache !! k = Some v -> store !! k = v is preserved by every program built from the slot
   operations (hence by every instruction, every instruction sequence, every call nesting), also
   when it panics half way; a transaction starts with an empty cache *)
Theorem C33_coherent :
  forall (A : Type) (max_len : N) (p : kprog A) (st : kst),
    (forall k v, pget (st_cache st) k = Some v -> pget (st_store st) k = v) ->
    let st' := snd (fst (fst (run_l1 max_len p st))) in
    forall k v, pget (st_cache st') k = Some v -> pget (st_store st') k = v.
Proof. exact @run_l1_coherent. Qed.
Print Assumptions C33_coherent.

Theorem C33_coherent_at_transaction_start :
  forall st k v, pget (st_cache (st_begin_tx st)) k = Some v -> pget (st_store (st_begin_tx st)) k = v.
Proof. exact coherent_begin_tx. Qed.
Print Assumptions C33_coherent_at_transaction_start.

(* refinement: on a coherent state every program returns what it returns on the plain map,
   leaves the backing store equal to the plain map, and performs exactly the plain map's
   persistent writes (in order) on the backing store *)
Theorem C33_refine :
  forall (A : Type) (max_len : N) (p : kprog A) (st : kst) (m : kvmap),
    (forall k v, pget (st_cache st) k = Some v -> pget (st_store st) k = v) ->
    (forall c k, m c k = pget (st_store st) (c, k)) ->
    let '(r, st', ev, g) := run_l1 max_len p st in
    let '(r2, m', w) := run_plain max_len p m in
    r = r2 /\
    (forall k v, pget (st_cache st') k = Some v -> pget (st_store st') k = v) /\
    (forall c k, m' c k = pget (st_store st') (c, k)) /\
    writes_of ev = w.
Proof. exact @run_l1_refines. Qed.
Print Assumptions C33_refine.

(* every history of transactions of storage instructions (any environments: contracts, keys,
   memory contents, limits): the results of all instructions and the final storage equal those of
   the plain map; failed transactions are discarded, the cache is cleared per transaction *)
Theorem C33_refine_history :
  forall (txs : list (list (henv * kinstr))) (st : kst) (m : kvmap),
    (forall c k, m c k = pget (st_store st) (c, k)) ->
    let '(outs, st') := run_history_l1 txs st in
    let '(outs2, m') := run_history_plain txs m in
    outs = outs2 /\ (forall c k, m' c k = pget (st_store st') (c, k)).
Proof. exact run_history_refines. Qed.
Print Assumptions C33_refine_history.

(* the cache never changes a result: with the cache switched off (every read goes to the backing
   store) every program returns the same result, leaves the same store, makes the same persistent
   writes and the same gas charges except that reads are charged cold instead of hot *)
Theorem C33_cache_only_gas :
  forall (A : Type) (max_len : N) (p : kprog A) (st1 st2 : kst),
    (forall k v, pget (st_cache st1) k = Some v -> pget (st_store st1) k = v) ->
    (forall k, pget (st_store st1) k = pget (st_store st2) k) ->
    let '(r1, s1, ev1, g1) := run_l1 max_len p st1 in
    let '(r2, s2, ev2, g2) := run_nocache max_len p st2 in
    r1 = r2 /\ (forall k, pget (st_store s1) k = pget (st_store s2) k) /\
    writes_of ev1 = writes_of ev2 /\ map erase_hot g1 = map erase_hot g2.
Proof. exact @l1_vs_nocache. Qed.
Print Assumptions C33_cache_only_gas.

(* ---- what the instructions compute on the plain map (bounds, zero fill, flags) ---- *)
(* SRW: word `d` of the slot, flag 1; absent: 0 and flag 0; slot shorter than 8d+8: StorageOutOfBounds *)
Theorem C33_word_read :
  forall (e : henv) (m : kvmap) (c : N), h_ctx e = Some c ->
  forall (a b vc d : N) (kb : bytes),
    h_rd e vc 32 = MOk kb -> a <> b -> REG_WRITABLE <= a -> REG_WRITABLE <= b ->
    run_plain (h_max_len e) (h_srw e a b vc d) m =
      match spec_read_word m c (be_decode kb) d with
      | SOk (w, f) => (SOk (out_regs [(a, w); (b, f)]), m, [])
      | SPanic r => (SPanic r, m, [])
      end.
Proof. exact srw_plain. Qed.
Print Assumptions C33_word_read.

(* SWW *)
Theorem C33_word_write :
  forall (e : henv) (m : kvmap) (c : N), h_ctx e = Some c ->
  forall (b va vc : N) (kb : bytes),
    h_rd e va 32 = MOk kb -> REG_WRITABLE <= b ->
    run_plain (h_max_len e) (h_sww e b va vc) m =
      match spec_write_word m c (be_decode kb) vc (h_max_len e) with
      | SOk (m', f) => (SOk (out_regs [(b, f)]), m', [WWrite c (be_decode kb) (word_value vc)])
      | SPanic r => (SPanic r, m, [])
      end.
Proof. exact sww_plain. Qed.
Print Assumptions C33_word_write.

(* SCWQ: clears exactly the interval [key, key+n), flag = all were present; a range leaving the
   key space (key + n - 1 >= 2^256) or of more than 2^32-1 slots: TooManySlots, nothing changed *)
Theorem C33_clear_quads :
  forall (e : henv) (m : kvmap) (c : N), h_ctx e = Some c ->
  forall (b va vc : N) (kb : bytes),
    h_rd e va 32 = MOk kb -> REG_WRITABLE <= b ->
    run_plain (h_max_len e) (h_scwq e b va vc) m =
      match spec_clear_quads m c (be_decode kb) vc with
      | SOk (m', f) => (SOk (out_regs [(b, f)]), m', [WRemoveRange c (be_decode kb) vc])
      | SPanic r => (SPanic r, m, [])
      end.
Proof. exact scwq_plain. Qed.
Print Assumptions C33_clear_quads.

(* SRWQ: the values of the slots key, key+1, ..., key+n-1 (zeros for absent ones) are written to
   consecutive 32-byte chunks at $rA, flag = all present; a present slot that is not 32 bytes long:
   StorageOutOfBounds; a range leaving the key space: TooManySlots *)
Theorem C33_read_quads :
  forall (e : henv) (m : kvmap) (c b va vc vd : N) (kb : bytes),
    h_ctx e = Some c -> h_rd e vc 32 = MOk kb -> REG_WRITABLE <= b ->
    (forall a, In a (srwq_addrs va (N.to_nat vd)) -> h_wr e a 32 = None) ->
    match spec_read_quads m c (be_decode kb) vd with
    | SPanic r => run_plain (h_max_len e) (h_srwq e b va vc vd) m = (SPanic r, m, [])
    | SOk (data, f) =>
        exists mem, run_plain (h_max_len e) (h_srwq e b va vc vd) m =
                      (SOk {| o_regs := [(b, f)]; o_err := None; o_mem := mem |}, m, [])
                    /\ concat (map snd mem) = data /\ map fst mem = srwq_addrs va (N.to_nat vd)
    end.
Proof. exact srwq_statement_holds. Qed.
Print Assumptions C33_read_quads.

(* SWWQ: slot key+i := i-th 32-byte chunk read at $rC; result = number of slots that were absent *)
Theorem C33_write_quads :
  forall (e : henv) (m : kvmap) (c b va vc vd : N) (kb : bytes) (chunks : list bytes),
    h_ctx e = Some c -> h_rd e va 32 = MOk kb -> be_decode kb < KEY_LIMIT -> REG_WRITABLE <= b -> lenN chunks = vd ->
    (forall j, (j < length chunks)%nat -> h_rd e (sat64 (vc + 32 * N.of_nat j)) 32 = MOk (nth j chunks [])) ->
    (forall ch, In ch chunks -> lenN ch = 32) ->
    match spec_write_quads m c (be_decode kb) chunks (h_max_len e) with
    | SPanic r => fst (fst (run_plain (h_max_len e) (h_swwq e b va vc vd) m)) = SPanic r
    | SOk (m', f) =>
        exists m2, run_plain (h_max_len e) (h_swwq e b va vc vd) m =
                     (SOk (out_regs [(b, f)]), m2, chunk_writes c (be_decode kb) chunks) /\ kv_eq m2 m'
    end.
Proof. exact swwq_statement_holds. Qed.
Print Assumptions C33_write_quads.

(* SCLR *)
Theorem C33_clear :
  forall (e : henv) (m : kvmap) (c : N), h_ctx e = Some c ->
  forall (va vb : N) (kb : bytes),
    h_rd e va 32 = MOk kb ->
    run_plain (h_max_len e) (h_sclr e va vb) m =
      match spec_clear m c (be_decode kb) vb with
      | SOk m' => (SOk out0, m', [WRemoveRange c (be_decode kb) vb])
      | SPanic r => (SPanic r, m, [])
      end.
Proof. exact sclr_plain. Qed.
Print Assumptions C33_clear.

(* SRDD / SRDI: present: the slice [off, off+len) is written to the buffer, $err = 0; a slice
   not inside the value: StorageOutOfBounds; absent: $err = 1 and nothing is written *)
Theorem C33_dyn_read :
  forall (e : henv) (m : kvmap) (c : N), h_ctx e = Some c ->
  forall (buf kp off len : N) (kb : bytes),
    h_rd e kp 32 = MOk kb -> h_wr e buf len = None ->
    run_plain (h_max_len e) (h_srdd e buf kp off len) m =
      match spec_read_dyn m c (be_decode kb) off len with
      | SOk (Some data) => (SOk {| o_regs := []; o_err := Some 0; o_mem := [(buf, data)] |}, m, [])
      | SOk None => (SOk {| o_regs := []; o_err := Some 1; o_mem := [] |}, m, [])
      | SPanic r => (SPanic r, m, [])
      end.
Proof. exact srd_plain. Qed.
Print Assumptions C33_dyn_read.

(* SWRD / SWRI: the slot becomes exactly the bytes read; longer than the limit: StorageOutOfBounds *)
Theorem C33_dyn_write :
  forall (e : henv) (m : kvmap) (c : N), h_ctx e = Some c ->
  forall (kp vp len : N) (kb data : bytes),
    h_rd e kp 32 = MOk kb -> h_rd e vp len = MOk data -> len <= U32_MAX ->
    run_plain (h_max_len e) (h_swrd e kp vp len) m =
      match spec_write_dyn m c (be_decode kb) data (h_max_len e) with
      | SOk m' => (SOk out0, m', [WWrite c (be_decode kb) data])
      | SPanic r => (SPanic r, m, [])
      end.
Proof. exact swr_plain. Qed.
Print Assumptions C33_dyn_write.

(* SUPD / SUPI: splice at offset (u64::MAX = append); a gap (offset > length) or a result longer
   than the limit: StorageOutOfBounds *)
Theorem C33_dyn_update :
  forall (e : henv) (m : kvmap) (c : N), h_ctx e = Some c ->
  forall (kp vp off len : N) (kb data : bytes),
    h_rd e kp 32 = MOk kb -> h_rd e vp len = MOk data -> lenN data = len -> len <= U32_MAX ->
    h_max_len e < U64_MAX ->
    run_plain (h_max_len e) (h_supd e kp vp off len) m =
      match spec_update_dyn m c (be_decode kb) off data (h_max_len e) with
      | SOk m' =>
          let v := match m c (be_decode kb) with Some v => v | None => [] end in
          (SOk out0, m', [WWrite c (be_decode kb) (splice v (if off =? U64_MAX then lenN v else off) data)])
      | SPanic r => (SPanic r, m, [])
      end.
Proof. exact sup_plain. Qed.
Print Assumptions C33_dyn_update.

(* SPLD: size query *)
Theorem C33_preload :
  forall (e : henv) (m : kvmap) (c : N), h_ctx e = Some c ->
  forall (a vb : N) (kb : bytes),
    h_rd e vb 32 = MOk kb -> a = 0 \/ REG_WRITABLE <= a ->
    run_plain (h_max_len e) (h_spld e a vb) m =
      (let '(len, err) := spec_preload m c (be_decode kb) in
       (SOk {| o_regs := if a =? 0 then [] else [(a, len)]; o_err := Some err; o_mem := [] |}, m, [])).
Proof. exact spld_plain. Qed.
Print Assumptions C33_preload.

(* outside a contract (script context) every storage instruction panics and changes nothing *)
Theorem C33_outside_contract :
  forall (e : henv) (i : kinstr) (m : kvmap),
    h_ctx e = None -> exists r, run_plain (h_max_len e) (handler e i) m = (SPanic r, m, []).
Proof. exact no_contract_no_effect. Qed.
Print Assumptions C33_outside_contract.
