(* Properties/C17.v — Signing, recovery and verification are mutually consistent.
   Only statements, each closed by a lemma proved in Crypto/EcdsaProofs.v / EcdsaWitness.v.
   The group is abstract (secp256k1 and secp256r1 are both instances of the premises):
   [group_laws] (Crypto/EcdsaSpec.v) is an explicit premise.  The nonce k is explicit: the
   libraries derive it by RFC 6979, which is not modelled; [valid_nonce] says that signing with k
   succeeds (k in [1,n), r <> 0, s <> 0, x(kG) < n). *)
From Coq Require Import ZArith List Bool.
From FV Require Import Base.Bytes Crypto.EcdsaModel Crypto.EcdsaSpec Crypto.EcdsaProofs
                       Crypto.Secp256k1 Crypto.EcdsaWitness Crypto.VmCryptoModel Crypto.VmCryptoProofs.
Open Scope Z_scope.

(* sign -> recover: the produced 64 bytes recover exactly the signer's public key d.G,
   under every rule set that accepts normalised signatures (all three back-ends do) *)
Theorem C17_sign_recover :
  forall (point : Type) (pt_eqb : point -> point -> bool) (add : point -> point -> point)
         (neg : point -> point) (zero : point) (smul : Z -> point -> point) (G : point) (n : Z)
         (x_of : point -> Z) (y_odd : point -> bool) (lift_x : Z -> bool -> option point),
    group_laws point pt_eqb add neg zero smul G n x_of y_odd lift_x ->
    forall (A : rules) (d k : Z) (msg : bytes),
      n < 2 ^ 256 -> accepts_low_s n A -> in_range n d = true ->
      valid_nonce point pt_eqb zero smul G n x_of y_odd d k (msg_z n msg) = true ->
      exists sig, sign point pt_eqb zero smul G n x_of y_odd d k msg = Some sig /\
                  recover point pt_eqb add zero smul G n x_of lift_x A sig msg = Some (smul d G).
Proof.
  intros until 1. intros A d k msg H1 H2 H3 H4.
  destruct (sign_correct _ _ _ _ _ _ _ _ _ _ _ H A d k msg H1 H2 H3 H4) as (e & He & Hr & _).
  exists e. split; assumption.
Qed.
Print Assumptions C17_sign_recover.

(* sign -> verify against the signer's key *)
Theorem C17_sign_verify :
  forall (point : Type) (pt_eqb : point -> point -> bool) (add : point -> point -> point)
         (neg : point -> point) (zero : point) (smul : Z -> point -> point) (G : point) (n : Z)
         (x_of : point -> Z) (y_odd : point -> bool) (lift_x : Z -> bool -> option point),
    group_laws point pt_eqb add neg zero smul G n x_of y_odd lift_x ->
    forall (A : rules) (d k : Z) (msg : bytes),
      n < 2 ^ 256 -> accepts_low_s n A -> in_range n d = true ->
      valid_nonce point pt_eqb zero smul G n x_of y_odd d k (msg_z n msg) = true ->
      exists sig, sign point pt_eqb zero smul G n x_of y_odd d k msg = Some sig /\
                  verify point pt_eqb add zero smul G n x_of A sig (smul d G) msg = true.
Proof.
  intros until 1. intros A d k msg H1 H2 H3 H4.
  destruct (sign_correct _ _ _ _ _ _ _ _ _ _ _ H A d k msg H1 H2 H3 H4) as (e & He & _ & Hv & _).
  exists e. split; assumption.
Qed.
Print Assumptions C17_sign_verify.

(* the k256 back-end's recover (which normalises s first, fix 378a736) coincides with plain recover on
   normalised signatures, so C17_sign_recover covers it as well (sign produces s <= n/2) *)
Theorem C17_normalising_recover_same_on_low_s :
  forall (point : Type) (pt_eqb : point -> point -> bool) (add : point -> point -> point)
         (zero : point) (smul : Z -> point -> point) (G : point) (n : Z)
         (x_of : point -> Z) (lift_x : Z -> bool -> option point) (A : rules) (sig msg : bytes),
    is_high n (sig_s (fst (decode_signature sig))) = false ->
    recover_norm point pt_eqb add zero smul G n x_of lift_x A sig msg =
    recover point pt_eqb add zero smul G n x_of lift_x A sig msg.
Proof. exact recover_norm_low_s. Qed.
Print Assumptions C17_normalising_recover_same_on_low_s.

(* produced signatures are normalised: s <= n/2; since n < 2^256 the top bit of s is free, the
   encoder does not hit its "Non-normalized signature" assertion and decoding gives (r,s,parity) back *)
Theorem C17_normalised :
  forall (point : Type) (pt_eqb : point -> point -> bool) (add : point -> point -> point)
         (neg : point -> point) (zero : point) (smul : Z -> point -> point) (G : point) (n : Z)
         (x_of : point -> Z) (y_odd : point -> bool) (lift_x : Z -> bool -> option point),
    group_laws point pt_eqb add neg zero smul G n x_of y_odd lift_x ->
    forall d k z r s v,
      sign_rsv point pt_eqb zero smul G n x_of y_odd d k z = Some (r, s, v) ->
      1 <= r < n /\ 1 <= s <= n / 2 /\
      (n < 2 ^ 256 ->
       s < 2 ^ 255 /\
       exists e, encode_signature (sig_bytes r s) v = Some e /\ decode_signature e = (sig_bytes r s, v)).
Proof. exact sign_normalised. Qed.
Print Assumptions C17_normalised.

(* binding to the message: the same signature recovers the same key for two messages only if the
   messages are congruent modulo n (strongest true form of "fails for any other message") *)
Theorem C17_binding :
  forall (point : Type) (pt_eqb : point -> point -> bool) (add : point -> point -> point)
         (neg : point -> point) (zero : point) (smul : Z -> point -> point) (G : point) (n : Z)
         (x_of : point -> Z) (y_odd : point -> bool) (lift_x : Z -> bool -> option point),
    group_laws point pt_eqb add neg zero smul G n x_of y_odd lift_x ->
    forall (A : rules) (sig m m' : bytes) (Q : point),
      recover point pt_eqb add zero smul G n x_of lift_x A sig m = Some Q ->
      recover point pt_eqb add zero smul G n x_of lift_x A sig m' = Some Q ->
      bytes_z m mod n = bytes_z m' mod n.
Proof. exact recover_binding. Qed.
Print Assumptions C17_binding.

(* ... and congruent messages are indistinguishable: m' = m + n gives the same recover and verify
   results for every signature (no premise on the group at all) *)
Theorem C17_message_plus_n :
  forall (point : Type) (pt_eqb : point -> point -> bool) (add : point -> point -> point)
         (zero : point) (smul : Z -> point -> point) (G : point) (n : Z)
         (x_of : point -> Z) (lift_x : Z -> bool -> option point)
         (A : rules) (sig m m' : bytes),
    bytes_z m' = bytes_z m + n ->
    recover point pt_eqb add zero smul G n x_of lift_x A sig m' =
    recover point pt_eqb add zero smul G n x_of lift_x A sig m /\
    forall Q, verify point pt_eqb add zero smul G n x_of A sig Q m' =
              verify point pt_eqb add zero smul G n x_of A sig Q m.
Proof.
  intros. unfold recover, verify, msg_z. rewrite H.
  replace (bytes_z m + n) with (bytes_z m + 1 * n) by ring. rewrite Z_mod_plus_full.
  split; [reflexivity|intros; reflexivity].
Qed.
Print Assumptions C17_message_plus_n.

(* a recovered key satisfies the textbook ECDSA verification equation for that signature *)
Theorem C17_recover_verify :
  forall (point : Type) (pt_eqb : point -> point -> bool) (add : point -> point -> point)
         (neg : point -> point) (zero : point) (smul : Z -> point -> point) (G : point) (n : Z)
         (x_of : point -> Z) (y_odd : point -> bool) (lift_x : Z -> bool -> option point),
    group_laws point pt_eqb add neg zero smul G n x_of y_odd lift_x ->
    forall r s v z Q,
      recover_core point pt_eqb add zero smul G n lift_x r s v z = Some Q ->
      ecdsa_valid point add zero smul G n x_of Q r s z.
Proof.
  intros until 1. intros r s v z Q Hc.
  apply (verify_core_spec _ _ _ _ _ _ _ _ _ _ _ H). exact (recover_verify_core _ _ _ _ _ _ _ _ _ _ _ H _ _ _ _ _ Hc).
Qed.
Print Assumptions C17_recover_verify.

(* the full statement of the last clause ("fails to recover that key for any other message"), on the
   executable secp256k1 instance, and its refutation (F6: m' = m + n, both 32-byte values) *)
Definition C17_other_message_full_statement : Prop :=
  forall sig m m' key : bytes,
    m <> m' ->
    m_recover secp256k1_pure (rules_libsecp n_k1) sig m = Some key ->
    m_recover secp256k1_pure (rules_libsecp n_k1) sig m' <> Some key.

Theorem C17_other_message_refuted : ~ C17_other_message_full_statement.
Proof.
  intros H. destruct f6_msgs as [_ Hne]. destruct f6_same_key as (H1 & H2 & _).
  exact (H f6_sig f6_msg f6_msg' f6_key Hne H1 H2).
Qed.
Print Assumptions C17_other_message_refuted.

(* VM instructions ECK1 / ECR1 / ED19 (model of the handlers' set_err / clear_err / write, the library
   call being an oracle): the outcome reports the library result and does not depend on the previous
   value of $err *)
Theorem C17_vm_outcome_independent_of_err :
  (forall (e e' : N) (lib : option bytes), vm_recover e lib = vm_recover e' lib) /\
  (forall (e e' : N) (ok : bool), vm_ed19 e ok = vm_ed19 e' ok).
Proof. split; [exact vm_recover_independent_of_err|exact vm_ed19_independent_of_err]. Qed.
Print Assumptions C17_vm_outcome_independent_of_err.

Theorem C17_vm_reports_library :
  forall (e : N) (lib : option bytes) (ok : bool),
    ((fst (vm_recover e lib) = 0%N <-> lib <> None) /\
     (forall pk, lib = Some pk -> vm_recover e lib = (0%N, pk)) /\
     (lib = None -> vm_recover e lib = (1%N, zeros 64))) /\
    (vm_ed19 e ok = 0%N <-> ok = true).
Proof. intros. split; [apply vm_recover_reports_library|apply vm_ed19_reports_library]. Qed.
Print Assumptions C17_vm_reports_library.
