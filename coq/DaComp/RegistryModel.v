(* DaComp/RegistryModel.v — L1 model of fuel-compression/src/key.rs (RegistryKey) and of an
   allocate-or-reuse registry with key rotation on top of RegistryKey::next, as implemented by the
   correspondence harness (harness/src/bin/dacomp.rs) in the style of
   fuel-tx/src/tests/da_compression.rs.  The registry of fuel-core is NOT in this repository.
   Definitions only. *)
From FV Require Export Base.Bytes Base.U64 Base.Map.
Open Scope N_scope.

(* ---------------------------------------------------------------- RegistryKey([u8; 3]) *)
Definition KEY_SPACE : N := 16777216.                  (* 2^24 *)
Definition DEFAULT_VALUE : N := 16777215.              (* [0xff; 3] *)
Definition MAX_WRITABLE : N := 16777214.               (* [0xff, 0xff, 0xfe] *)
Definition ZERO : N := 0.
Definition WRITABLE_COUNT : N := 16777215.             (* keys 0 ..= MAX_WRITABLE *)

Definition is_key (k : N) : bool := k <? KEY_SPACE.
Definition writable (k : N) : bool := k <? DEFAULT_VALUE.

(* as_u32: big-endian value of the three bytes *)
Definition key_bytes (k : N) : bytes := be_encode 3 k.
Definition key_of_bytes (b : bytes) : option N :=           (* TryFrom<&[u8]> *)
  if Nat.eqb (length b) 3 then Some (be_decode b) else None.
Definition key_try_from_u32 (v : N) : option N :=           (* TryFrom<u32> *)
  if v <? KEY_SPACE then Some v else None.

(* RegistryKey::next: None = panic ("Max/default value has no next key") *)
Definition next (k : N) : option N :=
  if k =? DEFAULT_VALUE then None
  else
    let next_raw := k + 1 in                                (* u32 addition: k < 2^24, no overflow *)
    if next_raw =? DEFAULT_VALUE then Some ZERO
    else key_try_from_u32 next_raw.

Fixpoint iter_next (n : nat) (k : N) : option N :=
  match n with
  | O => Some k
  | S m => match next k with Some k' => iter_next m k' | None => None end
  end.

(* ---------------------------------------------------------------- one keyspace of the registry *)
(* table: key -> value (association list, newest binding first); nxt: where the next allocation
   starts looking; pinned: keys handed out since the current transaction began.  Reuse looks a
   value up among the CURRENT bindings.  An allocation never overwrites a pinned key (otherwise a
   key returned earlier in the same transaction would silently change its meaning before the
   transaction is decompressed): it walks on with RegistryKey::next until a non-pinned key. *)
Record keyspace : Type := mkKs { ks_nxt : N; ks_tbl : amap bytes; ks_pinned : list N }.

(* keys currently bound, each once *)
Fixpoint bound_keys (m : amap bytes) (seen : list N) : list N :=
  match m with
  | [] => []
  | (k, _) :: r => if existsb (N.eqb k) seen then bound_keys r seen else k :: bound_keys r (k :: seen)
  end.
Definition find_value (t : amap bytes) (v : bytes) : option N :=
  find (fun k => match aget t k with Some v' => bytes_eqb v' v | None => false end) (bound_keys t []).

Fixpoint pick_free (fuel : nat) (k : N) (pinned : list N) : option N :=
  match fuel with
  | O => None
  | S f => if existsb (N.eqb k) pinned
           then match next k with Some k' => pick_free f k' pinned | None => None end
           else Some k
  end.

(* compress a value in this keyspace: reuse the key currently holding it, else allocate.
   Returns (new state, key, allocated?).  None = no free key / next panicked. *)
Definition ks_compress (s : keyspace) (v : bytes) : option (keyspace * N * bool) :=
  match find_value (ks_tbl s) v with
  | Some k => Some (mkKs (ks_nxt s) (ks_tbl s) (k :: ks_pinned s), k, false)
  | None =>
      match pick_free (S (length (ks_pinned s))) (ks_nxt s) (ks_pinned s) with
      | Some k =>
          match next k with
          | Some n' => Some (mkKs n' (aset (ks_tbl s) k v) (k :: ks_pinned s), k, true)
          | None => None
          end
      | None => None
      end
  end.
Definition ks_lookup (s : keyspace) (k : N) : option bytes := aget (ks_tbl s) k.
Definition ks_begin_tx (s : keyspace) : keyspace := mkKs (ks_nxt s) (ks_tbl s) [].

(* ---------------------------------------------------------------- the whole registry: keyspace id -> keyspace *)
Record registry : Type := mkReg { r_start : N; r_spaces : amap keyspace }.
Definition reg_get (r : registry) (ks : N) : keyspace :=
  match aget (r_spaces r) ks with Some s => s | None => mkKs (r_start r) [] [] end.
Definition reg_compress (r : registry) (ks : N) (v : bytes) : option (registry * N * bool) :=
  match ks_compress (reg_get r ks) v with
  | Some (s', k, a) => Some (mkReg (r_start r) (aset (r_spaces r) ks s'), k, a)
  | None => None
  end.
Definition reg_lookup (r : registry) (ks : N) (k : N) : option bytes := ks_lookup (reg_get r ks) k.
Definition reg_begin_tx (r : registry) : registry :=
  mkReg (r_start r) (map (fun e => (fst e, ks_begin_tx (snd e))) (r_spaces r)).
